// C05 + C07 harness: the REAL osmium::io::Reader pipeline (read thread, parser thread, pool
// workers, both queues of futures) under real threads.  Built with -fno-access-control so that
// the addresses of Reader::m_input_queue / m_osmdata_queue / Pool::m_work_queue (for naming the
// queues in the trace) and Reader::m_fd (for the "reads nothing more" monitor) are accessible.
//
// argv[1] = scratch directory.  stdin, one op per line:
//
//   def <name> <hex>                 register a byte string
//   gen <name> <fmt> <n> <seed> <idbase> <order> [opts]
//                                    write a small file with the REAL Writer, register it as <name>,
//                                    print "gen <name> <hex>";  order = sequence of n|w|r|c (sections),
//                                    opts = extra file-format options ("pbf_dense_nodes=false", ...)
//   ref <name> <fmt>                 single-threaded decode (parser run on the calling thread, queues
//                                    pre-filled, no pool; run in a process with
//                                    OSMIUM_USE_POOL_THREADS_FOR_PBF_PARSING=off) -> "ref H <hdr>" + objects
//   run k=v ...                      one Reader scenario (see run_scenario)
//   defcat <name> <part>*<count> ... register the concatenation of earlier byte strings (files with many
//                                    thousand blocks are synthesized here instead of being sent as hex)
//
// Scale scenarios (tools/props/c05.py `scale_pass`): `run ... stack=<KiB>` runs the whole scenario — i.e. the
// thread that calls Reader::read() — on a thread with an explicit, painted stack of that size (guard page
// below it); OBS then carries stack_kb= / stack_hwm= (bytes of that stack ever touched).  The environment
// variable C05_THREAD_STACK_KB sets the DEFAULT stack size of every thread created later (read thread,
// parser thread, pool workers).  A SIGSEGV/SIGBUS is turned into `END crash signal=…` for the scenario
// that was running (alternate signal stack on the consumer thread).  `digest=1`: buffers are reported
// as `B <serial> <from> #<count>:<fnv of the dumps>` instead of the dumps.
//
// Output of `run`:
//   BEGIN <scenario>
//   E <tid> <tag> <qid> <arg> <payload>   event trace (trace=1): OSMIUM_VERIF_POINT events (qid 1 = raw
//                                         input queue, 2 = osmdata queue, 3 = pool work queue, 0 = none)
//                                         plus harness markers (API calls/returns, decompressor calls)
//   A <call> <result...>                  every API call of the consumer with its result
//   B <serial> <from> <dump>|<dump>...    every buffer delivered (from = q: popped from the queue, b: back buffer)
//   H <header dump>
//   MON <name> <ok|FAIL> <detail>         property monitors evaluated right here
//   OBS k=v ...
//   END <ok|timeout|crash>
//
// Thread ids in the trace: 0 consumer (main), 1 read thread, 2 parser thread, 200.. pool workers.
#include "common.hpp"
#include "osm_dump.hpp"

#include <cctype>
#include <osmium/builder/attr.hpp>
#include <osmium/io/compression.hpp>
#include <osmium/io/detail/input_format.hpp>
#include <osmium/io/detail/queue_util.hpp>
#include <osmium/io/o5m_input.hpp>
#include <osmium/io/opl_input.hpp>
#include <osmium/io/opl_output.hpp>
#include <osmium/io/pbf_input.hpp>
#include <osmium/io/pbf_output.hpp>
#include <osmium/io/reader.hpp>
#include <osmium/io/writer.hpp>
#include <osmium/io/xml_input.hpp>
#include <osmium/io/xml_output.hpp>
#include <osmium/osm.hpp>
#include <osmium/thread/pool.hpp>

#include <atomic>
#include <chrono>
#include <cstdlib>
#include <cstring>
#include <cxxabi.h>
#include <dirent.h>
#include <fcntl.h>
#include <fstream>
#include <iterator>
#include <map>
#include <memory>
#include <new>
#include <pthread.h>
#include <signal.h>
#include <sys/mman.h>
#include <mutex>
#include <sys/prctl.h>
#include <sys/stat.h>
#include <thread>
#include <unistd.h>

namespace oid = osmium::io::detail;

namespace {

// ------------------------------------------------------------------------------------------
// trace
// ------------------------------------------------------------------------------------------
struct Event {
    int tid;
    const char* tag;
    int qid;
    std::size_t arg;
    long long payload; // -1 = none
};

std::mutex g_trace_mutex;
std::vector<Event> g_trace;
const void* g_q_in = nullptr;
const void* g_q_out = nullptr;
const void* g_q_work = nullptr;
const void* g_cur_pool = nullptr;
std::atomic<unsigned> g_epoch{0};
std::atomic<int> g_next_worker_tid{200};
std::atomic<int> g_next_other_tid{300};
int g_perturb_level = 0;
uint64_t g_perturb_seed = 0;
std::atomic<bool> g_tracing{false};
std::atomic<bool> g_active{false};       // a scenario is running (perturbation on)
std::atomic<long long> g_deadline_ms{0};  // 0 = watchdog idle

long long now_ms() {
    return std::chrono::duration_cast<std::chrono::milliseconds>(std::chrono::steady_clock::now().time_since_epoch()).count();
}

struct ThreadCtx {
    unsigned epoch = 0;
    int tid = -1;
    bool worker = false;
    vh::SplitMix64 rng{0};
};
thread_local ThreadCtx t_ctx;

void set_tid(int tid) {
    t_ctx.epoch = g_epoch.load();
    t_ctx.tid = tid;
    t_ctx.rng = vh::SplitMix64{g_perturb_seed * 1000003ULL + static_cast<uint64_t>(tid)};
}

int my_tid() {
    if (t_ctx.worker) {
        if (t_ctx.epoch != g_epoch.load()) { // same worker thread, new scenario: keep the tid, reseed
            set_tid(t_ctx.tid);
        }
        return t_ctx.tid;
    }
    if (t_ctx.epoch != g_epoch.load() || t_ctx.tid < 0) {
        // a thread created by the library: recognise it by the name it gave itself
        char name[32] = {0};
        prctl(PR_GET_NAME, name, 0, 0, 0);
        if (!std::strcmp(name, "_osmium_read")) {
            set_tid(1);
        } else if (!std::strcmp(name, "_osmium_worker")) {
            t_ctx.worker = true;
            set_tid(g_next_worker_tid++);
        } else {
            // _osmium_xml_in, _osmium_pbf_in, _osmium_opl_in, _osmium_o5m_in, _osmium_mock_in, or
            // the parser thread before it named itself (it inherits the name of the main thread)
            set_tid(2);
        }
    }
    return t_ctx.tid;
}

void perturb() {
    if (g_perturb_level == 0 || !g_active.load()) {
        return;
    }
    const auto r = t_ctx.rng.below(100);
    if (g_perturb_level == 1) {
        if (r < 30) {
            std::this_thread::yield();
        }
        return;
    }
    if (g_perturb_level == 2) {
        if (r < 25) {
            std::this_thread::yield();
        } else if (r < 40) {
            std::this_thread::sleep_for(std::chrono::microseconds(t_ctx.rng.below(201)));
        }
        return;
    }
    // level 3: one thread class is slowed down a lot (chosen by the seed): queues run full / empty
    const int slow = static_cast<int>(g_perturb_seed % 4); // 0 consumer, 1 read, 2 parser, 3 workers
    const int me = t_ctx.tid >= 200 ? 3 : t_ctx.tid;
    if (me == slow) {
        if (r < 60) {
            std::this_thread::sleep_for(std::chrono::microseconds(50 + t_ctx.rng.below(400)));
        }
    } else if (r < 20) {
        std::this_thread::yield();
    }
}

int qid_of(const void* obj) {
    if (!obj) return 0;
    if (obj == g_q_in) return 1;
    if (obj == g_q_out) return 2;
    if (obj == g_q_work) return 3;
    return 9;
}

void log_event(const char* tag, const void* obj, std::size_t arg, long long payload) {
    const int tid = my_tid();
    if (g_tracing.load()) {
        const std::lock_guard<std::mutex> lock{g_trace_mutex};
        g_trace.push_back(Event{tid, tag, qid_of(obj), arg, payload});
    }
    perturb();
}

std::string g_out; // everything a scenario prints (flushed at END, or by the watchdog)
std::mutex g_out_mutex;

void outf(const std::string& s) {
    const std::lock_guard<std::mutex> lock{g_out_mutex};
    g_out += s;
    g_out += '\n';
}

void flush_out() {
    const std::lock_guard<std::mutex> lock{g_out_mutex};
    std::fwrite(g_out.data(), 1, g_out.size(), stdout);
    g_out.clear();
    std::fflush(stdout);
}

void print_trace() {
    std::string out;
    char buf[200];
    {
        const std::lock_guard<std::mutex> lock{g_trace_mutex};
        for (const auto& e : g_trace) {
            if (e.payload < 0) {
                std::snprintf(buf, sizeof(buf), "E %d %s %d %zu -\n", e.tid, e.tag, e.qid, e.arg);
            } else {
                std::snprintf(buf, sizeof(buf), "E %d %s %d %zu %lld\n", e.tid, e.tag, e.qid, e.arg, e.payload);
            }
            out += buf;
        }
    }
    const std::lock_guard<std::mutex> lock{g_out_mutex};
    g_out += out;
}

std::string g_last_api = "-";

void watchdog_main() {
    while (true) {
        std::this_thread::sleep_for(std::chrono::milliseconds(50));
        const long long d = g_deadline_ms.load();
        if (d != 0 && now_ms() > d) {
            print_trace();
            outf("MON watchdog FAIL scenario-did-not-finish (blocked in API call `" + g_last_api + "`: deadlock / lost wake-up / join never returns)");
            outf("END timeout");
            flush_out();
            _exit(3);
        }
    }
}

int count_dir(const char* path) {
    int n = 0;
    if (DIR* d = opendir(path)) {
        while (const dirent* e = readdir(d)) {
            if (e->d_name[0] != '.') {
                ++n;
            }
        }
        closedir(d);
    }
    return n;
}

int count_threads() { return count_dir("/proc/self/task"); }
int count_fds() { return count_dir("/proc/self/fd") - 1; } // minus the fd of the directory stream itself

std::map<std::string, std::string> parse_kv(const std::vector<std::string>& w) {
    std::map<std::string, std::string> m;
    for (std::size_t i = 1; i < w.size(); ++i) {
        const auto p = w[i].find('=');
        if (p != std::string::npos) {
            m[w[i].substr(0, p)] = w[i].substr(p + 1);
        }
    }
    return m;
}

long long geti(const std::map<std::string, std::string>& m, const char* k, long long def) {
    const auto it = m.find(k);
    return it == m.end() ? def : std::atoll(it->second.c_str());
}

std::string gets(const std::map<std::string, std::string>& m, const char* k, const char* def) {
    const auto it = m.find(k);
    return it == m.end() ? std::string{def} : it->second;
}

std::string class_of(const std::exception& e) {
    int status = 0;
    char* n = abi::__cxa_demangle(typeid(e).name(), nullptr, nullptr, &status);
    std::string s = (status == 0 && n) ? n : typeid(e).name();
    std::free(n);
    return s;
}

uint64_t fnv(const std::string& s, uint64_t h = 1469598103934665603ULL) {
    for (unsigned char c : s) {
        h ^= c;
        h *= 1099511628211ULL;
    }
    return h;
}

std::map<std::string, std::string> g_data;

std::vector<std::string> split_pieces(const std::string& data, const std::string& cuts) {
    std::vector<std::string> out;
    std::size_t last = 0;
    if (cuts != "-") {
        std::size_t p = 0;
        while (p <= cuts.size()) {
            const auto q = cuts.find(',', p);
            const std::string tok = cuts.substr(p, q == std::string::npos ? std::string::npos : q - p);
            const std::size_t c = std::stoul(tok);
            if (c > last && c < data.size()) {
                out.push_back(data.substr(last, c - last));
                last = c;
            }
            if (q == std::string::npos) break;
            p = q + 1;
        }
    }
    if (last < data.size()) {
        out.push_back(data.substr(last));
    }
    return out;
}

// ------------------------------------------------------------------------------------------
// injected faults
// ------------------------------------------------------------------------------------------
struct InjectedError : std::exception {
    int code;
    explicit InjectedError(int c) : code(c) {}
    const char* what() const noexcept override {
        switch (code) {
            case 1: return "injected: decompressor read";
            case 2: return "injected: decompressor close";
            case 3: return "injected: mock parser";
            default: return "injected";
        }
    }
};

// ---- mock decompressor (registered for file_compression::gzip; no real gzip is compiled in)
struct DecompPlan {
    std::vector<std::string> pieces;
    int fail_read = 0;      // j >= 1: the j-th read() throws
    bool fail_close = false;
    bool fail_ctor = false;
};
DecompPlan g_plan;
std::atomic<int> g_dreads{0};
std::atomic<int> g_dcloses{0};
std::atomic<int> g_ddtors{0};
std::atomic<int> g_dctors{0};

class MockDecompressor final : public osmium::io::Decompressor {
    std::size_t m_next = 0;
public:
    MockDecompressor() {
        ++g_dctors;
        if (g_plan.fail_ctor) {
            throw InjectedError{4};
        }
    }
    ~MockDecompressor() noexcept override { ++g_ddtors; }
    std::string read() override {
        const int n = ++g_dreads;
        log_event("d-read", nullptr, static_cast<std::size_t>(n), -1);
        if (n == g_plan.fail_read) {
            log_event("d-read-throw", nullptr, static_cast<std::size_t>(n), -1);
            throw InjectedError{1};
        }
        if (m_next < g_plan.pieces.size()) {
            log_event("d-read-data", nullptr, static_cast<std::size_t>(n), static_cast<long long>(m_next));
            return g_plan.pieces[m_next++];
        }
        log_event("d-read-eof", nullptr, static_cast<std::size_t>(n), -1);
        return {};
    }
    void close() override {
        ++g_dcloses;
        if (g_plan.fail_close) {
            log_event("d-close-throw", nullptr, 0, -1);
            throw InjectedError{2};
        }
        log_event("d-close", nullptr, 0, -1);
    }
};

// ---- mock parser (registered for file_format::json): a script of actions
//   i   get_input() once (stops the script's input loop at end of data)
//   e   get_input() until end of data
//   h   set_header_value
//   b<n>   send a buffer with n nodes
//   n<k>   send a buffer with k nested buffers + the top one, 1 node each (k+1 nodes)
//   z   send a valid buffer without objects (z<n>: n of them)
//   x   throw
std::string g_mock_script;
std::atomic<long long> g_mock_next_id{1};

class MockParser final : public oid::Parser {
    std::string m_script;
public:
    MockParser(oid::parser_arguments& args, std::string script) : Parser(args), m_script(std::move(script)) {}
    static void add_node(osmium::memory::Buffer& b) {
        using namespace osmium::builder::attr;
        osmium::builder::add_node(b, _id(g_mock_next_id++), _version(1), _user("m"));
    }
    void run() override {
        osmium::thread::set_thread_name("_osmium_mock_in");
        std::size_t p = 0;
        while (p < m_script.size()) {
            const char c = m_script[p++];
            std::size_t n = 0;
            while (p < m_script.size() && m_script[p] >= '0' && m_script[p] <= '9') {
                n = n * 10 + static_cast<std::size_t>(m_script[p++] - '0');
            }
            switch (c) {
                case 'i':
                    if (!input_done()) { (void)get_input(); }
                    break;
                case 'e':
                    while (!input_done()) { (void)get_input(); }
                    break;
                case 'h':
                    set_header_value(osmium::io::Header{});
                    break;
                case 'b': {
                    osmium::memory::Buffer b{1024, osmium::memory::Buffer::auto_grow::yes};
                    for (std::size_t i = 0; i < n; ++i) add_node(b);
                    send_to_output_queue(std::move(b));
                    break;
                }
                case 'n': {
                    // every node is 64 bytes long: a 64-byte buffer with internal growing nests at each further node
                    osmium::memory::Buffer b{64, osmium::memory::Buffer::auto_grow::internal};
                    for (std::size_t i = 0; i < n + 1; ++i) add_node(b);
                    send_to_output_queue(std::move(b));
                    break;
                }
                case 'z': {
                    // z = z1; z<n> = n valid buffers without objects in a row
                    for (std::size_t i = 0; i < (n ? n : 1); ++i) {
                        osmium::memory::Buffer b{64, osmium::memory::Buffer::auto_grow::yes};
                        send_to_output_queue(std::move(b));
                    }
                    break;
                }
                case 'x':
                    log_event("mock-throw", nullptr, 0, -1);
                    throw InjectedError{3};
                default:
                    break;
            }
        }
    }
};

// ------------------------------------------------------------------------------------------
// gen: small files written by the real Writer
// ------------------------------------------------------------------------------------------
std::string do_gen(const std::string& dir, const std::vector<std::string>& w) {
    using namespace osmium::builder::attr;
    const std::string name = w[1];
    const std::string fmt = w[2];
    const std::size_t n = std::stoul(w[3]);
    vh::SplitMix64 rng{std::stoull(w[4])};
    const int64_t idbase = std::stoll(w[5]);
    const std::string order = w[6];
    std::string fopts = fmt;
    for (std::size_t i = 7; i < w.size(); ++i) {
        fopts += "," + w[i];
    }
    const std::string path = dir + "/gen-" + std::to_string(getpid()) + "." + fmt;
    {
        osmium::io::File file{path, fopts};
        osmium::io::Header header;
        header.set("generator", "c05");
        osmium::io::Writer writer{file, header, osmium::io::overwrite::allow};
        osmium::memory::Buffer buffer{4096, osmium::memory::Buffer::auto_grow::yes};
        static const char* keys[] = {"highway", "name", "k=v", "a b", "x,y", "ref", "building", "yes"};
        const std::size_t sections = order.size();
        int64_t id = idbase;
        for (std::size_t s = 0; s < sections; ++s) {
            const std::size_t cnt = n / sections + (s < n % sections ? 1 : 0);
            for (std::size_t i = 0; i < cnt; ++i) {
                id += 1 + static_cast<int64_t>(rng.below(3));
                const std::string user = rng.below(4) ? "user" + std::to_string(rng.below(4)) : "";
                const auto uid = user.empty() ? 0 : 1 + rng.below(50);
                std::vector<std::pair<const char*, const char*>> tags;
                for (std::size_t k = rng.below(4); k > 0; --k) tags.emplace_back(keys[rng.below(8)], keys[rng.below(8)]);
                const osmium::Timestamp ts{static_cast<uint32_t>(1000000 + rng.below(100000))};
                // an upper-case section letter makes the FIRST object of the section larger than the
                // (hooked, 256-byte) initial buffer of the parsers: the buffer has to grow while it
                // holds no committed object yet (first object of a block / of the parser's buffer)
                const bool big = std::isupper(static_cast<unsigned char>(order[s])) && i == 0;
                if (big) {
                    for (std::size_t k = 0; k < 14; ++k) tags.emplace_back(keys[rng.below(8)], "a-rather-long-tag-value-to-fill-the-buffer");
                }
                switch (std::tolower(static_cast<unsigned char>(order[s]))) {
                    case 'n':
                        osmium::builder::add_node(buffer, _id(id), _version(1 + rng.below(3)), _timestamp(ts), _cid(1 + rng.below(1000)), _uid(uid), _user(user),
                            _location(osmium::Location{static_cast<int32_t>(static_cast<int64_t>(rng.below(3600000001ULL)) - 1800000000), static_cast<int32_t>(static_cast<int64_t>(rng.below(1800000001ULL)) - 900000000)}), _tags(tags));
                        break;
                    case 'w': {
                        std::vector<osmium::object_id_type> refs;
                        for (std::size_t k = (big ? 50 : 1) + rng.below(5); k > 0; --k) refs.push_back(static_cast<int64_t>(1 + rng.below(100)));
                        osmium::builder::add_way(buffer, _id(id), _version(1 + rng.below(3)), _timestamp(ts), _cid(1 + rng.below(1000)), _uid(uid), _user(user), _nodes(refs), _tags(tags));
                        break;
                    }
                    case 'r': {
                        std::vector<osmium::builder::attr::member_type> members;
                        for (std::size_t k = (big ? 30 : 0) + rng.below(4); k > 0; --k) members.emplace_back(osmium::nwr_index_to_item_type(static_cast<unsigned>(rng.below(3))), static_cast<int64_t>(1 + rng.below(100)), keys[rng.below(8)]);
                        osmium::builder::add_relation(buffer, _id(id), _version(1 + rng.below(3)), _timestamp(ts), _cid(1 + rng.below(1000)), _uid(uid), _user(user), _members(members), _tags(tags));
                        break;
                    }
                    case 'c':
                        osmium::builder::add_changeset(buffer, _cid(static_cast<osmium::changeset_id_type>(id)), _uid(uid), _user(user), _num_changes(rng.below(20)),
                            _created_at(ts), _closed_at(osmium::Timestamp{static_cast<uint32_t>(1100000 + rng.below(100000))}), _tags(tags));
                        break;
                    default:
                        break;
                }
                if (buffer.committed() > 2000) {
                    writer(std::move(buffer));
                    buffer = osmium::memory::Buffer{4096, osmium::memory::Buffer::auto_grow::yes};
                }
            }
        }
        writer(std::move(buffer));
        writer.close();
    }
    std::ifstream in{path, std::ios::binary};
    const std::string bytes{std::istreambuf_iterator<char>{in}, std::istreambuf_iterator<char>{}};
    ::unlink(path.c_str());
    g_data[name] = bytes;
    return "gen " + name + " " + vh::hex(bytes);
}

// ------------------------------------------------------------------------------------------
// ref: single-threaded decode
// ------------------------------------------------------------------------------------------
void dump_buffer_objects(osmium::memory::Buffer& b, std::string& out, std::size_t& n) {
    for (const auto& e : b.select<osmium::OSMEntity>()) {
        out += "ref O ";
        out += vh::dump_object(e);
        out += '\n';
        ++n;
    }
}

std::string do_ref(const std::vector<std::string>& w) {
    const auto it = g_data.find(w[1]);
    if (it == g_data.end()) {
        return "ref-error unknown-data\nref END";
    }
    const std::string fmt = w[2];
    std::string out;
    std::size_t n = 0;
    try {
        osmium::thread::Pool& pool = osmium::thread::Pool::default_instance(); // not used: inline decoding
        oid::future_string_queue_type input_queue{0, "in"};
        oid::future_buffer_queue_type output_queue{0, "out"};
        std::promise<osmium::io::Header> header_promise;
        auto header_future = header_promise.get_future();
        std::atomic<std::size_t> offset{0};
        oid::parser_arguments args{pool, -1, input_queue, output_queue, header_promise, &offset,
                                   osmium::osm_entity_bits::all, osmium::io::read_meta::yes, osmium::io::buffers_type::any, false};
        oid::add_to_queue(input_queue, std::string{it->second});
        oid::add_end_of_data_to_queue(input_queue);
        const osmium::io::File file{it->second.data(), it->second.size(), fmt};
        const auto creator = oid::ParserFactory::instance().get_creator_function(file);
        creator(args)->parse(); // the calling thread does everything
        out += "ref H " + vh::dump_header(header_future.get()) + "\n";
        while (true) {
            std::future<osmium::memory::Buffer> f;
            if (!output_queue.try_pop(f)) {
                out += "ref-error no-end-marker\n";
                break;
            }
            osmium::memory::Buffer b = f.get();
            if (!b) {
                break;
            }
            // unwind the chain of nested buffers WITHOUT Buffer::get_last_nested() (the function under
            // test): the deepest buffer of the m_next_buffer chain is the oldest
            std::vector<osmium::memory::Buffer*> chain;
            for (osmium::memory::Buffer* p = &b; p; p = p->m_next_buffer.get()) {
                chain.push_back(p);
            }
            for (auto it = chain.rbegin(); it != chain.rend(); ++it) {
                dump_buffer_objects(**it, out, n);
            }
        }
    } catch (const std::exception& e) {
        out += "ref-error " + class_of(e) + " " + e.what() + "\n";
    }
    out += "ref END " + std::to_string(n);
    return out;
}

// ------------------------------------------------------------------------------------------
// small painted stack for the thread that calls Reader::read() + crash reporting
// ------------------------------------------------------------------------------------------
struct SmallStack {
    unsigned char* map = nullptr;   // start of the mapping (guard page first)
    std::size_t guard = 0;
    std::size_t size = 0;           // usable bytes above the guard page
};
SmallStack g_ss;                    // the stack of the running `stack=` scenario (for the signal handler)
const unsigned char stack_paint = 0xA5;

// bytes of the painted stack that were ever written (the stack grows downwards: the lowest dirty byte)
std::size_t stack_high_water() {
    if (!g_ss.map) return 0;
    const unsigned char* lo = g_ss.map + g_ss.guard;
    const unsigned char* hi = lo + g_ss.size;
    const unsigned char* p = lo;
    while (p < hi && *p == stack_paint) ++p;
    return static_cast<std::size_t>(hi - p);
}

void wr(const char* s, std::size_t n) {
    while (n > 0) {
        const ssize_t k = ::write(1, s, n);
        if (k <= 0) return;
        s += k;
        n -= static_cast<std::size_t>(k);
    }
}

// The process is dying: report which scenario was running (everything it printed so far is in g_out) and
// whether the fault address lies in / just below the guard page of the consumer's small stack.
void on_fatal_signal(int sig, siginfo_t* si, void*) {
    const unsigned char* a = static_cast<const unsigned char*>(si->si_addr);
    const bool in_guard = g_ss.map && a >= g_ss.map - 65536 && a < g_ss.map + g_ss.guard + 256;
    wr(g_out.data(), g_out.size());
    char buf[256];
    const int n = std::snprintf(buf, sizeof(buf), "MON no-crash FAIL signal=%d,fault-in-guard-page-of-consumer-stack=%d,stack_kb=%zu\nEND crash signal=%d%s\n",
                                sig, in_guard ? 1 : 0, g_ss.size / 1024, sig, in_guard ? " consumer-stack-overflow" : "");
    if (n > 0) wr(buf, static_cast<std::size_t>(n));
    _exit(5);
}

void install_fatal_handlers() {
    struct sigaction sa;
    std::memset(&sa, 0, sizeof(sa));
    sa.sa_sigaction = on_fatal_signal;
    sa.sa_flags = SA_SIGINFO | SA_ONSTACK;
    sigemptyset(&sa.sa_mask);
    sigaction(SIGSEGV, &sa, nullptr);
    sigaction(SIGBUS, &sa, nullptr);
}

struct StackJob {
    const std::string* line;
    const std::map<std::string, std::string>* kv;
    const std::string* dir;
};

void run_scenario(const std::string& line, const std::map<std::string, std::string>& kv, const std::string& dir);

void* stack_thread_main(void* arg) {
    static unsigned char altstack[64 * 1024];
    stack_t ss;
    ss.ss_sp = altstack;
    ss.ss_size = sizeof(altstack);
    ss.ss_flags = 0;
    sigaltstack(&ss, nullptr);
    const StackJob* job = static_cast<const StackJob*>(arg);
    run_scenario(*job->line, *job->kv, *job->dir);
    ss.ss_flags = SS_DISABLE;
    sigaltstack(&ss, nullptr);
    return nullptr;
}

// run the scenario on a thread whose stack is `kb` KiB, painted, with a guard page below
bool run_scenario_on_small_stack(std::size_t kb, const std::string& line, const std::map<std::string, std::string>& kv, const std::string& dir) {
    const std::size_t page = static_cast<std::size_t>(sysconf(_SC_PAGESIZE));
    const std::size_t size = ((kb * 1024 + page - 1) / page) * page;
    void* m = mmap(nullptr, size + page, PROT_READ | PROT_WRITE, MAP_PRIVATE | MAP_ANONYMOUS, -1, 0);
    if (m == MAP_FAILED) return false;
    mprotect(m, page, PROT_NONE);
    g_ss.map = static_cast<unsigned char*>(m);
    g_ss.guard = page;
    g_ss.size = size;
    std::memset(g_ss.map + page, stack_paint, size);
    pthread_attr_t attr;
    pthread_attr_init(&attr);
    pthread_attr_setstack(&attr, g_ss.map + page, size);
    StackJob job{&line, &kv, &dir};
    pthread_t th;
    const int rc = pthread_create(&th, &attr, stack_thread_main, &job);
    pthread_attr_destroy(&attr);
    if (rc == 0) {
        pthread_join(th, nullptr);
    }
    g_ss = SmallStack{};
    munmap(m, size + page);
    return rc == 0;
}

// ------------------------------------------------------------------------------------------
// run: one Reader scenario
// ------------------------------------------------------------------------------------------
std::unique_ptr<osmium::thread::Pool> g_pool;   // explicit pool, re-created when the size changes
int g_pool_size = 0;
std::size_t g_pool_wq = 0;

struct ApiResult {
    bool threw = false;
    bool injected = false;
    std::string what; // class + message hash
};

template <typename F>
ApiResult call_api(const char* name, F&& f) {
    ApiResult r;
    g_last_api = name;
    try {
        f();
    } catch (const InjectedError& e) {
        r.threw = true;
        r.injected = true;
        r.what = std::string{"InjectedError."} + std::to_string(e.code);
    } catch (const std::exception& e) {
        r.threw = true;
        r.what = class_of(e) + "." + std::to_string(fnv(e.what()) % 1000000ULL);
        if (std::getenv("C05_WHAT")) {
            r.what += std::string{"["} + e.what() + "]";
        }
    } catch (...) {
        r.threw = true;
        r.what = "non-std-exception";
    }
    return r;
}

void run_scenario(const std::string& line, const std::map<std::string, std::string>& kv, const std::string& dir) {
    const std::string fmt = gets(kv, "fmt", "opl");
    const std::string src = gets(kv, "src", "mem");
    const std::string dname = gets(kv, "data", "");
    const unsigned mask = static_cast<unsigned>(geti(kv, "mask", 15));
    const bool meta = geti(kv, "meta", 1) != 0;
    const std::string bt = gets(kv, "bt", "any");
    const int pool_n = static_cast<int>(geti(kv, "pool", 0));
    const std::size_t pool_wq = static_cast<std::size_t>(geti(kv, "wq", 0));
    const int hdr = static_cast<int>(geti(kv, "hdr", 1));
    const long long kreads = geti(kv, "k", -1);
    const std::string stop = gets(kv, "stop", "close");
    const bool trace = geti(kv, "trace", 0) != 0;
    const long long wd_ms = geti(kv, "wd", 20000);
    const bool digest = geti(kv, "digest", 0) != 0;

    // ---- set-up that is not part of the scenario
    ++g_epoch;
    {
        const std::lock_guard<std::mutex> lock{g_trace_mutex};
        g_trace.clear();
    }
    g_next_other_tid = 300;
    g_perturb_level = static_cast<int>(geti(kv, "pl", 0));
    g_perturb_seed = static_cast<uint64_t>(geti(kv, "ps", 1));
    set_tid(0);
    outf("BEGIN " + line);

    const auto it = g_data.find(dname);
    if (it == g_data.end() && fmt != "mock") {
        outf("END bad-scenario unknown-data");
        flush_out();
        return;
    }
    static const std::string dummy{"x"};
    const std::string& bytes = it == g_data.end() ? dummy : it->second;

    g_plan = DecompPlan{};
    g_plan.pieces = split_pieces(bytes, gets(kv, "cuts", "-"));
    g_plan.fail_read = static_cast<int>(geti(kv, "fread", 0));
    g_plan.fail_close = geti(kv, "fclose", 0) != 0;
    g_plan.fail_ctor = geti(kv, "fctor", 0) != 0;
    g_dreads = 0;
    g_dcloses = 0;
    g_ddtors = 0;
    g_dctors = 0;
    g_mock_script = gets(kv, "mp", "");
    g_mock_next_id = 1;

    osmium::thread::Pool* pool = nullptr;
    if (pool_n > 0) {
        if (!g_pool || g_pool_size != pool_n || g_pool_wq != pool_wq) {
            g_pool.reset();
            g_pool = std::make_unique<osmium::thread::Pool>(pool_n, pool_wq);
            g_pool_size = pool_n;
            g_pool_wq = pool_wq;
        }
        pool = g_pool.get();
    } else {
        pool = &osmium::thread::Pool::default_instance();
    }
    g_q_work = &pool->m_work_queue;
    g_cur_pool = pool;

    std::string path;
    if (src == "file") {
        path = dir + "/run-" + std::to_string(getpid()) + "." + (fmt == "mock" ? "json" : fmt);
        std::ofstream o{path, std::ios::binary};
        o.write(bytes.data(), static_cast<std::streamsize>(bytes.size()));
    }

    osmium::osm_entity_bits::type entities = static_cast<osmium::osm_entity_bits::type>((mask & 7U) | ((mask & 8U) ? 0x10U : 0U));
    const auto rmeta = meta ? osmium::io::read_meta::yes : osmium::io::read_meta::no;
    const auto btype = bt == "single" ? osmium::io::buffers_type::single : osmium::io::buffers_type::any;
    const std::string file_format = (fmt == "mock" ? std::string{"json"} : fmt);

    // Jobs of an earlier scenario whose futures were dropped may still be queued in the pool: let
    // them start before this scenario (a sentinel job is behind them in the FIFO work queue) ...
    pool->submit([] { return 0; }).get();
    // ... and give workers / exited threads time to settle: the thread count must be stable
    int threads_before = count_threads();
    for (int i = 0, same = 0; i < 200 && same < 4; ++i) {
        std::this_thread::sleep_for(std::chrono::microseconds(250));
        const int t = count_threads();
        same = (t == threads_before) ? same + 1 : 0;
        threads_before = t;
    }
    const int fds_before = count_fds();

    g_deadline_ms = now_ms() + wd_ms;
    g_tracing = trace;
    g_active = true;

    // ---- the scenario
    std::size_t delivered_buffers = 0;
    std::size_t delivered_objects = 0;
    bool error_reported = false;
    bool data_after_error = false;
    bool data_after_eof = false;
    bool data_after_close = false;
    bool saw_eof = false;
    bool closed = false;
    int dreads_at_close = -1;
    long long pos_at_close = -1;
    long long pos_final = -1;
    int dupfd = -1;
    int reads_done = 0;
    std::string first_error = "-";
    std::string first_error_call = "-";
    std::string ctor_result = "ok";

    auto note_error = [&](const char* call, const ApiResult& r) {
        if (!error_reported) {
            error_reported = true;
            first_error = r.what;
            first_error_call = call;
        }
    };

    {
        // The Reader is constructed in place so that the addresses of its queues are known to the
        // hook BEFORE the constructor starts the read thread and the parser thread.
        void* mem = ::operator new(sizeof(osmium::io::Reader));
        {
            auto* rp = static_cast<osmium::io::Reader*>(mem);
            g_q_in = &rp->m_input_queue;
            g_q_out = &rp->m_osmdata_queue;
        }
        osmium::io::Reader* reader = nullptr;
        const ApiResult rc = call_api("constructor", [&] {
            log_event("ctor-call", nullptr, 0, -1);
            if (src == "file") {
                const osmium::io::File file{path, file_format};
                reader = new (mem) osmium::io::Reader(file, entities, rmeta, btype, *pool);
            } else {
                const osmium::io::File file{bytes.data(), bytes.size(), file_format + ".gz"};
                reader = new (mem) osmium::io::Reader(file, entities, rmeta, btype, *pool);
            }
        });
        if (rc.threw) {
            ctor_result = rc.what;
            outf("A ctor throw " + rc.what);
            ::operator delete(mem);
        } else {
            log_event("ctor-return", nullptr, 0, -1);
            outf("A ctor ok");
            if (reader->m_fd >= 0) {
                dupfd = ::dup(reader->m_fd);
            }

            auto do_header = [&] {
                osmium::io::Header h;
                log_event("header-call", nullptr, 0, -1);
                const ApiResult r = call_api("header", [&] { h = reader->header(); });
                log_event("header-return", nullptr, r.threw ? 1 : 0, -1);
                if (r.threw) {
                    outf("A header throw " + r.what);
                    note_error("header", r);
                } else {
                    outf("A header ok");
                    outf("H " + vh::dump_header(h));
                }
            };

            auto do_read = [&]() -> bool { // false = stop reading (eof or exception)
                osmium::memory::Buffer b;
                const bool had_back = static_cast<bool>(reader->m_back_buffers);
                log_event("read-call", nullptr, had_back ? 1 : 0, -1);
                const ApiResult r = call_api("read", [&] { b = reader->read(); });
                ++reads_done;
                if (r.threw) {
                    log_event("read-return", nullptr, 2, -1);
                    outf("A read throw " + r.what);
                    if (!saw_eof && !closed) {
                        note_error("read", r);
                    }
                    return false;
                }
                if (!b) {
                    log_event("read-return", nullptr, 0, -1);
                    outf("A read eof");
                    if (error_reported) data_after_error = false; // an end marker is not data
                    saw_eof = true;
                    return false;
                }
                std::string dumps;
                std::size_t n = 0;
                for (const auto& e : b.select<osmium::OSMEntity>()) {
                    if (n) dumps += "|";
                    dumps += vh::dump_object(e);
                    ++n;
                }
                log_event("read-return", nullptr, 1, static_cast<long long>(delivered_buffers));
                outf("A read buf " + std::to_string(n) + (b.has_nested_buffers() ? " NESTED" : ""));
                if (digest) {
                    outf("B " + std::to_string(delivered_buffers) + " " + (had_back ? "b" : "q") + " #" + std::to_string(n) + ":" + std::to_string(fnv(dumps)));
                } else {
                    outf("B " + std::to_string(delivered_buffers) + " " + (had_back ? "b" : "q") + " " + (n ? dumps : std::string{"-"}));
                }
                ++delivered_buffers;
                delivered_objects += n;
                if (error_reported) data_after_error = true;
                if (saw_eof) data_after_eof = true;
                if (closed) data_after_close = true;
                return true;
            };

            if (hdr == 1) {
                do_header();
            }
            bool go = true;
            for (long long i = 0; go && (kreads < 0 || i < kreads); ++i) {
                go = do_read();
                if (hdr == 2 && i == 0) {
                    do_header();
                }
            }
            if (hdr == 3) {
                do_header();
            }
            // after an error or the end marker: further calls must fail, not deliver data
            if (!go) {
                for (int i = 0; i < 2; ++i) {
                    do_read();
                }
                if (error_reported) {
                    do_header();
                }
            }
            if (stop == "close") {
                log_event("close-call", nullptr, 0, -1);
                const ApiResult r = call_api("close", [&] { reader->close(); });
                log_event("close-return", nullptr, r.threw ? 1 : 0, -1);
                dreads_at_close = g_dreads.load();
                if (dupfd >= 0) pos_at_close = static_cast<long long>(::lseek(dupfd, 0, SEEK_CUR));
                closed = true;
                if (r.threw) {
                    outf("A close throw " + r.what);
                    if (!saw_eof) note_error("close", r);
                } else {
                    outf("A close ok");
                }
                // a closed reader delivers nothing more (back buffers excepted: they were read before the close)
                const bool had_back = static_cast<bool>(reader->m_back_buffers);
                if (!had_back) {
                    do_read();
                }
                if (geti(kv, "linger", 0) > 0) {
                    g_active = false;
                    std::this_thread::sleep_for(std::chrono::milliseconds(geti(kv, "linger", 0)));
                    g_active = true;
                }
            }
            log_event("dtor-call", nullptr, 0, -1);
            g_last_api = "destructor";
            reader->~Reader();
            ::operator delete(mem);
            log_event("dtor-return", nullptr, 0, -1);
            outf("A dtor ok");
        }
    }
    if (dupfd >= 0) {
        pos_final = static_cast<long long>(::lseek(dupfd, 0, SEEK_CUR));
        ::close(dupfd);
    }
    g_active = false;
    g_tracing = false;
    g_deadline_ms = 0;
    g_q_in = nullptr;
    g_q_out = nullptr;

    // ---- leak observations (a joined thread can stay visible in /proc for a moment)
    int threads_after = count_threads();
    for (int i = 0; i < 100 && threads_after > threads_before; ++i) {
        std::this_thread::sleep_for(std::chrono::microseconds(500));
        threads_after = count_threads();
    }
    const int fds_after = count_fds();
    if (!path.empty()) {
        ::unlink(path.c_str());
    }
    print_trace();
    const int dreads_final = g_dreads.load();

    outf(std::string{"MON no-data-after-error "} + (data_after_error ? "FAIL" : "ok") + " first_error=" + first_error_call + ":" + first_error);
    outf(std::string{"MON no-data-after-eof "} + (data_after_eof ? "FAIL" : "ok") + " -");
    outf(std::string{"MON no-data-after-close "} + (data_after_close ? "FAIL" : "ok") + " -");
    outf(std::string{"MON threads-joined "} + (threads_after <= threads_before ? "ok" : "FAIL") + " before=" + std::to_string(threads_before) + ",after=" + std::to_string(threads_after));
    outf(std::string{"MON fds-closed "} + (fds_after == fds_before ? "ok" : "FAIL") + " before=" + std::to_string(fds_before) + ",after=" + std::to_string(fds_after));
    if (dreads_at_close >= 0) {
        outf(std::string{"MON closed-reader-reads-nothing-more "} + (dreads_final - dreads_at_close <= 1 ? "ok" : "FAIL") + " at_close=" + std::to_string(dreads_at_close) + ",final=" + std::to_string(dreads_final));
    }
    if (g_dctors.load() > 0) {
        outf(std::string{"MON decompressor-destroyed "} + (g_ddtors.load() == g_dctors.load() || ctor_result != "ok" ? "ok" : "FAIL") + " ctors=" + std::to_string(g_dctors.load()) + ",dtors=" + std::to_string(g_ddtors.load()));
    }
    outf("OBS buffers=" + std::to_string(delivered_buffers) + " objects=" + std::to_string(delivered_objects) + " eof=" + (saw_eof ? "1" : "0") +
         " error=" + (error_reported ? "1" : "0") + " first_error=" + first_error_call + ":" + first_error + " dreads=" + std::to_string(dreads_final) +
         " dreads_at_close=" + std::to_string(dreads_at_close) + " dcloses=" + std::to_string(g_dcloses.load()) + " pos_at_close=" + std::to_string(pos_at_close) +
         " pos_final=" + std::to_string(pos_final) + " size=" + std::to_string(bytes.size()) + " pieces=" + std::to_string(g_plan.pieces.size()) +
         " pool=" + std::to_string(pool->num_threads()) + " ctor=" + ctor_result +
         (g_ss.map ? " stack_kb=" + std::to_string(g_ss.size / 1024) + " stack_hwm=" + std::to_string(stack_high_water()) : std::string{}));
    outf("END ok");
    flush_out();
}

} // namespace

extern "C" void osmium_verif_point(const char* tag, const void* obj, std::size_t arg) {
    if (!g_active.load()) {
        return;
    }
    if (!std::strcmp(tag, "worker-got")) {
        if (obj == g_cur_pool) {
            log_event(tag, g_q_work, arg, -1);
        }
        return;
    }
    if (qid_of(obj) == 9) {
        return; // a queue that does not belong to the Reader under test
    }
    log_event(tag, obj, arg, -1);
}

int main(int argc, char** argv) {
    const std::string dir = argc > 1 ? argv[1] : ".";
    if (const char* e = std::getenv("C05_THREAD_STACK_KB")) {
        // default stack size of every thread created from now on (watchdog, read thread, parser thread, pool workers)
        const long kb = std::atol(e);
        if (kb > 0) {
            pthread_attr_t a;
            pthread_attr_init(&a);
            pthread_attr_setstacksize(&a, static_cast<std::size_t>(kb) * 1024);
            pthread_setattr_default_np(&a);
            pthread_attr_destroy(&a);
        }
        install_fatal_handlers();
    }
    osmium::io::CompressionFactory::instance().register_compression(
        osmium::io::file_compression::gzip,
        [](int, osmium::io::fsync) -> osmium::io::Compressor* { return nullptr; },
        [](int fd) -> osmium::io::Decompressor* { ::close(fd); return new MockDecompressor{}; },
        [](const char*, std::size_t) -> osmium::io::Decompressor* { return new MockDecompressor{}; });
    oid::ParserFactory::instance().register_parser(
        osmium::io::file_format::json,
        [](oid::parser_arguments& args) { return std::unique_ptr<oid::Parser>(new MockParser{args, g_mock_script}); });
    std::thread{watchdog_main}.detach();

    std::string line;
    while (std::getline(std::cin, line)) {
        const auto w = vh::words(line);
        if (w.empty()) {
            continue;
        }
        try {
            if (w[0] == "def" && w.size() == 3) {
                std::string data;
                if (!vh::unhex(w[2], data)) {
                    std::printf("bad-op\n");
                } else {
                    g_data[w[1]] = data;
                    std::printf("def %s %zu\n", w[1].c_str(), data.size());
                }
            } else if (w[0] == "gen" && w.size() >= 7) {
                std::printf("%s\n", do_gen(dir, w).c_str());
            } else if (w[0] == "ref" && w.size() == 3) {
                std::printf("%s\n", do_ref(w).c_str());
            } else if (w[0] == "defcat" && w.size() >= 3) {
                std::string data;
                bool ok = true;
                for (std::size_t i = 2; i < w.size() && ok; ++i) {
                    const auto star = w[i].find('*');
                    const auto it = g_data.find(w[i].substr(0, star));
                    const std::size_t cnt = star == std::string::npos ? 1 : std::stoul(w[i].substr(star + 1));
                    ok = it != g_data.end();
                    for (std::size_t k = 0; ok && k < cnt; ++k) data += it->second;
                }
                if (!ok) {
                    std::printf("bad-op\n");
                } else {
                    std::printf("def %s %zu\n", w[1].c_str(), data.size());
                    g_data[w[1]] = std::move(data);
                }
            } else if (w[0] == "run") {
                const auto kv = parse_kv(w);
                const long long kb = geti(kv, "stack", 0);
                if (kb > 0) {
                    install_fatal_handlers();
                    if (!run_scenario_on_small_stack(static_cast<std::size_t>(kb), line, kv, dir)) {
                        std::printf("BEGIN %s\nEND bad-scenario cannot-create-stack-thread\n", line.c_str());
                    }
                } else {
                    run_scenario(line, kv, dir);
                }
            } else {
                std::printf("bad-op\n");
            }
        } catch (const std::exception& e) {
            flush_out();
            std::printf("exception %s %s\n", class_of(e).c_str(), e.what());
        }
        std::fflush(stdout);
    }
    g_pool.reset();
    return 0;
}
