// Shared helpers for the correspondence harnesses: line protocol, hex, SplitMix64.
#pragma once
#include <cstdlib>
#include <unistd.h>
#include <cstdint>
#include <cstdio>
#include <iostream>
#include <sstream>
#include <string>
#include <vector>

namespace vh {

inline std::vector<std::string> words(const std::string& line) {
    std::vector<std::string> out;
    std::istringstream in{line};
    std::string w;
    while (in >> w) {
        out.push_back(w);
    }
    return out;
}

inline std::string hex(const std::string& s) {
    if (s.empty()) {
        return "-";
    }
    static const char* d = "0123456789abcdef";
    std::string out;
    for (unsigned char c : s) {
        out += d[c >> 4];
        out += d[c & 15];
    }
    return out;
}

inline int hv(char c) {
    if (c >= '0' && c <= '9') return c - '0';
    if (c >= 'a' && c <= 'f') return c - 'a' + 10;
    if (c >= 'A' && c <= 'F') return c - 'A' + 10;
    return -1;
}

inline bool unhex(const std::string& h, std::string& out) {
    out.clear();
    if (h == "-") {
        return true;
    }
    if (h.size() % 2) {
        return false;
    }
    for (std::size_t i = 0; i < h.size(); i += 2) {
        const int a = hv(h[i]);
        const int b = hv(h[i + 1]);
        if (a < 0 || b < 0) {
            return false;
        }
        out += static_cast<char>(a * 16 + b);
    }
    return true;
}

struct SplitMix64 {
    uint64_t s;
    explicit SplitMix64(uint64_t seed) : s(seed) {}
    uint64_t next() {
        uint64_t z = (s += 0x9e3779b97f4a7c15ULL);
        z = (z ^ (z >> 30)) * 0xbf58476d1ce4e5b9ULL;
        z = (z ^ (z >> 27)) * 0x94d049bb133111ebULL;
        return z ^ (z >> 31);
    }
    uint64_t below(uint64_t n) { return n ? next() % n : 0; }
};

// Run `f(line)` for every stdin line, print the returned string.
template <typename F>
inline int line_loop(F&& f) {
    std::ios::sync_with_stdio(false);
    std::string line;
    std::string out;
    // per-op watchdog: an op that does not come back within VERIF_OP_TIMEOUT seconds (default 300)
    // ends the process with SIGALRM; every answer is flushed, so the caller knows which op it was
    const char* e = std::getenv("VERIF_OP_TIMEOUT");
    const unsigned limit = e ? static_cast<unsigned>(std::atoi(e)) : 300U;
    while (std::getline(std::cin, line)) {
        ::alarm(limit);
        out = f(line);
        ::alarm(0);
        out += '\n';
        std::fwrite(out.data(), 1, out.size(), stdout);
        std::fflush(stdout);
    }
    std::fflush(stdout);
    return 0;
}

} // namespace vh
