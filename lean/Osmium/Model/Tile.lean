/-
C18 — Web-Mercator tile arithmetic (include/osmium/geom/tile.hpp, geom/mercator_projection.hpp,
geom/util.hpp, geom/coordinates.hpp, osm/location.hpp).

Core-only executable model.  A C++ `double` is modelled EXACTLY: a finite double is the
rational number it denotes (`Rat`, core), plus +∞ / −∞ / NaN (`EVal`).  Every floating-point
`+`, `-`, `*`, `/` of the code is the exact rational operation followed by the rounding
function `cfg.rnd` (a PARAMETER of the model) and the IEEE overflow rule.  Two instances:

  * `rnd := id`     — arithmetic over exact rationals (no rounding error),
  * `rnd := rne53`  — IEEE-754 binary64 round-to-nearest-even (what the hardware does); with
                      this instance the model is compared BIT FOR BIT with the compiled code
                      (lean/Driver/C18.lean vs harness/c18.cpp).

The theorems (Osmium/Props/C18.lean) hold for every `rnd` satisfying `RoundSpec` (monotone, odd,
exact on powers of two, commutes with doubling): both instances do (Lemmas/Tile*.lean).

The conversion `static_cast<int32_t>(double)` is explicit (`toInt32`): truncation toward zero,
and UNDEFINED BEHAVIOUR (`Err.ub`) when the truncated value is not representable in int32 or
the operand is not finite ([conv.fpint] in the C++ standard).  What x86-64 hardware does in
that case (cvttsd2si returns the "integer indefinite" value INT32_MIN) is modelled separately
(`toInt32X86`), only to state which wrong tile the compiled PRE-FIX code produced (finding F8,
fixed in /repo 3271999 by clamping the double before the cast — `cfg.fixed = true`, the main line).

The Mercator latitude function `lat_to_y` (log∘tan, or the degree-10 rational approximation) is
NOT modelled: it is a parameter `latToY : Int → EVal` of the Location constructor; the theorems
quantify over every monotone such function.
-/
namespace Osmium.Tile

/-! ### values of a C++ double -/

inductive EVal where
  | fin (q : Rat)
  | pinf
  | ninf
  | nan
deriving DecidableEq, Repr

inductive Err where
  | ub                -- undefined behaviour: double → int32 conversion out of range / non-finite
  | invalidLocation   -- osmium::invalid_location thrown by Location::lon()/lat()
deriving DecidableEq, Repr

/-- The order of IEEE comparisons on non-NaN values (`<=`); anything involving NaN is false. -/
def EVal.le : EVal → EVal → Prop
  | .nan, _ => False
  | _, .nan => False
  | .ninf, _ => True
  | _, .pinf => True
  | .fin a, .fin b => a ≤ b
  | .fin _, .ninf => False
  | .pinf, .fin _ => False
  | .pinf, .ninf => False

instance : LE EVal := ⟨EVal.le⟩

/-! ### rounding -/

/-- 2^1024: finite results of this magnitude or more overflow to ±∞ -/
def dblOverflow : Rat := (2 : Rat) ^ (1024 : Nat)

/-- Result of a double operation whose exact value is `q`: round, then the IEEE overflow rule. -/
def flr (rnd : Rat → Rat) (q : Rat) : EVal :=
  let r := rnd q
  if dblOverflow ≤ r then .pinf else if r ≤ -dblOverflow then .ninf else .fin r

/-- What the theorems need of a rounding function.  Satisfied by `id` and by IEEE-754
    round-to-nearest-even (`rne53`). -/
structure RoundSpec (rnd : Rat → Rat) : Prop where
  mono : ∀ a b : Rat, a ≤ b → rnd a ≤ rnd b
  neg : ∀ a : Rat, rnd (-a) = -rnd a
  pow2 : ∀ k : Int, -1022 ≤ k → rnd ((2 : Rat) ^ k) = (2 : Rat) ^ k
  two : ∀ a : Rat, (2 : Rat) ^ (-1022 : Int) ≤ a → rnd (2 * a) = 2 * rnd a

/-- ⌊log₂ q⌋ for q > 0. -/
def ilog2 (q : Rat) : Int :=
  let e0 : Int := (q.num.toNat.log2 : Int) - (q.den.log2 : Int)
  if (2 : Rat) ^ e0 ≤ q then e0 else e0 - 1

/-- round to the nearest integer, ties to even -/
def rhe (t : Rat) : Int :=
  let f := t.floor
  let r := t - f
  if r < 1 / 2 then f else if 1 / 2 < r then f + 1 else if f % 2 = 0 then f else f + 1

/-- binary64 rounding of a positive rational (unbounded exponent above; subnormals below) -/
def rnePos (q : Rat) : Rat :=
  let e := max (ilog2 q) (-1022)
  let u : Rat := (2 : Rat) ^ (e - 52)
  (rhe (q / u) : Rat) * u

/-- IEEE-754 binary64 round-to-nearest-even of an exact rational (before the overflow rule). -/
def rne53 (q : Rat) : Rat :=
  if q = 0 then 0 else if q < 0 then -rnePos (-q) else rnePos q

/-! ### double → int32, clamp (tile.hpp:46-57) -/

/-- truncation toward zero -/
def trunc (q : Rat) : Int := if 0 ≤ q then q.floor else -((-q).floor)

def int32Min : Int := -2147483648
def int32Max : Int := 2147483647

/-- `static_cast<int32_t>(double)` as the C++ standard defines it. -/
def toInt32 : EVal → Except Err Int
  | .fin q =>
    let t := trunc q
    if int32Min ≤ t ∧ t ≤ int32Max then .ok t else .error .ub
  | _ => .error .ub

/-- `static_cast<int32_t>(double)` as compiled for x86-64 (cvttsd2si): out-of-range and
    non-finite operands give INT32_MIN.  Platform behaviour, not C++ semantics. -/
def toInt32X86 : EVal → Int
  | .fin q =>
    let t := trunc q
    if int32Min ≤ t ∧ t ≤ int32Max then t else int32Min
  | _ => int32Min

/-- the pre-fix detail::clamp on int32 (regression model only) -/
def clamp (value min max : Int) : Int :=
  if value < min then min else if max < value then max else value

/-- detail::clamp (tile.hpp:56-61), applied to the double BEFORE the cast (fix for F8):
      if (!(value >= min)) return min;  return max < value ? max : value;
    NaN and −∞ go to `min`, +∞ to `max`. -/
def clampD (v : EVal) (min max : Rat) : Rat :=
  match v with
  | .nan => min
  | .ninf => min
  | .pinf => max
  | .fin q => if q < min then min else if max < q then max else q

/-! ### tile.hpp -/

structure Cfg where
  /-- detail::max_coordinate_epsg3857 (the exact value of the double constant) -/
  M : Rat
  /-- rounding applied by every floating-point operation -/
  rnd : Rat → Rat
  /-- true (MAIN LINE): the code as it is since /repo 3271999 — detail::clamp on the double, then
      the cast (tile.hpp:56-61, 88-91, 100-103).  false: the pre-fix code (cast, then clamp as
      int32), kept as regression model for finding F8.  The driver takes the flag from
      Generated/C18Consts.lean, which tools/props/c18.py re-probes on the real code every run. -/
  fixed : Bool

/-- num_tiles_in_zoom (tile.hpp:63): `1U << zoom` (zoom ≤ 31) -/
def numTilesInZoom (zoom : Nat) : Nat := 2 ^ zoom

/-- tile_extent_in_zoom (tile.hpp:71): `max_coordinate_epsg3857 * 2 / num_tiles_in_zoom(zoom)`.
    Both operations are exact in binary floating point (multiplication and division by a
    power of two, no underflow for zoom ≤ 31), so no rounding is applied; the driver/harness
    op `ext` compares the value bit for bit. -/
def tileExtentInZoom (cfg : Cfg) (zoom : Nat) : Rat := cfg.M * 2 / (numTilesInZoom zoom : Nat)

/-- `v + c` for a finite constant c -/
def addC (rnd : Rat → Rat) (v : EVal) (c : Rat) : EVal :=
  match v with
  | .fin q => flr rnd (q + c)
  | .pinf => .pinf
  | .ninf => .ninf
  | .nan => .nan

/-- `c - v` for a finite constant c -/
def subC (rnd : Rat → Rat) (c : Rat) (v : EVal) : EVal :=
  match v with
  | .fin q => flr rnd (c - q)
  | .pinf => .ninf
  | .ninf => .pinf
  | .nan => .nan

/-- `v / e` for a finite constant e > 0 -/
def divC (rnd : Rat → Rat) (v : EVal) (e : Rat) : EVal :=
  match v with
  | .fin q => flr rnd (q / e)
  | .pinf => .pinf
  | .ninf => .ninf
  | .nan => .nan

/-- The common tail of mercx_to_tilex / mercy_to_tiley: scaled coordinate → tile number.
    fixed (tile.hpp:88-91, 100-103; MAIN LINE):
      static_cast<int32_t>(detail::clamp(v, 0.0, static_cast<double>(n − 1)))
    pre-fix (regression model): clamp(static_cast<int32_t>(v), 0, static_cast<int32_t>(n − 1)) -/
def tileFromScaled (fixed : Bool) (zoom : Nat) (v : EVal) : Except Err Int :=
  let hi : Int := (numTilesInZoom zoom : Nat) - 1
  if fixed then
    toInt32 (.fin (clampD v 0 hi))
  else do
    let i ← toInt32 v
    pure (clamp i 0 hi)

/-- what the x86-64 build of the pre-fix code returned (total) -/
def tileFromScaledX86 (zoom : Nat) (v : EVal) : Int :=
  clamp (toInt32X86 v) 0 ((numTilesInZoom zoom : Nat) - 1)

/-- `(x + max_coordinate_epsg3857) / tile_extent_in_zoom(zoom)` -/
def scaledX (cfg : Cfg) (zoom : Nat) (x : EVal) : EVal :=
  divC cfg.rnd (addC cfg.rnd x cfg.M) (tileExtentInZoom cfg zoom)

/-- `(max_coordinate_epsg3857 - y) / tile_extent_in_zoom(zoom)` -/
def scaledY (cfg : Cfg) (zoom : Nat) (y : EVal) : EVal :=
  divC cfg.rnd (subC cfg.rnd cfg.M y) (tileExtentInZoom cfg zoom)

/-- mercx_to_tilex (tile.hpp:87) -/
def mercxToTilex (cfg : Cfg) (zoom : Nat) (x : EVal) : Except Err Int :=
  tileFromScaled cfg.fixed zoom (scaledX cfg zoom x)

/-- mercy_to_tiley (tile.hpp:99) -/
def mercyToTiley (cfg : Cfg) (zoom : Nat) (y : EVal) : Except Err Int :=
  tileFromScaled cfg.fixed zoom (scaledY cfg zoom y)

def mercxToTilexX86 (cfg : Cfg) (zoom : Nat) (x : EVal) : Int :=
  tileFromScaledX86 zoom (scaledX cfg zoom x)

def mercyToTileyX86 (cfg : Cfg) (zoom : Nat) (y : EVal) : Int :=
  tileFromScaledX86 zoom (scaledY cfg zoom y)

/-- struct Tile (tile.hpp:103) -/
structure Tile where
  x : Int
  y : Int
  z : Nat
deriving DecidableEq, Repr

def maxZoom : Nat := 30

/-- Tile::valid (tile.hpp:170) -/
def Tile.valid (t : Tile) : Bool :=
  if t.z > maxZoom then false
  else decide (0 ≤ t.x ∧ t.x < (numTilesInZoom t.z : Nat) ∧ 0 ≤ t.y ∧ t.y < (numTilesInZoom t.z : Nat))

/-- Tile(zoom, tx, ty) (tile.hpp:127): values are not checked (asserts in debug builds) -/
def Tile.ofXY (zoom : Nat) (tx ty : Int) : Tile := ⟨tx, ty, zoom⟩

/-- Tile(zoom, Coordinates) (tile.hpp:160) -/
def Tile.ofCoords (cfg : Cfg) (zoom : Nat) (x y : EVal) : Except Err Tile := do
  let tx ← mercxToTilex cfg zoom x
  let ty ← mercyToTiley cfg zoom y
  pure ⟨tx, ty, zoom⟩

/-- Location::valid (location.hpp:352), coordinates in units of 1e-7 degree -/
def locValid (lon lat : Int) : Bool :=
  decide (-1800000000 ≤ lon ∧ lon ≤ 1800000000 ∧ -900000000 ≤ lat ∧ lat ≤ 900000000)

/-- Tile(zoom, Location) (tile.hpp:144): `lonlat_to_mercator(location)` converts the Location
    to Coordinates (throws invalid_location when invalid) and projects it with
    `lon_to_x` / `lat_to_y` — parameters here (fixed-point coordinate → double). -/
def Tile.ofLoc (cfg : Cfg) (lonToX latToY : Int → EVal) (zoom : Nat) (lon lat : Int) :
    Except Err Tile :=
  if locValid lon lat then Tile.ofCoords cfg zoom (lonToX lon) (latToY lat)
  else .error .invalidLocation

/-! ### the linear part of the projection (mercator_projection.hpp:52-55, 98-100; util.hpp;
    location.hpp:290-296) -/

structure ProjCfg where
  rnd : Rat → Rat
  /-- detail::earth_radius_for_epsg3857 -/
  R : Rat
  /-- the constant `PI / 180.0` of deg_to_rad -/
  degToRad : Rat
  /-- the constant `180.0 / PI` of rad_to_deg -/
  radToDeg : Rat
  /-- Location::precision() = coordinate_precision -/
  prec : Rat

/-- Location::fix_to_double: `static_cast<double>(c) / precision()` -/
def fixToDouble (p : ProjCfg) (c : Int) : Rat := p.rnd ((c : Rat) / p.prec)

/-- lon_to_x ∘ Location::lon: `earth_radius * (lon * (PI / 180.0))` -/
def lonToX (p : ProjCfg) (lon : Int) : Rat :=
  p.rnd (p.R * p.rnd (fixToDouble p lon * p.degToRad))

/-- x_to_lon: `(x * (180.0 / PI)) / earth_radius` -/
def xToLon (p : ProjCfg) (x : Rat) : Rat := p.rnd (p.rnd (x * p.radToDeg) / p.R)

/-- `v * c` for a finite constant c > 0 -/
def mulC (rnd : Rat → Rat) (v : EVal) (c : Rat) : EVal :=
  match v with
  | .fin q => flr rnd (q * c)
  | .pinf => .pinf
  | .ninf => .ninf
  | .nan => .nan

/-- x_to_lon on every double (overflow to ±∞ included; R > 0, 180/π > 0).  On finite values
    without overflow it is `xToLon` (Lemmas/Tile.lean `xToLonE_fin`). -/
def xToLonE (p : ProjCfg) (x : EVal) : EVal := divC p.rnd (mulC p.rnd x p.radToDeg) p.R

/-- std::round: half away from zero -/
def roundHalfAway (q : Rat) : Int :=
  if 0 ≤ q then (q + 1 / 2).floor else -((-q + 1 / 2).floor)

/-- Location::double_to_fix: `static_cast<int32_t>(std::round(c * precision()))` -/
def doubleToFix (p : ProjCfg) (c : Rat) : Except Err Int :=
  toInt32 (.fin (roundHalfAway (p.rnd (c * p.prec))))

/-! ### decoding / encoding of binary64 bit patterns (driver only) -/

def pow2 (e : Int) : Rat := (2 : Rat) ^ e

/-- the value denoted by a binary64 bit pattern -/
def EVal.ofBits (b : Nat) : EVal :=
  let sign : Nat := b / 2 ^ 63 % 2
  let ex : Nat := b / 2 ^ 52 % 2048
  let man : Nat := b % 2 ^ 52
  if ex = 2047 then
    if man = 0 then (if sign = 1 then .ninf else .pinf) else .nan
  else
    let m : Nat := if ex = 0 then man else man + 2 ^ 52
    let e : Int := if ex = 0 then -1074 else Int.ofNat ex - 1075
    let q : Rat := (m : Rat) * pow2 e
    .fin (if sign = 1 then -q else q)

/-- Canonical text of an exactly-dyadic value: `m e` with m odd (value m·2^e), or 0 0. -/
partial def canonDyadic (q : Rat) : String :=
  if q = 0 then "0 0" else
  let rec go (n : Int) (e : Int) : Int × Int :=
    if n % 2 = (0 : Int) then go (n / 2) (e + 1) else (n, e)
  -- q = num / den with den a power of two (otherwise not a double: flagged)
  let k := q.den.log2
  if 2 ^ k ≠ q.den then s!"notdyadic {q.num}/{q.den}" else
  let (m, e) := go q.num (-(k : Int))
  s!"{m} {e}"

def EVal.canon : EVal → String
  | .fin q => canonDyadic q
  | .pinf => "inf"
  | .ninf => "-inf"
  | .nan => "nan"

end Osmium.Tile
