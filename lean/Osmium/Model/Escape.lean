/-
Model of the text-format string escaping of the OPL and XML writers and of the
corresponding un-escaping done by the parsers (property C14).

Transcribed from
  include/osmium/io/detail/string_util.hpp
    append_2_hex_digits, append_min_4_hex_digits   -> `Opl.hex2`, `Opl.hexMin4`
    append_utf8_encoded_string                     -> `Opl.escape`  (byte level, cursor model)
    append_xml_encoded_string                      -> `Xml.escape`
  include/osmium/io/detail/opl_parser_functions.hpp
    opl_parse_escaped, opl_parse_string            -> `Opl.parseEscaped`, `Opl.parseString`
  expat (attribute value of a one-attribute document; contract written down at
    `Xml.unescapeCps`)                             -> `Xml.unescapeAttr`

The two tables the escaping is driven by are NOT transcribed: `Generated.oplPass` (code
points the OPL writer lets through) and `Generated.xmlEntities` (bytes the XML writer
replaces) are regenerated from the behaviour of the compiled source on every run
(harness/c14_dump.cpp, all 0x10FFFF code points / all 255 bytes).

Core-only (no Mathlib).  Strings are the bytes before the terminating NUL (see Utf8.lean).
-/
import Osmium.Model.Utf8
import Osmium.Generated.C14Tables

namespace Osmium.Opl
open Osmium.Utf8

/-- the `if ((0x0021 <= c && c <= 0x0024) || ...)` test of `append_utf8_encoded_string`,
    as dumped from the compiled code -/
def pass (c : Nat) : Bool := Generated.oplPass.any fun p => p.1 ≤ c && c ≤ p.2

/-- `lookup_hex[n]` with `lookup_hex = "0123456789abcdef"` -/
def hexDigit (n : Nat) : UInt8 := if n < 10 then UInt8.ofNat (0x30 + n) else UInt8.ofNat (0x57 + n)

/-- hex digit number `k/4` of `v`: `(v >> k) & 0xf` -/
def nib (v k : Nat) : Nat := (v >>> k) &&& 0xf

/-- `append_2_hex_digits` -/
def hex2 (v : Nat) : List UInt8 := [hexDigit (nib v 4), hexDigit (nib v 0)]

/-- the `for (shift = 28; shift >= 16; shift -= 4)` loop of `append_min_4_hex_digits`:
    `ks` = shifts still to do, `started` = the flag of the same name.  A leading digit is
    written iff it is non-zero or a digit has been written before. -/
def hexLead : List Nat → Nat → Bool → List UInt8
  | [], _, _ => []
  | k :: ks, v, started =>
    if nib v k ≠ 0 ∨ started = true then hexDigit (nib v k) :: hexLead ks v true
    else hexLead ks v false

/-- `append_min_4_hex_digits`: leading zeros of the four high digits suppressed, then the
    four low digits always. -/
def hexMin4 (v : Nat) : List UInt8 :=
  hexLead [28, 24, 20, 16] v false ++
  [hexDigit (nib v 12), hexDigit (nib v 8), hexDigit (nib v 4), hexDigit (nib v 0)]

/-- the `%hex%` form -/
def escaped (c : Nat) : List UInt8 :=
  0x25 :: ((if c ≤ 0xff then hex2 c else hexMin4 c) ++ [0x25])

/-- body of the `while` loop of `append_utf8_encoded_string` for one decoded code point
    `c` whose bytes are `raw` (= [prev, data)). -/
def piece (c : Nat) (raw : List UInt8) : List UInt8 :=
  if pass c then raw else escaped c

/-- `append_utf8_encoded_string(out, data)`; result = what is appended to `out`, or the
    exception `next_utf8_codepoint` throws.  Fuel = number of bytes + 1 (every iteration
    consumes at least one byte); running out of fuel is reported as `oob`. -/
def escapeLoop : Nat → List UInt8 → Except Err (List UInt8)
  | 0, _ => .error .oob
  | fuel + 1, bs =>
    if bs.isEmpty then .ok []
    else match next bs with
      | .error e => .error e
      | .ok (c, len) =>
        match escapeLoop fuel (bs.drop len) with
        | .error e => .error e
        | .ok r => .ok (piece c (bs.take len) ++ r)

def escape (bs : List UInt8) : Except Err (List UInt8) := escapeLoop (bs.length + 1) bs

/-- escaped form of one code point / of a string of code points (what `escape` produces
    on their UTF-8 encoding, theorem `escape_encodeStr`) -/
def escapeCp (c : Nat) : List UInt8 := piece c (encode c)
def escapeStr (s : List Nat) : List UInt8 := s.flatMap escapeCp

/-! ### OPL parser -/

inductive PErr where
  /-- `opl_error{"eol"}` -/
  | eol
  /-- `opl_error{"not a hex char"}` -/
  | notHex
  /-- `opl_error{"hex escape too long"}` -/
  | tooLong
  deriving Repr, DecidableEq

/-- value of a hex character as `opl_parse_escaped` computes it -/
def hexVal (c : UInt8) : Option Nat :=
  let n := c.toNat
  if 0x30 ≤ n ∧ n ≤ 0x39 then some (n - 0x30)
  else if 0x61 ≤ n ∧ n ≤ 0x66 then some (n - 0x61 + 10)
  else if 0x41 ≤ n ∧ n ≤ 0x46 then some (n - 0x41 + 10)
  else none

/-- `opl_parse_escaped(&s, result)`: `n` = iterations of `while (++length <= max_length)`
    left (starts at 8), `value` the `uint32_t` accumulator.  Returns the bytes appended to
    `result` and the remaining input. -/
def parseEscaped : Nat → Nat → List UInt8 → Except PErr (List UInt8 × List UInt8)
  | 0, _, _ => .error .tooLong
  | _ + 1, _, [] => .error .eol
  | n + 1, value, c :: s =>
    if c = 0 then .error .eol
    else if c = 0x25 then .ok (if value = 0 then [0x25] else encode value, s)
    else match hexVal c with
      | none => .error .notHex
      | some d => parseEscaped n (((value <<< 4) % 2 ^ 32) + d) s

/-- `opl_parse_string` stops at end of string, space, tab, comma, equals -/
def isStop (c : UInt8) : Bool := c = 0 || c = 0x20 || c = 0x09 || c = 0x2c || c = 0x3d

/-- `opl_parse_string(&s, result)`: returns the bytes appended to `result` and the
    remaining input (starting at the stop character). -/
def parseStringLoop : Nat → List UInt8 → Except PErr (List UInt8 × List UInt8)
  | 0, _ => .error .tooLong
  | _ + 1, [] => .ok ([], [])
  | fuel + 1, c :: s =>
    if isStop c then .ok ([], c :: s)
    else if c = 0x25 then
      match parseEscaped 8 0 s with
      | .error e => .error e
      | .ok (p, rest) =>
        match parseStringLoop fuel rest with
        | .error e => .error e
        | .ok (r, rest') => .ok (p ++ r, rest')
    else
      match parseStringLoop fuel s with
      | .error e => .error e
      | .ok (r, rest') => .ok (c :: r, rest')

def parseString (bs : List UInt8) : Except PErr (List UInt8 × List UInt8) :=
  parseStringLoop (bs.length + 1) bs

/-- characters with structural meaning in an OPL line (besides '%', which only occurs as
    the delimiter of an escape): NUL, tab, LF, CR, space, comma, '=', '@' -/
def structural : List Nat := [0x00, 0x09, 0x0a, 0x0d, 0x20, 0x2c, 0x3d, 0x40]

end Osmium.Opl

namespace Osmium.Xml
open Osmium.Utf8

/-- replacement of byte `b` in `append_xml_encoded_string`, as dumped from the compiled code -/
def entity (b : Nat) : Option (List Nat) :=
  (Generated.xmlEntities.find? fun p => p.1 == b).map (·.2)

def escapeByte (b : UInt8) : List UInt8 :=
  match entity b.toNat with
  | some r => r.map UInt8.ofNat
  | none => [b]

/-- `append_xml_encoded_string(out, data)` -/
def escape (bs : List UInt8) : List UInt8 := bs.flatMap escapeByte

/-- code-point view of the same: what `escape` does to the UTF-8 encoding of `c` -/
def escapeCp (c : Nat) : List Nat :=
  match entity c with
  | some r => r
  | none => [c]

/-! ### expat contract for an attribute value

The document `<a v="TEXT"/>` is parsed as UTF-8.  Contract (XML 1.0 §2.2, §3.3.3, §4.1, §4.6 as
implemented by expat 2.x), on input that is well-formed UTF-8:
* every character must match the `Char` production (`charOk`), else "invalid token";
* `<` is not allowed in an attribute value, `"` ends it (the rest is then not an attribute);
* literal TAB, LF, CR are normalised to a space;
* `&name;` must be one of the five predefined entities; `&#xH;`/`&#D;` must denote a `Char`
  and are NOT normalised;
* everything else is copied. -/

def charOk (c : Nat) : Bool :=
  c == 0x9 || c == 0xa || c == 0xd || (0x20 ≤ c && c ≤ 0xd7ff) || (0xe000 ≤ c && c ≤ 0xfffd) ||
  (0x10000 ≤ c && c ≤ 0x10ffff)

def hexVal (c : Nat) : Option Nat :=
  if 0x30 ≤ c ∧ c ≤ 0x39 then some (c - 0x30)
  else if 0x61 ≤ c ∧ c ≤ 0x66 then some (c - 0x61 + 10)
  else if 0x41 ≤ c ∧ c ≤ 0x46 then some (c - 0x41 + 10)
  else none

def decVal (c : Nat) : Option Nat :=
  if 0x30 ≤ c ∧ c ≤ 0x39 then some (c - 0x30) else none

/-- digits in base `b`; values ≥ 0x110000 are rejected as soon as they are reached -/
def number (b : Nat) (dv : Nat → Option Nat) : List Nat → Nat → Option Nat
  | [], acc => some acc
  | d :: ds, acc =>
    match dv d with
    | none => none
    | some v => if acc * b + v ≥ 0x110000 then none else number b dv ds (acc * b + v)

/-- value of the reference `&body;` -/
def refValue (body : List Nat) : Option Nat :=
  if body = [0x61, 0x6d, 0x70] then some 0x26            -- amp
  else if body = [0x6c, 0x74] then some 0x3c             -- lt
  else if body = [0x67, 0x74] then some 0x3e             -- gt
  else if body = [0x71, 0x75, 0x6f, 0x74] then some 0x22 -- quot
  else if body = [0x61, 0x70, 0x6f, 0x73] then some 0x27 -- apos
  else match body with
    | 0x23 :: 0x78 :: d :: ds =>
      match number 16 hexVal (d :: ds) 0 with
      | some v => if charOk v then some v else none
      | none => none
    | 0x23 :: d :: ds =>
      match number 10 decVal (d :: ds) 0 with
      | some v => if charOk v then some v else none
      | none => none
    | _ => none

/-- the attribute-value parser, parametrised by the character-validity test `ok`
    (expat: `charOk`; `fun _ => true` gives the lenient reader used to state injectivity
    for ALL strings) -/
def unescapeCpsWith (ok : Nat → Bool) : Nat → List Nat → Option (List Nat)
  | 0, _ => none
  | _ + 1, [] => some []
  | fuel + 1, c :: rest =>
    if !ok c || c == 0x3c || c == 0x22 then none
    else if c == 0x9 || c == 0xa || c == 0xd then (unescapeCpsWith ok fuel rest).map (0x20 :: ·)
    else if c == 0x26 then
      match rest.dropWhile (· != 0x3b) with
      | [] => none
      | _ :: rest' =>
        match refValue (rest.takeWhile (· != 0x3b)) with
        | none => none
        | some v => (unescapeCpsWith ok fuel rest').map (v :: ·)
    else (unescapeCpsWith ok fuel rest).map (c :: ·)

def unescapeCps : Nat → List Nat → Option (List Nat) := unescapeCpsWith charOk

/-- the same on UTF-8 bytes -/
def unescapeBytesWith (ok : Nat → Bool) (bs : List UInt8) : Option (List UInt8) :=
  match decodeStr bs with
  | .error _ => none
  | .ok cps => (unescapeCpsWith ok (cps.length + 1) cps).map encodeStr

/-- attribute value expat reports for `<a v="bs"/>` (`none` = parse error), for `bs` that
    is the UTF-8 encoding of scalar values -/
def unescapeAttr (bs : List UInt8) : Option (List UInt8) := unescapeBytesWith charOk bs

/-- markup / quote characters and the white space that attribute-value normalisation
    would change: TAB LF CR " ' < >   ('&' only occurs as the start of a reference) -/
def structural : List Nat := [0x09, 0x0a, 0x0d, 0x22, 0x27, 0x3c, 0x3e]

end Osmium.Xml
