/-
Pipeline — the osmium::io::Reader pipeline as a monitor machine (C05, C07).  Core-only.

Threads (fixed ids): 0 = consumer (the thread that owns the Reader), 1 = read thread
(ReadThreadManager::run_in_thread, io/detail/read_thread.hpp), 2 = parser thread
(Reader::parser_thread → Parser::parse, io/reader.hpp / io/detail/input_format.hpp),
`c.workers` = pool workers (thread/pool.hpp).

Queues: `inq` = Reader::m_input_queue (futures of strings, producer 1, consumer 2) and
`outq` = Reader::m_osmdata_queue (futures of buffers, producer 2, consumer 0) are FULL copies of
the queue machine of Model/QueueSM.lean (C19): every queue event of the pipeline is a QueueSM
event (unlocked `m_in_use` test, polling bounded push, shutdown = flag then lock+drain+
notify_all, push is a no-op once not in use); the pipeline only adds guards (who may call what,
with which element) and tracks what the calling thread does next.  Queue elements are future
ids (input queue: even ids 2k for the k-th future the read thread creates; osmdata queue: odd
ids 2k+1 for the k-th future the parser thread creates); `fut id` is the shared state of the
future (none = not ready), `want id` a ghost: the value the future is going to get (fixed when
it is created).

The pool is abstracted to its work queue as a FIFO list plus "worker w runs job" (C19 is about
the pool itself): a job taken by ANY idle worker, finished at ANY later step.

Data.  `c.file` = the objects of the file in file order = the result of the single-threaded
decode.  `chunkEnd[i]` = number of objects whose bytes are complete once pieces 0..i of the
input have arrived (for PBF: objects of complete blobs); `blobEnd[b]` = number of objects up to
and including blob b.  The decoder applies the projection `proj` (entity mask `sel`, then
`strip` for read_meta::no).  Buffers are lists of levels: nested buffers oldest first, then
the top buffer (memory/buffer.hpp: grow_internal pushes the full old buffer onto the
m_next_buffer chain; get_last_nested() returns the deepest = oldest).  Buffer capacities are
not fixed: `pObj grow` lets the buffer grow internally (nest) before ANY object, which covers
every capacity; the split of a decoded PBF blob into levels is a parameter of `pBlob`.

Faults (C07): `readFault = some j` — the j-th (0-based) decompressor.read() throws;
`closeFault` — decompressor.close() throws; `parseFault = some f` — the parser throws when it
reaches object f (f = file.length: at the end of the input); `blobFault = some b` — decoding
blob b throws (in a pool worker, or inline).  Exception codes: 1 read, 2 close, 3 parser,
4 blob.  The consumer is an arbitrary client: any sequence of header()/read()/close() calls,
then the destructor, each started when the previous one has returned.
-/
import Osmium.Model.QueueSM

namespace Osmium.Pipeline

open Osmium.Mon Osmium

/-- thread ids -/
abbrev tC : Tid := 0
abbrev tR : Tid := 1
abbrev tP : Tid := 2

inductive Val (α : Type) where
  | chunk (i : Nat)                  -- i-th piece of decompressed input
  | buf (levels : List (List α))     -- valid buffer: nested buffers oldest first, then the top buffer
  | eod                              -- end-of-data marker: empty string / invalid buffer
  | exc (code : Nat)                 -- the future holds an exception
  deriving DecidableEq, Repr

inductive Status where
  | okay | error | closed | eof
  deriving DecidableEq, Repr

/-- what an API call returns to the caller -/
inductive Res (α : Type) where
  | ok                       -- header() returned the header / close() returned
  | data (objs : List α)     -- read() returned a valid buffer with these objects
  | eof                      -- read() returned an invalid buffer
  | ioError                  -- io_error because of the Reader's status (not a pipeline failure)
  | exc (code : Nat)         -- the exception of a pipeline stage was rethrown to the caller
  deriving DecidableEq, Repr

structure Cfg (α : Type) where
  file : List α
  sel : α → Bool
  strip : α → α
  chunkEnd : List Nat
  pbf : Bool
  blobEnd : List Nat
  usePool : Bool
  workers : List Tid
  wqMax : Nat
  inqC : QueueSM.Cfg
  outqC : QueueSM.Cfg
  single : Bool
  nothing : Bool
  readFault : Option Nat
  closeFault : Bool
  parseFault : Option Nat
  blobFault : Option Nat

variable {α : Type}

/-- the decoder's projection: entity mask, then metadata stripping -/
def proj (c : Cfg α) (l : List α) : List α := (l.filter c.sel).map c.strip

/-- Spec: what a Reader with this mask/metadata setting has to deliver. -/
def deliver (c : Cfg α) : List α := proj c c.file

/-- objects a..b-1 of the file -/
def seg (c : Cfg α) (a b : Nat) : List α := (c.file.drop a).take (b - a)

def nth (l : List Nat) (i : Nat) : Nat := l.getD i 0

/-- all nested levels of a buffer hold data (grow_internal only nests a buffer with committed data) -/
def wfLevels : List (List α) → Bool
  | [] => false
  | [_] => true
  | l :: rest => !l.isEmpty && wfLevels rest

/-- continuation of the read thread after a push -/
inductive RK where
  | loop | eodNext | exit
  deriving DecidableEq, Repr

inductive RPc (α : Type) where
  | loop                                   -- `while (!m_done)` about to test the flag
  | reading                                -- about to call m_decompressor.read()
  | closing                                -- about to call m_decompressor.close()
  | push (v : Val α) (k : RK)              -- add_to_queue: about to call push()
  | pushing (id : Nat) (v : Val α) (k : RK)  -- inside push()
  | pushed (id : Nat) (v : Val α) (k : RK)   -- push() returned, promise not yet set
  | done                                   -- thread function returned
  deriving DecidableEq, Repr

/-- continuation of the parser thread -/
inductive PK where
  | run | eodNext | dtor | exit
  deriving DecidableEq, Repr

inductive PPc (α : Type) where
  | run                                    -- inside Parser::run()
  | popWait                                -- inside wait_and_pop(m_input_queue)
  | got (id : Nat)                         -- holds a future from the input queue
  | sdIn (k : PK)                          -- about to call m_input_queue.shutdown()
  | sdInRun (k : PK)                       -- inside it
  | push (v : Val α) (k : PK)              -- add_to_queue(m_output_queue, v)
  | pushFut (id : Nat) (k : PK)            -- send_to_output_queue(future of a submitted blob)
  | pushing (id : Nat) (v : Option (Val α)) (k : PK)
  | pushed (id : Nat) (v : Val α) (k : PK)
  | caught (code : Nat)                    -- in the catch block of Parser::parse()
  | done
  deriving DecidableEq, Repr

/-- what close() does when it is done -/
inductive CK where
  | ret                  -- close() called by the client: return
  | rethrow (code : Nat) -- called from the catch block of read()/header(): status = error, rethrow
  | dtor                 -- called by ~Reader: go on destructing
  deriving DecidableEq, Repr

inductive CPc (α : Type) where
  | idle
  | hdrWait                        -- header(): m_header_future.get()
  | readPop                        -- read(): queue_wrapper::pop about to test in_use()
  | readWaitPop                    -- inside wait_and_pop(m_osmdata_queue)
  | readGot (id : Nat)             -- holds a future from the osmdata queue
  | eodSd | eodSdRun               -- popped the end marker: m_queue.shutdown()
  | eofJoin                        -- status = eof: m_read_thread_manager.close()
  | closeSd (k : CK) | closeSdRun (k : CK)   -- close(): m_osmdata_queue_wrapper.shutdown()
  | closeJoin (k : CK)             -- close(): m_read_thread_manager.close() joins the read thread
  | dtorJoinP                      -- ~thread_handler joins the parser thread
  | dtorSd | dtorSdRun             -- ~queue_wrapper: shutdown() once more
  | ret (r : Res α)                -- the call is about to return r
  | dead                           -- destructed
  deriving DecidableEq, Repr

structure State (α : Type) where
  inq : QueueSM.State Nat
  outq : QueueSM.State Nat
  fut : Nat → Option (Val α)
  want : Nat → Val α
  nIn : Nat                   -- futures created by the read thread so far
  nOut : Nat                  -- futures created by the parser thread so far
  -- read thread
  rpc : RPc α
  stop : Bool                 -- ReadThreadManager::m_done
  reads : Nat                 -- decompressor.read() calls so far
  -- parser thread
  ppc : PPc α
  avail : Nat
  next : Nat
  inputDone : Bool
  hdr : Option (Option Nat)   -- header promise: not set / value / exception code
  hdrSets : Nat               -- ghost: number of set_value/set_exception calls on the promise
  nested : List (List α)
  cur : List α
  blob : Nat
  -- pool
  work : List Nat             -- future ids of submitted blobs, front first
  wpc : Tid → Option Nat      -- the job a worker is running
  -- consumer
  cpc : CPc α
  status : Status
  back : List (List α)        -- m_back_buffers, oldest first
  hdrGot : Bool               -- m_header_future already consumed
  -- ghost history
  delivered : List α          -- every object handed to the caller, in order
  results : List (Res α)      -- results of header()/read()/close() calls, in order
  faulted : Bool              -- some stage has raised an exception
  sawEod : Bool               -- read() has returned the end marker it popped from the queue
  readsAtClose : Option Nat   -- `reads` when the first close() / destructor-close returned
  destroyed : Bool

def init (α : Type) : State α :=
  { inq := QueueSM.init Nat, outq := QueueSM.init Nat, fut := fun _ => none, want := fun _ => .eod, nIn := 0, nOut := 0,
    rpc := .loop, stop := false, reads := 0,
    ppc := .run, avail := 0, next := 0, inputDone := false, hdr := none, hdrSets := 0, nested := [], cur := [], blob := 0,
    work := [], wpc := fun _ => none,
    cpc := .idle, status := .okay, back := [], hdrGot := false,
    delivered := [], results := [], faulted := false, sawEod := false, readsAtClose := none, destroyed := false }

inductive Ev (α : Type) where
  | qi (e : QueueSM.Ev Nat)          -- event of the input queue
  | qo (e : QueueSM.Ev Nat)          -- event of the osmdata queue
  -- read thread
  | rTestDone (saw : Bool)
  | rRead (out : Val α)              -- chunk i / eod (empty string) / exc 1
  | rCloseDec (ok : Bool)
  | rSet
  -- parser thread
  | pInUse (saw : Bool)
  | pGet (v : Val α)
  | pHeader
  | pObj (grow : Bool)
  | pThrow
  | pFlushNested
  | pNewBuf
  | pFlushFinal
  | pRunEnd
  | pBlob (split : List (List α))
  | pCatch
  | pSet
  -- pool
  | wStart (w : Tid)
  | wDone (w : Tid)
  -- consumer
  | cHeader
  | cHeaderGet
  | cRead
  | cInUse (saw : Bool)
  | cGet (v : Val α)
  | cClose
  | cDtor
  | cJoinR
  | cJoinP
  | cRet (r : Res α)
  deriving DecidableEq, Repr

variable [DecidableEq α]

def rCont : RK → RPc α
  | .loop => .loop
  | .eodNext => .push .eod .exit
  | .exit => .done

def pCont : PK → PPc α
  | .run => .run
  | .eodNext => .push .eod .dtor
  | .dtor => .sdIn .exit
  | .exit => .done

/-- `buffer = pop(); if nested: m_back_buffers = buffer, buffer = oldest; if committed > 0 return` -/
def afterPop (s : State α) (levels : List (List α)) : State α :=
  match levels with
  | [] => { s with cpc := .readPop }
  | [top] =>
    if top.isEmpty then { s with cpc := .readPop }
    else { s with cpc := .ret (.data top), delivered := s.delivered ++ top }
  | l :: rest =>
    if l.isEmpty then { s with back := rest, cpc := .readPop }
    else { s with back := rest, cpc := .ret (.data l), delivered := s.delivered ++ l }

/-- close() has joined the read thread: what happens next -/
def afterClose (s : State α) (k : CK) : State α :=
  let s := { s with readsAtClose := s.readsAtClose.or (some s.reads) }
  match k with
  | .ret => { s with cpc := .ret .ok }
  | .rethrow c => { s with status := .error, cpc := .ret (.exc c) }
  | .dtor => { s with cpc := .dtorJoinP }

def step? (c : Cfg α) (s : State α) : Ev α → Option (State α)
  -- ------------------------------------------------------------ input queue
  | .qi e =>
    match e with
    | .pushEnter t x =>
      if t = tR then
        match s.rpc with
        | .push v k =>
          if x = 2 * s.nIn then
            (QueueSM.step? c.inqC s.inq e).map fun q =>
              { s with inq := q, rpc := .pushing x v k, want := setPc s.want x v, nIn := s.nIn + 1 }
          else none
        | _ => none
      else none
    | .pushTest t saw =>
      if t = tR then
        match s.rpc with
        | .pushing id v k =>
          (QueueSM.step? c.inqC s.inq e).map fun q =>
            { s with inq := q, rpc := if saw then .pushing id v k else .pushed id v k }
        | _ => none
      else none
    | .pushSize t _ | .pushFullWaited t _ =>
      if t = tR then (QueueSM.step? c.inqC s.inq e).map fun q => { s with inq := q } else none
    | .pushLocked t _ _ =>
      if t = tR then
        match s.rpc with
        | .pushing id v k => (QueueSM.step? c.inqC s.inq e).map fun q => { s with inq := q, rpc := .pushed id v k }
        | _ => none
      else none
    | .popNow t _ r | .popWake t _ r =>
      if t = tP ∧ s.ppc = .popWait then
        (QueueSM.step? c.inqC s.inq e).map fun q =>
          match r with
          | some it => { s with inq := q, ppc := .got it.2 }
          | none => { s with inq := q, ppc := .run, inputDone := true }
      else none
    | .popBlock t | .popRewait t =>
      if t = tP ∧ s.ppc = .popWait then (QueueSM.step? c.inqC s.inq e).map fun q => { s with inq := q } else none
    | .tryPop _ _ _ => none
    | .sdEnter t =>
      if t = tP then
        match s.ppc with
        | .sdIn k => (QueueSM.step? c.inqC s.inq e).map fun q => { s with inq := q, ppc := .sdInRun k }
        | _ => none
      else none
    | .sdFlag t =>
      if t = tP then (QueueSM.step? c.inqC s.inq e).map fun q => { s with inq := q } else none
    | .sdLocked t =>
      if t = tP then
        match s.ppc with
        | .sdInRun k => (QueueSM.step? c.inqC s.inq e).map fun q => { s with inq := q, ppc := pCont k }
        | _ => none
      else none
  -- ------------------------------------------------------------ osmdata queue
  | .qo e =>
    match e with
    | .pushEnter t x =>
      if t = tP then
        match s.ppc with
        | .push v k =>
          if x = 2 * s.nOut + 1 then
            (QueueSM.step? c.outqC s.outq e).map fun q =>
              { s with outq := q, ppc := .pushing x (some v) k, want := setPc s.want x v, nOut := s.nOut + 1 }
          else none
        | .pushFut id k =>
          if x = id then
            (QueueSM.step? c.outqC s.outq e).map fun q => { s with outq := q, ppc := .pushing id none k }
          else none
        | _ => none
      else none
    | .pushTest t saw =>
      if t = tP then
        match s.ppc with
        | .pushing id ov k =>
          (QueueSM.step? c.outqC s.outq e).map fun q =>
            { s with outq := q, ppc := if saw then .pushing id ov k else
                match ov with
                | some v => .pushed id v k
                | none => pCont k }
        | _ => none
      else none
    | .pushSize t _ | .pushFullWaited t _ =>
      if t = tP then (QueueSM.step? c.outqC s.outq e).map fun q => { s with outq := q } else none
    | .pushLocked t _ _ =>
      if t = tP then
        match s.ppc with
        | .pushing id ov k =>
          (QueueSM.step? c.outqC s.outq e).map fun q =>
            { s with outq := q, ppc := match ov with
                | some v => .pushed id v k
                | none => pCont k }
        | _ => none
      else none
    | .popNow t _ r | .popWake t _ r =>
      if t = tC ∧ s.cpc = .readWaitPop then
        (QueueSM.step? c.outqC s.outq e).map fun q =>
          match r with
          | some it => { s with outq := q, cpc := .readGot it.2 }
          | none => { s with outq := q, status := .eof, stop := true, cpc := .eofJoin }
      else none
    | .popBlock t | .popRewait t =>
      if t = tC ∧ s.cpc = .readWaitPop then (QueueSM.step? c.outqC s.outq e).map fun q => { s with outq := q } else none
    | .tryPop _ _ _ => none
    | .sdEnter t =>
      if t = tC then
        match s.cpc with
        | .closeSd k => (QueueSM.step? c.outqC s.outq e).map fun q => { s with outq := q, cpc := .closeSdRun k }
        | .eodSd => (QueueSM.step? c.outqC s.outq e).map fun q => { s with outq := q, cpc := .eodSdRun }
        | .dtorSd => (QueueSM.step? c.outqC s.outq e).map fun q => { s with outq := q, cpc := .dtorSdRun }
        | _ => none
      else none
    | .sdFlag t =>
      if t = tC then (QueueSM.step? c.outqC s.outq e).map fun q => { s with outq := q } else none
    | .sdLocked t =>
      if t = tC then
        match s.cpc with
        | .closeSdRun k => (QueueSM.step? c.outqC s.outq e).map fun q => { s with outq := q, cpc := .closeJoin k }
        | .eodSdRun =>
          (QueueSM.step? c.outqC s.outq e).map fun q =>
            { s with outq := q, status := .eof, stop := true, sawEod := true, cpc := .eofJoin }
        | .dtorSdRun => (QueueSM.step? c.outqC s.outq e).map fun q => { s with outq := q, cpc := .dead, destroyed := true }
        | _ => none
      else none
  -- ------------------------------------------------------------ read thread (read_thread.hpp:70-89)
  | .rTestDone saw =>
    if s.rpc = .loop ∧ saw = s.stop then
      some { s with rpc := if saw then .closing else .reading }
    else none
  | .rRead out =>
    if s.rpc = .reading then
      if c.readFault = some s.reads then
        if out = .exc 1 then some { s with reads := s.reads + 1, faulted := true, rpc := .push (.exc 1) .eodNext } else none
      else if s.reads < c.chunkEnd.length then
        if out = .chunk s.reads then some { s with reads := s.reads + 1, rpc := .push (.chunk s.reads) .loop } else none
      else
        if out = .eod then some { s with reads := s.reads + 1, rpc := .closing } else none
    else none
  | .rCloseDec ok =>
    if s.rpc = .closing ∧ ok = !c.closeFault then
      if ok then some { s with rpc := .push .eod .exit }
      else some { s with faulted := true, rpc := .push (.exc 2) .eodNext }
    else none
  | .rSet =>
    match s.rpc with
    | .pushed id v k => some { s with fut := setPc s.fut id (some v), rpc := rCont k }
    | _ => none
  -- ------------------------------------------------------------ parser thread
  | .pInUse saw =>
    -- Parser::get_input → queue_wrapper::pop: `if (m_queue.in_use())`.  The parser may ask for more input
    -- before it has produced every object of the data it holds (look-ahead of the o5m/XML parsers).
    if s.ppc = .run ∧ s.inputDone = false ∧ saw = s.inq.inUse then
      if saw then some { s with ppc := .popWait } else some { s with inputDone := true }
    else none
  | .pGet v =>
    match s.ppc with
    | .got id =>
      if s.fut id = some v then
        match v with
        | .chunk i => some { s with ppc := .run, avail := nth c.chunkEnd i }
        | .eod => some { s with ppc := .sdIn .run, inputDone := true }
        | .exc code => some { s with ppc := .caught code }
        | .buf _ => none
      else none
    | _ => none
  | .pHeader =>
    -- set_header_value (input_format.hpp:100-105): once only
    if s.ppc = .run ∧ s.hdr = none then some { s with hdr := some none, hdrSets := s.hdrSets + 1 } else none
  | .pObj grow =>
    -- one object decoded into ParserWithBuffer::m_buffer (auto_grow::internal) and committed
    if s.ppc = .run ∧ c.pbf = false ∧ s.hdr ≠ none ∧ s.next < s.avail ∧ c.parseFault ≠ some s.next then
      match c.file[s.next]? with
      | some o =>
        if c.sel o then
          if grow ∧ s.cur ≠ [] then some { s with next := s.next + 1, nested := s.nested ++ [s.cur], cur := [c.strip o] }
          else some { s with next := s.next + 1, cur := s.cur ++ [c.strip o] }
        else some { s with next := s.next + 1 }
      | none => none
    else none
  | .pThrow =>
    if s.ppc = .run ∧ c.parseFault = some s.next ∧ (s.next < s.avail ∨ s.inputDone = true) then
      some { s with ppc := .caught 3, faulted := true }
    else none
  | .pFlushNested =>
    -- flush_nested_buffer (input_format.hpp:209-214): the OLDEST nested buffer goes out
    if s.ppc = .run then
      match s.nested with
      | b :: rest => some { s with nested := rest, ppc := .push (.buf [b]) .run }
      | [] => none
    else none
  | .pNewBuf =>
    -- maybe_new_buffer (input_format.hpp:222-231), buffers_type::single
    if s.ppc = .run ∧ c.single = true ∧ s.cur ≠ [] then
      some { s with nested := [], cur := [], ppc := .push (.buf (s.nested ++ [s.cur])) .run }
    else none
  | .pFlushFinal =>
    -- flush_final_buffer (input_format.hpp:216-220): the whole buffer including what is nested
    if s.ppc = .run ∧ s.inputDone = true ∧ s.next = s.avail ∧ s.cur ≠ [] then
      some { s with nested := [], cur := [], ppc := .push (.buf (s.nested ++ [s.cur])) .run }
    else none
  | .pRunEnd =>
    -- run() returns: all input used and flushed, or nothing is wanted and the header is known, or (PBF,
    -- pbf_input_format.hpp parse_data_blobs: `while (output_queue_in_use())`, an unlocked read of the
    -- osmdata queue's m_in_use) the consumer has shut the osmdata queue down
    if s.ppc = .run ∧ s.hdr ≠ none ∧ s.cur = [] ∧
        ((s.inputDone = true ∧ s.next = s.avail ∧ c.parseFault ≠ some s.next) ∨ c.nothing = true
          ∨ (c.pbf = true ∧ s.outq.inUse = false)) then
      some { s with ppc := .push .eod .dtor }
    else none
  | .pBlob split =>
    -- PBFParser::parse_data_blobs (pbf_input_format.hpp:229-246)
    if s.ppc = .run ∧ c.pbf = true ∧ s.hdr ≠ none ∧ c.nothing = false ∧ s.blob < c.blobEnd.length
        ∧ nth c.blobEnd s.blob ≤ s.avail ∧ s.next ≤ nth c.blobEnd s.blob ∧ c.parseFault ≠ some s.next
        ∧ wfLevels split = true ∧ split.flatten = proj c (seg c s.next (nth c.blobEnd s.blob)) then
      let v : Val α := if c.blobFault = some s.blob then .exc 4 else .buf split
      if c.usePool then
        -- submit(): packaged_task + future, push to the work queue (bounded), THEN the future is pushed
        if c.wqMax = 0 ∨ s.work.length < c.wqMax then
          some { s with next := nth c.blobEnd s.blob, blob := s.blob + 1, work := s.work ++ [2 * s.nOut + 1],
                        want := setPc s.want (2 * s.nOut + 1) v, nOut := s.nOut + 1, ppc := .pushFut (2 * s.nOut + 1) .run,
                        faulted := s.faulted || decide (c.blobFault = some s.blob) }
        else none
      else
        if c.blobFault = some s.blob then some { s with ppc := .caught 4, faulted := true }
        else some { s with next := nth c.blobEnd s.blob, blob := s.blob + 1, ppc := .push v .run }
    else none
  | .pCatch =>
    -- Parser::parse catch block (input_format.hpp:154-165)
    match s.ppc with
    | .caught code =>
      some { s with hdr := s.hdr.or (some (some code)), hdrSets := if s.hdr = none then s.hdrSets + 1 else s.hdrSets,
                    ppc := .push (.exc code) .eodNext }
    | _ => none
  | .pSet =>
    match s.ppc with
    | .pushed id v k => some { s with fut := setPc s.fut id (some v), ppc := pCont k }
    | _ => none
  -- ------------------------------------------------------------ pool
  | .wStart w =>
    if w ∈ c.workers ∧ s.wpc w = none then
      match s.work with
      | id :: rest => some { s with work := rest, wpc := setPc s.wpc w (some id) }
      | [] => none
    else none
  | .wDone w =>
    match s.wpc w with
    | some id => some { s with wpc := setPc s.wpc w none, fut := setPc s.fut id (some (s.want id)) }
    | none => none
  -- ------------------------------------------------------------ consumer (reader.hpp)
  | .cHeader =>
    if s.cpc = .idle then
      if s.status = .error then some { s with cpc := .ret .ioError }
      else if s.hdrGot then some { s with cpc := .ret .ok }
      else some { s with cpc := .hdrWait }
    else none
  | .cHeaderGet =>
    if s.cpc = .hdrWait then
      match s.hdr with
      | some none => some { s with hdrGot := true, cpc := .ret .ok }
      | some (some code) => some { s with hdrGot := true, status := .closed, stop := true, cpc := .closeSd (.rethrow code) }
      | none => none
    else none
  | .cRead =>
    if s.cpc = .idle then
      match s.back with
      | b :: rest => some { s with back := rest, cpc := .ret (.data b), delivered := s.delivered ++ b }
      | [] =>
        if s.status ≠ .okay then some { s with cpc := .ret .ioError }
        else if c.nothing then some { s with status := .eof, cpc := .ret .eof }
        else some { s with cpc := .readPop }
    else none
  | .cInUse saw =>
    if s.cpc = .readPop ∧ saw = s.outq.inUse then
      if saw then some { s with cpc := .readWaitPop }
      else some { s with status := .eof, stop := true, cpc := .eofJoin }
    else none
  | .cGet v =>
    match s.cpc with
    | .readGot id =>
      if s.fut id = some v then
        match v with
        | .buf levels => some (afterPop s levels)
        | .eod => some { s with cpc := .eodSd }
        | .exc code => some { s with status := .closed, stop := true, cpc := .closeSd (.rethrow code) }
        | .chunk _ => none
      else none
    | _ => none
  | .cClose =>
    if s.cpc = .idle then some { s with status := .closed, stop := true, cpc := .closeSd .ret } else none
  | .cDtor =>
    if s.cpc = .idle then some { s with status := .closed, stop := true, cpc := .closeSd .dtor } else none
  | .cJoinR =>
    if s.rpc = .done then
      match s.cpc with
      | .closeJoin k => some (afterClose s k)
      | .eofJoin => some { s with cpc := .ret .eof }
      | _ => none
    else none
  | .cJoinP =>
    if s.cpc = .dtorJoinP ∧ s.ppc = .done then some { s with cpc := .dtorSd } else none
  | .cRet r =>
    match s.cpc with
    | .ret r' => if r = r' then some { s with cpc := .idle, results := s.results ++ [r] } else none
    | _ => none

def machine (c : Cfg α) : Machine (State α) (Ev α) := { init := init α, step? := step? c }

/-- the pipeline has terminated: the Reader is destructed (all threads joined) -/
def terminated (s : State α) : Prop := s.destroyed = true

/-- a complete read: the consumer has received the end-of-data marker -/
def completed (s : State α) : Prop := s.sawEod = true

/-! ## trace driver (shared by lean/Driver/C05.lean and lean/Driver/C07.lean)

Line protocol.  `cfg k=v …` starts a scenario over objects `0 … n-1` (`file = List.range n`,
`strip = id`, `sel o = mask bit of types[o]`), then one event per line, `end` prints a summary.
Output: `ok` / `reject <why>` (first event that is not an enabled transition) / `skip`. -/
namespace Trace

def words (line : String) : List String :=
  (line.trimAscii.toString.splitOn " ").filter (· ≠ "")

def natList (s : String) : Option (List Nat) :=
  if s == "-" then some [] else ((s.splitOn ",").filter (· ≠ "")).mapM (·.toNat?)

/-- "1,2;3;-" → [[1,2],[3],[]] -/
def levelList (s : String) : Option (List (List Nat)) :=
  (s.splitOn ";").mapM natList

def optNat (s : String) : Option (Option Nat) :=
  if s == "-" then some none else s.toNat?.map some

def parseVal (s : String) : Option (Val Nat) :=
  match s.splitOn ":" with
  | ["chunk", i] => i.toNat?.map .chunk
  | ["buf", l] => (levelList l).map .buf
  | ["eod"] => some .eod
  | ["exc", c] => c.toNat?.map .exc
  | _ => none

def parseRes (s : String) : Option (Res Nat) :=
  match s.splitOn ":" with
  | ["ok"] => some .ok
  | ["data", l] => (natList l).map .data
  | ["eof"] => some .eof
  | ["ioerror"] => some .ioError
  | ["exc", c] => c.toNat?.map .exc
  | _ => none

def parseItem (s : String) : Option (Option (QueueSM.Item Nat)) :=
  if s == "-" then some none else
  match s.splitOn ":" with
  | [p, v] => do
    let p ← p.toNat?
    let v ← v.toNat?
    some (some (p, v))
  | _ => none

def parseQEv (t : Tid) (tag : String) (arg : Nat) (pl : String) : Option (QueueSM.Ev Nat) :=
  match tag with
  | "push-enter" => pl.toNat?.map (.pushEnter t)
  | "push-test" => some (.pushTest t (arg != 0))
  | "push-size" => some (.pushSize t arg)
  | "push-full-waited" => some (.pushFullWaited t arg)
  | "push-locked" => (optNat pl).map (.pushLocked t arg)
  | "pop-now" => (parseItem pl).map (.popNow t arg)
  | "pop-block" => some (.popBlock t)
  | "pop-wake" => (parseItem pl).map (.popWake t arg)
  | "pop-rewait" => some (.popRewait t)
  | "sd-enter" => some (.sdEnter t)
  | "sd-flag" => some (.sdFlag t)
  | "sd-locked" => some (.sdLocked t)
  | _ => none

/-- `<tid> <tag> <qid> <arg> <payload>`; qid 1 = input queue, 2 = osmdata queue, 0 = pipeline event -/
def parseEv (t : Tid) (tag : String) (qid arg : Nat) (pl : String) : Option (Ev Nat) :=
  if qid = 1 then (parseQEv t tag arg pl).map .qi
  else if qid = 2 then (parseQEv t tag arg pl).map .qo
  else match tag with
  | "r-test-done" => some (.rTestDone (arg != 0))
  | "r-read" => (parseVal pl).map .rRead
  | "r-close-dec" => some (.rCloseDec (arg != 0))
  | "r-set" => some .rSet
  | "p-in-use" => some (.pInUse (arg != 0))
  | "p-get" => (parseVal pl).map .pGet
  | "p-header" => some .pHeader
  | "p-obj" => some (.pObj (arg != 0))
  | "p-throw" => some .pThrow
  | "p-flush-nested" => some .pFlushNested
  | "p-new-buf" => some .pNewBuf
  | "p-flush-final" => some .pFlushFinal
  | "p-run-end" => some .pRunEnd
  | "p-blob" => (levelList pl).map .pBlob
  | "p-catch" => some .pCatch
  | "p-set" => some .pSet
  | "w-start" => some (.wStart t)
  | "w-done" => some (.wDone t)
  | "c-header" => some .cHeader
  | "c-header-get" => some .cHeaderGet
  | "c-read" => some .cRead
  | "c-in-use" => some (.cInUse (arg != 0))
  | "c-get" => (parseVal pl).map .cGet
  | "c-close" => some .cClose
  | "c-dtor" => some .cDtor
  | "c-join-r" => some .cJoinR
  | "c-join-p" => some .cJoinP
  | "c-ret" => (parseRes pl).map .cRet
  | _ => none

def kvs (ws : List String) : List (String × String) :=
  ws.filterMap fun w => match w.splitOn "=" with
    | [k, v] => some (k, v)
    | _ => none

def look (m : List (String × String)) (k : String) (d : String) : String :=
  ((m.find? (·.1 == k)).map (·.2)).getD d

/-- types: one letter per object (n/w/r/c); mask bits n=1 w=2 r=4 c=8 -/
def typeBit : Char → Nat
  | 'n' => 1 | 'w' => 2 | 'r' => 4 | 'c' => 8 | _ => 0

def parseCfg (ws : List String) : Option (Cfg Nat) := do
  let m := kvs ws
  let types := ((look m "types" "").toList).toArray
  let mask ← (look m "mask" "15").toNat?
  let chunkEnd ← natList (look m "chunks" "-")
  let blobEnd ← natList (look m "blobs" "-")
  let workers ← natList (look m "workers" "-")
  let wq ← (look m "wq" "0").toNat?
  let iq ← (look m "iq" "0").toNat?
  let oq ← (look m "oq" "0").toNat?
  let rf ← optNat (look m "rfault" "-")
  let pf ← optNat (look m "pfault" "-")
  let bf ← optNat (look m "bfault" "-")
  some { file := List.range types.size,
         sel := fun o => (mask.land (typeBit (types.getD o ' '))) != 0,
         strip := id, chunkEnd := chunkEnd, pbf := look m "pbf" "0" == "1", blobEnd := blobEnd,
         usePool := look m "usepool" "0" == "1", workers := workers, wqMax := wq,
         inqC := { max := iq, spurious := true }, outqC := { max := oq, spurious := true },
         single := look m "single" "0" == "1", nothing := mask == 0,
         readFault := rf, closeFault := look m "cfault" "0" == "1", parseFault := pf, blobFault := bf }

def rpcName : RPc Nat → String
  | .loop => "loop" | .reading => "reading" | .closing => "closing" | .push _ _ => "push" | .pushing _ _ _ => "pushing"
  | .pushed _ _ _ => "pushed" | .done => "done"

def ppcName : PPc Nat → String
  | .run => "run" | .popWait => "popWait" | .got _ => "got" | .sdIn _ => "sdIn" | .sdInRun _ => "sdInRun"
  | .push _ _ => "push" | .pushFut _ _ => "pushFut" | .pushing _ _ _ => "pushing" | .pushed _ _ _ => "pushed"
  | .caught _ => "caught" | .done => "done"

def cpcName : CPc Nat → String
  | .idle => "idle" | .hdrWait => "hdrWait" | .readPop => "readPop" | .readWaitPop => "readWaitPop" | .readGot _ => "readGot"
  | .eodSd => "eodSd" | .eodSdRun => "eodSdRun" | .eofJoin => "eofJoin" | .closeSd _ => "closeSd" | .closeSdRun _ => "closeSdRun"
  | .closeJoin _ => "closeJoin" | .dtorJoinP => "dtorJoinP" | .dtorSd => "dtorSd" | .dtorSdRun => "dtorSdRun" | .ret _ => "ret"
  | .dead => "dead"

def statusName : Status → String
  | .okay => "okay" | .error => "error" | .closed => "closed" | .eof => "eof"

def b01 (b : Bool) : String := if b then "1" else "0"

def diag (s : State Nat) : String :=
  s!"model: rpc={rpcName s.rpc} ppc={ppcName s.ppc} cpc={cpcName s.cpc} status={statusName s.status} next={s.next} avail={s.avail} " ++
  s!"inputDone={b01 s.inputDone} reads={s.reads} stop={b01 s.stop} inq(size={s.inq.items.length},in_use={b01 s.inq.inUse}) " ++
  s!"outq(size={s.outq.items.length},in_use={b01 s.outq.inUse}) nested={s.nested.length} cur={s.cur.length} back={s.back.length} nIn={s.nIn} nOut={s.nOut} work={s.work.length} hdr={b01 s.hdr.isSome}"

def summary (c : Cfg Nat) (s : State Nat) : String :=
  s!"final delivered={s.delivered.length} spec={(deliver c).length} prefix={b01 (s.delivered.isPrefixOf (deliver c))} " ++
  s!"complete={b01 (s.delivered == deliver c)} status={statusName s.status} destroyed={b01 s.destroyed} sawEod={b01 s.sawEod} " ++
  s!"faulted={b01 s.faulted} rpc={rpcName s.rpc} ppc={ppcName s.ppc} cpc={cpcName s.cpc} reads={s.reads} hdrSets={s.hdrSets} results={s.results.length}"

inductive Sim where
  | none
  | run (c : Cfg Nat) (s : State Nat)
  | dead

def stepLine (sim : Sim) (line : String) : Sim × String :=
  match words line with
  | "cfg" :: rest =>
    match parseCfg rest with
    | some c => (.run c (init Nat), "ok")
    | none => (.dead, "reject bad-cfg")
  | ["end"] =>
    match sim with
    | .run c s => (sim, summary c s)
    | .dead => (sim, "final dead")
    | .none => (sim, "final none")
  | [t, tag, qid, arg, pl] =>
    match sim with
    | .dead => (sim, "skip")
    | .none => (.dead, "reject no-scenario")
    | .run c s =>
      match t.toNat?, qid.toNat?, arg.toNat? with
      | some t, some qid, some arg =>
        match parseEv t tag qid arg pl with
        | some e =>
          match step? c s e with
          | some s' => (.run c s', "ok")
          | none => (.dead, "reject not-enabled " ++ diag s)
        | none => (.dead, "reject bad-event")
      | _, _, _ => (.dead, "reject bad-line")
  | [] => (sim, "ok")
  | _ => (.dead, "reject bad-line")

end Trace

end Osmium.Pipeline
