/-
Linear-time twins of the carry-over readers of `Osmium.Chunks` (property C06), for the model
driver: the specified functions of Model/Chunks.lean build `rest ++ input`, `buf ++ d`,
`inp ++ d` and `acc ++ o` once per chunk, which is quadratic when one record (an OPL line of
several MiB, a PBF blob, an o5m dataset) arrives in hundreds of thousands of small pieces, and
`findBreak` / `cstr` / `oplScan` are not tail recursive (stack depth = line length).

Every twin is proved EQUAL to the specified function for all arguments
(Lemmas/ChunksFast.lean, restated in Props/C06.lean: `lineByLineF_eq`, `pbfFramesF_eq`,
`ensureF_eq`, `xmlFeed` is linear already), so a stream checked against the twin is checked
against the function the C06 theorems are about.  Nothing here is length dependent either:
there is no branch on the size of a line, of `rest`, of a buffer or of a piece other than the
comparisons the code makes (`size() < need`).   Core-only.
-/
import Osmium.Model.Chunks

namespace Osmium.Chunks

open Osmium.Wire

/-! ## OPL -/

/-- `findBreak`, tail recursive: position counted from `i` -/
def findBreakFrom : Bytes → Nat → Option Nat
  | [], _ => none
  | b :: bs, i => if isBreak b then some i else findBreakFrom bs (i + 1)

/-- `cstr` through the (tail-recursive) library function -/
def cstrF (bs : Bytes) : Bytes := bs.takeWhile (· != 0)

/-- `oplScan` with the lines pushed onto a reversed accumulator -/
def oplScanF : Nat → Bytes → List Bytes → List Bytes × Bytes
  | 0, bs, acc => (acc, bs)
  | fuel + 1, bs, acc =>
    match findBreakFrom bs 0 with
    | none => (acc, bs)
    | some pos =>
      let data := bs.take pos
      let acc' := if data.head? == some 0 || data.isEmpty then acc else cstrF data :: acc
      let after := bs.drop (pos + 1)
      if after.isEmpty then (acc', [])
      else oplScanF fuel after acc'

/-- `oplChunk` with `rest` kept REVERSED (appending a piece = pushing its bytes) and the
    lines pushed onto the reversed accumulator; returns the new reversed `rest`. -/
def oplChunkF (restRev input : Bytes) (acc : List Bytes) : List Bytes × Bytes :=
  if !restRev.isEmpty then
    match findBreakFrom input 0 with
    | none => (acc, input.reverseAux restRev)
    | some ppos =>
      let line := restRev.reverseAux (input.take ppos)
      let acc' := if line.isEmpty then acc else cstrF line :: acc
      let (a, r) := oplScanF input.length (input.drop (ppos + 1)) acc'
      (a, r.reverse)
  else
    let (a, r) := oplScanF input.length input acc
    (a, r.reverse)

def oplRunF : Nat → Src → Bytes → List Bytes → List Bytes
  | 0, _, restRev, acc => (if restRev.isEmpty then acc else cstrF restRev.reverse :: acc).reverse
  | fuel + 1, s, restRev, acc =>
    if s.done then (if restRev.isEmpty then acc else cstrF restRev.reverse :: acc).reverse
    else
      let (input, s') := s.getInput
      let (a, r) := oplChunkF restRev input acc
      oplRunF fuel s' r a

def lineByLineF (cs : List Bytes) : List Bytes :=
  oplRunF (cs.length + 2) { chunks := cs } [] []

/-! ## PBF -/

/-- `PbfIn.ensure` collecting the popped pieces (newest first) and their total length; the
    buffer is assembled once when the loop ends -/
def PbfIn.ensureGo : Nat → Bytes → List Bytes → Nat → Src → Nat → Except PbfErr PbfIn
  | 0, buf, ps, len, s, size =>
    if len < size then .error .truncated else .ok { buf := buf ++ ps.reverse.flatten, src := s }
  | fuel + 1, buf, ps, len, s, size =>
    if len < size then
      let (d, s') := s.getInput
      if s'.done then .error .truncated
      else PbfIn.ensureGo fuel buf (d :: ps) (len + d.length) s' size
    else .ok { buf := buf ++ ps.reverse.flatten, src := s }

def PbfIn.ensureF (fuel : Nat) (p : PbfIn) (size : Nat) : Except PbfErr PbfIn :=
  PbfIn.ensureGo fuel p.buf [] p.buf.length p.src size

def PbfIn.readExactF (p : PbfIn) (size : Nat) : Except PbfErr (Bytes × PbfIn) :=
  match PbfIn.ensureF p.fuel p size with
  | .error e => .error e
  | .ok p' => .ok (p'.buf.take size, { p' with buf := p'.buf.drop size })

def PbfIn.readHeaderSizeF (maxHeader : Nat) (p : PbfIn) : Except PbfErr (Nat × PbfIn) :=
  match p.readExactF 4 with
  | .error _ => if (p.buf ++ p.src.pending).isEmpty then .ok (0, p) else .error .truncated
  | .ok (b, p') =>
    let size := be32 b
    if size > maxHeader then .error .headerTooLarge else .ok (size, p')

def PbfIn.readFrameF (maxHeader maxBlob : Nat) (blobSize : Bool → Bytes → Option Nat) (first : Bool) (p : PbfIn) :
    Except PbfErr (Option (Bytes × Bytes) × PbfIn) :=
  match p.readHeaderSizeF maxHeader with
  | .error e => .error e
  | .ok (hsize, p1) =>
    if hsize == 0 then .ok (none, p1)
    else match p1.readExactF hsize with
      | .error e => .error e
      | .ok (hdr, p2) =>
        match blobSize first hdr with
        | none => .error .headerFormat
        | some bsize =>
          if bsize > maxBlob then .error .blobTooLarge
          else match p2.readExactF bsize with
            | .error e => .error e
            | .ok (blob, p3) => .ok (some (hdr, blob), p3)

def PbfIn.readFramesF (maxHeader maxBlob : Nat) (blobSize : Bool → Bytes → Option Nat) :
    Nat → PbfIn → List (Bytes × Bytes) → List (Bytes × Bytes) × Option PbfErr
  | 0, _, acc => (acc.reverse, none)
  | fuel + 1, p, acc =>
    match p.readFrameF maxHeader maxBlob blobSize acc.isEmpty with
    | .error e => (acc.reverse, some e)
    | .ok (none, _) => (acc.reverse, none)
    | .ok (some f, p') => PbfIn.readFramesF maxHeader maxBlob blobSize fuel p' (f :: acc)

def pbfFramesF (maxHeader maxBlob : Nat) (blobSize : Bool → Bytes → Option Nat) (cs : List Bytes) :
    List (Bytes × Bytes) × Option PbfErr :=
  PbfIn.readFramesF maxHeader maxBlob blobSize ((cs.flatten.length) / 4 + 2) { buf := [], src := { chunks := cs } } []

/-! ## o5m -/

def o5mFillGo : Nat → Bytes → List Bytes → Nat → Src → Nat → Bool × Bytes × Src
  | 0, inp, ps, len, s, need => (decide (len ≥ need), inp ++ ps.reverse.flatten, s)
  | fuel + 1, inp, ps, len, s, need =>
    if len < need then
      let (d, s') := s.getInput
      if s'.done then (false, inp ++ ps.reverse.flatten, s')
      else o5mFillGo fuel inp (d :: ps) (len + d.length) s' need
    else (true, inp ++ ps.reverse.flatten, s)

def o5mFillF (fuel : Nat) (inp : Bytes) (s : Src) (need : Nat) : Bool × Bytes × Src :=
  o5mFillGo fuel inp [] inp.length s need

def O5mIn.ensureF (o : O5mIn) (need : Nat) : Bool × O5mIn :=
  if o.window.length ≥ need then (true, o)
  else if o.src.done && o.consumed + o.window.length < need then (false, o)
  else
    let (ok, inp, s') := o5mFillF (o.src.chunks.length + 1) o.window o.src need
    (ok, { consumed := 0, window := inp, src := s' })

/-! ## the ways out of the carry-over functions that the models have

Compared with what the current source contains (Generated/C06Exits.lean, regenerated on every
run) by `carry_over_exits_modelled` in Props/C06.lean: a `throw`, a named limit or a numeric
constant that appears in one of these functions and is not listed here is behaviour the model
does not have (e.g. a "line too long" error on one carry-over path). -/

/-- (function, exception class) in source order.
    `lineByLine`, `O5mIn.ensure` (returns a Bool) and `xmlFeed` have no error outcome;
    `PbfIn.ensure` → `.truncated`; `readHeaderSize` → `.truncated` ("unexpected EOF": the input ends
    inside the 4-byte length field; once on the file-descriptor path, once on the queue path) and
    `.headerTooLarge`;
    `readFrame` → `.blobTooLarge` and, on the file-descriptor path only (`m_fd != -1`, no queue:
    the `file` streams of the check), "unexpected EOF" = `.truncated`. -/
def modelledThrows : List (String × String) := [
  ("PBFParser::ensure_available_in_input_queue", "osmium::pbf_error"),
  ("PBFParser::read_blob_header_size_from_file", "osmium::pbf_error"),
  ("PBFParser::read_blob_header_size_from_file", "osmium::pbf_error"),
  ("PBFParser::read_blob_header_size_from_file", "osmium::pbf_error"),
  ("PBFParser::read_from_input_queue_with_check", "osmium::pbf_error"),
  ("PBFParser::read_from_input_queue_with_check", "osmium::pbf_error")]

/-- the parameters `maxHeader`, `maxBlob` of `PbfIn.readHeaderSize` / `PbfIn.readFrame` -/
def modelledLimits : List (String × String) := [
  ("PBFParser::read_blob_header_size_from_file", "max_blob_header_size"),
  ("PBFParser::read_from_input_queue_with_check", "max_uncompressed_blob_size")]

end Osmium.Chunks
