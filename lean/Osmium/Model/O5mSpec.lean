/-
Specification ENCODER for the o5m / o5c format, written from the published format
description (https://wiki.openstreetmap.org/wiki/O5m), NOT from libosmium's reader.
Every choice the description leaves to the producer is an explicit input (`Choices`).

What the description fixes (my reading; trusted base of `o5m_decode_spec`):
  * file = 0xff, header dataset `e0 04 "o5m2"` ("o5c2" for change files), datasets, optional 0xfe
  * dataset = type byte (< 0xf0), length (varint), payload; bytes ≥ 0xf0 stand alone;
    0xff = reset (string table and all delta counters start afresh), 0xfe = end of file;
    datasets of unknown type (incl. sync 0xee, jump 0xef) are to be skipped by their length
  * numbers: unsigned varints (7 bits per byte, least significant group first), signed
    numbers zig-zag; delta coded: object id (one counter), timestamp, changeset, lon, lat,
    way node refs, relation member refs (one counter per member type)
  * node 0x10: id, info, [lon, lat, tags…]; way 0x11: id, info, [len of ref section, refs…,
    tags…]; relation 0x12: id, info, [len of ref section, (ref, type+role string)…, tags…];
    an object whose payload ends after the info section is deleted
  * info: 0x00 = none; else version, timestamp; if timestamp ≠ 0: changeset, (uid,user) pair
  * string (pair)s: inline = 0x00 + bytes (each string NUL terminated); uid is stored as its
    varint bytes in the first string of the (uid,user) pair, the anonymous user is the pair
    ("",""); a member's type digit '0'/'1'/'2' is the first character of its role string.
    Every inline string (pair) of at most 250 characters (252 bytes with the two
    terminators) enters the table of the last 15000 strings; instead of an inline string
    that is in the table its number (1 = most recent) may be written as a varint.
  * 0xdc timestamp dataset (one signed number), 0xdb bounding box (four signed numbers).
Core-only.
-/
import Osmium.Model.O5m

namespace Osmium.O5mSpec

open Osmium.Wire Osmium.Osm

abbrev Bytes := List UInt8

/-- what an o5m file describes -/
structure File where
  o5c : Bool := false
  boxes : List (Location × Location) := []
  timestamp : Nat := 0                      -- 0 = no timestamp dataset
  objects : List Object := []
  deriving Repr, DecidableEq

def expectedHeader (f : File) : O5m.FileHeader :=
  { multipleVersions := f.o5c, boxes := f.boxes, timestamp := f.timestamp }

/-! ### the domain: what an o5m file can carry and libosmium can represent -/

def noNul (s : Bytes) : Bool := !s.contains 0
def inI64 (x : Int) : Bool := decide (-9223372036854775808 ≤ x) && decide (x ≤ 9223372036854775807)
def inI32 (x : Int) : Bool := decide (-2147483648 ≤ x) && decide (x ≤ 2147483647)

def tagOk (t : Tag) : Bool :=
  noNul t.key && noNul t.value && decide (t.key.length ≤ 1024) && decide (t.value.length ≤ 1024)

/-- version 31 bits (OSMObject bit field), 32-bit timestamp / changeset / uid; strings without NUL, within
    the library's limits (1024 bytes, also for the user name); no version ⇒ no timestamp ⇒ no changeset/user; uid 0 ⇒ no user name (the
    anonymous user); deleted objects carry no tags -/
def metaOk (m : Meta) : Bool :=
  inI64 m.id && decide (m.version < 2147483648) && decide (m.timestamp < 4294967296) &&
  decide (m.changeset < 4294967296) && decide (m.uid < 4294967296) &&
  noNul m.user && decide (m.user.length ≤ 1024) && m.tags.all tagOk &&
  (m.version != 0 || m.timestamp == 0) &&
  (m.timestamp != 0 || (m.changeset == 0 && m.uid == 0 && m.user.isEmpty)) &&
  (m.uid != 0 || m.user.isEmpty) &&
  (m.visible || m.tags.isEmpty)

def memberOk (x : Member) : Bool :=
  decide (1 ≤ x.type) && decide (x.type ≤ 3) && inI64 x.ref && noNul x.role && decide (x.role.length ≤ 1024)

def objectOk : Object → Bool
  | .node m loc => metaOk m && (if m.visible then inI32 loc.x && inI32 loc.y else loc == Location.undefined)
  | .way m refs => metaOk m && refs.all (fun r => inI64 r.ref && r.location == Location.undefined) && (m.visible || refs.isEmpty)
  | .relation m ms => metaOk m && ms.all memberOk && (m.visible || ms.isEmpty)
  | .changeset .. => false

def locOk (l : Location) : Bool := inI32 l.x && inI32 l.y

/-- a bounding box the library accepts (precondition of `osmium::Box`): both corners defined, or
    bottom-left ≤ top-right in both coordinates -/
def boxOk (b : Location × Location) : Bool :=
  locOk b.1 && locOk b.2 &&
  ((O5m.Location.defined b.1 && O5m.Location.defined b.2) || (decide (b.1.x ≤ b.2.x) && decide (b.1.y ≤ b.2.y)))

def domainOk (f : File) : Bool :=
  f.objects.all objectOk && decide (f.timestamp < 4294967296) && f.boxes.all boxOk

/-- the producer's free choices -/
structure Choices where
  /-- consumed one per string (pair) that is in the table when it is to be written:
      0 = write it inline anyway, k+1 = refer to its k-th most recent occurrence (mod count) -/
  useRef : List Nat := []
  /-- per object, and once more after the last one: what is inserted before it —
      0 nothing, 1 reset, 2 unknown dataset, 3 sync, 4 jump, 5 two resets -/
  before : List Nat := []
  /-- 0 = trailing 0xfe, otherwise none -/
  trailer : Nat := 0
  /-- reset byte right after the header dataset (as osmconvert writes it) -/
  resetAtStart : Bool := false
  /-- the (uid 0, "") pair of a deleted object may be left out when nothing follows it -/
  omitAnonUser : Bool := false
  /-- the anonymous pair ("","") may be written as a table reference like any other pair -/
  refAnon : Bool := true
  deriving Repr, DecidableEq

/-! ### tokens: the encoder's output keeps its structure so that the hostile-input generator
(C03) can damage single fields; `encode` is the flattening -/

inductive Kind | num | len | idx | mark | str
  deriving Repr, DecidableEq

def Kind.name : Kind → String
  | .num => "n" | .len => "l" | .idx => "i" | .mark => "m" | .str => "s"

structure Field where
  kind : Kind
  bytes : Bytes
  deriving Repr, DecidableEq

inductive Tok
  | raw (bs : Bytes)                       -- bytes outside datasets (0xff, 0xfe)
  | ds (type : UInt8) (fields : List Field)
  deriving Repr, DecidableEq

def payload (fs : List Field) : Bytes := (fs.map Field.bytes).flatten

def Tok.bytes : Tok → Bytes
  | .raw bs => bs
  | .ds t fs => t :: (encodeVarint (payload fs).length ++ payload fs)

def flattenToks (ts : List Tok) : Bytes := (ts.map Tok.bytes).flatten

/-! ### encoder state -/

def tableSize : Nat := 15000
def maxPair : Nat := 252

structure EncSt where
  hist : List Bytes := []      -- the string table: most recent first (older than 15000: unreachable)
  id : Int := 0
  ts : Int := 0
  cs : Int := 0
  lon : Int := 0
  lat : Int := 0
  wayNode : Int := 0
  mem0 : Int := 0
  mem1 : Int := 0
  mem2 : Int := 0
  useRef : List Nat := []      -- choices not yet consumed
  deriving Repr, DecidableEq

def EncSt.reset (s : EncSt) : EncSt := { useRef := s.useRef }

/-- the member reference counter of a member type (1 node, 2 way, 3 relation) -/
def EncSt.mem (s : EncSt) (type : Nat) : Int :=
  if type == 1 then s.mem0 else if type == 2 then s.mem1 else s.mem2

def EncSt.setMem (s : EncSt) (type : Nat) (v : Int) : EncSt :=
  if type == 1 then { s with mem0 := v } else if type == 2 then { s with mem1 := v } else { s with mem2 := v }

def svarint (x : Int) : Bytes := encodeVarint (zigzag64 x)

/-- signed difference as a 64-bit producer computes it -/
def delta (new old : Int) : Int := O5m.wrap64 (new - old)

/-- table numbers (0-based) under which `pair` can be referenced -/
def occGo (pair : Bytes) : List Bytes → Nat → List Nat
  | [], _ => []
  | h :: t, i =>
    if i < tableSize then (if h == pair then i :: occGo pair t (i + 1) else occGo pair t (i + 1))
    else []

def occurrences (pair : Bytes) (hist : List Bytes) : List Nat := occGo pair hist 0

/-- write one string (pair) -/
def emitPair (allowRef : Bool) (s : EncSt) (pair : Bytes) : List Field × EncSt :=
  let inline : List Field × EncSt :=
    ([⟨.mark, [0]⟩, ⟨.str, pair⟩], { s with hist := if pair.length ≤ maxPair then pair :: s.hist else s.hist })
  let occ := occurrences pair s.hist
  if occ.isEmpty || !allowRef then inline
  else match s.useRef with
    | [] => inline
    | 0 :: rest => let (f, s') := inline; (f, { s' with useRef := rest })
    | (k + 1) :: rest => ([⟨.idx, encodeVarint (occ.getD (k % occ.length) 0 + 1)⟩], { s with useRef := rest })

def tagPair (t : Tag) : Bytes := t.key ++ [0] ++ t.value ++ [0]
def userPair (uid : Nat) (user : Bytes) : Bytes :=
  (if uid == 0 then [] else encodeVarint uid) ++ [0] ++ user ++ [0]
def rolePair (type : Nat) (role : Bytes) : Bytes := UInt8.ofNat (48 + type - 1) :: (role ++ [0])

def emitTags (s : EncSt) : List Tag → List Field × EncSt
  | [] => ([], s)
  | t :: ts =>
    let (f, s1) := emitPair true s (tagPair t)
    let (fs, s2) := emitTags s1 ts
    (f ++ fs, s2)

/-- the info section; `last` = nothing follows in the dataset -/
def emitInfo (ch : Choices) (s : EncSt) (m : Meta) (last : Bool) : List Field × EncSt :=
  if m.version == 0 then ([⟨.mark, [0]⟩], s)
  else
    let fv : Field := ⟨.num, encodeVarint m.version⟩
    let fts : Field := ⟨.num, svarint (delta m.timestamp s.ts)⟩
    let s1 := { s with ts := m.timestamp }
    if m.timestamp == 0 then ([fv, fts], s1)
    else
      let fcs : Field := ⟨.num, svarint (delta m.changeset s1.cs)⟩
      let s2 := { s1 with cs := m.changeset }
      if m.uid == 0 && m.user.isEmpty && last && ch.omitAnonUser then ([fv, fts, fcs], s2)
      else
        let (fu, s3) := emitPair (m.uid != 0 || ch.refAnon) s2 (userPair m.uid m.user)
        ([fv, fts, fcs] ++ fu, s3)

def emitRefs (s : EncSt) : List NodeRef → List Field × EncSt
  | [] => ([], s)
  | r :: rs =>
    let f : Field := ⟨.num, svarint (delta r.ref s.wayNode)⟩
    let (fs, s') := emitRefs { s with wayNode := r.ref } rs
    (f :: fs, s')

def emitMembers (s : EncSt) : List Member → List Field × EncSt
  | [] => ([], s)
  | m :: ms =>
    let f : Field := ⟨.num, svarint (delta m.ref (s.mem m.type))⟩
    let (fr, s1) := emitPair true s (rolePair m.type m.role)
    let (fs, s3) := emitMembers (s1.setMem m.type m.ref) ms
    (f :: fr ++ fs, s3)

def emitObject (ch : Choices) (s : EncSt) : Object → Tok × EncSt
  | .node m loc =>
    let fid : Field := ⟨.num, svarint (delta m.id s.id)⟩
    let s := { s with id := m.id }
    let (fi, s) := emitInfo ch s m (!m.visible)
    if !m.visible then (.ds 0x10 (fid :: fi), s)
    else
      let flon : Field := ⟨.num, svarint (delta loc.x s.lon)⟩
      let flat : Field := ⟨.num, svarint (delta loc.y s.lat)⟩
      let s := { s with lon := loc.x, lat := loc.y }
      let (ft, s) := emitTags s m.tags
      (.ds 0x10 (fid :: fi ++ [flon, flat] ++ ft), s)
  | .way m refs =>
    let fid : Field := ⟨.num, svarint (delta m.id s.id)⟩
    let s := { s with id := m.id }
    let (fi, s) := emitInfo ch s m (!m.visible)
    if !m.visible then (.ds 0x11 (fid :: fi), s)
    else
      let (fr, s) := emitRefs s refs
      let flen : Field := ⟨.len, encodeVarint (payload fr).length⟩
      let (ft, s) := emitTags s m.tags
      (.ds 0x11 (fid :: fi ++ [flen] ++ fr ++ ft), s)
  | .relation m ms =>
    let fid : Field := ⟨.num, svarint (delta m.id s.id)⟩
    let s := { s with id := m.id }
    let (fi, s) := emitInfo ch s m (!m.visible)
    if !m.visible then (.ds 0x12 (fid :: fi), s)
    else
      let (fr, s) := emitMembers s ms
      let flen : Field := ⟨.len, encodeVarint (payload fr).length⟩
      let (ft, s) := emitTags s m.tags
      (.ds 0x12 (fid :: fi ++ [flen] ++ fr ++ ft), s)
  | .changeset .. => (.raw [], s)           -- o5m cannot carry changesets (outside the domain)

/-- what the producer may insert between datasets -/
def emitBefore (s : EncSt) : Nat → List Tok × EncSt
  | 1 => ([.raw [0xff]], s.reset)
  | 2 => ([.ds 0x20 [⟨.str, [1, 2, 0, 0xff, 0x80]⟩]], s)
  | 3 => ([.ds 0xee [⟨.str, [0, 0, 0, 1]⟩]], s)
  | 4 => ([.ds 0xef [⟨.str, [0, 0, 0, 0, 0, 0, 0, 9]⟩]], s)
  | 5 => ([.raw [0xff], .raw [0xff]], s.reset)
  | _ => ([], s)

def emitObjects (ch : Choices) : EncSt → List Nat → List Object → List Tok
  | s, before, [] => (emitBefore s (before.headD 0)).1
  | s, before, o :: os =>
    let (tb, s1) := emitBefore s (before.headD 0)
    let (t, s2) := emitObject ch s1 o
    tb ++ t :: emitObjects ch s2 before.tail os

def emitBox (b : Location × Location) : Tok :=
  .ds 0xdb [⟨.num, svarint b.1.x⟩, ⟨.num, svarint b.1.y⟩, ⟨.num, svarint b.2.x⟩, ⟨.num, svarint b.2.y⟩]

def headerBytes (o5c : Bool) : Bytes := [0xff, 0xe0, 0x04, 0x6f, 0x35, if o5c then 0x63 else 0x6d, 0x32]

def encodeToks (ch : Choices) (f : File) : List Tok :=
  [Tok.raw (headerBytes f.o5c)] ++
  (if ch.resetAtStart then [Tok.raw [0xff]] else []) ++
  (if f.timestamp != 0 then [Tok.ds 0xdc [⟨.num, svarint f.timestamp⟩]] else []) ++
  f.boxes.map emitBox ++
  emitObjects ch { useRef := ch.useRef } ch.before f.objects ++
  (if ch.trailer == 0 then [Tok.raw [0xfe]] else [])

def encode (ch : Choices) (f : File) : Bytes := flattenToks (encodeToks ch f)

def tokPayloadLen : Tok → Nat
  | .raw _ => 0
  | .ds _ fs => (payload fs).length

/-- every dataset of the encoded file is shorter than 2^64 bytes (its length fits the varint) -/
def sizeOk (ch : Choices) (f : File) : Bool := (encodeToks ch f).all fun t => decide (tokPayloadLen t < 2 ^ 64)

end Osmium.O5mSpec
