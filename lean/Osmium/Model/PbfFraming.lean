/-
PBF blob framing constants and `decode_blob_header` (io/detail/pbf_input_format.hpp,
io/detail/pbf.hpp, protobuf_tags.hpp).  Core-only.
-/
import Osmium.Model.Wire

namespace Osmium.PbfFraming

open Osmium.Wire

/-- `max_blob_header_size` (64 KiB) and `max_uncompressed_blob_size` (32 MiB), io/detail/pbf.hpp -/
def maxBlobHeaderSize : Nat := 64 * 1024
def maxUncompressedBlobSize : Nat := 32 * 1024 * 1024

/-- `std::strncmp(expected, type.data(), type.size()) == 0` where `expected` is a C string -/
def strncmpEq : List UInt8 → List UInt8 → Bool
  | _, [] => true                                  -- n characters compared
  | [], t :: _ => t == 0                           -- expected ended: equal iff the other side has NUL here
  | e :: es, t :: ts => if e != t then false else strncmpEq es ts

/-- BlobHeader: field 1 = type (string), field 2 = indexdata (bytes, skipped),
    field 3 = datasize (int32).  Last occurrence wins; unknown fields are skipped.
    `none` = an exception (pbf_error or protozero error). The result is the size_t the code
    computes: a negative int32 becomes a huge value (rejected later as too large). -/
def decodeBlobHeader (expected : List UInt8) (hdr : Bytes) : Option Nat :=
  match readFields hdr with
  | .error _ => none
  | .ok fs =>
    let ty := fs.foldl (fun acc f => if f.tag == 1 && f.wt == .lengthDelimited then f.payload else acc) []
    let ds : Int := fs.foldl (fun acc f => if f.tag == 3 && f.wt == .varint then toInt32 f.val else acc) 0
    if ds == 0 then none
    else if !strncmpEq expected ty then none
    else if ds < 0 then some (2 ^ 64 - ds.natAbs) else some ds.toNat

def osmHeader : List UInt8 := "OSMHeader".toUTF8.toList
def osmData : List UInt8 := "OSMData".toUTF8.toList

def blobSize (first : Bool) (hdr : Bytes) : Option Nat :=
  decodeBlobHeader (if first then osmHeader else osmData) hdr

end Osmium.PbfFraming
