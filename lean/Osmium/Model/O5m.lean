/-
Model of libosmium's o5m/o5c decoder (o5m part of properties C02 and C03).

Transcribed statement by statement from
  include/osmium/io/detail/o5m_input_format.hpp
      ReferenceTable (add/get/clear, current_entry), O5mParser::reset, decode_string,
      decode_user, decode_tags, decode_info, decode_node, decode_way, decode_member_type,
      decode_role, decode_relation, decode_bbox, decode_timestamp, decode_data (dispatch)
  include/osmium/util/delta.hpp                    DeltaDecode::update
  include/osmium/builder/osm_object_builder.hpp    set_user(const char*), add_tag, add_role (length checks)
  include/osmium/osm/box.hpp                       Box(Location, Location) precondition
  /usr/include/protozero/varint.hpp                decode_varint (contract = Osmium.Wire)

The header check, the window and the dataset loop (`ensure_bytes_available`, dataset type,
length varint, payload) are `Osmium.Chunks.o5mRun` (property C06): it yields the stream of
datasets; this file folds the dataset decoders over that stream.

Every decoder is a CURSOR PROGRAM: the cursor `data` of the code is the list of bytes between
`data` and `end` (so `data == end` is `data = []`), and a read through a pointer that stands
at `end` (or that left a 256-byte table slot) yields the explicit outcome `Res.oob` — it is
NOT one of the format errors (`Res.err`) the code throws.  Behaviour the C++ standard leaves
undefined or that violates a documented precondition of a callee is the outcome `Res.ub`.
Core-only.
-/
import Osmium.Model.Wire
import Osmium.Model.Chunks
import Osmium.Model.Osm

namespace Osmium.O5m

open Osmium.Wire Osmium.Osm

abbrev Bytes := List UInt8

/-- the exceptions that can leave `O5mParser::run()` -/
inductive Err
  -- o5m_error thrown by the header check / dataset loop (Chunks.O5mErr)
  | headerTooShort      -- "file too short (incomplete header info)"
  | wrongMagic          -- "wrong header magic"
  | premature           -- "premature end of file"
  -- o5m_error thrown by the decoders
  | stringFormat        -- "string format error"
  | noSuchString        -- "reference to non-existing string in table"
  | uidRange            -- "uid out of range"
  | missingUser         -- "missing user name"
  | noNulUser           -- "no null byte in user name"
  | userTooLong         -- "user name too long"
  | noNulKey            -- "no null byte in tag key"
  | noNulValue          -- "no null byte in tag value"
  | metaPremature       -- "premature end of file while parsing object metadata"
  | versionTooLarge     -- "object version too large"
  | wayRefsTooLong      -- "way nodes ref section too long"
  | relFormat           -- "relation format error"
  | relMemberFormat     -- "relation member format error"
  | unknownMemberType   -- "unknown member type"
  | missingRole         -- "missing role"
  | noNulRole           -- "no null byte in role"
  | invalidBbox         -- "invalid bounding box"
  -- protozero exceptions (not caught by the decoders)
  | endOfBuffer         -- protozero::end_of_buffer_exception
  | varintTooLong       -- protozero::varint_too_long_exception
  -- std::length_error from TagListBuilder::add_tag / RelationMemberListBuilder::add_role
  | tagKeyTooLong | tagValueTooLong | roleTooLong
  -- the model's loop fuel ran out (never happens: every iteration consumes a byte)
  | fuel
  deriving Repr, DecidableEq

def Err.name : Err → String
  | .headerTooShort => "o5m:header_too_short"
  | .wrongMagic => "o5m:wrong_magic"
  | .premature => "o5m:premature"
  | .stringFormat => "o5m:string_format"
  | .noSuchString => "o5m:no_such_string"
  | .uidRange => "o5m:uid_range"
  | .missingUser => "o5m:missing_user"
  | .noNulUser => "o5m:no_nul_user"
  | .userTooLong => "o5m:user_too_long"
  | .noNulKey => "o5m:no_nul_key"
  | .noNulValue => "o5m:no_nul_value"
  | .metaPremature => "o5m:meta_premature"
  | .versionTooLarge => "o5m:version_too_large"
  | .wayRefsTooLong => "o5m:way_refs_too_long"
  | .relFormat => "o5m:relation_format"
  | .relMemberFormat => "o5m:relation_member_format"
  | .unknownMemberType => "o5m:unknown_member_type"
  | .missingRole => "o5m:missing_role"
  | .noNulRole => "o5m:no_nul_role"
  | .invalidBbox => "o5m:invalid_bbox"
  | .endOfBuffer => "pz:end_of_buffer"
  | .varintTooLong => "pz:varint_too_long"
  | .tagKeyTooLong => "length_error"
  | .tagValueTooLong => "length_error"
  | .roleTooLong => "length_error"
  | .fuel => "model:fuel"

/-- violated callee preconditions the decoder could run into (none is reachable: see
    `Osmium.O5m.C03.o5m_hostile_safe`) -/
inductive Ub
  /-- `OSMObjectBuilder::set_user(const char*)` called with `strlen(user) ≥ 65535`
      (`@pre strlen(user) < 2^16 - 1`): assertion failure, or with NDEBUG the 16-bit size
      field wraps to 0 and the object layout is corrupt.  decode_user() rejects names longer
      than max_osm_string_length (since the repair 0243f9d), so the precondition always holds. -/
  | userTooLong
  deriving Repr, DecidableEq

def Ub.name : Ub → String
  | .userTooLong => "ub:user_too_long"

/-- outcome of a cursor program -/
inductive Res (α : Type)
  | ok (a : α)
  | err (e : Err)      -- an exception derived from std::exception
  | oob                -- a read outside [data, end) resp. outside the table slot
  | ub (u : Ub)
  deriving Repr, DecidableEq

@[inline] def Res.bind {α β : Type} (x : Res α) (f : α → Res β) : Res β :=
  match x with
  | .ok a => f a
  | .err e => .err e
  | .oob => .oob
  | .ub u => .ub u

instance : Monad Res where
  pure := .ok
  bind := Res.bind

/-! ### ReferenceTable -/

/-- `max_length = 250 + 2` -/
def maxLength : Nat := 252
/-- `entry_size` -/
def entrySize : Nat := 256

/-- `ReferenceTable`.  `slots = #[]` is `m_table.empty()`; after the first `add` it has `n`
    slots (`number_of_entries`, 15000 in the code).  A slot holds the bytes written so far
    (a newer shorter string leaves the tail of an older one in place); the remaining bytes
    up to `entry_size` are the zeros of `resize()`. -/
structure Table where
  n : Nat := 15000
  slots : Array Bytes := #[]
  cur : Nat := 0          -- current_entry
  deriving Repr

/-- the bytes written to slot `i` so far -/
def Table.slot (t : Table) (i : Nat) : Bytes := (t.slots[i]?).getD []

/-- `clear()` : only the index is reset, the memory keeps its content -/
def Table.clear (t : Table) : Table := { t with cur := 0 }

/-- `add(string, size)` -/
def Table.add (t : Table) (s : Bytes) : Table :=
  -- if (m_table.empty()) m_table.resize(entry_size * number_of_entries)
  let slots := if t.slots.size == 0 then Array.replicate t.n [] else t.slots
  if s.length ≤ maxLength then
    -- std::copy_n(string, size, &m_table[current_entry * entry_size])
    let old := (slots[t.cur]?).getD []
    let slots' := slots.setIfInBounds t.cur (s ++ old.drop s.length)
    -- if (++current_entry == number_of_entries) current_entry = 0
    { t with slots := slots', cur := if t.cur + 1 == t.n then 0 else t.cur + 1 }
  else { t with slots := slots }

/-- the 256 bytes of a slot -/
def padSlot (s : Bytes) : Bytes := s ++ List.replicate (entrySize - s.length) 0

/-- `get(index)` : the bytes of the slot from its start (the returned `const char*`) -/
def Table.get (t : Table) (index : Nat) : Res Bytes :=
  if t.slots.size == 0 || index == 0 || index > t.n then .err .noSuchString
  else
    let entry := (t.cur + t.n - index) % t.n
    .ok (padSlot (t.slot entry))

/-! ### delta state -/

/-- int64 wrap-around (`static_cast<int64_t>` of the mathematical sum; the signed overflow is
    formally undefined, the compiled code wraps — accepted in the source comment) -/
def wrap64 (x : Int) : Int := (x + 9223372036854775808) % 18446744073709551616 - 9223372036854775808
/-- `static_cast<int32_t>` -/
def wrap32 (x : Int) : Int := (x + 2147483648) % 4294967296 - 2147483648
/-- `static_cast<uint32_t>` -/
def toU32 (x : Int) : Nat := (x % 4294967296).toNat

/-- parser state touched by `reset()` -/
structure St where
  tab : Table := {}
  id : Int := 0          -- m_delta_id
  ts : Int := 0          -- m_delta_timestamp (int64)
  cs : Int := 0          -- m_delta_changeset (uint32)
  lon : Int := 0
  lat : Int := 0
  wayNode : Int := 0     -- m_delta_way_node_id
  mem0 : Int := 0        -- m_delta_member_ids[0..2]
  mem1 : Int := 0
  mem2 : Int := 0
  deriving Repr

/-- `m_delta_member_ids[i]` for member type 1..3 (i = nwr index 0..2) -/
def St.mem (st : St) (type : Nat) : Int :=
  if type == 1 then st.mem0 else if type == 2 then st.mem1 else st.mem2

def St.setMem (st : St) (type : Nat) (v : Int) : St :=
  if type == 1 then { st with mem0 := v } else if type == 2 then { st with mem1 := v } else { st with mem2 := v }

/-- `O5mParser::reset()` -/
def St.reset (s : St) : St := { tab := s.tab.clear }

/-! ### pointers and primitive reads -/

/-- A `const char*` that walks over a string: `rest` = the bytes from the pointer to the end
    of the object it points into; `inDs` = it points into the dataset (then `data == end` is
    `rest = []`); otherwise it points into a table slot, `data == end` is never true, and
    `rest = []` means the pointer left the slot. -/
structure Ptr where
  rest : Bytes
  inDs : Bool
  deriving Repr

/-- `data == end` -/
def Ptr.atEnd (p : Ptr) : Bool := p.inDs && p.rest.isEmpty

def liftWire {α : Type} : Except Wire.Err α → Res α
  | .ok a => .ok a
  | .error .endOfBuffer => .err .endOfBuffer
  | .error .varintTooLong => .err .varintTooLong
  | .error _ => .err .varintTooLong     -- decodeVarint raises only the two above

/-- `protozero::decode_varint(&data, end)` on a dataset cursor -/
def varint (data : Bytes) : Res (Nat × Bytes) := liftWire (decodeVarint data)

/-- `zvarint(&data, end)` -/
def zvarint (data : Bytes) : Res (Int × Bytes) := do
  let (v, r) ← varint data
  pure (unzigzag64 v, r)

/-- `protozero::decode_varint(&data, string_end)` where `data` points to a string and
    `string_end` is the dataset's `end` for an inline string and `data + entry_size` for a string
    from the table (repair 973cf14): in both cases exactly the end of `p.rest` -/
def Ptr.varint (p : Ptr) : Res (Nat × Ptr) := do
  let (v, r) ← O5m.varint p.rest
  pure (v, ⟨r, p.inDs⟩)

/-- `while (*data++) { if (data == end) throw e; }` ; returns the string walked over (without
    the NUL) and the pointer behind the NUL.  The first read is unguarded. -/
def walkPost (e : Err) : Bytes → Bool → Bytes → Res (Bytes × Ptr)
  | [], _, _ => .oob
  | b :: r, inDs, acc =>
    if b == 0 then .ok (acc.reverse, ⟨r, inDs⟩)
    else if inDs && r.isEmpty then .err e
    else walkPost e r inDs (b :: acc)

/-- `do { if (data == end) throw e; } while (*data++);` -/
def walkPre (e : Err) : Bytes → Bool → Bytes → Res (Bytes × Ptr)
  | [], inDs, _ => if inDs then .err e else .oob
  | b :: r, inDs, acc =>
    if b == 0 then .ok (acc.reverse, ⟨r, inDs⟩)
    else walkPre e r inDs (b :: acc)

/-- the bytes `[start, data)` handed to `m_reference_table.add(start, data - start)` -/
def slice (start : Bytes) (data : Bytes) : Bytes := start.take (start.length - data.length)

/-- `decode_string(dataptr, end)`: the string pointer and the dataset cursor after it -/
def decodeString (tab : Table) (data : Bytes) : Res (Ptr × Bytes) :=
  match data with
  | [] => .oob                                  -- `**dataptr` (callers: assert(*dataptr != end))
  | b :: rest =>
    if b == 0 then                              -- inline string
      if rest.isEmpty then .err .stringFormat
      else .ok (⟨rest, true⟩, rest)
    else do                                     -- from the reference table
      let (index, rest') ← varint data
      let s ← tab.get index
      pure (⟨s, false⟩, rest')

/-- `**dataptr == 0x00` -/
def isInline (data : Bytes) : Bool := data.head? == some 0

/-- `osmium::max_osm_string_length` -/
def maxOsmStringLength : Nat := 1024

/-- `decode_user` : (uid, user name), table, cursor -/
def decodeUser (tab : Table) (data : Bytes) : Res ((Nat × Bytes) × Table × Bytes) := do
  let updatePointer := isInline data
  let (start, cur) ← decodeString tab data
  let (uid, p) ← start.varint
  if uid > 4294967295 then .err .uidRange
  else if p.atEnd then .err .missingUser
  else
    let p1 : Ptr := ⟨p.rest.tail, p.inDs⟩            -- user = ++data (no read)
    if uid == 0 then
      -- anonymous user: nothing more is read (repair 9d3a6e9)
      if updatePointer then pure ((0, []), tab.add [0, 0], p1.rest)
      else pure ((0, []), tab, cur)
    else do
      let (name, p2) ← walkPre .noNulUser p1.rest p1.inDs []
      -- if (data - user > max_osm_string_length + 1) throw   (repair 0243f9d); data - user = strlen + 1
      if name.length + 1 > maxOsmStringLength + 1 then .err .userTooLong
      else if updatePointer then
        pure ((uid, name), tab.add (slice start.rest p2.rest), p2.rest)
      else
        pure ((uid, name), tab, cur)

/-- `decode_tags` : loop `while (*dataptr != end)` ; fuel ≥ number of bytes -/
def decodeTagsGo : Nat → Table → Bytes → List Tag → Res (List Tag × Table)
  | 0, tab, data, acc => if data.isEmpty then .ok (acc.reverse, tab) else .err .fuel
  | fuel + 1, tab, data, acc =>
    if data.isEmpty then .ok (acc.reverse, tab)
    else do
      let updatePointer := isInline data
      let (start, cur) ← decodeString tab data
      let (key, p1) ← walkPost .noNulKey start.rest start.inDs []
      if p1.atEnd then .err .noNulValue
      else do
        let (value, p2) ← walkPost .noNulValue p1.rest p1.inDs []
        let tab' := if updatePointer then tab.add (slice start.rest p2.rest) else tab
        let cur' := if updatePointer then p2.rest else cur
        -- builder.add_tag(start, value)
        if key.length > maxOsmStringLength then .err .tagKeyTooLong
        else if value.length > maxOsmStringLength then .err .tagValueTooLong
        else decodeTagsGo fuel tab' cur' (⟨key, value⟩ :: acc)

def decodeTags (tab : Table) (data : Bytes) : Res (List Tag × Table) :=
  decodeTagsGo data.length tab data []

/-- what `decode_info` sets on the object -/
structure Info where
  version : Nat := 0
  timestamp : Nat := 0
  changeset : Nat := 0
  uid : Nat := 0
  user : Bytes := []
  deriving Repr, DecidableEq

/-- `decode_info` -/
def decodeInfo (st : St) (data : Bytes) : Res (Info × St × Bytes) :=
  match data with
  | [] => .err .metaPremature
  | b :: rest =>
    if b == 0 then .ok ({}, st, rest)              -- no info section
    else do
      let (version, d1) ← varint data
      if version > 4294967295 then .err .versionTooLarge
      else do
        -- object.set_version(): `object_version_type m_version : 31` keeps 31 bits
        let version := version % 2147483648
        let (tsd, d2) ← zvarint d1
        let ts := wrap64 (st.ts + tsd)
        let st1 := { st with ts := ts }
        if ts != 0 then
          let (csd, d3) ← zvarint d2
          let cs := (toU32 (st.cs + csd) : Int)
          let st2 := { st1 with cs := cs }
          if !d3.isEmpty then do
            let ((uid, user), tab', d4) ← decodeUser st2.tab d3
            pure ({ version, timestamp := toU32 ts, changeset := cs.toNat, uid, user }, { st2 with tab := tab' }, d4)
          else
            pure ({ version, timestamp := toU32 ts, changeset := cs.toNat }, st2, d3)
        else
          pure ({ version }, st1, d2)

/-- build configuration / reader arguments the outcome depends on -/
structure Cfg where
  assertions : Bool := false     -- compiled without -DNDEBUG
  readTypes : Nat := 7           -- osm_entity_bits: node 1, way 2, relation 4
  deriving Repr

/-- `builder.set_user(const char*)` : `static_cast<string_size_type>(strlen(user))` -/
def setUser (cfg : Cfg) (user : Bytes) : Res Bytes :=
  if cfg.assertions then
    if user.length ≥ 65535 then .ub .userTooLong else .ok user
  else
    if user.length % 65536 == 65535 then .ub .userTooLong
    else .ok (user.take (user.length % 65536))

def mkMeta (id : Int) (i : Info) (user : Bytes) (visible : Bool) (tags : List Tag) : Meta :=
  { id, version := i.version, visible, timestamp := i.timestamp, changeset := i.changeset,
    uid := i.uid, user, tags }

/-- `decode_node` -/
def decodeNode (cfg : Cfg) (st : St) (data : Bytes) : Res (Object × St) := do
  let (idd, d1) ← zvarint data
  let id := wrap64 (st.id + idd)
  let st := { st with id := id }
  let (info, st, d2) ← decodeInfo st d1
  let user ← setUser cfg info.user
  if d2.isEmpty then
    -- no location, object is deleted
    pure (.node (mkMeta id info user false []) Location.undefined, st)
  else do
    let (lond, d3) ← zvarint d2
    let lon := wrap64 (st.lon + lond)
    let st := { st with lon := lon }
    let (latd, d4) ← zvarint d3
    let lat := wrap64 (st.lat + latd)
    let st := { st with lat := lat }
    let loc : Location := ⟨wrap32 lon, wrap32 lat⟩
    if !d4.isEmpty then do
      let (tags, tab') ← decodeTags st.tab d4
      pure (.node (mkMeta id info user true tags) loc, { st with tab := tab' })
    else
      pure (.node (mkMeta id info user true []) loc, st)

/-- `if (reference_section_length > static_cast<uint64_t>(end - data)) throw` (repair 638f5ce) -/
def checkRefLen (e : Err) (len : Nat) (data : Bytes) : Res Unit :=
  if len ≤ data.length then .ok () else .err e

/-- `while (data < end_refs) wn_builder.add_node_ref(m_delta_way_node_id.update(zvarint(&data, end)))`
    `stop` = number of bytes that remain when `data == end_refs` -/
def wayRefsGo : Nat → Nat → Int → Bytes → List NodeRef → Res (List NodeRef × Int × Bytes)
  | 0, stop, wn, data, acc => if data.length > stop then .err .fuel else .ok (acc.reverse, wn, data)
  | fuel + 1, stop, wn, data, acc =>
    if data.length > stop then do
      let (d, data') ← zvarint data
      let wn' := wrap64 (wn + d)
      wayRefsGo fuel stop wn' data' ({ ref := wn' } :: acc)
    else .ok (acc.reverse, wn, data)

/-- `decode_way` -/
def decodeWay (cfg : Cfg) (st : St) (data : Bytes) : Res (Object × St) := do
  let (idd, d1) ← zvarint data
  let id := wrap64 (st.id + idd)
  let st := { st with id := id }
  let (info, st, d2) ← decodeInfo st d1
  let user ← setUser cfg info.user
  if d2.isEmpty then
    pure (.way (mkMeta id info user false []) [], st)
  else do
    let (len, d3) ← varint d2
    let (refs, st, d4) ← (if len > 0 then do
        checkRefLen .wayRefsTooLong len d3
        let (refs, wn, d4) ← wayRefsGo d3.length (d3.length - len) st.wayNode d3 []
        pure (refs, { st with wayNode := wn }, d4)
      else pure ([], st, d3) : Res (List NodeRef × St × Bytes))
    if !d4.isEmpty then do
      let (tags, tab') ← decodeTags st.tab d4
      pure (.way (mkMeta id info user true tags) refs, { st with tab := tab' })
    else
      pure (.way (mkMeta id info user true []) refs, st)

/-- `decode_role` : (member type as item_type 1..3, role), table, cursor -/
def decodeRole (tab : Table) (data : Bytes) : Res ((Nat × Bytes) × Table × Bytes) := do
  let updatePointer := isInline data
  let (start, cur) ← decodeString tab data
  match start.rest with
  | [] => .oob                                   -- `*data++`
  | c :: r =>
    -- decode_member_type
    if c.toNat < 48 || c.toNat > 50 then .err .unknownMemberType
    else
      let p : Ptr := ⟨r, start.inDs⟩
      if p.atEnd then .err .missingRole
      else do
        let (role, p2) ← walkPost .noNulRole p.rest p.inDs []
        if updatePointer then
          pure ((c.toNat - 48 + 1, role), tab.add (slice start.rest p2.rest), p2.rest)
        else
          pure ((c.toNat - 48 + 1, role), tab, cur)

/-- the member loop of `decode_relation` -/
def relMembersGo : Nat → Nat → St → Bytes → List Member → Res (List Member × St × Bytes)
  | 0, stop, st, data, acc => if data.length > stop then .err .fuel else .ok (acc.reverse, st, data)
  | fuel + 1, stop, st, data, acc =>
    if data.length > stop then do
      let (deltaId, d1) ← zvarint data
      if d1.isEmpty then .err .relMemberFormat
      else do
        let ((type, role), tab', d2) ← decodeRole st.tab d1
        let st := { st with tab := tab' }
        -- m_delta_member_ids[i].update(delta_id)
        let ref := wrap64 (st.mem type + deltaId)
        let st := st.setMem type ref
        -- rml_builder.add_member → add_role
        if role.length > maxOsmStringLength then .err .roleTooLong
        else relMembersGo fuel stop st d2 ({ type, ref, role } :: acc)
    else .ok (acc.reverse, st, data)

/-- `decode_relation` -/
def decodeRelation (cfg : Cfg) (st : St) (data : Bytes) : Res (Object × St) := do
  let (idd, d1) ← zvarint data
  let id := wrap64 (st.id + idd)
  let st := { st with id := id }
  let (info, st, d2) ← decodeInfo st d1
  let user ← setUser cfg info.user
  if d2.isEmpty then
    pure (.relation (mkMeta id info user false []) [], st)
  else do
    let (len, d3) ← varint d2
    let (members, st, d4) ← (if len > 0 then do
        checkRefLen .relFormat len d3
        relMembersGo d3.length (d3.length - len) st d3 []
      else pure ([], st, d3) : Res (List Member × St × Bytes))
    if !d4.isEmpty then do
      let (tags, tab') ← decodeTags st.tab d4
      pure (.relation (mkMeta id info user true tags) members, { st with tab := tab' })
    else
      pure (.relation (mkMeta id info user true []) members, st)

/-- `Location::operator bool` -/
def Location.defined (l : Location) : Bool :=
  l.x != Location.undefinedCoordinate && l.y != Location.undefinedCoordinate

/-- `decode_bbox` -/
def decodeBbox (data : Bytes) : Res (Location × Location) := do
  let (swLon, d1) ← zvarint data
  let (swLat, d2) ← zvarint d1
  let (neLon, d3) ← zvarint d2
  let (neLat, _) ← zvarint d3
  let bl : Location := ⟨wrap32 swLon, wrap32 swLat⟩
  let tr : Location := ⟨wrap32 neLon, wrap32 neLat⟩
  -- the precondition of Box{bl, tr} is checked first (repair d878353)
  if !((Location.defined bl && Location.defined tr) || (bl.x ≤ tr.x && bl.y ≤ tr.y)) then
    .err .invalidBbox
  else pure (bl, tr)

/-- `decode_timestamp` : the header value as seconds (`Timestamp{int64}` keeps 32 bits; the
    code stores `to_iso()`, which is the empty string for 0) -/
def decodeTimestamp (data : Bytes) : Res Nat := do
  let (t, _) ← zvarint data
  pure (toU32 t)

/-! ### the whole file -/

/-- what the file header carries -/
structure FileHeader where
  multipleVersions : Bool := false
  boxes : List (Location × Location) := []
  timestamp : Nat := 0            -- "o5m_timestamp"/"timestamp" option, seconds; 0 = unset or empty
  deriving Repr, DecidableEq

structure Acc where
  st : St := {}
  hdr : FileHeader := {}
  objs : List Object := []       -- reversed
  headerDone : Bool := false
  stop : Bool := false           -- `break` taken (read_types() == nothing && header_is_done())
  deriving Repr

/-- one iteration of the dataset loop of `decode_data` (after the framing) -/
def stepDataset (cfg : Cfg) (a : Acc) : Chunks.Dataset → Res Acc
  | .reset => .ok { a with st := a.st.reset }
  | .other _ => .ok a
  | .data t payload => do
    let a ← (
      if t == 0x10 then
        let a := { a with headerDone := true }
        if cfg.readTypes % 2 == 1 then do
          let (o, st) ← decodeNode cfg a.st payload
          pure { a with st := st, objs := o :: a.objs }
        else if cfg.readTypes % 8 == 0 then
          -- read_types() == nothing: mark_header_as_done() above has handed the header to the Reader,
          -- which never pops the data queue (Reader::read() returns at once, close() drains it): what
          -- decoding this dataset does or throws is not observable; the loop ends with the `break` below
          pure a
        else do
          -- repair f1844ef: a skipped dataset is still decoded (the delta counters and the reference
          -- table are shared by all object types; its errors are thrown) and then rolled back
          let (_, st) ← decodeNode cfg a.st payload
          pure { a with st := st }
      else if t == 0x11 then
        let a := { a with headerDone := true }
        if cfg.readTypes / 2 % 2 == 1 then do
          let (o, st) ← decodeWay cfg a.st payload
          pure { a with st := st, objs := o :: a.objs }
        else if cfg.readTypes % 8 == 0 then
          -- read_types() == nothing: mark_header_as_done() above has handed the header to the Reader,
          -- which never pops the data queue (Reader::read() returns at once, close() drains it): what
          -- decoding this dataset does or throws is not observable; the loop ends with the `break` below
          pure a
        else do
          -- repair f1844ef: a skipped dataset is still decoded (the delta counters and the reference
          -- table are shared by all object types; its errors are thrown) and then rolled back
          let (_, st) ← decodeWay cfg a.st payload
          pure { a with st := st }
      else if t == 0x12 then
        let a := { a with headerDone := true }
        if cfg.readTypes / 4 % 2 == 1 then do
          let (o, st) ← decodeRelation cfg a.st payload
          pure { a with st := st, objs := o :: a.objs }
        else if cfg.readTypes % 8 == 0 then
          -- read_types() == nothing: mark_header_as_done() above has handed the header to the Reader,
          -- which never pops the data queue (Reader::read() returns at once, close() drains it): what
          -- decoding this dataset does or throws is not observable; the loop ends with the `break` below
          pure a
        else do
          -- repair f1844ef: a skipped dataset is still decoded (the delta counters and the reference
          -- table are shared by all object types; its errors are thrown) and then rolled back
          let (_, st) ← decodeRelation cfg a.st payload
          pure { a with st := st }
      -- m_header is handed to the reader by the first mark_header_as_done(); later changes are not seen
      else if t == 0xdb then do
        let b ← decodeBbox payload
        pure (if a.headerDone then a else { a with hdr := { a.hdr with boxes := a.hdr.boxes ++ [b] } })
      else if t == 0xdc then do
        let ts ← decodeTimestamp payload
        pure (if a.headerDone then a else { a with hdr := { a.hdr with timestamp := ts } })
      else pure a : Res Acc)
    -- if (read_types() == nothing && header_is_done()) break;
    if cfg.readTypes % 8 == 0 && a.headerDone then pure { a with stop := true } else pure a

def foldDatasets (cfg : Cfg) : Acc → List Chunks.Dataset → Res Acc
  | a, [] => .ok a
  | a, d :: ds =>
    if a.stop then .ok a
    else do
      let a' ← stepDataset cfg a d
      foldDatasets cfg a' ds

def frameErr : Chunks.O5mErr → Err
  | .headerTooShort => .headerTooShort
  | .wrongMagic => .wrongMagic
  | .premature => .premature
  | .varintTooLong => .varintTooLong

/-- `O5mParser::run()` on the chunk stream `cs` (non-empty chunks): header value + objects.
    A framing error is met only after the datasets before it were decoded. -/
def decodeChunks (cfg : Cfg) (cs : List Bytes) : Res (FileHeader × List Object) :=
  let (dss, ferr) := Chunks.o5mRun cs
  let all := cs.flatten
  let a0 : Acc := { hdr := { multipleVersions := (all.drop 5).head? == some 0x63 } }
  match foldDatasets cfg a0 dss with
  | .ok a =>
    if a.stop then .ok (a.hdr, a.objs.reverse)
    else match ferr with
      | some e => .err (frameErr e)
      | none => .ok (a.hdr, a.objs.reverse)
  | .err e => .err e
  | .oob => .oob
  | .ub u => .ub u

/-- the whole file in one buffer -/
def decode (cfg : Cfg) (b : Bytes) : Res (FileHeader × List Object) :=
  decodeChunks cfg (if b.isEmpty then [] else [b])

end Osmium.O5m
