/-
Model of libosmium's relation maps (property C15).

Transcribed from include/osmium/index/relations_map.hpp
  detail::flat_map<TKey, TKeyInternal, TValue, TValueInternal>
        kv_pair (the static_casts to the internal types), set, flip_in_place, flip_copy,
        sort_unique, get (std::equal_range on the key with the probe `kv_pair{key}`)
  RelationsMapStash   add (32/64 split), append32to64, build_member_to_parent_index,
                      build_parent_to_member_index, build_indexes
  RelationsMapIndex   for_each, empty, size;   RelationsMapIndexes

Core-only.  Ids (`osmium::unsigned_object_id_type` = uint64) are `Nat`s below 2^64.
`std::sort` + `std::unique` are replaced by their specification (`List.mergeSort` with the
lexicographic `operator<` of kv_pair, then dropping elements equal to their predecessor);
`std::equal_range` with a key-only comparator by its specification on ranges partitioned by
that comparator: the elements after the prefix with `elem.key < probe.key` up to the first
with `probe.key < elem.key`.

`FIXED_F3` switches `forEach` to the repaired behaviour proposed for finding F3 (a 32-bit
index is never probed with an id that does not fit into 32 bits).
-/
namespace Osmium.RelMap

/-- true = the current code (/repo commit 9f963df, fix for finding F3: a 32-bit index returns
    nothing for ids above 2^32-1); false = the code before that fix (probe key narrowed) -/
def FIXED_F3 : Bool := true

/-- `static_cast<TInternal>(x)` for an unsigned internal type of `iw` bits -/
def cast (iw x : Nat) : Nat := x % 2 ^ iw

/-- `flat_map::m_map` (kv_pair = (key, value), already cast to the internal types) -/
abbrev FlatMap := List (Nat × Nat)

/-- `kv_pair::operator<`: `std::tie(key, value) < std::tie(other.key, other.value)`;
    as a `≤` for the sort: `!(b < a)` -/
def kvLt (a b : Nat × Nat) : Bool := a.1 < b.1 || (a.1 == b.1 && a.2 < b.2)

def kvLe (a b : Nat × Nat) : Bool := !kvLt b a

/-- `flat_map::set(key, value)` for internal width `iw` -/
def FlatMap.set (iw : Nat) (m : FlatMap) (k v : Nat) : FlatMap := m ++ [(cast iw k, cast iw v)]

/-- `flip_in_place()` and `flip_copy()` (TKey = TValue, same internal types) -/
def FlatMap.flip (m : FlatMap) : FlatMap := m.map fun p => (p.2, p.1)

/-- `std::unique` with `kv_pair::operator==` -/
def uniq : List (Nat × Nat) → List (Nat × Nat)
  | [] => []
  | [a] => [a]
  | a :: b :: r => if a = b then uniq (b :: r) else a :: uniq (b :: r)

/-- `sort_unique()` -/
def FlatMap.sortUnique (m : FlatMap) : FlatMap := uniq (m.mergeSort kvLe)

/-- `get(key)`: `std::equal_range(begin, end, kv_pair{key}, key-only <)`; the probe key is
    cast to the internal key type by the `kv_pair` constructor. -/
def FlatMap.get (iw : Nat) (m : FlatMap) (key : Nat) : List (Nat × Nat) :=
  let k := cast iw key
  (m.dropWhile fun p => p.1 < k).takeWhile fun p => !(k < p.1)

/-- `RelationsMapStash` -/
structure Stash where
  map32 : FlatMap := []
  map64 : FlatMap := []
  deriving Repr

def max32 : Nat := 2 ^ 32 - 1

/-- `RelationsMapStash::add(member_id, relation_id)` -/
def Stash.add (s : Stash) (member relation : Nat) : Stash :=
  if member ≤ max32 && relation ≤ max32 then { s with map32 := s.map32.set 32 member relation }
  else { s with map64 := s.map64.set 64 member relation }

def Stash.size (s : Stash) : Nat := s.map32.length + s.map64.length
def Stash.sizes (s : Stash) : Nat × Nat := (s.map32.length, s.map64.length)
def Stash.empty (s : Stash) : Bool := s.map32.isEmpty && s.map64.isEmpty

/-- `append32to64(map32, map64)`: returns the new map64 (map32 is cleared) -/
def append32to64 (m32 m64 : FlatMap) : FlatMap :=
  let m64 := m64.sortUnique
  let m64 := m32.foldl (fun acc p => acc.set 64 p.1 p.2) m64
  m64.sortUnique

/-- `RelationsMapIndex`: `m_small` selects which of the two maps is used -/
structure Index where
  small : Bool
  map32 : FlatMap := []
  map64 : FlatMap := []
  deriving Repr, DecidableEq

/-- `RelationsMapIndex::for_each(id, func)`: the values `func` is called with, in order -/
def Index.forEach (ix : Index) (id : Nat) : List Nat :=
  if ix.small then
    if FIXED_F3 && id > max32 then []
    else (ix.map32.get 32 id).map (·.2)
  else (ix.map64.get 64 id).map (·.2)

def Index.size (ix : Index) : Nat := if ix.small then ix.map32.length else ix.map64.length
def Index.empty (ix : Index) : Bool := if ix.small then ix.map32.isEmpty else ix.map64.isEmpty

/-- `build_member_to_parent_index()` -/
def Stash.buildMemberToParent (s : Stash) : Index :=
  let m32 := s.map32.sortUnique
  if s.map64.isEmpty then { small := true, map32 := m32 }
  else { small := false, map64 := append32to64 m32 s.map64 }

/-- `build_parent_to_member_index()` -/
def Stash.buildParentToMember (s : Stash) : Index :=
  let m32 := s.map32.flip.sortUnique
  if s.map64.isEmpty then { small := true, map32 := m32 }
  else { small := false, map64 := append32to64 m32 s.map64.flip }

/-- `build_indexes()`: (member_to_parent, parent_to_member) -/
def Stash.buildIndexes (s : Stash) : Index × Index :=
  let reverse32 := s.map32.flip.sortUnique
  let m32 := s.map32.sortUnique
  if s.map64.isEmpty then ({ small := true, map32 := m32 }, { small := true, map32 := reverse32 })
  else
    let reverse64 := append32to64 reverse32 s.map64.flip
    let m64 := append32to64 m32 s.map64
    ({ small := false, map64 := m64 }, { small := false, map64 := reverse64 })

end Osmium.RelMap
