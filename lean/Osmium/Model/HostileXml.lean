/-
C03 — the XML reader's use of the builders, as a monitor on top of Model/XmlFmt.lean.

Model/XmlFmt.lean describes WHAT the XML reader builds (objects as values).  The real reader
builds them through osmium::builder classes whose call protocol is only asserted, not enforced
(osm_object_builder.hpp): `add_comment` must be followed by `add_comment_text` before the next
`add_comment` / the destructor; `set_user(const char*)` asserts `strlen < 65535` and truncates the
length to 16 bits.  `monitor` replays the reader's event loop (`XmlFmt.stepEv`) and reports the
first violation of that protocol — each one is undefined behaviour in NDEBUG builds (a layout that
Layout.decodeAll cannot traverse in bounds, or a write through `item_pos() - 1`) and a failed
assertion (abort) in assertion-enabled builds.

xml_input_format.hpp: start_element `comment` → add_comment; end_element `text` → add_comment_text;
start_element `tag` in <changeset> → m_changeset_discussion_builder.reset(); end_element `changeset`
→ reset.  Core-only.
-/
import Osmium.Model.XmlFmt

namespace Osmium.HostileXml

open Osmium.XmlFmt

inductive Misuse where
  /-- `add_comment` / `~ChangesetDiscussionBuilder` while the previous comment has no text:
      the comment is left without padding (F13b) -/
  | commentWithoutText
  /-- `add_comment_text` without a pending comment (a second <text> in one <comment>):
      `comment()` is computed from `m_comment_offset = size_t(-1)` -/
  | textWithoutComment
  /-- `set_user` with 65535 or more bytes (F13c); `wraps` = the 16-bit user_size field ends up 0
      (length ≡ 65535 mod 65536): the layout is broken in every build; otherwise NDEBUG builds
      silently truncate the name and only assertion-enabled builds abort -/
  | userTooLong (wraps : Bool)
  /-- only in assertion-enabled builds: the parser is destroyed (after an error or at the end of a
      truncated document) while a comment is pending — the destructor's assertion aborts -/
  | pendingAtDestruction
  deriving Repr, DecidableEq

def Misuse.name : Misuse → String
  | .commentWithoutText => "ub:comment-without-text"
  | .textWithoutComment => "ub:text-without-comment"
  | .userTooLong true => "ub:user-too-long"
  | .userTooLong false => "dbg:user-too-long"
  | .pendingAtDestruction => "dbg:comment-pending-at-destruction"

def attr (name : String) (attrs : List (String × Bytes)) : Option Bytes :=
  attrs.foldl (fun acc a => if a.1 = name then some a.2 else acc) none

/-- `set_user(const char*)` asserts `len < 65535` for OSMObjects and `len <= 65535` for changesets
    (where 65535 already wraps the 16-bit user_size to 0) -/
def userLimit : Nat := 65535

/-- state of the discussion builder: `pending` = `m_comment_offset != no_comment` with the length
    of the pending comment's user name; `broken` = an unpadded comment without text is already in
    the buffer (NDEBUG builds only: assertion-enabled builds have aborted by then) -/
structure Proto where
  pending : Option Nat := none
  broken : Bool := false
  deriving Repr, DecidableEq

/-- a comment without text leaves the write position at `16 + user_size` behind the (8-aligned)
    comment start; the next `new (ptr) ChangesetComment` there is misaligned (alignment 4) unless -/
def nextAligned (userLen : Nat) : Bool := (16 + userLen + 1) % 4 == 0

/-- what one event does to the builders.  `.error m` = undefined behaviour / abort happens NOW. -/
def protoStep (types : Osmium.OplFmt.Types) (st : RSt) (p : Proto) : Ev → Except Misuse Proto
  | .start name attrs =>
    match st.stack with
    | top :: _ =>
      let isData := top == .osm || top == .osmChange || top == .createSection || top == .modifySection || top == .deleteSection
      if isData && ((name = "node" && types.node) || (name = "way" && types.way) || (name = "relation" && types.relation)) then
        match attr "user" attrs with
        | some u => if u.length ≥ userLimit then .error (.userTooLong (u.length % 65536 == 65535)) else .ok p
        | none => .ok p
      else if (top == .osm || top == .osmChange) && name = "changeset" && types.changeset then
        match attr "user" attrs with
        | some u => if u.length ≥ userLimit then .error (.userTooLong (u.length % 65536 == 65535)) else .ok {}
        | none => .ok {}
      else if top == .changeset && name = "tag" && types.changeset then
        -- m_changeset_discussion_builder.reset(): destructor
        .ok { pending := none, broken := p.broken || p.pending.isSome }
      else if top == .discussion && name = "comment" && types.changeset then
        let ulen := ((attr "user" attrs).getD []).length
        -- add_comment → add_user throws std::length_error AFTER m_comment_offset was set: the reader
        -- reports the error, the builder is destroyed with a pending comment
        if ulen > 1024 then .error .pendingAtDestruction else
        match p.pending with
        | some prev =>
          if nextAligned prev then .ok { pending := some ulen, broken := true } else .error .commentWithoutText
        | none => .ok { p with pending := some ulen }
      else .ok p
    | [] => .ok p
  | .stop _ =>
    match st.stack with
    | .text :: _ =>
      if types.changeset then (if p.pending.isSome then .ok { p with pending := none } else .error .textWithoutComment) else .ok p
    | .changeset :: _ =>
      if types.changeset then
        -- the builders are destroyed, the object is committed and will be traversed
        (if p.pending.isSome || p.broken then .error .commentWithoutText else .ok {})
      else .ok p
    | _ => .ok p
  | .chars _ => .ok p

/-- the reader's loop with the monitor running alongside.  Attribute parsing comes before the builder
    call of the same event (`init_object` parses all attributes, then `set_user`; `check_attributes`
    then `add_comment`), so when the reader throws on an event no builder call of THAT event has run.
    After a throw (or at the end of a truncated document) the object is never committed: NDEBUG builds
    are unharmed, assertion-enabled builds have aborted at the first violated assertion. -/
def monitorGo (types : Osmium.OplFmt.Types) : List Ev → RSt → Proto → Option Misuse
  | [], _, p => if p.pending.isSome || p.broken then some .pendingAtDestruction else none
  | e :: es, st, p =>
    match stepEv types st e with
    | .error _ => if p.pending.isSome || p.broken then some .pendingAtDestruction else none
    | .ok st' =>
      match protoStep types st p e with
      | .error m => some m
      | .ok p' => monitorGo types es st' p'

def monitor (types : Osmium.OplFmt.Types) (evs : List Ev) : Option Misuse := monitorGo types evs {} {}

end Osmium.HostileXml
