/-
C03 — the XML reader's use of the ChangesetDiscussionBuilder, as a monitor on top of
Model/XmlFmt.lean.

Model/XmlFmt.lean describes WHAT the XML reader builds (objects as values) and which exceptions it
throws.  The real reader builds changeset discussions through
`osmium::builder::ChangesetDiscussionBuilder` (osm_object_builder.hpp), whose call protocol is only
ASSERTED, not enforced:

  * `add_comment` must not be called while the previous comment has no text yet
    (`assert(m_comment_offset == no_comment)`; NDEBUG: the previous comment stays unpadded and the
    iteration over the discussion leaves the item),
  * `add_comment_text` needs a pending comment (`assert(m_comment_offset != no_comment)`; NDEBUG:
    `comment()` is computed from `item_pos() + size_t(-1)`: a write outside the item),
  * both are called through `m_changeset_discussion_builder`, a unique_ptr that is null outside
    `<discussion>` handling.

`monitor` replays the reader's event loop (`XmlFmt.stepEv`) together with the builder object
(`Proto`: does it exist, is a comment pending) and reports the first violation of the protocol.
xml_input_format.hpp as repaired by 5690f83: start `discussion` → builder created (if absent);
start `tag` in <changeset> / end `changeset` → builder destroyed (its destructor now finishes a
pending comment with an empty text); start `comment` → add_comment, `m_comment_pending = true`;
start `text` with `!m_comment_pending` → xml_error; end `text` → add_comment_text;
end `comment` with `m_comment_pending` → add_comment_text("").
When the reader throws (any exception of `stepEv`, e.g. std::length_error from add_comment's
add_user — thrown AFTER the comment became pending) the builders are destroyed: no misuse.

Props/C03Text.lean proves `monitor types evs = none` for EVERY event sequence and entity filter
(`xml_reader_keeps_builder_protocol`), and keeps the three pre-repair witnesses (`Pre.monitor`).
Core-only.
-/
import Osmium.Model.XmlFmt

namespace Osmium.HostileXml

open Osmium.XmlFmt

inductive Misuse where
  /-- `add_comment` while the previous comment has no text (F13b) -/
  | commentWhilePending
  /-- `add_comment_text` without a pending comment (a second <text> in one <comment>) -/
  | textWithoutComment
  /-- a call through the null `m_changeset_discussion_builder` -/
  | noBuilder
  deriving Repr, DecidableEq

def Misuse.name : Misuse → String
  | .commentWhilePending => "ub:comment-while-pending"
  | .textWithoutComment => "ub:text-without-comment"
  | .noBuilder => "ub:no-discussion-builder"

/-- the discussion builder: `present` = `m_changeset_discussion_builder != nullptr`,
    `pending` = its `m_comment_offset != no_comment` -/
structure Proto where
  present : Bool := false
  pending : Bool := false
  deriving Repr, DecidableEq

/-- `add_comment` -/
def addComment (p : Proto) : Except Misuse Proto :=
  if !p.present then .error .noBuilder
  else if p.pending then .error .commentWhilePending
  else .ok { p with pending := true }

/-- `add_comment_text` -/
def addCommentText (p : Proto) : Except Misuse Proto :=
  if !p.present then .error .noBuilder
  else if !p.pending then .error .textWithoutComment
  else .ok { p with pending := false }

/-- the builder calls of ONE event that the reader processed without throwing (`st` = the reader
    state before the event) -/
def protoStep (types : Osmium.OplFmt.Types) (st : RSt) (p : Proto) : Ev → Except Misuse Proto
  | .start name _ =>
    if !types.changeset then .ok p else
    match st.stack with
    | .changeset :: _ =>
      if name = "discussion" then .ok { p with present := true }        -- make_unique if absent
      else if name = "tag" then .ok {}                                  -- reset(): destructor
      else .ok p
    | .discussion :: _ => if name = "comment" then addComment p else .ok p
    | top :: _ =>
      -- a new <changeset>: both builders are fresh
      if (top == .osm || top == .osmChange) && name = "changeset" then .ok {} else .ok p
    | [] => .ok p
  | .stop _ =>
    if !types.changeset then .ok p else
    match st.stack with
    | .text :: _ => addCommentText p
    | .comment :: _ => if st.commentPending then addCommentText p else .ok p
    | .changeset :: _ => .ok {}                                         -- reset(): destructor
    | _ => .ok p
  | .chars _ => .ok p

/-- the reader's loop with the builder running alongside -/
def monitorGo (types : Osmium.OplFmt.Types) : List Ev → RSt → Proto → Option Misuse
  | [], _, _ => none                    -- end of input: destructors (a pending comment is finished)
  | e :: es, st, p =>
    match stepEv types st e with
    | .error _ => none                  -- exception: destructors
    | .ok st' =>
      match protoStep types st p e with
      | .error m => some m
      | .ok p' => monitorGo types es st' p'

def monitor (types : Osmium.OplFmt.Types) (evs : List Ev) : Option Misuse := monitorGo types evs {} {}

/-! ### the reader before repair 5690f83 (regression documentation)

It had no `m_comment_pending`: a second `<text>` was accepted, `</comment>` never added a text, and
the builder's destructor asserted instead of finishing a pending comment. -/

namespace Pre

inductive Misuse where
  | commentWithoutText       -- add_comment / destructor while the previous comment has no text
  | textWithoutComment       -- add_comment_text without pending comment (second <text>)
  | pendingAtDestruction     -- exception / end of input while a comment is pending (assertion builds)
  deriving Repr, DecidableEq

/-- the events the OLD reader accepted where the current one differs: a second <text> -/
def stepEvOld (types : Osmium.OplFmt.Types) (st : RSt) (e : Ev) : Except XErr RSt :=
  match e, st.stack with
  | .start name _, .comment :: _ => if name = "text" then .ok (push st .text) else .error .xml
  | _, _ => stepEv types st e

def monitorGo (types : Osmium.OplFmt.Types) : List Ev → RSt → Bool → Option Misuse
  | [], _, pending => if pending then some .pendingAtDestruction else none
  | e :: es, st, pending =>
    match stepEvOld types st e with
    | .error _ => if pending then some .pendingAtDestruction else none
    | .ok st' =>
      if !types.changeset then monitorGo types es st' pending else
      match e, st.stack with
      | .start name _, .discussion :: _ =>
        if name = "comment" then (if pending then some .commentWithoutText else monitorGo types es st' true)
        else monitorGo types es st' pending
      | .start name _, .changeset :: _ =>
        if name = "tag" && pending then some .commentWithoutText else monitorGo types es st' pending
      | .stop _, .text :: _ => if pending then monitorGo types es st' false else some .textWithoutComment
      | .stop _, .changeset :: _ => if pending then some .commentWithoutText else monitorGo types es st' false
      | _, _ => monitorGo types es st' pending

def monitor (types : Osmium.OplFmt.Types) (evs : List Ev) : Option Misuse := monitorGo types evs {} false

end Pre

end Osmium.HostileXml
