/-
The OSM object datatype shared by the format models (C01/C02/C03) and its canonical dump
(the same text is produced by harness/osm_dump.hpp from real libosmium objects).  Core-only.
Owned by the lead: extend only by asking.
-/
namespace Osmium.Osm

abbrev Bytes := List UInt8

/-- `osmium::Location`: fixed-point coordinates (value * 10^7) as int32; undefined =
    (2147483647, 2147483647) -/
structure Location where
  x : Int
  y : Int
  deriving Repr, DecidableEq

def Location.undefinedCoordinate : Int := 2147483647
def Location.undefined : Location := ⟨2147483647, 2147483647⟩

structure Tag where
  key : Bytes
  value : Bytes
  deriving Repr, DecidableEq

structure NodeRef where
  ref : Int
  location : Location := Location.undefined
  deriving Repr, DecidableEq

/-- member type: 1 = node, 2 = way, 3 = relation (values of `item_type`) -/
structure Member where
  type : Nat
  ref : Int
  role : Bytes
  deriving Repr, DecidableEq

structure Comment where
  date : Nat
  uid : Nat
  user : Bytes
  text : Bytes
  deriving Repr, DecidableEq

/-- attributes common to node/way/relation (`osmium::OSMObject`) -/
structure Meta where
  id : Int
  version : Nat := 0
  visible : Bool := true
  timestamp : Nat := 0       -- seconds since epoch, 0 = not set
  changeset : Nat := 0
  uid : Nat := 0
  user : Bytes := []
  tags : List Tag := []
  deriving Repr, DecidableEq

inductive Object
  | node (m : Meta) (location : Location)
  | way (m : Meta) (nodes : List NodeRef)
  | relation (m : Meta) (members : List Member)
  | changeset (id : Nat) (createdAt closedAt : Nat) (numChanges numComments : Nat) (uid : Int) (user : Bytes)
      (boundsBL boundsTR : Location) (tags : List Tag) (comments : List Comment)
  deriving Repr, DecidableEq

/-- file header as far as the formats carry it -/
structure Header where
  generator : Bytes := []
  boxes : List (Location × Location) := []
  multipleVersions : Bool := false
  deriving Repr, DecidableEq

/-! ### canonical dump (one line per object; byte strings in hex, `-` = empty) -/

def hexChar (n : Nat) : Char :=
  if n < 10 then Char.ofNat (n + '0'.toNat) else Char.ofNat (n - 10 + 'a'.toNat)

def hex (bs : Bytes) : String :=
  if bs.isEmpty then "-" else
  String.ofList (bs.flatMap fun b => [hexChar (b.toNat / 16), hexChar (b.toNat % 16)])

def dumpLoc (l : Location) : String := s!"{l.x},{l.y}"

def dumpTags (ts : List Tag) : String :=
  String.join (ts.map fun t => s!" T{hex t.key}={hex t.value}")

def dumpMeta (m : Meta) : String :=
  s!"{m.id} v{m.version} {if m.visible then "V" else "D"} t{m.timestamp} c{m.changeset} u{m.uid} {hex m.user}{dumpTags m.tags}"

def dump : Object → String
  | .node m l => s!"n {dumpMeta m} L{dumpLoc l}"
  | .way m ns => s!"w {dumpMeta m}" ++ String.join (ns.map fun n => s!" N{n.ref}@{dumpLoc n.location}")
  | .relation m ms => s!"r {dumpMeta m}" ++ String.join (ms.map fun x => s!" M{x.type}:{x.ref}:{hex x.role}")
  | .changeset id ca cl nc ncm uid user bl tr tags cs =>
    s!"c {id} a{ca} z{cl} n{nc} m{ncm} u{uid} {hex user} B{dumpLoc bl};{dumpLoc tr}{dumpTags tags}" ++
      String.join (cs.map fun c => s!" C{c.date}:{c.uid}:{hex c.user}:{hex c.text}")

def dumpHeader (h : Header) : String :=
  s!"h {hex h.generator} {if h.multipleVersions then "H" else "S"}" ++
    String.join (h.boxes.map fun (a, b) => s!" B{dumpLoc a};{dumpLoc b}")

end Osmium.Osm
