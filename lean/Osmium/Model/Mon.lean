/-
Mon — reusable monitor semantics (C19; reused by C05/C07).  Core-only.

Granularity.  Every transition of a machine built on this file is ONE critical section of
the code: "lock; …; unlock" or "lock; …; condvar.wait (which releases the mutex atomically)"
or one unlocked access to an atomic.  Because a mutex-protected section cannot interleave
with another section of the same mutex, the mutex needs no state of its own: it is never
held *between* two transitions (standard monitor atomicity reduction).  What has to be
explicit is what survives a critical section:

* the per-thread program counter (`Tid → pc`, updated with `setPc`),
* the wait set of each condition variable with a `notified` flag per waiter (`CondVar`):
  `wait` appends an un-notified waiter, `notify_one` marks an ARBITRARY un-notified waiter
  (the choice is part of the event, so every choice is a different interleaving),
  `notify_all` marks all; a waiter may leave the wait set when it is notified and — if the
  machine allows spurious wake-ups — at any time; a timed wait may also leave at any time.

A machine is an executable partial step function `step? : σ → ε → Option σ`; the scheduler
relation is its graph (`Step s e s'`): any thread that has an enabled event may move, so
`Reachable` ranges over ALL interleavings, any number of threads, runs of any length.
`run?` is the trace validator used by the drivers; `run?_reachable` says an accepted trace
is a run of the machine.
-/
namespace Osmium.Mon

abbrev Tid := Nat

/-! ## program counters -/

def setPc {π : Type} (pc : Tid → π) (t : Tid) (p : π) : Tid → π :=
  fun u => if u = t then p else pc u

@[simp] theorem setPc_same {π : Type} (pc : Tid → π) (t : Tid) (p : π) : setPc pc t p t = p := by
  simp [setPc]

@[simp] theorem setPc_other {π : Type} (pc : Tid → π) (t u : Tid) (p : π) (h : u ≠ t) :
    setPc pc t p u = pc u := by
  simp [setPc, h]

theorem setPc_apply {π : Type} (pc : Tid → π) (t u : Tid) (p : π) :
    setPc pc t p u = if u = t then p else pc u := rfl

/-! ## condition variables -/

/-- Wait set of a condition variable: (thread, notified?) in arrival order. -/
abbrev CondVar := List (Tid × Bool)

namespace CondVar

/-- `cv.wait(lock)`: the caller joins the wait set, un-notified. -/
def wait (cv : CondVar) (t : Tid) : CondVar := cv ++ [(t, false)]

/-- the waiter leaves the wait set (it re-acquired the mutex) -/
def remove (cv : CondVar) (t : Tid) : CondVar := cv.filter (fun w => w.1 != t)

/-- `notify_all` -/
def notifyAll (cv : CondVar) : CondVar := cv.map (fun w => (w.1, true))

/-- mark waiter `t` as notified -/
def mark (cv : CondVar) (t : Tid) : CondVar :=
  cv.map (fun w => if w.1 = t then (w.1, true) else w)

/-- `notify_one` with the scheduler's choice `c`: `none` is only legal when nobody waits
    un-notified (then the call has no effect), `some w` must be an un-notified waiter. -/
def notifyOneOk (cv : CondVar) : Option Tid → Bool
  | none => cv.all (fun w => w.2)
  | some w => cv.contains (w, false)

def notifyOne (cv : CondVar) : Option Tid → CondVar
  | none => cv
  | some w => cv.mark w

def waiting (cv : CondVar) (t : Tid) : Bool := cv.any (fun w => w.1 == t)
def notified (cv : CondVar) (t : Tid) : Bool := cv.contains (t, true)
def numNotified (cv : CondVar) : Nat := cv.countP (fun w => w.2)
def numUnnotified (cv : CondVar) : Nat := cv.countP (fun w => !w.2)

/-- May waiter `t` leave the wait set now?  With spurious wake-ups: whenever it waits. -/
def canWake (spurious : Bool) (cv : CondVar) (t : Tid) : Bool :=
  cv.waiting t && (spurious || cv.notified t)

end CondVar

/-! ## machines, runs, validator -/

structure Machine (σ ε : Type) where
  init : σ
  step? : σ → ε → Option σ

variable {σ ε : Type}

/-- scheduler relation: the graph of `step?` -/
def Machine.Step (m : Machine σ ε) (s : σ) (e : ε) (s' : σ) : Prop := m.step? s e = some s'

inductive Machine.Reachable (m : Machine σ ε) : σ → Prop
  | init : m.Reachable m.init
  | step {s s' : σ} {e : ε} : m.Reachable s → m.Step s e s' → m.Reachable s'

/-- some event is enabled -/
def Machine.Enabled (m : Machine σ ε) (s : σ) : Prop := ∃ e s', m.Step s e s'

/-- Validator: run the trace from `s`; `ok s'` or the index and event of the first event
    that is not an enabled transition. -/
def Machine.run? (m : Machine σ ε) (s : σ) (tr : List ε) (i : Nat := 0) : Except (Nat × ε) σ :=
  match tr with
  | [] => .ok s
  | e :: rest =>
    match m.step? s e with
    | some s' => m.run? s' rest (i + 1)
    | none => .error (i, e)

theorem Machine.run?_reachable (m : Machine σ ε) (s s' : σ) (tr : List ε) (i : Nat)
    (hs : m.Reachable s) (h : m.run? s tr i = .ok s') : m.Reachable s' := by
  induction tr generalizing s i with
  | nil => simp [Machine.run?] at h; exact h ▸ hs
  | cons e rest ih =>
    unfold Machine.run? at h
    split at h
    · next s1 h1 => exact ih s1 (i + 1) (.step hs h1) h
    · simp at h

/-- An invariant that holds initially and is preserved by every step holds in every
    reachable state. -/
theorem Machine.invariant (m : Machine σ ε) (P : σ → Prop) (h0 : P m.init)
    (hstep : ∀ s e s', m.Reachable s → P s → m.Step s e s' → P s') :
    ∀ s, m.Reachable s → P s := by
  intro s hs
  induction hs with
  | init => exact h0
  | step hr hst ih => exact hstep _ _ _ hr ih hst

end Osmium.Mon
