/-
C05 — specification encoder for PBF files whose PrimitiveBlocks hold PrimitiveGroups of DIFFERENT
types, with DenseNodes and plain Node groups side by side in one block.  Purely additive on top of
Model/PbfSpec.lean (nothing there is changed): `PbfSpec.blockMsg` already writes one PrimitiveGroup
per run of equal kind of the objects of a block, so a block cut out of a type-interleaved object
sequence (`split` / `blockRest`) has several groups of different types in the order of the objects;
what it cannot do is choose dense/plain PER GROUP — `Choices.dense` is one switch for the file.
`blockMsgMixed` takes that choice per group from the bits of `dm`.

Legal by osmformat.proto: `PrimitiveBlock.primitivegroup` is `repeated`, only a PrimitiveGroup has
to be type-homogeneous.  Osmosis writes such blocks at the node/way and way/relation transitions;
libosmium's own writer never does (one type per block).  Core-only.
-/
import Osmium.Model.PbfSpec

namespace Osmium.PbfSpec

open Osmium.Wire Osmium.PbfMsg Osmium.Osm

/-- group number `i` of a block is written as DenseNodes (if it is a node group) iff bit `i mod 8` of `dm` is set -/
def denseAt (dm i : Nat) : Bool := (dm >>> (i % 8)) % 2 == 1

/-- `blockMsg` with the dense/plain choice taken per PrimitiveGroup -/
def blockMsgMixed (ch : Choices) (dm : Nat) (hist : Bool) (os : List Object) : Bytes :=
  let table := tableFor ch os
  let wd := ch.writeBlockDefaults
  msg ch kPrimitiveBlock (
    [fBytes 1 (msg ch kStringTable (table.map (fBytes 1)))] ++
    (runs ch.groupSize os).zipIdx.map (fun ri => fBytes 2 (groupMsg { ch with dense := denseAt dm ri.2 } table hist ri.1)) ++
    (if ch.granularity == 100 && !wd then [] else [fInt 17 ch.granularity]) ++
    (if ch.dateGranularity == 1000 && !wd then [] else [fInt 18 ch.dateGranularity]) ++
    (if ch.latOffset == 0 && !wd then [] else [fInt 19 ch.latOffset]) ++
    (if ch.lonOffset == 0 && !wd then [] else [fInt 20 ch.lonOffset]))

/-- the file: blocks cut as in `encode` (`split`, `blockRest`: anywhere, regardless of types) -/
def encodeMixed (ch : Choices) (dm : Nat) (h : Header) (os : List Object) : Bytes :=
  frame ch PbfFraming.osmHeader (headerMsg { ch with dense := ch.dense || dm != 0 } h) ++
  ((cut (os.length + 1) ch.split ch.blockRest os).map fun b =>
    frame ch PbfFraming.osmData (blockMsgMixed ch dm h.multipleVersions b)).flatten

end Osmium.PbfSpec
