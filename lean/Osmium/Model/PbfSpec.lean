/-
A SPECIFICATION encoder for OSM PBF, written from the published format (fileformat.proto /
osmformat.proto, https://wiki.openstreetmap.org/wiki/PBF_Format), NOT from libosmium's writer,
with every free encoding choice explicit in `Choices`.  Core-only.

Format facts used:
* file = repeated { int32 BE length of BlobHeader; BlobHeader; Blob }.  BlobHeader{1 type:string,
  2 indexdata:bytes (optional, arbitrary), 3 datasize:int32}, at most 64 KiB.  Blob{1 raw:bytes | 2 raw_size + 3 zlib_data | …}.
* first blob "OSMHeader": HeaderBlock{1 bbox:HeaderBBox{1 left 2 right 3 top 4 bottom : sint64 nanodegrees},
  4 required_features*, 5 optional_features*, 16 writingprogram, 17 source, …}.
* then "OSMData": PrimitiveBlock{1 stringtable{1 s*:bytes}, 2 primitivegroup*, 17 granularity=100,
  18 date_granularity=1000, 19 lat_offset=0, 20 lon_offset=0}; index 0 of the string table is unused ("").
  latitude = .000000001 * (lat_offset + granularity * lat); timestamp(ms) = value * date_granularity.
* PrimitiveGroup{1 nodes*, 2 dense?, 3 ways*, 4 relations*} — one kind per group.
  Node{1 id:sint64, 2 keys:packed uint32, 3 vals:packed uint32, 4 info, 8 lat:sint64, 9 lon:sint64}
  Info{1 version:int32 (default -1), 2 timestamp:int64, 3 changeset:int64, 4 uid:int32, 5 user_sid:uint32, 6 visible:bool (default true)}
  DenseNodes{1 id:packed sint64 DELTA, 5 denseinfo{1 version:packed int32, 2 timestamp:packed sint64 DELTA,
     3 changeset:packed sint64 DELTA, 4 uid:packed sint32 DELTA, 5 user_sid:packed sint32 DELTA, 6 visible:packed bool},
     8 lat:packed sint64 DELTA, 9 lon:packed sint64 DELTA, 10 keys_vals:packed int32 (k v k v … 0 per node; may be
     empty if no node of the group has tags)}
  Way{1 id:int64, 2 keys, 3 vals, 4 info, 8 refs:packed sint64 DELTA, 9 lat:packed sint64 DELTA, 10 lon:packed sint64 DELTA}
  Relation{1 id:int64, 2 keys, 3 vals, 4 info, 8 roles_sid:packed int32, 9 memids:packed sint64 DELTA, 10 types:packed enum(0 node,1 way,2 relation)}
* protobuf: fields of a message may come in any order, unknown fields are to be skipped, optional
  fields may be absent, packed arrays may be empty (= absent).
-/
import Osmium.Model.Wire
import Osmium.Model.PbfMsg
import Osmium.Model.PbfFraming
import Osmium.Model.Osm

namespace Osmium.PbfSpec

open Osmium.Wire Osmium.PbfMsg Osmium.Osm

abbrev Bytes := List UInt8

/-- message kinds, the index into the per-message choices -/
def kBlobHeader := 0
def kBlob := 1
def kHeaderBlock := 2
def kHeaderBBox := 3
def kPrimitiveBlock := 4
def kStringTable := 5
def kGroup := 6
def kNode := 7
def kWay := 8
def kRelation := 9
def kInfo := 10
def kDense := 11
def kDenseInfo := 12

structure Choices where
  /-- nodes as DenseNodes instead of Node messages -/
  dense : Bool := false
  granularity : Int := 100
  latOffset : Int := 0
  lonOffset : Int := 0
  dateGranularity : Int := 1000
  /-- write granularity / date_granularity / offsets even when they have their default value -/
  writeBlockDefaults : Bool := false
  /-- omit every optional field that holds its default value (Info members, empty Info, visible = true,
      all-default DenseInfo arrays, keys_vals without any tag) -/
  omitDefaults : Bool := false
  /-- write version 0 as the .proto default -1 -/
  versionMinusOne : Bool := false
  /-- field order: per message kind a rank of (tag, wire type); fields are stably sorted by it -/
  rank : Nat → Nat × WireType → Nat := fun _ _ => 0
  /-- unknown extra fields added to every message of the given kind -/
  extras : Nat → List Field := fun _ => []
  /-- BlobHeader.indexdata -/
  indexdata : Option Bytes := none
  /-- unused string-table entries placed before the used ones -/
  tablePrefix : List Bytes := []
  /-- enter every used string a second time at the end of the table -/
  tableDup : Bool := false
  /-- block splitting: number of objects in the 1st, 2nd, … data block; what remains goes into blocks of `blockRest` -/
  split : List Nat := []
  blockRest : Nat := 8000
  /-- objects per PrimitiveGroup -/
  groupSize : Nat := 8000

def u64 (x : Int) : Nat := (x % (2 : Int) ^ 64).toNat
def fVarint (tag : Nat) (v : Nat) : Field := ⟨tag, .varint, v, []⟩
def fBytes (tag : Nat) (p : Bytes) : Field := ⟨tag, .lengthDelimited, 0, p⟩
def fSInt (tag : Nat) (x : Int) : Field := fVarint tag (zigzag64 x)
def fInt (tag : Nat) (x : Int) : Field := fVarint tag (u64 x)
/-- a packed array; `[]` may be left out -/
def fPacked (omitEmpty : Bool) (tag : Nat) (vs : List Nat) : List Field :=
  if vs.isEmpty && omitEmpty then [] else [fBytes tag (pack vs)]

/-- final field list of a message: add the unknown extras, then order by the chosen rank -/
def arrange (ch : Choices) (kind : Nat) (fs : List Field) : List Field :=
  sortByRank (ch.rank kind) (fs ++ ch.extras kind)

def msg (ch : Choices) (kind : Nat) (fs : List Field) : Bytes := encodeFields (arrange ch kind fs)

/-- DELTA coding of the spec: first value, then differences (exact integers) -/
def delta : Int → List Int → List Int
  | _, [] => []
  | prev, x :: xs => (x - prev) :: delta x xs

/-- index of a string in the block's table: first occurrence AFTER entry 0 (index 0 is reserved: it is
    the delimiter of DenseNodes.keys_vals, so even the empty string is referenced through an entry ≥ 1) -/
def idxGo (s : Bytes) : List Bytes → Nat → Nat
  | [], _ => 0
  | x :: xs, i => if x = s then i else idxGo s xs (i + 1)

def idx (table : List Bytes) (s : Bytes) : Nat := idxGo s table.tail 1

/-- stored coordinate: nanodegrees = 100 * c7 = offset + granularity * stored -/
def coord (g off c7 : Int) : Int := (100 * c7 - off) / g
/-- stored timestamp: milliseconds = 1000 * s = stored * date_granularity -/
def stamp (dg : Int) (s : Nat) : Int := (1000 * (s : Int)) / dg

def infoFields (ch : Choices) (table : List Bytes) (hist : Bool) (m : Meta) : List Field :=
  let od := ch.omitDefaults
  (if m.version == 0 && od then [] else [fInt 1 (if m.version == 0 && ch.versionMinusOne then -1 else m.version)]) ++
  (if m.timestamp == 0 && od then [] else [fInt 2 (stamp ch.dateGranularity m.timestamp)]) ++
  (if m.changeset == 0 && od then [] else [fInt 3 m.changeset]) ++
  (if m.uid == 0 && od then [] else [fInt 4 m.uid]) ++
  (if m.user.isEmpty && od then [] else [fVarint 5 (idx table m.user)]) ++
  (if (m.visible && od) || (m.visible && !hist) then [] else [fVarint 6 (if m.visible then 1 else 0)])

def metaFields (ch : Choices) (table : List Bytes) (hist : Bool) (m : Meta) : List Field :=
  let info := infoFields ch table hist m
  fPacked ch.omitDefaults 2 (m.tags.map fun t => idx table t.key) ++
  fPacked ch.omitDefaults 3 (m.tags.map fun t => idx table t.value) ++
  (if info.isEmpty && ch.omitDefaults then [] else [fBytes 4 (msg ch kInfo info)])

def nodeMsg (ch : Choices) (table : List Bytes) (hist : Bool) (m : Meta) (l : Location) : Bytes :=
  msg ch kNode ([fSInt 1 m.id] ++ metaFields ch table hist m ++
    [fSInt 8 (coord ch.granularity ch.latOffset l.y), fSInt 9 (coord ch.granularity ch.lonOffset l.x)])

def wayMsg (ch : Choices) (table : List Bytes) (hist : Bool) (m : Meta) (ns : List NodeRef) : Bytes :=
  let withLoc := ns.any fun n => n.location != Location.undefined
  msg ch kWay ([fInt 1 m.id] ++ metaFields ch table hist m ++
    fPacked ch.omitDefaults 8 ((delta 0 (ns.map (·.ref))).map zigzag64) ++
    (if withLoc then
      fPacked false 9 ((delta 0 (ns.map fun n => coord ch.granularity ch.latOffset n.location.y)).map zigzag64) ++
      fPacked false 10 ((delta 0 (ns.map fun n => coord ch.granularity ch.lonOffset n.location.x)).map zigzag64)
     else []))

def relationMsg (ch : Choices) (table : List Bytes) (hist : Bool) (m : Meta) (ms : List Member) : Bytes :=
  msg ch kRelation ([fInt 1 m.id] ++ metaFields ch table hist m ++
    fPacked ch.omitDefaults 8 (ms.map fun x => idx table x.role) ++
    fPacked ch.omitDefaults 9 ((delta 0 (ms.map (·.ref))).map zigzag64) ++
    fPacked ch.omitDefaults 10 (ms.map fun x => x.type - 1))

def zigzag32 (x : Int) : Nat := zigzag64 x % 2 ^ 32

def denseMsg (ch : Choices) (table : List Bytes) (hist : Bool) (ns : List (Meta × Location)) : Bytes :=
  let ms := ns.map (·.1)
  let od := ch.omitDefaults
  let info : List Field :=
    (if od && ms.all (·.version == 0) then [] else
      [fBytes 1 (pack (ms.map fun m => u64 (if m.version == 0 && ch.versionMinusOne then -1 else m.version)))]) ++
    (if od && ms.all (·.timestamp == 0) then [] else
      [fBytes 2 (pack ((delta 0 (ms.map fun m => stamp ch.dateGranularity m.timestamp)).map zigzag64))]) ++
    (if od && ms.all (·.changeset == 0) then [] else
      [fBytes 3 (pack ((delta 0 (ms.map fun m => (m.changeset : Int))).map zigzag64))]) ++
    (if od && ms.all (·.uid == 0) then [] else
      [fBytes 4 (pack ((delta 0 (ms.map fun m => (m.uid : Int))).map zigzag32))]) ++
    (if od && ms.all (·.user.isEmpty) then [] else
      [fBytes 5 (pack ((delta 0 (ms.map fun m => (idx table m.user : Int))).map zigzag32))]) ++
    (if (od || !hist) && ms.all (·.visible) then [] else
      [fBytes 6 (pack (ms.map fun m => if m.visible then 1 else 0))])
  msg ch kDense (
    [fBytes 1 (pack ((delta 0 (ms.map (·.id))).map zigzag64))] ++
    (if info.isEmpty then [] else [fBytes 5 (msg ch kDenseInfo info)]) ++
    [fBytes 8 (pack ((delta 0 (ns.map fun n => coord ch.granularity ch.latOffset n.2.y)).map zigzag64)),
     fBytes 9 (pack ((delta 0 (ns.map fun n => coord ch.granularity ch.lonOffset n.2.x)).map zigzag64))] ++
    (if od && ms.all (·.tags.isEmpty) then [] else
      [fBytes 10 (pack (ms.flatMap fun m => (m.tags.flatMap fun t => [idx table t.key, idx table t.value]) ++ [0]))]))

/-- kind of an object for grouping: 1 node, 3 way, 4 relation, 0 not representable in PBF -/
def kindOf : Object → Nat
  | .node .. => 1 | .way .. => 3 | .relation .. => 4 | .changeset .. => 0

/-- one PrimitiveGroup for a run of objects of the same kind -/
def groupMsg (ch : Choices) (table : List Bytes) (hist : Bool) (os : List Object) : Bytes :=
  let nodes := os.filterMap fun o => match o with | .node m l => some (m, l) | _ => none
  let fs : List Field :=
    if ch.dense && !nodes.isEmpty then [fBytes 2 (denseMsg ch table hist nodes)]
    else os.filterMap fun o => match o with
      | .node m l => some (fBytes 1 (nodeMsg ch table hist m l))
      | .way m ns => some (fBytes 3 (wayMsg ch table hist m ns))
      | .relation m ms => some (fBytes 4 (relationMsg ch table hist m ms))
      | .changeset .. => none
  msg ch kGroup fs

/-- split into runs of equal kind, each at most `n` long (n = 0 is read as 1) -/
def runs (n : Nat) : List Object → List (List Object)
  | [] => []
  | o :: os =>
    match runs n os with
    | (r :: rs) =>
      match r with
      | p :: _ => if kindOf p == kindOf o && r.length < max n 1 then (o :: r) :: rs else [o] :: r :: rs
      | [] => [o] :: rs
    | [] => [[o]]

def stringsOf : Object → List Bytes
  | .node m _ => m.user :: m.tags.flatMap fun t => [t.key, t.value]
  | .way m _ => m.user :: m.tags.flatMap fun t => [t.key, t.value]
  | .relation m ms => (m.user :: m.tags.flatMap fun t => [t.key, t.value]) ++ ms.map (·.role)
  | .changeset .. => []

def tableFor (ch : Choices) (os : List Object) : List Bytes :=
  let used := os.flatMap stringsOf
  [] :: ch.tablePrefix ++ used ++ (if ch.tableDup then used else [])

def blockMsg (ch : Choices) (hist : Bool) (os : List Object) : Bytes :=
  let table := tableFor ch os
  let wd := ch.writeBlockDefaults
  msg ch kPrimitiveBlock (
    [fBytes 1 (msg ch kStringTable (table.map (fBytes 1)))] ++
    (runs ch.groupSize os).map (fun r => fBytes 2 (groupMsg ch table hist r)) ++
    (if ch.granularity == 100 && !wd then [] else [fInt 17 ch.granularity]) ++
    (if ch.dateGranularity == 1000 && !wd then [] else [fInt 18 ch.dateGranularity]) ++
    (if ch.latOffset == 0 && !wd then [] else [fInt 19 ch.latOffset]) ++
    (if ch.lonOffset == 0 && !wd then [] else [fInt 20 ch.lonOffset]))

def be32 (n : Nat) : Bytes :=
  [UInt8.ofNat (n / 2 ^ 24 % 256), UInt8.ofNat (n / 2 ^ 16 % 256), UInt8.ofNat (n / 2 ^ 8 % 256), UInt8.ofNat (n % 256)]

def frame (ch : Choices) (type : Bytes) (payload : Bytes) : Bytes :=
  let blob := msg ch kBlob [fBytes 1 payload]
  let hdr := msg ch kBlobHeader ([fBytes 1 type] ++ (match ch.indexdata with | some d => [fBytes 2 d] | none => []) ++
    [fInt 3 blob.length])
  be32 hdr.length ++ hdr ++ blob

def headerMsg (ch : Choices) (h : Header) : Bytes :=
  msg ch kHeaderBlock (
    (h.boxes.map fun b => fBytes 1 (msg ch kHeaderBBox
      [fSInt 1 (100 * b.1.x), fSInt 2 (100 * b.2.x), fSInt 3 (100 * b.2.y), fSInt 4 (100 * b.1.y)])) ++
    [fBytes 4 "OsmSchema-V0.6".toUTF8.toList] ++
    (if ch.dense then [fBytes 4 "DenseNodes".toUTF8.toList] else []) ++
    (if h.multipleVersions then [fBytes 4 "HistoricalInformation".toUTF8.toList] else []) ++
    [fBytes 16 h.generator])

/-- cut `os` into blocks: sizes from `split`, then `rest` each (0 is read as 1) -/
def cut : Nat → List Nat → Nat → List Object → List (List Object)
  | 0, _, _, _ => []
  | _, _, _, [] => []
  | fuel + 1, [], rest, os => os.take (max rest 1) :: cut fuel [] rest (os.drop (max rest 1))
  | fuel + 1, n :: ns, rest, os => os.take (max n 1) :: cut fuel ns rest (os.drop (max n 1))

/-- the file -/
def encode (ch : Choices) (h : Header) (os : List Object) : Bytes :=
  frame ch PbfFraming.osmHeader (headerMsg ch h) ++
  ((cut (os.length + 1) ch.split ch.blockRest os).map fun b => frame ch PbfFraming.osmData (blockMsg ch h.multipleVersions b)).flatten

/-! ### choice vectors for the driver -/

def mix (a b : Nat) : Nat := ((a + 0x9e3779b9) * 2654435761 + b * 40503 + (a / 65536)) % 4294967296

def rankOfSeed (seed : Nat) (kind : Nat) (k : Nat × WireType) : Nat :=
  if seed == 0 then 0 else mix (mix (mix seed kind) k.1) k.2.code % 5

/-- unknown fields of every wire type (tags no message uses, and a known tag with a foreign wire type) -/
def extrasOfSeed (n : Nat) (kind : Nat) : List Field :=
  if n == 0 then [] else
  [⟨41 + kind, .varint, 7 + n, []⟩, ⟨60, .fixed64, 0, [1, 2, 3, 4, 5, 6, 7, 8]⟩,
   ⟨61, .lengthDelimited, 0, [0x78, 0x79]⟩, ⟨62, .fixed32, 0, [9, 8, 7, 6]⟩, ⟨1, .fixed32, 0, [0, 0, 0, 0]⟩,
   ⟨300000 + n, .lengthDelimited, 0, []⟩]

def kv (w : String) : Option (String × String) :=
  match w.splitOn "=" with
  | [k, v] => some (k, v)
  | _ => none

def parseNats (s : String) : List Nat := (s.splitOn ",").filterMap (·.toNat?)

/-- `g=100 la=0 lo=0 dg=1000 dense=0 wd=0 od=0 vm=0 seed=0 ex=0 ix=-1 pad=0 dup=0 split=… rest=8000 gs=8000` -/
def parseChoices (ws : List String) : Option Choices :=
  ws.foldlM (fun (c : Choices) w => do
    let (k, v) ← kv w
    match k with
    | "g" => pure { c with granularity := ← v.toInt? }
    | "la" => pure { c with latOffset := ← v.toInt? }
    | "lo" => pure { c with lonOffset := ← v.toInt? }
    | "dg" => pure { c with dateGranularity := ← v.toInt? }
    | "dense" => pure { c with dense := v != "0" }
    | "wd" => pure { c with writeBlockDefaults := v != "0" }
    | "od" => pure { c with omitDefaults := v != "0" }
    | "vm" => pure { c with versionMinusOne := v != "0" }
    | "seed" => do let s ← v.toNat?; pure { c with rank := rankOfSeed s }
    | "ex" => do let s ← v.toNat?; pure { c with extras := extrasOfSeed s }
    | "ix" => do
      let n ← v.toInt?
      pure { c with indexdata := if n < 0 then none else some (List.replicate n.toNat 0x5a) }
    | "pad" => do
      let n ← v.toNat?
      pure { c with tablePrefix := (List.range n).map fun i => [0x70, UInt8.ofNat (48 + i % 10)] }
    | "dup" => pure { c with tableDup := v != "0" }
    | "split" => pure { c with split := parseNats v }
    | "rest" => pure { c with blockRest := ← v.toNat? }
    | "gs" => pure { c with groupSize := ← v.toNat? }
    | _ => none) {}

end Osmium.PbfSpec
