/-
Model of libosmium's object orderings and of the order checker (property C16).

Transcribed from
  include/osmium/osm/object.hpp            operator==, operator<
  include/osmium/osm/object_comparisons.hpp id_order, object_order_type_id_version,
                                            object_order_type_id_version_without_timestamp,
                                            object_order_type_id_reverse_version,
                                            object_equal_type_id(_version)
  include/osmium/handler/check_order.hpp    CheckOrder

Core-only (no Mathlib) so that the driver links as a `lean_exe`.
Ids are unbounded `Int`: `std::abs(INT64_MIN)` is undefined behaviour and excluded by
the property's domain (ids in (INT64_MIN, INT64_MAX]); on that domain `positive_id()`
is the mathematical absolute value.
-/
namespace Osmium.Order

/-- The attributes of an `OSMObject` the orderings look at.  `type` is the numeric
    value of `item_type` (node = 1, way = 2, relation = 3, area = 4). `ts = 0` is the
    invalid ("not set") timestamp. -/
structure Obj where
  type    : Nat
  id      : Int
  version : Nat
  ts      : Nat
  visible : Bool
  deriving Repr, DecidableEq

/-- `std::tuple::operator<` on tuples of unsigned/bool components, all mapped to `Nat`
    (false = 0, true = 1): lexicographic, exactly as the standard defines it
    (`a < b || (!(b < a) && rest)`). -/
def lexLt : List Nat → List Nat → Bool
  | [], _ => false
  | _ :: _, [] => false
  | a :: as, b :: bs => a < b || (!(b < a) && lexLt as bs)

def b2n (b : Bool) : Nat := if b then 1 else 0

/-- `id_order::operator()` -/
def idOrder (lhs rhs : Int) : Bool :=
  if rhs == 0 then false
  else if lhs == 0 then true
  else if lhs < 0 then
    (if rhs > 0 then true else decide (lhs > rhs))
  else if rhs < 0 then false
  else decide (lhs < rhs)

/-- `operator==(OSMObject, OSMObject)` : type, id, version -/
def objEq (l r : Obj) : Bool :=
  l.type == r.type && l.id == r.id && l.version == r.version

/-- `object_equal_type_id` -/
def objEqTypeId (l r : Obj) : Bool :=
  l.type == r.type && l.id == r.id

/-- the timestamp both sides are compared with: their own if both are valid, else the
    invalid timestamp (0) on both sides -/
def maskTs (l r : Obj) (x : Nat) : Nat :=
  if l.ts != 0 && r.ts != 0 then x else 0

/-- `operator<(OSMObject, OSMObject)` = `object_order_type_id_version` -/
def objLt (l r : Obj) : Bool :=
  lexLt [l.type, b2n (decide (l.id > 0)), l.id.natAbs, l.version, maskTs l r l.ts]
        [r.type, b2n (decide (r.id > 0)), r.id.natAbs, r.version, maskTs l r r.ts]

/-- `operator>(OSMObject, OSMObject)`: `return rhs < lhs;` -/
def objGt (l r : Obj) : Bool := objLt r l
/-- `operator<=(OSMObject, OSMObject)`: `return !(rhs < lhs);` -/
def objLe (l r : Obj) : Bool := !objLt r l
/-- `operator>=(OSMObject, OSMObject)`: `return !(lhs < rhs);` -/
def objGe (l r : Obj) : Bool := !objLt l r
/-- `operator!=(OSMObject, OSMObject)`: `return !(lhs == rhs);` -/
def objNe (l r : Obj) : Bool := !objEq l r

/-- `object_order_type_id_version_without_timestamp` -/
def objLtNoTs (l r : Obj) : Bool :=
  lexLt [l.type, b2n (decide (l.id > 0)), l.id.natAbs, l.version]
        [r.type, b2n (decide (r.id > 0)), r.id.natAbs, r.version]

/-- `object_order_type_id_reverse_version` (note the swapped version/timestamp/visible) -/
def objLtRev (l r : Obj) : Bool :=
  lexLt [l.type, b2n (decide (l.id > 0)), l.id.natAbs, r.version, maskTs l r r.ts, b2n r.visible]
        [r.type, b2n (decide (r.id > 0)), r.id.natAbs, l.version, maskTs l r l.ts, b2n l.visible]

/-! ### CheckOrder -/

structure CheckState where
  maxNode : Int := 0
  maxWay : Int := 0
  maxRel : Int := 0
  hasNode : Bool := false
  hasWay : Bool := false
  hasRel : Bool := false
  deriving Repr, DecidableEq

inductive Kind | node | way | relation
  deriving Repr, DecidableEq

def Kind.toNat : Kind → Nat
  | .node => 1 | .way => 2 | .relation => 3

/-- One call of `CheckOrder::node/way/relation`; `none` = `out_of_order_error` thrown. -/
def checkStep (s : CheckState) (k : Kind) (id : Int) : Option CheckState :=
  match k with
  | .node =>
    if s.hasWay then none
    else if s.hasRel then none
    else if s.hasNode then
      if s.maxNode == id then none
      else if idOrder id s.maxNode then none
      else some { s with maxNode := id }
    else some { s with maxNode := id, hasNode := true }
  | .way =>
    if s.hasRel then none
    else if s.hasWay then
      if s.maxWay == id then none
      else if idOrder id s.maxWay then none
      else some { s with maxWay := id }
    else some { s with maxWay := id, hasWay := true }
  | .relation =>
    if s.hasRel then
      if s.maxRel == id then none
      else if idOrder id s.maxRel then none
      else some { s with maxRel := id }
    else some { s with maxRel := id, hasRel := true }

/-- Feed a whole stream; `none` as soon as one call throws. -/
def checkRun (s : CheckState) : List (Kind × Int) → Option CheckState
  | [] => some s
  | (k, id) :: rest =>
    match checkStep s k id with
    | none => none
    | some s' => checkRun s' rest

def accepts (xs : List (Kind × Int)) : Bool := (checkRun {} xs).isSome

end Osmium.Order
