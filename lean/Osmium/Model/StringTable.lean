/-
`osmium::io::detail::StringTable` (io/detail/string_table.hpp:232-292) as the PBF writer uses it.
Core-only.

The constructor stores "" as entry 0 in the StringStore but does NOT enter it into the hash index
(`m_strings.add("")` only).  `add(s)` looks `s` up in the index; if absent it appends the string and
gives it the index `++m_size`.  Consequence transcribed here: the first `add("")` (empty user name,
empty tag value, empty role) creates a SECOND empty string at a fresh index ≥ 1.
`size()` = number of entries (`m_size + 1`); `PrimitiveBlock::size()` used to add this up (DESIGN.md F12)
and since fix 9b8b2e0 uses `serialized_size()` (bytes) instead.  The `max_entries` (2^25) exception is not modelled: unreachable below 32 Mi adds.
Strings are C strings: the domain of the properties excludes NUL bytes.
-/
namespace Osmium.StringTable

abbrev Bytes := List UInt8

structure Table where
  /-- entries 1, 2, … in insertion order (entry 0 is the constructor's "") -/
  added : List Bytes := []
  deriving Repr, DecidableEq

/-- `size()` -/
def Table.size (t : Table) : Nat := t.added.length + 1

/-- `serialized_size()` (fix 9b8b2e0): `m_bytes`, starts at 2 for the "" entry and grows by
    `strlen + 4` (tag byte + up to 3 length bytes) with every new entry -/
def Table.serializedSize (t : Table) : Nat := 2 + (t.added.map fun s => s.length + 4).sum

/-- iteration order of `begin()..end()`: what `write_stringtable` emits -/
def Table.strings (t : Table) : List Bytes := [] :: t.added

/-- position of the first entry equal to `s` -/
def findIdx (s : Bytes) : List Bytes → Option Nat
  | [] => none
  | x :: xs => if x = s then some 0 else (findIdx s xs).map (· + 1)

/-- `add(s)`: returns the index and the new table -/
def Table.add (t : Table) (s : Bytes) : Nat × Table :=
  match findIdx s t.added with
  | some i => (i + 1, t)
  | none => (t.added.length + 1, { added := t.added ++ [s] })

/-- several adds in sequence (loop over tags / members) -/
def Table.addAll (t : Table) : List Bytes → List Nat × Table
  | [] => ([], t)
  | s :: ss =>
    let (i, t1) := t.add s
    let (is, t2) := t1.addAll ss
    (i :: is, t2)

/-- reader side: `m_stringtable.at(idx)` on the decoded vector; an index converted from a negative
    signed value becomes a huge size_t and is out of range -/
def lookup (strs : List Bytes) (i : Int) : Option Bytes :=
  if i < 0 then none else strs[i.toNat]?

end Osmium.StringTable
