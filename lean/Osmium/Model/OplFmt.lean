/-
Model of the OPL writer and the OPL line parser (text part of properties C01 / C02).

Transcribed statement by statement from
  include/osmium/io/detail/opl_output_format.hpp   OPLOutputBlock::{write_tags, write_meta, write_location,
                                                   node, write_field_ref, way, relation_member, relation, changeset}
  include/osmium/io/detail/opl_parser_functions.hpp opl_parse_space, opl_non_empty, opl_skip_section, opl_parse_char,
                                                   opl_parse_visible, opl_parse_tags, opl_parse_way_nodes,
                                                   opl_parse_relation_members, opl_parse_node/way/relation/changeset,
                                                   opl_parse_line
  include/osmium/io/detail/opl_input_format.hpp    OPLParser::run (line splitting: `Chunks.specLines`, proved equal to
                                                   `line_by_line` for every chunking in Props/C06)
  include/osmium/osm/metadata_options.hpp          metadata_options (bit set)
  include/osmium/osm/location.hpp                  Location::{operator bool, valid, is_undefined, as_string}

Leaf conversions are NOT re-modelled here, they are the models of C13 / C14:
  output_int -> `Conv.outputInt`, opl_parse_int<T> -> `Conv.oplParseInt`, Timestamp::to_iso -> `Conv.toIso`,
  opl_parse_timestamp -> `Conv.oplParseTimestampV true true` (the tree with fixes 2814835, b3b4a84), append_location_coordinate_to_string -> `Conv.formatCoord`,
  string_to_location_coordinate -> `Conv.parseCoord`, append_utf8_encoded_string -> `Opl.escape`,
  opl_parse_string -> `Opl.parseString`.

Core-only.  A line is the C string handed to `opl_parse_line` (bytes before the NUL).
-/
import Osmium.Model.Osm
import Osmium.Model.Escape
import Osmium.Model.Conv
import Osmium.Model.Chunks

namespace Osmium.TextFmt
open Osmium.Osm

/-- `osmium::metadata_options` -/
structure MetaOpts where
  version : Bool := true
  timestamp : Bool := true
  changeset : Bool := true
  uid : Bool := true
  user : Bool := true
  deriving Repr, DecidableEq

/-- `metadata_options::any()` -/
def MetaOpts.any (m : MetaOpts) : Bool := m.version || m.timestamp || m.changeset || m.uid || m.user

/-- bits as in `enum options`: 1 version, 2 timestamp, 4 changeset, 8 uid, 16 user -/
def MetaOpts.ofBits (n : Nat) : MetaOpts :=
  ⟨n.testBit 0, n.testBit 1, n.testBit 2, n.testBit 3, n.testBit 4⟩

/-- the writer option vector of the two text formats (the `osmium::io::File` options the
    output formats look at) -/
structure Opts where
  md : MetaOpts := {}
  /-- `locations_on_ways` -/
  locationsOnWays : Bool := false
  /-- `file.has_multiple_object_versions()` (XML only) -/
  history : Bool := false
  /-- `force_visible_flag` (XML only) -/
  forceVisible : Bool := false
  /-- `xml_change_format` (XML only) -/
  changeOps : Bool := false
  deriving Repr, DecidableEq

/-- `Location::is_undefined()` -/
def isUndefined (l : Location) : Bool :=
  l.x == Location.undefinedCoordinate && l.y == Location.undefinedCoordinate

/-- `Location::operator bool()` -/
def bothDefined (l : Location) : Bool :=
  l.x != Location.undefinedCoordinate && l.y != Location.undefinedCoordinate

/-- `Location::valid()` -/
def valid (l : Location) : Bool :=
  decide (-1800000000 ≤ l.x) && decide (l.x ≤ 1800000000) && decide (-900000000 ≤ l.y) && decide (l.y ≤ 900000000)

/-- exceptions of the writers -/
inductive WErr
  /-- `output_int(INT64_MIN)`: undefined behaviour in the real code -/
  | intMin
  /-- exception of `next_utf8_codepoint` (string is not UTF-8) -/
  | utf8
  /-- `osmium::invalid_location` from `Location::as_string` -/
  | invalidLocation
  deriving Repr, DecidableEq

/-- sequencing of `Except` without the monad machinery (keeps the proofs first-order) -/
@[inline] def bindE {ε α β : Type} (x : Except ε α) (f : α → Except ε β) : Except ε β :=
  match x with
  | .ok a => f a
  | .error e => .error e

@[simp] theorem bindE_ok {ε α β : Type} (a : α) (f : α → Except ε β) : bindE (.ok a) f = f a := rfl
@[simp] theorem bindE_error {ε α β : Type} (e : ε) (f : α → Except ε β) :
    bindE (Except.error e : Except ε α) f = .error e := rfl

def mapE {ε α β : Type} (f : α → Except ε β) : List α → Except ε (List β)
  | [] => .ok []
  | a :: as => bindE (f a) fun b => bindE (mapE f as) fun bs => .ok (b :: bs)

/-- `a,b,c` -/
def joinSep (sep : UInt8) : List Bytes → Bytes
  | [] => []
  | [a] => a
  | a :: as => a ++ sep :: joinSep sep as

/-- `output_int` -/
def wInt (v : Int) : Except WErr Bytes :=
  match Conv.outputInt v with
  | some b => .ok b
  | none => .error .intMin

/-- `item_type_to_char` for the member types (1 node, 2 way, 3 relation; everything else is
    not a member type: 'X' stands for the other enum values) -/
def typeChar (t : Nat) : UInt8 := if t = 1 then 0x6e else if t = 2 then 0x77 else if t = 3 then 0x72 else 0x58

/-- `char_to_item_type` restricted to the three member types (0 = anything else) -/
def charType (c : UInt8) : Nat := if c = 0x6e then 1 else if c = 0x77 then 2 else if c = 0x72 then 3 else 0

end Osmium.TextFmt

namespace Osmium.OplFmt
open Osmium.Osm Osmium.TextFmt Osmium.Conv

/-! ## writer -/

/-- `append_encoded_string` -/
def wStr (s : Bytes) : Except WErr Bytes :=
  match Opl.escape s with
  | .ok b => .ok b
  | .error _ => .error .utf8

/-- `key=value` -/
def wTag (t : Tag) : Except WErr Bytes :=
  bindE (wStr t.key) fun k => bindE (wStr t.value) fun v => .ok (k ++ 0x3d :: v)

/-- `write_tags`: `" T"` then the tags separated by commas -/
def wTags (ts : List Tag) : Except WErr Bytes :=
  bindE (mapE wTag ts) fun xs => .ok (0x20 :: 0x54 :: joinSep 0x2c xs)

/-- `if (flag) { *m_out += ' '; write_field_int(c, value); }` -/
def wOptInt (flag : Bool) (c : UInt8) (v : Int) : Except WErr Bytes :=
  if flag then bindE (wInt v) fun b => .ok (0x20 :: c :: b) else .ok []

/-- the `if (m_options.add_metadata.any()) { … }` block of `write_meta` -/
def wFields (o : Opts) (m : Meta) : Except WErr Bytes :=
  if o.md.any then
    bindE (wOptInt o.md.version 0x76 m.version) fun fv =>
    bindE (wOptInt o.md.changeset 0x63 m.changeset) fun fc =>
    bindE (wOptInt o.md.uid 0x69 m.uid) fun fi =>
    bindE (if o.md.user then bindE (wStr m.user) fun u => .ok (0x20 :: 0x75 :: u) else .ok []) fun fu =>
    .ok (fv ++ ([0x20, 0x64, if m.visible then 0x56 else 0x44] ++ (fc ++
         ((if o.md.timestamp then 0x20 :: 0x74 :: toIso m.timestamp else []) ++ (fi ++ fu)))))
  else .ok []

/-- `write_meta` -/
def wMeta (o : Opts) (m : Meta) : Except WErr Bytes :=
  bindE (wInt m.id) fun id =>
  bindE (wFields o m) fun fields =>
  bindE (wTags m.tags) fun tags => .ok (id ++ (fields ++ tags))

/-- `write_location(location, x, y)` -/
def wLocation (l : Location) (cx cy : UInt8) : Bytes :=
  if isUndefined l then [0x20, cx, 0x20, cy]
  else 0x20 :: cx :: (formatCoord l.x ++ 0x20 :: cy :: formatCoord l.y)

/-- `write_field_ref` (locations_on_ways) -/
def wFieldRef (n : NodeRef) : Except WErr Bytes :=
  bindE (wInt n.ref) fun r =>
  if bothDefined n.location then
    if valid n.location then .ok (0x6e :: r ++ 0x78 :: (formatCoord n.location.x ++ 0x79 :: formatCoord n.location.y))
    else .error .invalidLocation
  else .ok (0x6e :: r ++ [0x78, 0x79])

/-- `write_field_int('n', it->ref())` -/
def wPlainRef (n : NodeRef) : Except WErr Bytes :=
  bindE (wInt n.ref) fun r => .ok (0x6e :: r)

/-- `relation_member` -/
def wMember (m : Member) : Except WErr Bytes :=
  bindE (wInt m.ref) fun r => bindE (wStr m.role) fun role => .ok (typeChar m.type :: r ++ 0x40 :: role)

/-- one object = one line (with its final '\n') -/
def writeObject (o : Opts) : Object → Except WErr Bytes
  | .node m l =>
    bindE (wMeta o m) fun mb => .ok (0x6e :: mb ++ wLocation l 0x78 0x79 ++ [0x0a])
  | .way m ns =>
    bindE (wMeta o m) fun mb =>
    bindE (mapE (if o.locationsOnWays then wFieldRef else wPlainRef) ns) fun xs =>
    .ok (0x77 :: mb ++ 0x20 :: 0x4e :: joinSep 0x2c xs ++ [0x0a])
  | .relation m ms =>
    bindE (wMeta o m) fun mb =>
    bindE (mapE wMember ms) fun xs =>
    .ok (0x72 :: mb ++ 0x20 :: 0x4d :: joinSep 0x2c xs ++ [0x0a])
  | .changeset id ca cl nc ncm uid user bl tr tags _ =>
    bindE (wInt id) fun bid => bindE (wInt nc) fun bnc => bindE (wInt ncm) fun bncm =>
    bindE (wInt uid) fun buid => bindE (wStr user) fun bu => bindE (wTags tags) fun bt =>
    .ok (0x63 :: bid ++ 0x20 :: 0x6b :: bnc ++ 0x20 :: 0x73 :: toIso ca ++ 0x20 :: 0x65 :: toIso cl ++
         0x20 :: 0x64 :: bncm ++ 0x20 :: 0x69 :: buid ++ 0x20 :: 0x75 :: bu ++
         wLocation bl 0x78 0x79 ++ wLocation tr 0x58 0x59 ++ bt ++ [0x0a])

/-- the whole file (OPL has no header) -/
def writeFile (o : Opts) (objs : List Object) : Except WErr Bytes :=
  bindE (mapE (writeObject o) objs) fun ls => .ok ls.flatten

/-! ## parser -/

/-- exception classes of the reader -/
inductive PErr
  /-- `osmium::opl_error` -/
  | opl
  /-- `osmium::invalid_location` (escapes from `string_to_location_coordinate`) -/
  | location
  /-- `std::length_error` from the builders (user name / tag key / value / role > 1024 bytes) -/
  | length
  /-- model fuel exhausted (cannot happen: every loop iteration consumes a byte) -/
  | fuel
  deriving Repr, DecidableEq

def isSpTab (c : UInt8) : Bool := c == 0x20 || c == 0x09

/-- `opl_non_empty(s)` as a test on the byte under the cursor -/
def nonEmptyB (c : UInt8) : Bool := c != 0 && c != 0x20 && c != 0x09

/-- `opl_parse_space` -/
def pSpace (s : Bytes) : Except PErr Bytes :=
  if isSpTab (peek s) then .ok (s.dropWhile isSpTab) else .error .opl

/-- `opl_skip_section` -/
def skipSection (s : Bytes) : Bytes := s.dropWhile nonEmptyB

/-- the bytes `[begin, opl_skip_section)` -/
def sectionOf (s : Bytes) : Bytes := s.takeWhile nonEmptyB

def pInt (tmin tmax : Int) (s : Bytes) : Except PErr (Int × Bytes) :=
  match oplParseInt tmin tmax s with
  | .ok r => .ok r
  | .error _ => .error .opl

def u32Max : Int := 4294967295

def pU32 (s : Bytes) : Except PErr (Nat × Bytes) :=
  bindE (pInt 0 u32Max s) fun r => .ok (r.1.toNat, r.2)

def pId (s : Bytes) : Except PErr (Int × Bytes) := pInt int64Min int64Max s

def pStr (s : Bytes) : Except PErr (Bytes × Bytes) :=
  match Opl.parseString s with
  | .ok r => .ok r
  | .error _ => .error .opl

def pTs (s : Bytes) : Except PErr (Nat × Bytes) :=
  match oplParseTimestampV true true s with
  | .ok r => .ok r
  | .error _ => .error .opl

/-- `set_lon_partial` / `set_lat_partial` -/
def pCoord (s : Bytes) : Except PErr (Int × Bytes) :=
  match parseCoord .now s with
  | .ok out => .ok (out.value, out.rest)
  | .error _ => .error .location

/-- `opl_parse_visible` -/
def pVisible (s : Bytes) : Except PErr (Bool × Bytes) :=
  match s with
  | c :: r => if c = 0x56 then .ok (true, r) else if c = 0x44 then .ok (false, r) else .error .opl
  | [] => .error .opl

/-- `opl_parse_char(&s, c)` -/
def pChar (c : UInt8) (s : Bytes) : Except PErr Bytes :=
  match s with
  | d :: r => if d = c then .ok r else .error .opl
  | [] => .error .opl

def maxString : Nat := 1024

/-- `opl_parse_tags`; fuel = bytes + 1 (every tag consumes at least the '=') -/
def pTags : Nat → Bytes → Except PErr (List Tag)
  | 0, _ => .error .fuel
  | f + 1, s =>
    bindE (pStr s) fun (k, s1) =>
    bindE (pChar 0x3d s1) fun s2 =>
    bindE (pStr s2) fun (v, s3) =>
    if k.length > maxString || v.length > maxString then .error .length
    else if isSpTab (peek s3) || peek s3 == 0 then .ok [⟨k, v⟩]
    else bindE (pChar 0x2c s3) fun s4 => bindE (pTags f s4) fun ts => .ok (⟨k, v⟩ :: ts)

/-- the optional `x[<lon>][y[<lat>]]` after a node reference; empty coordinates ("n1xy", what the
    writer produces for a reference without location) leave the coordinate undefined -/
def pRefLocation (s : Bytes) : Except PErr (Location × Bytes) :=
  if peek s == 0x78 then
    let s0 := s.tail
    bindE (if !s0.isEmpty && peek s0 != 0x79 && peek s0 != 0x2c then pCoord s0
           else .ok (Location.undefinedCoordinate, s0)) fun (x, s1) =>
    if peek s1 == 0x79 then
      let s2 := s1.tail
      bindE (if !s2.isEmpty && peek s2 != 0x2c then pCoord s2
             else .ok (Location.undefinedCoordinate, s2)) fun (y, s3) => .ok (⟨x, y⟩, s3)
    else .ok (⟨x, Location.undefinedCoordinate⟩, s1)
  else .ok (Location.undefined, s)

/-- one iteration of the loop of `opl_parse_way_nodes` up to `builder.add_node_ref`: the node
    reference and the cursor behind it -/
def pWayNode (s : Bytes) : Except PErr (NodeRef × Bytes) :=
  bindE (pChar 0x6e s) fun s1 =>
  if s1.isEmpty then .error .opl
  else
    bindE (pId s1) fun (ref, s2) =>
    if s2.isEmpty then .ok (⟨ref, Location.undefined⟩, s2)
    else bindE (pRefLocation s2) fun (loc, s3) => .ok (⟨ref, loc⟩, s3)

/-- the `while (s < e) { item; if (s == e) return; opl_parse_char(&s, ','); }` loop shared by
    `opl_parse_way_nodes` and `opl_parse_relation_members`, on the section bytes `[s, e)` (the byte
    at `e` is a space, a tab or the NUL: it stops every sub-parser exactly like the end of the
    list does).  Fuel: every item consumes at least one byte. -/
def pSepList {α : Type} (item : Bytes → Except PErr (α × Bytes)) : Nat → Bytes → Except PErr (List α)
  | 0, _ => .error .fuel
  | f + 1, s =>
    if s.isEmpty then .ok []
    else
      bindE (item s) fun (a, s3) =>
      if s3.isEmpty then .ok [a]
      else bindE (pChar 0x2c s3) fun s4 => bindE (pSepList item f s4) fun as => .ok (a :: as)

/-- `opl_parse_way_nodes(s, e)` -/
def pWayNodes : Nat → Bytes → Except PErr (List NodeRef) := pSepList pWayNode

/-- one iteration of the loop of `opl_parse_relation_members` up to `builder.add_member` -/
def pMember (s : Bytes) : Except PErr (Member × Bytes) :=
  match s with
  | [] => .error .opl
  | c :: s1 =>
    if charType c = 0 then .error .opl
    else if s1.isEmpty then .error .opl
    else
      bindE (pId s1) fun (ref, s2) =>
      bindE (pChar 0x40 s2) fun s3 =>
      if s3.isEmpty then .ok (⟨charType c, ref, []⟩, s3)
      else
        bindE (pStr s3) fun (role, s4) =>
        if role.length > maxString then .error .length else .ok (⟨charType c, ref, role⟩, s4)

/-- `opl_parse_relation_members(s, e)` -/
def pMembers : Nat → Bytes → Except PErr (List Member) := pSepList pMember

/-- which of node / way / relation is being parsed (they share the attribute loop) -/
inductive Kind | node | way | relation
  deriving Repr, DecidableEq

/-- the local variables of `opl_parse_node/way/relation` (`has_x` = `isSome` where possible) -/
structure ObjSt where
  version : Option Nat := none
  visible : Option Bool := none
  changeset : Option Nat := none
  timestamp : Option Nat := none
  uid : Option Nat := none
  user : Option Bytes := none
  hasTags : Bool := false
  tagsBegin : Option Bytes := none
  hasLon : Bool := false
  hasLat : Bool := false
  x : Int := Location.undefinedCoordinate
  y : Int := Location.undefinedCoordinate
  /-- `[nodes_begin, nodes_end)` / `[members_begin, members_end)`; `none` = attribute not seen -/
  sec : Option Bytes := none
  deriving Repr, DecidableEq

/-- one `case` of the `switch (c)`; `s` = `*data` after `++(*data)` -/
def objField (k : Kind) (st : ObjSt) (c : UInt8) (s : Bytes) : Except PErr (ObjSt × Bytes) :=
  if c = 0x76 then
    if st.version.isSome then .error .opl
    else bindE (pU32 s) fun (v, r) => .ok ({ st with version := some (v % 2147483648) }, r)   -- `m_version : 31`
  else if c = 0x64 then
    if st.visible.isSome then .error .opl else bindE (pVisible s) fun (v, r) => .ok ({ st with visible := some v }, r)
  else if c = 0x63 then
    if st.changeset.isSome then .error .opl else bindE (pU32 s) fun (v, r) => .ok ({ st with changeset := some v }, r)
  else if c = 0x74 then
    if st.timestamp.isSome then .error .opl else bindE (pTs s) fun (v, r) => .ok ({ st with timestamp := some v }, r)
  else if c = 0x69 then
    if st.uid.isSome then .error .opl else bindE (pU32 s) fun (v, r) => .ok ({ st with uid := some v }, r)
  else if c = 0x75 then
    if st.user.isSome then .error .opl else bindE (pStr s) fun (v, r) => .ok ({ st with user := some v }, r)
  else if c = 0x54 then
    if st.hasTags then .error .opl
    else if nonEmptyB (peek s) then .ok ({ st with hasTags := true, tagsBegin := some s }, skipSection s)
    else .ok ({ st with hasTags := true }, s)
  else if c = 0x78 && k == .node then
    if st.hasLon then .error .opl
    else if nonEmptyB (peek s) then bindE (pCoord s) fun (v, r) => .ok ({ st with hasLon := true, x := v }, r)
    else .ok ({ st with hasLon := true }, s)
  else if c = 0x79 && k == .node then
    if st.hasLat then .error .opl
    else if nonEmptyB (peek s) then bindE (pCoord s) fun (v, r) => .ok ({ st with hasLat := true, y := v }, r)
    else .ok ({ st with hasLat := true }, s)
  else if (c = 0x4e && k == .way) || (c = 0x4d && k == .relation) then
    if st.sec.isSome then .error .opl else .ok ({ st with sec := some (sectionOf s) }, skipSection s)
  else .error .opl

/-- `while (**data) { opl_parse_space(data); c = **data; if (c == 0) break; ++*data; switch … }`
    for any field function.  Fuel: every iteration consumes at least the space. -/
def attrLoop {σ : Type} (field : σ → UInt8 → Bytes → Except PErr (σ × Bytes)) : Nat → σ → Bytes → Except PErr σ
  | 0, _, _ => .error .fuel
  | f + 1, st, s =>
    if s.isEmpty then .ok st
    else
      bindE (pSpace s) fun s1 =>
      match s1 with
      | [] => .ok st
      | c :: s2 => bindE (field st c s2) fun (st', s3) => attrLoop field f st' s3

def loopFuel (s : Bytes) : Nat := s.length + 16

/-- `builder.set_user(user)` after the attribute loop (osm_object_builder.hpp, repair bc6b907):
    `std::length_error` for a user name longer than `max_osm_string_length`.  (Before the repair
    the length was only asserted and, with NDEBUG, truncated to 16 bits: DESIGN.md F13c.) -/
def setUserCheck (user : Bytes) : Except PErr Unit :=
  if user.length > maxString then .error .length else .ok ()

/-- tags are parsed after the loop from `tags_begin` -/
def finishTags (tb : Option Bytes) : Except PErr (List Tag) :=
  match tb with
  | none => .ok []
  | some s => pTags (s.length + 1) s

def metaOf (id : Int) (st : ObjSt) (tags : List Tag) : Meta :=
  { id := id, version := st.version.getD 0, visible := st.visible.getD true,
    timestamp := st.timestamp.getD 0, changeset := st.changeset.getD 0, uid := st.uid.getD 0,
    user := st.user.getD [], tags := tags }

/-- `opl_parse_node` / `opl_parse_way` / `opl_parse_relation` (`s` = after the type character) -/
def pObject (k : Kind) (s : Bytes) : Except PErr Object :=
  bindE (pId s) fun (id, s1) =>
  bindE (attrLoop (objField k) (loopFuel s1) {} s1) fun st =>
  bindE (setUserCheck (st.user.getD [])) fun _ =>
  bindE (finishTags st.tagsBegin) fun tags =>
  match k with
  | .node =>
    .ok (.node (metaOf id st tags) (if valid ⟨st.x, st.y⟩ then ⟨st.x, st.y⟩ else Location.undefined))
  | .way =>
    bindE (match st.sec with
           | none => .ok []
           | some sec => pWayNodes (sec.length + 1) sec) fun ns => .ok (.way (metaOf id st tags) ns)
  | .relation =>
    bindE (match st.sec with
           | none => .ok []
           | some sec => pMembers (sec.length + 1) sec) fun ms => .ok (.relation (metaOf id st tags) ms)

/-- the local variables of `opl_parse_changeset` -/
structure CsSt where
  numChanges : Option Nat := none
  createdAt : Option Nat := none
  closedAt : Option Nat := none
  numComments : Option Nat := none
  uid : Option Nat := none
  user : Option Bytes := none
  hasTags : Bool := false
  tagsBegin : Option Bytes := none
  hasMinX : Bool := false
  hasMinY : Bool := false
  hasMaxX : Bool := false
  hasMaxY : Bool := false
  blx : Int := Location.undefinedCoordinate
  bly : Int := Location.undefinedCoordinate
  trx : Int := Location.undefinedCoordinate
  try_ : Int := Location.undefinedCoordinate
  deriving Repr, DecidableEq

def csField (st : CsSt) (c : UInt8) (s : Bytes) : Except PErr (CsSt × Bytes) :=
  if c = 0x6b then
    if st.numChanges.isSome then .error .opl else bindE (pU32 s) fun (v, r) => .ok ({ st with numChanges := some v }, r)
  else if c = 0x73 then
    if st.createdAt.isSome then .error .opl else bindE (pTs s) fun (v, r) => .ok ({ st with createdAt := some v }, r)
  else if c = 0x65 then
    if st.closedAt.isSome then .error .opl else bindE (pTs s) fun (v, r) => .ok ({ st with closedAt := some v }, r)
  else if c = 0x64 then
    if st.numComments.isSome then .error .opl else bindE (pU32 s) fun (v, r) => .ok ({ st with numComments := some v }, r)
  else if c = 0x69 then
    if st.uid.isSome then .error .opl else bindE (pU32 s) fun (v, r) => .ok ({ st with uid := some v }, r)
  else if c = 0x75 then
    if st.user.isSome then .error .opl else bindE (pStr s) fun (v, r) => .ok ({ st with user := some v }, r)
  else if c = 0x78 then
    if st.hasMinX then .error .opl
    else if nonEmptyB (peek s) then bindE (pCoord s) fun (v, r) => .ok ({ st with hasMinX := true, blx := v }, r)
    else .ok ({ st with hasMinX := true }, s)
  else if c = 0x79 then
    if st.hasMinY then .error .opl
    else if nonEmptyB (peek s) then bindE (pCoord s) fun (v, r) => .ok ({ st with hasMinY := true, bly := v }, r)
    else .ok ({ st with hasMinY := true }, s)
  else if c = 0x58 then
    if st.hasMaxX then .error .opl
    else if nonEmptyB (peek s) then bindE (pCoord s) fun (v, r) => .ok ({ st with hasMaxX := true, trx := v }, r)
    else .ok ({ st with hasMaxX := true }, s)
  else if c = 0x59 then
    if st.hasMaxY then .error .opl
    else if nonEmptyB (peek s) then bindE (pCoord s) fun (v, r) => .ok ({ st with hasMaxY := true, try_ := v }, r)
    else .ok ({ st with hasMaxY := true }, s)
  else if c = 0x54 then
    if st.hasTags then .error .opl
    else if nonEmptyB (peek s) then .ok ({ st with hasTags := true, tagsBegin := some s }, skipSection s)
    else .ok ({ st with hasTags := true }, s)
  else .error .opl

/-- `opl_parse_changeset` -/
def pChangeset (s : Bytes) : Except PErr Object :=
  bindE (pU32 s) fun (id, s1) =>
  bindE (attrLoop csField (loopFuel s1) {} s1) fun st =>
  bindE (setUserCheck (st.user.getD [])) fun _ =>
  bindE (finishTags st.tagsBegin) fun tags =>
  .ok (.changeset id (st.createdAt.getD 0) (st.closedAt.getD 0) (st.numChanges.getD 0) (st.numComments.getD 0)
        (st.uid.getD 0 : Nat) (st.user.getD []) ⟨st.blx, st.bly⟩ ⟨st.trx, st.try_⟩ tags [])

/-- `osm_entity_bits` of the reader -/
structure Types where
  node : Bool := true
  way : Bool := true
  relation : Bool := true
  changeset : Bool := true
  deriving Repr, DecidableEq

/-- `opl_parse_line`: `none` = nothing added to the buffer (empty line, comment, filtered type) -/
def parseLine (types : Types) (line : Bytes) : Except PErr (Option Object) :=
  match line with
  | [] => .ok none
  | c :: s =>
    if c = 0x23 then .ok none
    else if c = 0x6e then (if types.node then bindE (pObject .node s) fun o => .ok (some o) else .ok none)
    else if c = 0x77 then (if types.way then bindE (pObject .way s) fun o => .ok (some o) else .ok none)
    else if c = 0x72 then (if types.relation then bindE (pObject .relation s) fun o => .ok (some o) else .ok none)
    else if c = 0x63 then (if types.changeset then bindE (pChangeset s) fun o => .ok (some o) else .ok none)
    else .error .opl

/-- all lines of a file, first error wins -/
def parseLines (types : Types) : List Bytes → Except PErr (List Object)
  | [] => .ok []
  | l :: ls =>
    bindE (parseLine types l) fun o => bindE (parseLines types ls) fun os =>
      .ok (match o with | some x => x :: os | none => os)

/-- `OPLParser::run`: the non-empty lines of the stream (split at '\n' and '\r'), each cut at
    its first NUL (it is handed over as a C string) -/
def parseFile (types : Types) (bs : Bytes) : Except PErr (List Object) :=
  parseLines types ((Chunks.specLines bs).map Chunks.cstr)

/-! ## what a reader can get back: the object with every field the options drop reset -/

def projectMeta (o : Opts) (m : Meta) : Meta :=
  { m with
    version := if o.md.version then m.version else 0,
    visible := if o.md.any then m.visible else true,
    timestamp := if o.md.timestamp then m.timestamp else 0,
    changeset := if o.md.changeset then m.changeset else 0,
    uid := if o.md.uid then m.uid else 0,
    user := if o.md.user then m.user else [] }

def project (o : Opts) : Object → Object
  | .node m l => .node (projectMeta o m) l
  | .way m ns => .way (projectMeta o m)
      (if o.locationsOnWays then ns else ns.map fun n => { n with location := Location.undefined })
  | .relation m ms => .relation (projectMeta o m) ms
  | .changeset id ca cl nc ncm uid user bl tr tags _ => .changeset id ca cl nc ncm uid user bl tr tags []


/-! ## specification renderer (C02)

Written from the OPL format description (osmcode.org/opl-file-format): one object per line; the
type letter and id first, then the attributes in ANY order, each introduced by its letter and
separated by one or more spaces or tabs; attributes may be missing (then the value is the
default); `T`, `N`, `M` sections may be empty; strings may escape ANY character as `%hex%` with
upper or lower case digits (the writer escapes only what it must); coordinates are decimal numbers
(any number of trailing zeros); lines end with LF, CR or CRLF; empty lines and lines starting with
`#` are ignored.  Every free choice is a field of `Choices`. -/
namespace OplSpec
open Osmium.Osm Osmium.TextFmt Osmium.Conv Osmium.OplFmt

structure Choices where
  /-- selection permutation of the attributes: repeatedly take element `k mod remaining` -/
  order : List Nat := []
  /-- separator in front of the i-th attribute: 0 " ", 1 tab, 2 two spaces, 3 space+tab -/
  seps : List Nat := []
  /-- omit attributes whose value is the default (version 0, visible, changeset 0, no timestamp,
      uid 0, empty user, no tags, undefined location, no nodes / members) -/
  omitDefaults : Bool := false
  /-- 0: escape as the writer does; 1: escape every character; 2: every character, upper case,
      padded to 6 digits -/
  escapeMode : Nat := 0
  /-- pad coordinates to 7 decimals -/
  padCoords : Bool := false
  /-- line ending of the i-th line: 0 LF, 1 CR, 2 CRLF -/
  endings : List Nat := []
  /-- junk in front of the i-th line: 0 nothing, 1 empty line, 2 comment line, 3 both -/
  junk : List Nat := []
  /-- the last line has no line ending -/
  noFinalEnding : Bool := false
  deriving Repr

def pickGo {α : Type} : Nat → List Nat → List α → List α
  | 0, _, xs => xs
  | _ + 1, _, [] => []
  | _ + 1, [], xs => xs
  | f + 1, k :: ks, x :: xs =>
    let l := x :: xs
    let i := k % l.length
    match l[i]? with
    | some a => a :: pickGo f ks (l.eraseIdx i)
    | none => l

def pick {α : Type} (ks : List Nat) (xs : List α) : List α := pickGo xs.length ks xs

def sepBytes (k : Nat) : Bytes :=
  match k % 4 with
  | 0 => [0x20]
  | 1 => [0x09]
  | 2 => [0x20, 0x20]
  | _ => [0x20, 0x09]

def hexU (n : Nat) : UInt8 := if n < 10 then UInt8.ofNat (0x30 + n) else UInt8.ofNat (0x37 + n)

def hexDigits (upper : Bool) (n : Nat) : Nat → Bytes
  | 0 => []
  | k + 1 => (if upper then hexU ((n >>> (4 * k)) &&& 0xf) else Opl.hexDigit ((n >>> (4 * k)) &&& 0xf)) :: hexDigits upper n k

def needDigits (n : Nat) : Nat := if n < 0x10 then 1 else if n < 0x100 then 2 else if n < 0x1000 then 3 else if n < 0x10000 then 4 else if n < 0x100000 then 5 else 6

/-- a string in OPL syntax -/
def str (ch : Choices) (s : Bytes) : Bytes :=
  if ch.escapeMode = 0 then
    match Opl.escape s with
    | .ok b => b
    | .error _ => []
  else
    match Utf8.decodeStr s with
    | .ok cps => cps.flatMap fun c =>
        0x25 :: (hexDigits (ch.escapeMode = 2) c (if ch.escapeMode = 2 then 6 else needDigits c) ++ [0x25])
    | .error _ => []

def int (v : Int) : Bytes := (outputInt v).getD []

def coord (ch : Choices) (v : Int) : Bytes :=
  let b := formatCoord v
  if ch.padCoords then
    let frac := (b.dropWhile (· != 0x2e)).drop 1
    (if b.contains 0x2e then b else b ++ [0x2e]) ++ List.replicate (7 - frac.length) 0x30
  else b

def tagsBody (ch : Choices) (ts : List Tag) : Bytes :=
  joinSep 0x2c (ts.map fun t => str ch t.key ++ 0x3d :: str ch t.value)

/-- the attributes of an object as (is-default, letter + value) -/
def metaFields (ch : Choices) (m : Meta) : List (Bool × Bytes) :=
  [(m.version == 0, 0x76 :: int m.version), (m.visible, [0x64, if m.visible then 0x56 else 0x44]),
   (m.changeset == 0, 0x63 :: int m.changeset), (m.timestamp == 0, 0x74 :: toIso m.timestamp),
   (m.uid == 0, 0x69 :: int m.uid), (m.user.isEmpty, 0x75 :: str ch m.user),
   (m.tags.isEmpty, 0x54 :: tagsBody ch m.tags)]

def locFields (ch : Choices) (l : Location) (cx cy : UInt8) : List (Bool × Bytes) :=
  if isUndefined l then [(true, [cx]), (true, [cy])]
  else [(false, cx :: coord ch l.x), (false, cy :: coord ch l.y)]

def refBody (ch : Choices) (n : NodeRef) : Bytes :=
  0x6e :: int n.ref ++ (if bothDefined n.location then 0x78 :: coord ch n.location.x ++ 0x79 :: coord ch n.location.y else [])

def objectFields (ch : Choices) : Object → Bytes × List (Bool × Bytes)
  | .node m l => (0x6e :: int m.id, metaFields ch m ++ locFields ch l 0x78 0x79)
  | .way m ns => (0x77 :: int m.id, metaFields ch m ++ [(ns.isEmpty, 0x4e :: joinSep 0x2c (ns.map (refBody ch)))])
  | .relation m ms => (0x72 :: int m.id, metaFields ch m ++
      [(ms.isEmpty, 0x4d :: joinSep 0x2c (ms.map fun x => typeChar x.type :: int x.ref ++ 0x40 :: str ch x.role))])
  | .changeset id ca cl nc ncm uid user bl tr tags _ =>
    (0x63 :: int id, [(nc == 0, 0x6b :: int nc), (ca == 0, 0x73 :: toIso ca), (cl == 0, 0x65 :: toIso cl),
      (ncm == 0, 0x64 :: int ncm), (uid == 0, 0x69 :: int uid), (user.isEmpty, 0x75 :: str ch user)] ++
      locFields ch bl 0x78 0x79 ++ locFields ch tr 0x58 0x59 ++ [(tags.isEmpty, 0x54 :: tagsBody ch tags)])

def withSeps : List Nat → List Bytes → Bytes
  | _, [] => []
  | [], f :: fs => 0x20 :: f ++ withSeps [] fs
  | k :: ks, f :: fs => sepBytes k ++ f ++ withSeps ks fs

def renderLine (ch : Choices) (o : Object) : Bytes :=
  let (head, fields) := objectFields ch o
  let fields := if ch.omitDefaults then fields.filter (fun f => !f.1) else fields
  head ++ withSeps ch.seps (pick ch.order (fields.map (·.2)))

def ending (k : Nat) : Bytes := match k % 3 with | 0 => [0x0a] | 1 => [0x0d] | _ => [0x0d, 0x0a]

def junkLines (k : Nat) : Bytes :=
  match k % 4 with
  | 0 => []
  | 1 => [0x0a]
  | 2 => [0x23, 0x20, 0x63, 0x0a]
  | _ => [0x0d, 0x0a, 0x23, 0x0a]

def renderGo (ch : Choices) : List Object → Nat → Bytes
  | [], _ => []
  | [o], i => junkLines (ch.junk.getD i 0) ++ renderLine ch o ++ (if ch.noFinalEnding then [] else ending (ch.endings.getD i 0))
  | o :: os, i => junkLines (ch.junk.getD i 0) ++ renderLine ch o ++ ending (ch.endings.getD i 0) ++ renderGo ch os (i + 1)

def render (ch : Choices) (objs : List Object) : Bytes := renderGo ch objs 0

end OplSpec

end Osmium.OplFmt
