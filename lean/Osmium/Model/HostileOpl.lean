/-
C03 — the OPL line parser as a CURSOR PROGRAM over the memory that holds the line.

`Model/OplFmt.lean` models `opl_parse_line` on the C string (the bytes before the NUL): its attribute
loop tests `s.isEmpty` for `**data == 0` and hands the sections `T` / `N` / `M` over as byte lists cut
out with `takeWhile`.  That is what the code is SUPPOSED to see; that it never looks further is the
property C03 asks for.  Here the same functions are transcribed as programs over pointers:

  * the cursor `*data` / `s` is the remaining suffix of the MEMORY (`List UInt8`); what lies in memory
    is `line ++ 0 :: junk` (Model/HostileText.lean), nothing here knows where the line ends;
  * every read is `Conv.peek` (= `*s`; `peek [] = 0`) or a leaf parser of OplFmt / Conv / Escape, which
    are suffix-cursor programs themselves (`OplFmt.pInt`, `pU32`, `pId`, `pStr`, `pTs`, `pCoord`,
    `pVisible`, `pChar`: NOT re-modelled); `++s` is `tail`; `**data == 0` is `peek s == 0`;
  * pointers the C++ remembers (`tags_begin`, `nodes_begin`, `nodes_end`, `members_begin`,
    `members_end`, the parameter `e` of `opl_parse_way_nodes` / `opl_parse_relation_members`) are stored
    as suffixes of the memory; two pointers into the same array compare like the lengths of the
    suffixes they stand for: `s == e` ⇔ `s.length = e.length`, `s < e` ⇔ `s.length > e.length`;
  * all loops (attribute loop, tag loop, way-node loop, member loop, the `while` loops of
    `opl_parse_space` / `opl_skip_section` are `dropWhile`) run on ONE fuel `F` given at the top,
    fuel exhausted = `.error .fuel`.

Transcribed statement by statement from include/osmium/io/detail/opl_parser_functions.hpp
(opl_parse_space, opl_non_empty, opl_skip_section, opl_parse_tags, opl_parse_way_nodes,
opl_parse_relation_members, opl_parse_node, opl_parse_way, opl_parse_relation, opl_parse_changeset,
opl_parse_line).  The objects are built exactly as `OplFmt.pObject` / `OplFmt.pChangeset` build them.

`Lemmas/HostileOpl*.lean`: `parseLineF F types (s ++ 0 :: junk) = parseLineF F types s` for every
NUL-free `s` and every `junk`, by a simulation in which every stored pointer lies in front of the NUL.

Core-only.
-/
import Osmium.Model.OplFmt
import Osmium.Model.HostileText

namespace Osmium.HostileOpl
open Osmium.Osm Osmium.TextFmt Osmium.Conv Osmium.OplFmt

abbrev Bytes := List UInt8

/-! ### pointers -/

/-- `s == e` for two pointers into the same line buffer -/
def ptrEq (s e : Bytes) : Bool := s.length == e.length

/-- `s < e` for two pointers into the same line buffer (the smaller pointer has more bytes ahead) -/
def ptrLt (s e : Bytes) : Bool := decide (s.length > e.length)

/-! ### opl_parse_space, opl_skip_section -/

/-- `opl_parse_space`:
    `if (**s != ' ' && **s != '\t') throw; do { ++*s; } while (**s == ' ' || **s == '\t');` -/
def pSpaceC (s : Bytes) : Except PErr Bytes :=
  if isSpTab (peek s) then .ok (s.tail.dropWhile isSpTab) else .error .opl

/-- `opl_skip_section`: `while (opl_non_empty(*s)) ++*s; return *s;` -/
def skipSectionC (s : Bytes) : Bytes := s.dropWhile nonEmptyB

/-- `has_x = true; builder.set_x(parse(data)); break;`: the leaf parser `f` runs at the cursor, its
    value is stored with `upd` -/
def setField {α σ : Type} (f : Bytes → Except PErr (α × Bytes)) (upd : α → σ) (s : Bytes) :
    Except PErr (σ × Bytes) :=
  bindE (f s) fun p => .ok (upd p.1, p.2)

/-! ### opl_parse_tags -/

/-- `opl_parse_tags(s, …)` (no end pointer: the loop ends at the first space, tab or NUL behind a value):
    `while (true) { opl_parse_string(&s, key); opl_parse_char(&s, '='); opl_parse_string(&s, value);
       builder.add_tag(key, value); if (*s == ' ' || *s == '\t' || *s == '\0') break;
       opl_parse_char(&s, ','); }`
    `add_tag` throws `std::length_error` for a key or value longer than 1024 bytes. -/
def pTagsC : Nat → Bytes → Except PErr (List Tag)
  | 0, _ => .error .fuel
  | f + 1, s =>
    bindE (pStr s) fun p1 =>
    bindE (pChar 0x3d p1.2) fun s2 =>
    bindE (pStr s2) fun p3 =>
    if p1.1.length > maxString || p3.1.length > maxString then .error .length
    else if isSpTab (peek p3.2) || peek p3.2 == 0 then .ok [⟨p1.1, p3.1⟩]
    else bindE (pChar 0x2c p3.2) fun s4 => bindE (pTagsC f s4) fun ts => .ok (⟨p1.1, p3.1⟩ :: ts)

/-- `if (tags_begin) { opl_parse_tags(tags_begin, buffer, &builder); }` -/
def finishTagsC (F : Nat) (tagsBegin : Option Bytes) : Except PErr (List Tag) :=
  match tagsBegin with
  | none => .ok []
  | some s => pTagsC F s

/-! ### opl_parse_way_nodes -/

/-- the location part of one node reference in `opl_parse_way_nodes` (`e` = the end pointer):
    `if (*s == 'x') { ++s; if (s != e && *s != 'y' && *s != ',') location.set_lon_partial(&s);
       if (*s == 'y') { ++s; if (s != e && *s != ',') location.set_lat_partial(&s); } }` -/
def pRefLocationC (e s : Bytes) : Except PErr (Location × Bytes) :=
  if peek s == 0x78 then
    let s0 := s.tail
    bindE (if !ptrEq s0 e && peek s0 != 0x79 && peek s0 != 0x2c then pCoord s0
           else .ok (Location.undefinedCoordinate, s0)) fun p1 =>
    if peek p1.2 == 0x79 then
      let s2 := p1.2.tail
      bindE (if !ptrEq s2 e && peek s2 != 0x2c then pCoord s2
             else .ok (Location.undefinedCoordinate, s2)) fun p3 => .ok (⟨p1.1, p3.1⟩, p3.2)
    else .ok (⟨p1.1, Location.undefinedCoordinate⟩, p1.2)
  else .ok (Location.undefined, s)

/-- the loop of `opl_parse_way_nodes(s, e, …)`:
    `while (s < e) { opl_parse_char(&s, 'n'); if (s == e) throw;
       ref = opl_parse_id(&s); if (s == e) { add_node_ref(ref); return; }
       <location>; add_node_ref(ref, location); if (s == e) return; opl_parse_char(&s, ','); }` -/
def pWayNodesLoopC (e : Bytes) : Nat → Bytes → Except PErr (List NodeRef)
  | 0, _ => .error .fuel
  | f + 1, s =>
    if !ptrLt s e then .ok []
    else
      bindE (pChar 0x6e s) fun s1 =>
      if ptrEq s1 e then .error .opl
      else
        bindE (pId s1) fun p2 =>
        if ptrEq p2.2 e then .ok [⟨p2.1, Location.undefined⟩]
        else
          bindE (pRefLocationC e p2.2) fun p3 =>
          if ptrEq p3.2 e then .ok [⟨p2.1, p3.1⟩]
          else
            bindE (pChar 0x2c p3.2) fun s4 =>
            bindE (pWayNodesLoopC e f s4) fun ns => .ok (⟨p2.1, p3.1⟩ :: ns)

/-- `opl_parse_way_nodes(nodes_begin, nodes_end, …)`: `if (s == e) return;` then the loop.
    `none` = both pointers are still `nullptr` (no `N` attribute). -/
def pWayNodesC (F : Nat) (sec : Option (Bytes × Bytes)) : Except PErr (List NodeRef) :=
  match sec with
  | none => .ok []
  | some (b, e) => if ptrEq b e then .ok [] else pWayNodesLoopC e F b

/-! ### opl_parse_relation_members -/

/-- the loop of `opl_parse_relation_members(s, e, …)`:
    `while (s < e) { type = char_to_item_type(*s); if (type is not node/way/relation) throw; ++s;
       if (s == e) throw; ref = opl_parse_id(&s); opl_parse_char(&s, '@');
       if (s == e) { add_member(type, ref, ""); return; }
       opl_parse_string(&s, role); add_member(type, ref, role);
       if (s == e) return; opl_parse_char(&s, ','); }`
    `add_member` throws `std::length_error` for a role longer than 1024 bytes. -/
def pMembersLoopC (e : Bytes) : Nat → Bytes → Except PErr (List Member)
  | 0, _ => .error .fuel
  | f + 1, s =>
    if !ptrLt s e then .ok []
    else
      let c := peek s
      if charType c = 0 then .error .opl
      else
        let s1 := s.tail
        if ptrEq s1 e then .error .opl
        else
          bindE (pId s1) fun p2 =>
          bindE (pChar 0x40 p2.2) fun s3 =>
          if ptrEq s3 e then .ok [⟨charType c, p2.1, []⟩]
          else
            bindE (pStr s3) fun p4 =>
            if p4.1.length > maxString then .error .length
            else if ptrEq p4.2 e then .ok [⟨charType c, p2.1, p4.1⟩]
            else
              bindE (pChar 0x2c p4.2) fun s5 =>
              bindE (pMembersLoopC e f s5) fun ms => .ok (⟨charType c, p2.1, p4.1⟩ :: ms)

/-- `if (members_begin != members_end) opl_parse_relation_members(members_begin, members_end, …)`
    (which starts with `if (s == e) return;`) -/
def pMembersC (F : Nat) (sec : Option (Bytes × Bytes)) : Except PErr (List Member) :=
  match sec with
  | none => .ok []
  | some (b, e) => if ptrEq b e then .ok [] else pMembersLoopC e F b

/-! ### opl_parse_node / opl_parse_way / opl_parse_relation -/

/-- the local variables of `opl_parse_node/way/relation` (`has_x` = `isSome` where possible) -/
structure ObjStC where
  version : Option Nat := none
  visible : Option Bool := none
  changeset : Option Nat := none
  timestamp : Option Nat := none
  uid : Option Nat := none
  user : Option Bytes := none
  hasTags : Bool := false
  /-- `tags_begin` (a pointer; `none` = `nullptr`) -/
  tagsBegin : Option Bytes := none
  hasLon : Bool := false
  hasLat : Bool := false
  x : Int := Location.undefinedCoordinate
  y : Int := Location.undefinedCoordinate
  /-- `(nodes_begin, nodes_end)` / `(members_begin, members_end)`: two pointers, set together with
      `has_nodes` / `has_members`; `none` = attribute not seen, both `nullptr` -/
  sec : Option (Bytes × Bytes) := none
  deriving Repr, DecidableEq

/-- one `case` of the `switch (c)` of `opl_parse_node/way/relation`; `s` = `*data` after `++(*data)`.
    `default: --(*data); throw opl_error{"unknown attribute"}`. -/
def objFieldC (k : Kind) (st : ObjStC) (c : UInt8) (s : Bytes) : Except PErr (ObjStC × Bytes) :=
  if c = 0x76 then
    if st.version.isSome then .error .opl
    else setField pU32 (fun v => { st with version := some (v % 2147483648) }) s    -- `m_version : 31`
  else if c = 0x64 then
    if st.visible.isSome then .error .opl else setField pVisible (fun v => { st with visible := some v }) s
  else if c = 0x63 then
    if st.changeset.isSome then .error .opl else setField pU32 (fun v => { st with changeset := some v }) s
  else if c = 0x74 then
    if st.timestamp.isSome then .error .opl else setField pTs (fun v => { st with timestamp := some v }) s
  else if c = 0x69 then
    if st.uid.isSome then .error .opl else setField pU32 (fun v => { st with uid := some v }) s
  else if c = 0x75 then
    if st.user.isSome then .error .opl else setField pStr (fun v => { st with user := some v }) s
  else if c = 0x54 then
    -- `if (opl_non_empty(*data)) { tags_begin = *data; opl_skip_section(data); }`
    if st.hasTags then .error .opl
    else if nonEmptyB (peek s) then .ok ({ st with hasTags := true, tagsBegin := some s }, skipSectionC s)
    else .ok ({ st with hasTags := true }, s)
  else if c = 0x78 && k == .node then
    -- `if (opl_non_empty(*data)) { location.set_lon_partial(data); }`
    if st.hasLon then .error .opl
    else if nonEmptyB (peek s) then setField pCoord (fun v => { st with hasLon := true, x := v }) s
    else .ok ({ st with hasLon := true }, s)
  else if c = 0x79 && k == .node then
    if st.hasLat then .error .opl
    else if nonEmptyB (peek s) then setField pCoord (fun v => { st with hasLat := true, y := v }) s
    else .ok ({ st with hasLat := true }, s)
  else if (c = 0x4e && k == .way) || (c = 0x4d && k == .relation) then
    -- `nodes_begin = *data; nodes_end = opl_skip_section(data);`
    if st.sec.isSome then .error .opl else .ok ({ st with sec := some (s, skipSectionC s) }, skipSectionC s)
  else .error .opl

/-- `while (**data) { opl_parse_space(data); const char c = **data; if (c == '\0') break; ++(*data);
       switch (c) { … } }` for any field function -/
def attrLoopC {σ : Type} (field : σ → UInt8 → Bytes → Except PErr (σ × Bytes)) : Nat → σ → Bytes → Except PErr σ
  | 0, _, _ => .error .fuel
  | f + 1, st, s =>
    if peek s == 0 then .ok st
    else
      bindE (pSpaceC s) fun s1 =>
      if peek s1 == 0 then .ok st
      else bindE (field st (peek s1) s1.tail) fun p => attrLoopC field f p.1 p.2

def metaOfC (id : Int) (st : ObjStC) (tags : List Tag) : Meta :=
  { id := id, version := st.version.getD 0, visible := st.visible.getD true,
    timestamp := st.timestamp.getD 0, changeset := st.changeset.getD 0, uid := st.uid.getD 0,
    user := st.user.getD [], tags := tags }

/-- what follows the attribute loop in `opl_parse_node` / `opl_parse_way` / `opl_parse_relation`:
    `if (location.valid()) builder.set_location(location);` (node), `builder.set_user(user);`,
    `if (tags_begin) opl_parse_tags(…);`, `opl_parse_way_nodes(nodes_begin, nodes_end, …)` (way),
    `if (members_begin != members_end) opl_parse_relation_members(…)` (relation) -/
def finishObjectC (F : Nat) (k : Kind) (id : Int) (st : ObjStC) : Except PErr Object :=
  bindE (setUserCheck (st.user.getD [])) fun _ =>
  bindE (finishTagsC F st.tagsBegin) fun tags =>
  match k with
  | .node =>
    .ok (.node (metaOfC id st tags) (if valid ⟨st.x, st.y⟩ then ⟨st.x, st.y⟩ else Location.undefined))
  | .way => bindE (pWayNodesC F st.sec) fun ns => .ok (.way (metaOfC id st tags) ns)
  | .relation => bindE (pMembersC F st.sec) fun ms => .ok (.relation (metaOfC id st tags) ms)

/-- `opl_parse_node` / `opl_parse_way` / `opl_parse_relation` (`s` = `data` after `++data`) -/
def pObjectC (F : Nat) (k : Kind) (s : Bytes) : Except PErr Object :=
  bindE (pId s) fun p1 =>
  bindE (attrLoopC (objFieldC k) F {} p1.2) fun st =>
  finishObjectC F k p1.1 st

/-! ### opl_parse_changeset -/

/-- the local variables of `opl_parse_changeset` -/
structure CsStC where
  numChanges : Option Nat := none
  createdAt : Option Nat := none
  closedAt : Option Nat := none
  numComments : Option Nat := none
  uid : Option Nat := none
  user : Option Bytes := none
  hasTags : Bool := false
  /-- `tags_begin` (a pointer; `none` = `nullptr`) -/
  tagsBegin : Option Bytes := none
  hasMinX : Bool := false
  hasMinY : Bool := false
  hasMaxX : Bool := false
  hasMaxY : Bool := false
  blx : Int := Location.undefinedCoordinate
  bly : Int := Location.undefinedCoordinate
  trx : Int := Location.undefinedCoordinate
  try_ : Int := Location.undefinedCoordinate
  deriving Repr, DecidableEq

/-- one `case` of the `switch (c)` of `opl_parse_changeset` -/
def csFieldC (st : CsStC) (c : UInt8) (s : Bytes) : Except PErr (CsStC × Bytes) :=
  if c = 0x6b then
    if st.numChanges.isSome then .error .opl else setField pU32 (fun v => { st with numChanges := some v }) s
  else if c = 0x73 then
    if st.createdAt.isSome then .error .opl else setField pTs (fun v => { st with createdAt := some v }) s
  else if c = 0x65 then
    if st.closedAt.isSome then .error .opl else setField pTs (fun v => { st with closedAt := some v }) s
  else if c = 0x64 then
    if st.numComments.isSome then .error .opl else setField pU32 (fun v => { st with numComments := some v }) s
  else if c = 0x69 then
    if st.uid.isSome then .error .opl else setField pU32 (fun v => { st with uid := some v }) s
  else if c = 0x75 then
    if st.user.isSome then .error .opl else setField pStr (fun v => { st with user := some v }) s
  else if c = 0x78 then
    if st.hasMinX then .error .opl
    else if nonEmptyB (peek s) then setField pCoord (fun v => { st with hasMinX := true, blx := v }) s
    else .ok ({ st with hasMinX := true }, s)
  else if c = 0x79 then
    if st.hasMinY then .error .opl
    else if nonEmptyB (peek s) then setField pCoord (fun v => { st with hasMinY := true, bly := v }) s
    else .ok ({ st with hasMinY := true }, s)
  else if c = 0x58 then
    if st.hasMaxX then .error .opl
    else if nonEmptyB (peek s) then setField pCoord (fun v => { st with hasMaxX := true, trx := v }) s
    else .ok ({ st with hasMaxX := true }, s)
  else if c = 0x59 then
    if st.hasMaxY then .error .opl
    else if nonEmptyB (peek s) then setField pCoord (fun v => { st with hasMaxY := true, try_ := v }) s
    else .ok ({ st with hasMaxY := true }, s)
  else if c = 0x54 then
    if st.hasTags then .error .opl
    else if nonEmptyB (peek s) then .ok ({ st with hasTags := true, tagsBegin := some s }, skipSectionC s)
    else .ok ({ st with hasTags := true }, s)
  else .error .opl

/-- `builder.set_bounds(box); builder.set_user(user); if (tags_begin) opl_parse_tags(…);` -/
def finishChangesetC (F : Nat) (id : Nat) (st : CsStC) : Except PErr Object :=
  bindE (setUserCheck (st.user.getD [])) fun _ =>
  bindE (finishTagsC F st.tagsBegin) fun tags =>
  .ok (.changeset id (st.createdAt.getD 0) (st.closedAt.getD 0) (st.numChanges.getD 0) (st.numComments.getD 0)
        (st.uid.getD 0 : Nat) (st.user.getD []) ⟨st.blx, st.bly⟩ ⟨st.trx, st.try_⟩ tags [])

/-- `opl_parse_changeset` -/
def pChangesetC (F : Nat) (s : Bytes) : Except PErr Object :=
  bindE (pU32 s) fun p1 =>
  bindE (attrLoopC csFieldC F {} p1.2) fun st =>
  finishChangesetC F p1.1 st

/-! ### opl_parse_line -/

/-- `opl_parse_line(line_count, data, buffer, read_types)` on the memory `mem` (`data` points at its
    first byte): `switch (*data) { case '\0': case '#': break; case 'n': if (read_types & node)
    { ++data; opl_parse_node(&data, buffer); … return true; } break; … default: throw }`.
    `none` = nothing added to the buffer. -/
def parseLineF (F : Nat) (types : Types) (mem : Bytes) : Except PErr (Option Object) :=
  let c := peek mem
  if c = 0 then .ok none
  else if c = 0x23 then .ok none
  else if c = 0x6e then (if types.node then bindE (pObjectC F .node mem.tail) fun o => .ok (some o) else .ok none)
  else if c = 0x77 then (if types.way then bindE (pObjectC F .way mem.tail) fun o => .ok (some o) else .ok none)
  else if c = 0x72 then (if types.relation then bindE (pObjectC F .relation mem.tail) fun o => .ok (some o) else .ok none)
  else if c = 0x63 then (if types.changeset then bindE (pChangesetC F mem.tail) fun o => .ok (some o) else .ok none)
  else .error .opl

/-- the cursor program with enough fuel for the memory it is given (every loop iteration moves the
    cursor by at least one byte) -/
def parseLineCur (types : Types) (mem : Bytes) : Except PErr (Option Object) :=
  parseLineF (mem.length + 16) types mem

/-! ### stored pointers in front of the NUL

The simulation of Lemmas/HostileOpl.lean relates a run on the C string `s` with the run on the memory
`s ++ 0 :: junk`: every pointer the second run stores is the pointer the first run stores, with the
same `0 :: junk` behind it. -/

def liftPtr (junk : Bytes) (p : Bytes) : Bytes := p ++ HostileText.behind junk

def liftObjSt (junk : Bytes) (st : ObjStC) : ObjStC :=
  { st with tagsBegin := st.tagsBegin.map (liftPtr junk),
            sec := st.sec.map fun p => (liftPtr junk p.1, liftPtr junk p.2) }

def liftCsSt (junk : Bytes) (st : CsStC) : CsStC :=
  { st with tagsBegin := st.tagsBegin.map (liftPtr junk) }

/-- `Except.map` without the monad machinery -/
def mapOk {ε α β : Type} (g : α → β) : Except ε α → Except ε β
  | .ok a => .ok (g a)
  | .error e => .error e

end Osmium.HostileOpl
