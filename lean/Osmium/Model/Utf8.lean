/-
Model of libosmium's UTF-8 helpers (property C14).

Transcribed from include/osmium/io/detail/string_util.hpp
  utf8_sequence_length      -> `seqLen`
  next_utf8_codepoint       -> `next`   (cursor model, see below)
  append_codepoint_as_utf8  -> `encode`

Core-only (no Mathlib).  Byte strings are `List UInt8`; all arithmetic is done on the
`Nat` value of the bytes, with the bit operations the C++ code uses.

Cursor model.  A C string is modelled by the list `bs` of its bytes *before* the
terminating NUL, i.e. `bs` = the range [*begin, end) with `end = data + strlen(data)`.
Memory that may be read is `bs ++ [0]` (the terminator itself is readable); a read at any
larger offset is the explicit outcome `Err.oob` (undefined behaviour in C++).
-/
namespace Osmium.Utf8

inductive Err where
  /-- `std::runtime_error{"invalid Unicode codepoint"}` -/
  | invalid
  /-- `std::out_of_range{"incomplete Unicode codepoint"}` -/
  | incomplete
  /-- a read beyond the terminating NUL (undefined behaviour in the real code) -/
  | oob
  deriving Repr, DecidableEq

/-- `utf8_sequence_length(first)` -/
def seqLen (first : Nat) : Nat :=
  if first < 0x80 then 1
  else if first >>> 5 = 0x6 then 2
  else if first >>> 4 = 0xe then 3
  else if first >>> 3 = 0x1e then 4
  else 0

/-- `*(it + i)` where `it` points at the first byte of `bs`: the bytes of the string, then
    the terminating NUL, then nothing that may be read. -/
def rd (bs : List UInt8) (i : Nat) : Except Err Nat :=
  match bs[i]? with
  | some b => .ok b.toNat
  | none => if i = bs.length then .ok 0 else .error .oob

/-- `next_utf8_codepoint(&begin, end)` with `bs` = [*begin, end).  Returns the code point
    and the number of bytes the cursor advances.  The statements are in the order of the
    C++ function: read the first byte, length, distance check, then the continuation
    bytes (each one a `rd`). -/
def next (bs : List UInt8) : Except Err (Nat × Nat) :=
  match rd bs 0 with
  | .error e => .error e
  | .ok cp =>
    let len := seqLen cp
    if len = 0 then .error .invalid
    else if bs.length < len then .error .incomplete
    else if len = 1 then .ok (cp, 1)
    else if len = 2 then
      match rd bs 1 with
      | .error e => .error e
      | .ok b1 => .ok (((cp <<< 6) &&& 0x7ff) + (b1 &&& 0x3f), 2)
    else if len = 3 then
      match rd bs 1, rd bs 2 with
      | .ok b1, .ok b2 =>
        .ok (((cp <<< 12) &&& 0xffff) + (((0xff &&& b1) <<< 6) &&& 0xfff) + (b2 &&& 0x3f), 3)
      | .error e, _ => .error e
      | _, .error e => .error e
    else
      match rd bs 1, rd bs 2, rd bs 3 with
      | .ok b1, .ok b2, .ok b3 =>
        .ok (((cp <<< 18) &&& 0x1fffff) + (((0xff &&& b1) <<< 12) &&& 0x3ffff)
              + (((0xff &&& b2) <<< 6) &&& 0xfff) + (b3 &&& 0x3f), 4)
      | .error e, _, _ => .error e
      | _, .error e, _ => .error e
      | _, _, .error e => .error e

/-- `append_codepoint_as_utf8(cp, out)` for a `uint32_t cp`; `static_cast<char>` keeps the
    low 8 bits (`UInt8.ofNat`). -/
def encode (cp : Nat) : List UInt8 :=
  if cp < 0x80 then [UInt8.ofNat cp]
  else if cp < 0x800 then
    [UInt8.ofNat ((cp >>> 6) ||| 0xc0), UInt8.ofNat ((cp &&& 0x3f) ||| 0x80)]
  else if cp < 0x10000 then
    [UInt8.ofNat ((cp >>> 12) ||| 0xe0), UInt8.ofNat (((cp >>> 6) &&& 0x3f) ||| 0x80),
     UInt8.ofNat ((cp &&& 0x3f) ||| 0x80)]
  else
    [UInt8.ofNat ((cp >>> 18) ||| 0xf0), UInt8.ofNat (((cp >>> 12) &&& 0x3f) ||| 0x80),
     UInt8.ofNat (((cp >>> 6) &&& 0x3f) ||| 0x80), UInt8.ofNat ((cp &&& 0x3f) ||| 0x80)]

/-- UTF-8 encoding of a string of code points. -/
def encodeStr (s : List Nat) : List UInt8 := s.flatMap encode

/-- A Unicode scalar value other than NUL (NUL terminates a C string). -/
def IsScalar (c : Nat) : Prop := 0 < c ∧ c < 0x110000 ∧ ¬ (0xD800 ≤ c ∧ c ≤ 0xDFFF)

instance : DecidablePred IsScalar := fun c => by unfold IsScalar; exact inferInstance

/-- Decode a whole string with `next` (what a loop `while (data != end) next(...)` sees). -/
def decodeAll : Nat → List UInt8 → Except Err (List Nat)
  | 0, _ => .error .oob
  | fuel + 1, bs =>
    if bs.isEmpty then .ok []
    else match next bs with
      | .error e => .error e
      | .ok (cp, len) =>
        match decodeAll fuel (bs.drop len) with
        | .error e => .error e
        | .ok r => .ok (cp :: r)

def decodeStr (bs : List UInt8) : Except Err (List Nat) := decodeAll (bs.length + 1) bs

end Osmium.Utf8
