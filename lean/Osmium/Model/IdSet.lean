/-
Model of libosmium's id sets (property C15).

Transcribed from include/osmium/index/id_set.hpp
  IdSetDense<T, chunk_bits>          chunk_id / offset / bitmask / last / get_element /
                                     check_and_set / set / unset / get / empty / size / clear / copy
  IdSetDenseIterator<T, chunk_bits>  next / operator++ / operator* / operator==
  IdSetSmall<T>                      set / get / get_binary_search / sort_unique / merge_sorted / size

Core-only (no Mathlib).  Template parameters are explicit arguments:
  `w`  = number of value bits of the unsigned type `T` (32 or 64; any w is allowed),
  `cb` = `chunk_bits`.
Values of type `T` are `Nat`s kept reduced modulo `2^w` (C++ unsigned arithmetic wraps);
every place where the code computes in `T` has an explicit `% 2^w`.
A chunk (`unsigned char[chunk_size]`, zero-initialised) is stored sparsely: association list
offset ↦ byte, absent = 0.  `m_data` (vector of nullable chunk pointers) is stored as its
length plus an association list chunk id ↦ chunk for the non-null entries.
Undefined behaviour (the iterator indexing `m_data` out of bounds) and exhausted fuel are the
explicit outcome `none`.
-/
namespace Osmium.IdSet

/-- true = the current code (/repo commit 7c7de5b, fix for finding F2: the iterator keeps
    `m_value`/`m_last` and `last()` in 64 bits); false = the code before that fix (positions of
    type `T`: `last()` wrapped to 0 for uint32 once the top chunk was allocated). -/
def FIXED_F2 : Bool := true

/-- number of bits of the iterator positions `m_value`, `m_last` and of the result of `last()`:
    64 (std::uint64_t) in the current code, those of `T` before the fix for F2 -/
def posBits (w : Nat) : Nat := if FIXED_F2 then max w 64 else w

/-! ### sparse arrays -/

/-- association list with replace-in-place update; lookups see the first binding -/
def aget {α : Type} (d : α) (k : Nat) : List (Nat × α) → α
  | [] => d
  | (k', v) :: r => if k' = k then v else aget d k r

def aset {α : Type} (k : Nat) (v : α) : List (Nat × α) → List (Nat × α)
  | [] => [(k, v)]
  | (k', v') :: r => if k' = k then (k, v) :: r else (k', v') :: aset k v r

abbrev Chunk := List (Nat × BitVec 8)

/-- `IdSetDense<T, chunk_bits>` -/
structure Dense where
  /-- `m_data.size()` -/
  nchunks : Nat := 0
  /-- the non-null entries of `m_data` -/
  chunks : List (Nat × Option Chunk) := []
  /-- `m_size` (a value of type `T`) -/
  size : Nat := 0
  deriving Repr

/-- `chunk_id(id) = id >> (chunk_bits + 3)` -/
def chunkId (cb id : Nat) : Nat := id >>> (cb + 3)

/-- `offset(id) = (id >> 3) & ((1U << chunk_bits) - 1U)` -/
def offset (cb id : Nat) : Nat := (id >>> 3) &&& ((1 <<< cb) - 1)

/-- `bitmask(id) = 1U << (id & 0x7U)` (only the low byte matters: it is and-ed/or-ed into an
    `unsigned char`) -/
def bitmask (id : Nat) : BitVec 8 := 1#8 <<< (id &&& 7)

/-- `last() = static_cast<T>(m_data.size()) * chunk_size * 8`, converted to `T` on return.
    (`chunk_size` has underlying type `size_t`, so the product is computed in 64 bits and
    then truncated; for w ≤ 64 that is the same as reducing modulo 2^w once.) -/
def last (w cb : Nat) (s : Dense) : Nat := (s.nchunks * (1 <<< cb) * 8) % 2 ^ posBits w

/-- `m_data[cid]` for `cid < m_data.size()`: `none` = null pointer -/
def chunkAt (s : Dense) (cid : Nat) : Option Chunk := aget none cid s.chunks

/-- `get(id)` -/
def get (cb : Nat) (s : Dense) (id : Nat) : Bool :=
  if chunkId cb id ≥ s.nchunks then false
  else match chunkAt s (chunkId cb id) with
    | none => false
    | some c => (aget 0#8 (offset cb id) c &&& bitmask id) != 0#8

/-- `get_element(id)`: grow `m_data`, allocate the chunk; returns the new state and the chunk
    (the reference `chunk[offset(id)]` is `aget 0 (offset id) chunk`). -/
def getElement (cb : Nat) (s : Dense) (id : Nat) : Dense × Chunk :=
  let cid := chunkId cb id
  let n := if cid ≥ s.nchunks then cid + 1 else s.nchunks
  match chunkAt s cid with
  | none => ({ s with nchunks := n, chunks := aset cid (some []) s.chunks }, [])
  | some c => ({ s with nchunks := n }, c)

/-- store `e` through the reference returned by `get_element(id)` -/
def putElement (cb : Nat) (s : Dense) (id : Nat) (c : Chunk) (e : BitVec 8) : Dense :=
  { s with chunks := aset (chunkId cb id) (some (aset (offset cb id) e c)) s.chunks }

/-- `check_and_set(id)` -/
def checkAndSet (w cb : Nat) (s : Dense) (id : Nat) : Dense × Bool :=
  let (s1, c) := getElement cb s id
  let e := aget 0#8 (offset cb id) c
  if (e &&& bitmask id) == 0#8 then
    let s2 := putElement cb s1 id c (e ||| bitmask id)
    ({ s2 with size := (s2.size + 1) % 2 ^ w }, true)
  else (s1, false)

/-- `set(id)` -/
def set (w cb : Nat) (s : Dense) (id : Nat) : Dense := (checkAndSet w cb s id).1

/-- `unset(id)` -/
def unset (w cb : Nat) (s : Dense) (id : Nat) : Dense :=
  let (s1, c) := getElement cb s id
  let e := aget 0#8 (offset cb id) c
  if (e &&& bitmask id) != 0#8 then
    let s2 := putElement cb s1 id c (e &&& ~~~ bitmask id)
    { s2 with size := (s2.size + 2 ^ w - 1) % 2 ^ w }
  else s1

def empty (s : Dense) : Bool := s.size == 0

/-- `clear()` -/
def clear (_ : Dense) : Dense := {}

/-! ### IdSetDenseIterator -/

/-- `next()`: advance `m_value` to the next set id or to `m_last`; `M` = 2^(bits of the
    iterator positions).
    `none` = out-of-bounds access of `m_data` (the `assert(cid < m_data.size())`) or no fuel. -/
def next (M cb : Nat) (s : Dense) (lst : Nat) : Nat → Nat → Option Nat
  | 0, _ => none
  | fuel + 1, v =>
    if v = lst then some v
    else if get cb s v then some v
    else
      let cid := chunkId cb v
      if cid ≥ s.nchunks then none
      else match chunkAt s cid with
        | none => next M cb s lst fuel (((cid + 1) <<< (cb + 3)) % M)
        | some c =>
          if aget 0#8 (offset cb v) c == 0#8 then
            -- m_value += 8; m_value &= ~0x7ULL;
            let v8 := (v + 8) % M
            next M cb s lst fuel (v8 - v8 % 8)
          else next M cb s lst fuel ((v + 1) % M)

/-- upper bound on the number of loop iterations of one `next()` call -/
def fuelOf (cb : Nat) (s : Dense) : Nat := s.nchunks * (1 <<< cb) * 8 + s.nchunks + 2

/-- `for (it = begin(); it != end(); ++it) out.push_back(*it);` from iterator value `v` -/
def iterFrom (M cb : Nat) (s : Dense) (lst : Nat) : Nat → Nat → List Nat → Option (List Nat)
  | 0, _, _ => none
  | fuel + 1, v, acc =>
    if v = lst then some acc.reverse          -- it == end()
    else
      -- *it, then operator++ : ++m_value; next();
      match next M cb s lst (fuelOf cb s) ((v + 1) % M) with
      | none => none
      | some v' => iterFrom M cb s lst fuel v' (v :: acc)

/-- all ids delivered by iterating from `begin()` to `end()` -/
def toList (w cb : Nat) (s : Dense) : Option (List Nat) :=
  let lst := last w cb s
  let M := 2 ^ posBits w
  match next M cb s lst (fuelOf cb s) 0 with      -- begin(): value 0, then next()
  | none => none
  | some v0 => iterFrom M cb s lst (fuelOf cb s) v0 []

/-! ### operation histories -/

inductive Op
  | set (id : Nat) | unset (id : Nat) | checkAndSet (id : Nat) | get (id : Nat)
  | size | empty | clear
  /-- copy-construct a new set from this one and continue with the copy -/
  | copy
  deriving Repr, DecidableEq

inductive Out
  | unit | bool (b : Bool) | nat (n : Nat)
  deriving Repr, DecidableEq

/-- `IdSetDense(const IdSetDense&)`: chunk-wise deep copy = the same value -/
def copy (s : Dense) : Dense := s

/-- one call on an `IdSetDense<T, chunk_bits>` -/
def step (w cb : Nat) (s : Dense) : Op → Dense × Out
  | .set id => (set w cb s id, .unit)
  | .unset id => (unset w cb s id, .unit)
  | .checkAndSet id => let r := checkAndSet w cb s id; (r.1, .bool r.2)
  | .get id => (s, .bool (get cb s id))
  | .size => (s, .nat s.size)
  | .empty => (s, .bool (empty s))
  | .clear => (clear s, .unit)
  | .copy => (copy s, .unit)

/-- a whole history: final state and the outputs of all calls -/
def run (w cb : Nat) : Dense → List Op → Dense × List Out
  | s, [] => (s, [])
  | s, op :: ops =>
    let (s1, o) := step w cb s op
    let (s2, os) := run w cb s1 ops
    (s2, o :: os)

/-- the ids an operation mentions are values of type `T` -/
def Op.inRange (w : Nat) : Op → Prop
  | .set id | .unset id | .checkAndSet id | .get id => id < 2 ^ w
  | _ => True

/-! ### IdSetSmall -/

/-- `IdSetSmall<T>`: `m_data` -/
abbrev Small := List Nat

namespace Small

/-- `set(id)`: append unless equal to the last element -/
def set (s : Small) (id : Nat) : Small :=
  match s.getLast? with
  | none => s ++ [id]
  | some b => if b != id then s ++ [id] else s

/-- `get(id)`: linear search -/
def get (s : Small) (id : Nat) : Bool := s.contains id

/-- `std::unique`: drop elements equal to their predecessor -/
def uniq : List Nat → List Nat
  | [] => []
  | [a] => [a]
  | a :: b :: r => if a = b then uniq (b :: r) else a :: uniq (b :: r)

/-- `sort_unique()` -/
def sortUnique (s : Small) : Small := uniq (s.mergeSort (fun a b => a ≤ b))

/-- `std::set_union` of two sorted ranges -/
def setUnion : List Nat → List Nat → List Nat
  | [], ys => ys
  | xs, [] => xs
  | x :: xs, y :: ys =>
    if x < y then x :: setUnion xs (y :: ys)
    else if y < x then y :: setUnion (x :: xs) ys
    else x :: setUnion xs ys

/-- `merge_sorted(other)` -/
def mergeSorted (s o : Small) : Small := setUnion s o

/-- `std::binary_search` on a sorted range = membership -/
def getBinarySearch (s : Small) (id : Nat) : Bool := s.contains id

end Small

end Osmium.IdSet
