/-
Decompression of compressed input (property C09).  Transcribed from

  io/compression.hpp            NoDecompressor::read (fd and buffer), Decompressor::input_buffer_size, set_offset
  io/gzip_compression.hpp       GzipDecompressor::read/close (gzread, gzclose_r), GzipBufferDecompressor::read (inflate)
  io/bzip2_compression.hpp      Bzip2Decompressor::read (BZ2_bzRead, feof, BZ2_bzReadGetUnused, reopen),
                                Bzip2BufferDecompressor::read (BZ2_bzDecompress)
  io/detail/read_thread.hpp     ReadThreadManager::run_in_thread (the consumer loop)
  io/detail/queue_util.hpp      at_end_of_data(std::string) = empty()

A compressed file is a list of streams (gzip members / bzip2 streams); each stream has a compressed
size and a payload.  zlib and libbz2 are NOT transcribed: they are library oracles with the contracts
written down at `gzRead`, `zInflate`, `bzDecompress`/`bzRead` below; the oracles are executable (they take
the per-stream compressed sizes and payloads), so the driver can run them next to the real libraries.

A stream may be `trunc`ated (the file ends inside it): then `csize` is the number of bytes present and
`payload` is what the library can still decode from them.

A stream may be `bad` (its bytes are not a valid stream: a damaged header, body or trailer).  What the
libraries REPORT for such bytes is part of their contracts (`zInflate`, `bzReadLoop`, `gzReadE`):
  * `Bad.magic`: the bytes do not start with a stream header (gzip: ID1 ID2 = 1f 8b; bzip2: "BZh1".."BZh9").
    `BZ2_bzRead` / `BZ2_bzDecompress` return BZ_DATA_ERROR_MAGIC and `inflate` returns Z_DATA_ERROR in their
    first call on the stream — for the first stream of a file and for every later one alike.  `gzread` is
    different (gzlib's gz_look): bytes without the magic at the start of the file are COPIED verbatim
    ("transparent" reading), after at least one member they are ignored as trailing garbage; no error.
  * `Bad.data`: the library hands out `payload` and then reports Z_DATA_ERROR / BZ_DATA_ERROR (invalid code,
    block CRC, stream CRC / ISIZE, bad method or flags in a header that has the magic).  `payload` = the
    bytes of the calls that precede the one reporting the error (each fills its output space); the error
    is returned by the call that would have to go beyond `payload`; that call delivers nothing.
After the first trunc/bad stream a library never looks at the rest of the file: the faulty stream is the
last one of the list and `csize` is the number of bytes from its start to the end of the file (trailing
garbage after the last stream is such a stream).

`Fixes.all` is the code as it is today: /repo commits 20beb73 (gzip buffer), 0ac7ff4 (bzip2 buffer),
d74b2ae (bzip2 fd) repaired findings F11a–F11e + the bzip2-buffer truncation finding; d0f1d5d (gzip fd)
refuses a file without gzip magic that gzread would copy verbatim.  `Fixes.none` is the
code before those commits; it is kept so that the refutation witnesses stay checked (regression probes: the
check switches the model to whatever the tree under test does and the monitors raise the old finding keys).
Core-only.
-/

namespace Osmium.Decomp

/-! ## Files, configuration, results -/

/-- In which way the bytes of a stream are not a valid stream. -/
inductive Bad
  | none
  | data    -- Z_DATA_ERROR / BZ_DATA_ERROR after `payload`
  | magic   -- no stream header: BZ_DATA_ERROR_MAGIC / "incorrect header check"
  deriving Repr, DecidableEq

/-- One compressed stream as the decompression libraries see it. -/
structure Stream (α : Type) where
  /-- compressed bytes present in the file -/
  csize : Nat
  /-- bytes the library can decode from them -/
  payload : List α
  /-- the file ends inside this stream (only the last stream of a file) -/
  trunc : Bool := false
  /-- truncated gzip stream only: when exactly `payload` has been produced and the output space is
      used up, unconsumed input bytes are left (the next `inflate` call consumes them: `total_in` moves) -/
  slack : Bool := false
  /-- the bytes are not a valid stream (see the header comment) -/
  bad : Bad := .none
  deriving Repr, DecidableEq

abbrev CFile (α : Type) := List (Stream α)

def fileSize (f : CFile α) : Nat := (f.map (·.csize)).sum

/-- what a reference decompressor yields for an intact file -/
def refPayload (f : CFile α) : List α := (f.map (·.payload)).flatten

/-- every stream is a complete valid stream -/
def intact (f : CFile α) : Bool := f.all (fun s => !s.trunc && s.bad == .none)

structure Cfg where
  /-- `Decompressor::input_buffer_size` (1 MiB; overridable with OSMIUM_VERIF_INPUT_BUFFER_SIZE) -/
  ibs : Nat
  /-- `buffer_size` in Gzip/Bzip2BufferDecompressor::read -/
  ostep : Nat := 10240
  /-- BZ_MAX_UNUSED: size of the read-ahead buffer inside a BZFILE -/
  ra : Nat := 5000
  /-- bytes of a bzip2 stream after its last block: 48-bit end marker + 32-bit combined CRC -/
  trailer : Nat := 10
  deriving Repr

/-- Which repairs are applied to the wrappers (`Fixes.all` = current tree, `Fixes.none` = before the fix commits). -/
structure Fixes where
  /-- buffer decompressors go on with the next stream after STREAM_END, never return an empty chunk before the end (F11a) -/
  bufMulti : Bool := false
  /-- Bzip2Decompressor asks for the unused bytes regardless of feof, probes for EOF when there are none,
      never returns an empty chunk before the end (F11b, F11c, F11d) -/
  bzUnused : Bool := false
  /-- buffer decompressors report input that ends inside a stream (F11e, F11f) -/
  bufTrunc : Bool := false
  /-- GzipDecompressor refuses a file that gzread copies verbatim (`gzdirect()`: no gzip magic at the start) -/
  gzDirect : Bool := false
  deriving Repr, DecidableEq

def Fixes.none : Fixes := {}
def Fixes.all : Fixes := { bufMulti := true, bzUnused := true, bufTrunc := true, gzDirect := true }

inductive ErrClass
  | gzip    -- osmium::gzip_error
  | bzip2   -- osmium::bzip2_error
  | fuel    -- model artefact: the loop bound was too small (never happens, see `run_no_fuel_error`)
  deriving Repr, DecidableEq

inductive Phase
  | read | close
  deriving Repr, DecidableEq

structure Err where
  cls : ErrClass
  phase : Phase
  deriving Repr, DecidableEq

/-- A decompressor object: `read()`, `close()`, and the value last given to `set_offset`. -/
structure Dec (σ α : Type) where
  read : σ → Except Err (List α × σ)
  close : σ → Except Err Unit
  offset : σ → Nat

/-- What the read thread did: chunks added to the queue (in order), the exception added to the queue
    (if any) before the end marker, and the offset after every `read()` call. -/
structure Run (α : Type) where
  chunks : List (List α) := []
  err : Option Err := none
  offs : List Nat := []
  deriving Repr, DecidableEq

/-- `ReadThreadManager::run_in_thread`:
    `while (!m_done) { data = m_decompressor.read(); if (at_end_of_data(data)) break; add_to_queue(data); }`
    `m_decompressor.close();`  — any exception goes to the queue; then the end marker. -/
def run (d : Dec σ α) : Nat → σ → Run α
  | 0, _ => { err := some ⟨.fuel, .read⟩ }
  | fuel + 1, s =>
    match d.read s with
    | .error e => { err := some e }
    | .ok (data, s') =>
      if data.isEmpty then
        { offs := [d.offset s'],
          err := match d.close s' with
                 | .error e => some e
                 | .ok _ => none }
      else
        let r := run d fuel s'
        { r with chunks := data :: r.chunks, offs := d.offset s' :: r.offs }

/-- The bytes the parser gets, or the error it gets. -/
def Run.result (r : Run α) : Except Err (List α) :=
  match r.err with
  | some e => .error e
  | none => .ok r.chunks.flatten

/-! ## NoDecompressor (io/compression.hpp) -/

structure NoFd (α : Type) where
  file : List α     -- bytes of the file not yet read
  offset : Nat := 0

/-- fd variant: `reliable_read(m_fd, buffer, input_buffer_size)` reads until the buffer is full or EOF;
    `m_offset += buffer.size(); set_offset(m_offset)`. -/
def noFdDec (cfg : Cfg) : Dec (NoFd α) α where
  read s := let out := s.file.take cfg.ibs
            .ok (out, { file := s.file.drop cfg.ibs, offset := s.offset + out.length })
  close _ := .ok ()
  offset s := s.offset

structure NoBuf (α : Type) where
  buffer : List α
  size : Nat          -- m_buffer_size
  offset : Nat := 0

/-- buffer variant: the whole buffer in one chunk, then `m_buffer_size = 0`. -/
def noBufDec : Dec (NoBuf α) α where
  read s := if s.size != 0 then .ok (s.buffer, { s with size := 0, offset := s.offset + s.buffer.length })
            else .ok ([], s)
  close _ := .ok ()
  offset s := s.offset

/-! ## zlib `gzread` / `gzclose_r` (library oracle) and GzipDecompressor -/

/-- State of a gzFile opened for reading, as far as the contract goes. -/
structure GzState (α : Type) where
  /-- payload of all members not yet delivered (gzread is multi-member aware: it goes on with the next
      member inside one call) -/
  pending : List α
  /-- the file ends inside a member -/
  trunc : Bool
  /-- `state->err == Z_BUF_ERROR` ("unexpected end of file") -/
  bufErr : Bool := false
  fsize : Nat
  /-- `gzoffset()`: only its value once the end of the file has been seen is part of the contract -/
  off : Nat := 0
  /-- a member is damaged (`Bad.data`): once `pending` cannot fill a call, gzread returns -1 (Z_DATA_ERROR) -/
  dataErr : Bool := false
  /-- `gzdirect()`: the file does not start with the gzip magic, gzread copies it verbatim
      (gz_open sets `direct = 1` "for empty file"; gz_look clears it when it sees 1f 8b) -/
  direct : Bool := false

/-- What gzread will hand out for a file: (bytes, the file ends inside a member, a member is damaged).
    gzlib.c/gzread.c `gz_look`: a member must start with 1f 8b; if the bytes at the START OF THE FILE do not,
    the whole file is copied verbatim (`state->direct`; the `payload` of such a `Bad.magic` stream is its raw
    bytes); after at least one member they are "trailing garbage": ignored, end of file, NO error.
    A `Bad.data` member: `payload` is what gzread hands out of it before it reports the error. -/
def gzScan : Bool → CFile α → List α × Bool × Bool
  | _, [] => ([], false, false)
  | first, s :: rest =>
    match s.bad with
    | .magic => (if first then s.payload else [], false, false)
    | .data => (s.payload, false, true)
    | .none =>
      let r := gzScan false rest
      (s.payload ++ r.1, s.trunc || r.2.1, r.2.2)

def gzOpen (f : CFile α) : GzState α :=
  let r := gzScan true f
  { pending := r.1, trunc := r.2.1, dataErr := r.2.2, fsize := fileSize f,
    direct := match f with
              | [] => true
              | s :: _ => s.bad == .magic }

/-- Contract of `gzread(file, buf, n)`: delivers `min n |pending|` bytes; fewer than `n` only when the
    end of the file has been reached, and if that end is inside a member the error Z_BUF_ERROR is
    recorded (the call itself still returns the bytes). -/
def gzRead (n : Nat) (s : GzState α) : List α × GzState α :=
  let hit := decide (s.pending.length < n)
  (s.pending.take n,
   { s with pending := s.pending.drop n, bufErr := s.bufErr || (hit && s.trunc),
            off := if hit then s.fsize else s.off })

/-- `gzread` with its error return: a damaged member makes the call that cannot be filled from the bytes
    before the damage return -1 (what it had gathered is lost: gz_read returns 0 when gz_fetch/gz_decomp
    fail); the error is sticky. -/
def gzReadE (n : Nat) (s : GzState α) : Option (List α × GzState α) :=
  if s.dataErr && decide (s.pending.length < n) then none else some (gzRead n s)

/-- `GzipDecompressor::read`: `nread = gzread(.., input_buffer_size)`; `if (nread < 0) throw gzip_error`;
    repaired (`gzDirect`): `if (nread > 0 && gzdirect(m_gzfile)) throw gzip_error` ("not a gzip file");
    `buffer.resize(nread)`; `set_offset(gzoffset())`.  `close`: `gzclose_r` returns Z_BUF_ERROR if the last
    read ended inside a member -> gzip_error. -/
def gzFdDec (cfg : Cfg) (fx : Fixes) : Dec (GzState α) α where
  read s := match gzReadE cfg.ibs s with
            | none => .error ⟨.gzip, .read⟩
            | some r => if fx.gzDirect && s.direct && !r.1.isEmpty then .error ⟨.gzip, .read⟩ else .ok r
  close s := if s.bufErr then .error ⟨.gzip, .close⟩ else .ok ()
  offset s := s.off

/-! ## `inflate` / `BZ2_bzDecompress` on a whole memory buffer (library oracle) and the buffer decompressors -/

inductive Kind
  | gzip | bzip2
  deriving Repr, DecidableEq

inductive ZRet
  | ok          -- Z_OK / BZ_OK
  | streamEnd   -- Z_STREAM_END / BZ_STREAM_END
  | bufError    -- Z_BUF_ERROR (zlib only: no progress possible)
  | dataError   -- Z_DATA_ERROR / BZ_DATA_ERROR
  | dataErrorMagic  -- BZ_DATA_ERROR_MAGIC (zlib: Z_DATA_ERROR "incorrect header check")
  deriving Repr, DecidableEq

def Bad.zret : Bad → ZRet
  | .magic => .dataErrorMagic
  | _ => .dataError

/-- z_stream / bz_stream over the whole buffer. -/
structure ZState (α : Type) where
  /-- there is a current stream (false: the buffer is empty / nothing follows) -/
  has : Bool
  cur : List α := []        -- payload of the current stream not yet produced
  trunc : Bool := false
  slack : Bool := false
  /-- unconsumed input of the current (truncated) stream remains -/
  inLeft : Bool := false
  rest : List (Stream α) := []   -- streams after the current one (avail_in > 0 after STREAM_END iff non-empty)
  /-- the current stream is damaged -/
  bad : Bad := .none

def zOpen : CFile α → ZState α
  | [] => { has := false }
  | s :: rest => { has := true, cur := s.payload, trunc := s.trunc, slack := s.slack, inLeft := decide (0 < s.csize), rest := rest,
                   bad := s.bad }

/-- Contract of one `inflate(&strm, Z_SYNC_FLUSH)` / `BZ2_bzDecompress(&strm)` call with `room` bytes of
    output space on a stream whose whole input is in the buffer:
    * intact stream: produces `min room |cur|` bytes; returns STREAM_END in the call that produces the last
      byte (also when that fills the output exactly, also when the payload is empty), OK otherwise;
      it stops at the end of this stream — input after it is left in `avail_in`;
    * truncated stream: produces what it can; zlib returns Z_BUF_ERROR when a call neither consumes input
      nor produces output, Z_OK otherwise; libbz2 always returns BZ_OK;
    * empty buffer: zlib Z_BUF_ERROR, libbz2 BZ_OK;
    * damaged stream (`bad`), the first stream of the buffer or one reached through inflateReset /
      BZ2_bzDecompressInit after a STREAM_END alike: full output buffers (Z_OK / BZ_OK) as long as the bytes
      before the damage fill them; the call that would have to go beyond them returns the data error
      (Z_DATA_ERROR; BZ_DATA_ERROR, or BZ_DATA_ERROR_MAGIC when the bytes do not start with "BZh1".."BZh9")
      — for a missing header that is the first call on the stream. -/
def zInflate (k : Kind) (room : Nat) (s : ZState α) : List α × ZRet × ZState α :=
  if !s.has then
    ([], (match k with | .gzip => .bufError | .bzip2 => .ok), s)
  else if s.bad != .none then
    if s.bad == .magic || decide (s.cur.length < room) then ([], s.bad.zret, s)
    else (s.cur.take room, .ok, { s with cur := s.cur.drop room })
  else
    let out := s.cur.take room
    let cur' := s.cur.drop room
    if !s.trunc then
      if s.cur.length ≤ room then (out, .streamEnd, { s with cur := [] })
      else (out, .ok, { s with cur := cur' })
    else
      -- the call fills the output exactly: input may be left; otherwise everything is consumed
      let inLeft' := if s.cur.length < room then false
                     else if s.cur.length = room then (s.slack && s.inLeft) else s.inLeft
      let noProgress := out.isEmpty && !s.inLeft
      let ret := match k with
                 | .gzip => if noProgress then ZRet.bufError else ZRet.ok
                 | .bzip2 => ZRet.ok
      (out, ret, { s with cur := cur', inLeft := inLeft' })

/-- `inflateReset` / `BZ2_bzDecompressEnd`+`Init` on the remaining input (only in the repaired wrapper). -/
def zNext (s : ZState α) : ZState α := zOpen s.rest

structure BufDec (α : Type) where
  z : ZState α
  /-- `m_buffer != nullptr` -/
  live : Bool := true

def errOf : Kind → ErrClass
  | .gzip => .gzip
  | .bzip2 => .bzip2

/-- One pass through the body of `GzipBufferDecompressor::read` / `Bzip2BufferDecompressor::read`:
      `output.resize(10240); result = inflate(..);`
      `if (result != OK) { m_buffer = nullptr; }`
      `if (result != OK && result != STREAM_END) throw;`
      `output.resize(produced);`
    With `bufMulti`: on STREAM_END with `avail_in > 0` the stream is re-initialised and the buffer stays live.
    With `bufTrunc`: `result == OK && avail_in == 0 && avail_out > 0` is reported as an error. -/
def bufStep (cfg : Cfg) (fx : Fixes) (k : Kind) (s : BufDec α) : Except Err (List α × BufDec α) :=
  let (out, ret, z') := zInflate k cfg.ostep s.z
  match ret with
  | .bufError => .error ⟨errOf k, .read⟩
  | .dataError => .error ⟨errOf k, .read⟩        -- `result != OK && result != STREAM_END` -> throw
  | .dataErrorMagic => .error ⟨errOf k, .read⟩   -- likewise: no special treatment of a missing header
  | .streamEnd =>
    if fx.bufMulti && !z'.rest.isEmpty then .ok (out, { z := zNext z', live := true })
    else .ok (out, { z := z', live := false })
  | .ok =>
    -- intact streams never end a call with avail_in == 0 (their trailer is still to come)
    if fx.bufTrunc && z'.has && z'.trunc && decide (out.length < cfg.ostep) then .error ⟨errOf k, .read⟩
    else if fx.bufTrunc && !z'.has then .error ⟨errOf k, .read⟩
    else .ok (out, { z := z', live := true })

/-- `read()`: today one pass (`if (m_buffer) {...}`); repaired (`bufMulti`): `while (m_buffer && output.empty())`.
    Fuel = number of streams + 1. -/
def bufRead (cfg : Cfg) (fx : Fixes) (k : Kind) : Nat → BufDec α → Except Err (List α × BufDec α)
  | 0, s => .ok ([], s)
  | fuel + 1, s =>
    if !s.live then .ok ([], s)
    else
      match bufStep cfg fx k s with
      | .error e => .error e
      | .ok (out, s') =>
        if fx.bufMulti && out.isEmpty then bufRead cfg fx k fuel s'
        else .ok (out, s')

/-- The buffer decompressors never call `set_offset`: the offset stays 0. -/
def bufDec (cfg : Cfg) (fx : Fixes) (k : Kind) (nstreams : Nat) : Dec (BufDec α) α where
  read s := bufRead cfg fx k (nstreams + 1) s
  close _ := .ok ()
  offset _ := 0

/-! ## libbz2 `BZ2_bzRead` on a FILE (library oracle) -/

/-- FILE* + BZFILE*.  All positions are file offsets.  The read-ahead buffer of the BZFILE always ends at
    the FILE position (`fp`): it is the block last `fread`, or — after a reopen — the copy of its unused
    tail; so `avail_in = fp - pos`. -/
structure BzState (α : Type) where
  fsize : Nat
  /-- FILE position (`ftell`) -/
  fp : Nat := 0
  /-- `feof(FILE)`: an fread came back short or an fgetc probe hit the end -/
  eof : Bool := false
  /-- `next_in` -/
  pos : Nat := 0
  /-- end offset of the current stream -/
  e : Nat
  /-- payload of the current stream not yet delivered -/
  cur : List α
  /-- the stream never reaches its end marker: the file ends inside it, or it is damaged (`bad`) -/
  trunc : Bool
  rest : List (Stream α)
  /-- the current stream is damaged -/
  bad : Bad := .none
  deriving Repr

/-- `BZ2_bzReadOpen(&err, file, 0, 0, unused, nUnused)` positioned at the stream that starts at `start`.
    An empty remainder is a stream of which no byte is present.  BZ2_bzReadOpen itself does not look at
    the bytes (it only copies `unused` into the read-ahead): a missing header is reported by the first
    BZ2_bzRead — on the first stream and on a stream opened after a BZ_STREAM_END alike. -/
def bzOpenAt (fsize fp : Nat) (eof : Bool) (start : Nat) : CFile α → BzState α
  | [] => { fsize, fp, eof, pos := start, e := start, cur := [], trunc := true, rest := [] }
  | s :: rest => { fsize, fp, eof, pos := start, e := start + s.csize, cur := s.payload,
                   trunc := s.trunc || s.bad != .none, rest, bad := s.bad }

def bzOpen (f : CFile α) : BzState α := bzOpenAt (fileSize f) 0 false 0 f

/-- what BZ2_bzRead puts into `bzerror` when it fails -/
inductive BzErr
  | unexpectedEof     -- BZ_UNEXPECTED_EOF
  | dataError         -- BZ_DATA_ERROR
  | dataErrorMagic    -- BZ_DATA_ERROR_MAGIC
  deriving Repr, DecidableEq

def BzErr.ofBad : Bad → BzErr
  | .none => .unexpectedEof
  | .data => .dataError
  | .magic => .dataErrorMagic

/-- Contract of one `BZ2_bzDecompress` call inside BZ2_bzRead (single-block streams): nothing is produced
    before the whole block data (everything but the `trailer`) has been consumed; then up to `room` bytes;
    when the payload is exhausted the decoder goes on to the trailer in the same call: BZ_STREAM_END if
    the trailer is completely in the read-ahead, else it consumes what is there and returns BZ_OK.
    A truncated stream never ends. Returns (bytes, stream_end, state). -/
def bzDecompress (cfg : Cfg) (room : Nat) (s : BzState α) : List α × Bool × BzState α :=
  let blockEnd := if s.trunc then s.e else s.e - cfg.trailer
  if s.fp < blockEnd then ([], false, { s with pos := s.fp })
  else
    let out := s.cur.take room
    let cur' := s.cur.drop room
    if !cur'.isEmpty then (out, false, { s with pos := blockEnd, cur := cur' })
    else if s.trunc || decide (s.fp < s.e) then (out, false, { s with pos := s.fp, cur := [] })
    else (out, true, { s with pos := s.e, cur := [] })

/-- `if (strm.avail_in == 0 && !myfeof(handle)) { n = fread(buf, 1, BZ_MAX_UNUSED, handle); ... }`:
    `myfeof` is an fgetc/ungetc probe — it sets the FILE's EOF flag when the position is the end of the
    file; an fread that comes back short sets it too. -/
def bzRefill (cfg : Cfg) (s : BzState α) : BzState α :=
  if s.pos == s.fp then
    if s.fp == s.fsize then { s with eof := true }
    else { s with fp := s.fp + min cfg.ra (s.fsize - s.fp),
                  eof := s.eof || decide (min cfg.ra (s.fsize - s.fp) < cfg.ra) }
  else s

/-- `myfeof(handle)` evaluated after a BZ_OK -/
def bzProbe (s : BzState α) : BzState α :=
  if s.fp == s.fsize then { s with eof := true } else s

/-- `BZ2_bzRead(&bzerror, b, buf, len)`, the `while (True)` loop:
      (refill, see `bzRefill`)
      `ret = BZ2_bzDecompress(&strm);`
      `if (ret == BZ_OK && myfeof(handle) && avail_in == 0 && avail_out > 0) -> BZ_UNEXPECTED_EOF`
      `if (ret != BZ_OK && ret != BZ_STREAM_END) { BZ_SETERR(ret); return 0; }`
      `if (ret == BZ_OK && myfeof(handle) && avail_in == 0 && avail_out > 0) -> BZ_UNEXPECTED_EOF`
      `if (ret == BZ_STREAM_END) return len - avail_out;   if (avail_out == 0) return len;`
    Returns (bytes, stream_end, state) or the error code put into `bzerror`.
    Damaged streams: bytes that do not start with "BZh1".."BZh9" make the first BZ2_bzDecompress call
    return BZ_DATA_ERROR_MAGIC (`Bad.magic`).  Other damage (`Bad.data`): full buffers as long as the bytes
    decoded before the damage fill them, BZ_DATA_ERROR from the call that would have to go beyond them.
    (Where in the file libbz2 notices the damage is not observable through the wrapper — it throws without
    `set_offset` —, so the oracle lets it consume the bytes of the damaged stream first, like a cut one.) -/
def bzReadLoop (cfg : Cfg) : Nat → Nat → List α → BzState α → Except BzErr (List α × Bool × BzState α)
  | 0, _, _, _ => .error .unexpectedEof
  | fuel + 1, room, acc, s =>
    if s.bad == .magic then .error .dataErrorMagic else
    let r := bzDecompress cfg room (bzRefill cfg s)
    if r.2.1 then .ok (acc ++ r.1, true, r.2.2)
    else
      let s3 := bzProbe r.2.2
      if s3.fp == s3.fsize && s3.pos == s3.fp && decide (0 < room - r.1.length) then .error (BzErr.ofBad s.bad)
      else if room - r.1.length == 0 then .ok (acc ++ r.1, false, s3)
      else bzReadLoop cfg fuel (room - r.1.length) (acc ++ r.1) s3

/-- every iteration that does not return reads at least one more byte of the file -/
def bzRead (cfg : Cfg) (n : Nat) (s : BzState α) : Except BzErr (List α × Bool × BzState α) :=
  bzReadLoop cfg (s.fsize - s.fp + 2) n [] s

/-- `BZ2_bzReadGetUnused`: the read-ahead bytes after the end of the stream. -/
def bzUnused (s : BzState α) : Nat := s.fp - s.pos

/-- `BZ2_bzReadClose` + `BZ2_bzReadOpen(.., unused_data, num_unused)`: the next stream starts where this one ended. -/
def bzReopen (s : BzState α) : BzState α := bzOpenAt s.fsize s.fp s.eof s.pos s.rest

/-! ## Bzip2Decompressor (io/bzip2_compression.hpp) -/

structure BzDec (α : Type) where
  lib : BzState α
  /-- `m_stream_end` -/
  streamEnd : Bool := false
  offset : Nat := 0

/-- The body of `if (!m_stream_end) {...}` in `Bzip2Decompressor::read`:
      `nread = BZ2_bzRead(&bzerror, m_bzfile, buffer, input_buffer_size);`
      `if (bzerror != BZ_OK && bzerror != BZ_STREAM_END) throw;`   — EVERY other code, on every stream: a
      BZ_DATA_ERROR_MAGIC from a stream after the first is an error like any other, not "trailing garbage"
      `if (bzerror == BZ_STREAM_END) {`
      `  if (!feof(file)) { GetUnused; if (num_unused != 0) { close; reopen with unused } else m_stream_end = true; }`
      `  else m_stream_end = true; }`
    Repaired (`bzUnused`): GetUnused regardless of feof; with no unused bytes an fgetc/ungetc probe decides
    between the end of the file and a reopen. -/
def bzStep (cfg : Cfg) (fx : Fixes) (s : BzDec α) : Except Err (List α × BzDec α) :=
  match bzRead cfg cfg.ibs s.lib with
  | .error .unexpectedEof => .error ⟨.bzip2, .read⟩
  | .error .dataError => .error ⟨.bzip2, .read⟩
  | .error .dataErrorMagic => .error ⟨.bzip2, .read⟩
  | .ok (out, fin, lib') =>
    if fin then
      if fx.bzUnused then
        if bzUnused lib' != 0 then .ok (out, { s with lib := bzReopen lib' })
        else if lib'.fp == lib'.fsize then .ok (out, { s with lib := { lib' with eof := true }, streamEnd := true })
        else .ok (out, { s with lib := bzReopen lib' })
      else if !lib'.eof then
        if bzUnused lib' != 0 then .ok (out, { s with lib := bzReopen lib' })
        else .ok (out, { s with lib := lib', streamEnd := true })
      else .ok (out, { s with lib := lib', streamEnd := true })
    else .ok (out, { s with lib := lib' })

/-- `read()`: today one pass; repaired: `while (!m_stream_end && buffer.empty())`.  Then
    `set_offset(ftell(file))`.  Fuel = number of streams + 1. -/
def bzFdRead (cfg : Cfg) (fx : Fixes) : Nat → BzDec α → Except Err (List α × BzDec α)
  | 0, s => .ok ([], { s with offset := s.lib.fp })
  | fuel + 1, s =>
    if s.streamEnd then .ok ([], { s with offset := s.lib.fp })
    else
      match bzStep cfg fx s with
      | .error e => .error e
      | .ok (out, s') =>
        if fx.bzUnused && out.isEmpty then bzFdRead cfg fx fuel s'
        else .ok (out, { s' with offset := s'.lib.fp })

def bzFdDec (cfg : Cfg) (fx : Fixes) (nstreams : Nat) : Dec (BzDec α) α where
  read s := bzFdRead cfg fx (nstreams + 1) s
  close _ := .ok ()      -- BZ2_bzReadClose does not fail on a handle without a pending error
  offset s := s.offset

/-! ## Reading a file the way osmium::io::Reader does -/

inductive Comp
  | none | gzip | bzip2
  deriving Repr, DecidableEq

inductive Mode
  | fd | buf
  deriving Repr, DecidableEq

/-- enough for every call of `read()` that returns something, plus the last one -/
def fuelFor (f : CFile α) : Nat := (refPayload f).length + f.length + 2

/-- `CompressionFactory::create_decompressor(compression, fd)` / `(compression, buffer, size)`, then the read
    thread.  For `Comp.none` the payloads are the file's bytes themselves. -/
def readFile (cfg : Cfg) (fx : Fixes) (c : Comp) (m : Mode) (f : CFile α) : Run α :=
  match c, m with
  | .none, .fd => run (noFdDec cfg) (fuelFor f) { file := refPayload f }
  | .none, .buf => run noBufDec (fuelFor f) { buffer := refPayload f, size := (refPayload f).length }
  | .gzip, .fd => run (gzFdDec cfg fx) (fuelFor f) (gzOpen f)
  | .gzip, .buf => run (bufDec cfg fx .gzip f.length) (fuelFor f) { z := zOpen f }
  | .bzip2, .fd => run (bzFdDec cfg fx f.length) (fuelFor f) { lib := bzOpen f }
  | .bzip2, .buf => run (bufDec cfg fx .bzip2 f.length) (fuelFor f) { z := zOpen f }

def readAll (cfg : Cfg) (fx : Fixes) (c : Comp) (m : Mode) (f : CFile α) : Except Err (List α) :=
  (readFile cfg fx c m f).result

/-- the size `offset()` is compared with: the file, or the memory buffer -/
def inputSize (c : Comp) (f : CFile α) : Nat :=
  match c with
  | .none => (refPayload f).length
  | _ => fileSize f

/-! ## The library's own compressors -/

/-- `GzipCompressor` (gzdopen/gzwrite/gzclose_w) and `Bzip2Compressor` (BZ2_bzWriteOpen/bzWrite/bzWriteClose64)
    write ONE stream whose payload is the concatenation of everything given to `write()`; `csize` is
    whatever the library produced (`headerAndTrailer ≤ csize`). -/
def compressorOutput (writes : List (List α)) (csize : Nat) : CFile α :=
  [{ csize := csize, payload := writes.flatten }]

end Osmium.Decomp
