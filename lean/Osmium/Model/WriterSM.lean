/-
WriterSM — osmium::io::Writer, its write thread, the compressors and the OS underneath (C08).
Core-only.

Layers, bottom up (every definition cites the code it transcribes):

  OS            the kernel as an ORACLE: a schedule of responses to the coming write(2) calls
                (full / short / EINTR / error), a persistent or transient offset limit ("no
                byte at offset ≥ o is accepted": ENOSPC / EFBIG / EIO), schedules for fsync(2)
                and close(2).  `faults` counts the error responses delivered (ghost).
  reliableWrite io/detail/read_write.hpp:132-157
  Comp          io/compression.hpp Compressor interface: write / close / file_size
  noComp        io/compression.hpp:233-281 NoCompressor
  gzipComp      io/gzip_compression.hpp:104-170 GzipCompressor over a zlib-gz LIBRARY PARAMETER
  bzip2Comp     io/bzip2_compression.hpp:171-238 Bzip2Compressor over a libbz2+stdio PARAMETER
  refGz, refBz  reference libraries (unbuffered "stored" framing) used by the driver and as
                non-vacuity witnesses of the library contracts (Lemmas/WriterSM.lean)
  Machine       io/writer.hpp + io/detail/write_thread.hpp + io/detail/queue_util.hpp:
                producer thread (the user's calls, compiled to micro-instructions), pool
                workers (resolve a pending future), write thread; ONE event = one access to
                shared state (a Queue operation, an atomic, the promise/future).  Queue
                operations are atomic here: their internal lock structure is C19's QueueSM.
                Only the write thread touches the compressor and the OS, so a whole
                `compressor->write(data)` is one event.
-/
import Osmium.Model.Mon

namespace Osmium.WriterSM

open Osmium.Mon

abbrev Bytes := List UInt8

/-! ## The OS oracle -/

/-- response of the kernel to one write(2) call -/
inductive Resp where
  | ok (k : Nat)     -- accept at most k bytes (capped at the request); `ok 0` on a non-empty
                     -- request is a misbehaving kernel (excluded by `Resp.wf` where needed)
  | eintr            -- -1 / EINTR, nothing written
  | err (e : Nat)    -- -1 / errno e, nothing written
  deriving DecidableEq, Repr, Hashable

/-- "no byte at offset ≥ off is accepted".  `shortFirst`: the write crossing the limit is cut
    at the limit (RLIMIT_FSIZE / ENOSPC behaviour of real kernels), else it fails entirely.
    `once`: the limit disappears after the first failing write (transient fault). -/
structure Limit where
  off : Nat
  errno : Nat
  shortFirst : Bool
  once : Bool
  deriving DecidableEq, Repr, Hashable

structure OS where
  file : Bytes := []                       -- bytes on the output fd, in order
  off : Nat := 0                           -- number of bytes accepted (= file.length, see Lemmas)
  sched : List Resp := []                  -- responses to the coming write calls; exhausted → full writes
  limit : Option Limit := none
  fsyncSched : List (Option Nat) := []     -- some e = this fsync call fails with errno e
  closeSched : List (Option Nat) := []     -- some e = this close call fails with errno e
  faults : Nat := 0                        -- ghost: error responses delivered so far
  wcalls : Nat := 0                        -- ghost: write calls so far
  fsyncs : Nat := 0
  closes : Nat := 0
  deriving DecidableEq, Repr, Hashable

/-- what one write(2) call returned -/
inductive WRes where
  | wrote (k : Nat)
  | eintr
  | err (e : Nat)
  deriving DecidableEq, Repr

/-- next entry of the write schedule (exhausted: a full write) -/
def OS.nextResp (os : OS) (n : Nat) : Resp :=
  match os.sched with
  | [] => .ok n
  | r :: _ => r

/-- the kernel is willing to take `k` bytes: apply the offset limit -/
def OS.accept (os : OS) (k : Nat) : WRes × OS :=
  match os.limit with
  | none => (.wrote k, { os with off := os.off + k })
  | some l =>
    if os.off + k ≤ l.off then (.wrote k, { os with off := os.off + k })
    else if l.shortFirst ∧ os.off < l.off then
      (.wrote (l.off - os.off), { os with off := l.off })
    else
      (.err l.errno, { os with faults := os.faults + 1,
                               limit := if l.once then none else os.limit })

/-- The kernel's decision for a request of `n` bytes — depends on sizes only. -/
def OS.respond (os : OS) (n : Nat) : WRes × OS :=
  let os1 := { os with sched := os.sched.tail, wcalls := os.wcalls + 1 }
  match os.nextResp n with
  | .eintr => (.eintr, os1)
  | .err e => (.err e, { os1 with faults := os1.faults + 1 })
  | .ok k => os1.accept (min k n)

/-- write(2) on the output fd -/
def OS.write (os : OS) (buf : Bytes) : WRes × OS :=
  match os.respond buf.length with
  | (.wrote k, os') => (.wrote k, { os' with file := os'.file ++ buf.take k })
  | (r, os') => (r, os')

/-- fsync(2): `some e` = failed with errno e -/
def OS.fsync (os : OS) : Option Nat × OS :=
  let os1 := { os with fsyncSched := os.fsyncSched.tail, fsyncs := os.fsyncs + 1 }
  match os.fsyncSched.head?.join with
  | none => (none, os1)
  | some e => (some e, { os1 with faults := os1.faults + 1 })

/-- close(2) (of the output fd or of a dup of it) -/
def OS.close (os : OS) : Option Nat × OS :=
  let os1 := { os with closeSched := os.closeSched.tail, closes := os.closes + 1 }
  match os.closeSched.head?.join with
  | none => (none, os1)
  | some e => (some e, { os1 with faults := os1.faults + 1 })

/-- the schedule never answers a write with "0 bytes" -/
def Resp.wf : Resp → Bool
  | .ok 0 => false
  | _ => true

/-! ## reliable_write   (io/detail/read_write.hpp:132-157) -/

/-- `max_write`: 100 MByte per write(2) call (read_write.hpp:137-140) -/
def maxWrite : Nat := 100 * 1024 * 1024

inductive RW where
  | done
  | error (e : Nat)     -- std::system_error{errno, "Write failed"}
  | outOfFuel           -- the C++ loop is still running (only with a kernel that returns 0)
  deriving DecidableEq, Repr

/-- ```
    size_t offset = 0;
    do {
        auto write_count = size - offset;
        if (write_count > max_write) write_count = max_write;
        int64_t length = 0;
        do {
            length = ::write(fd, output_buffer + offset, write_count);
            if (length < 0 && errno != EINTR) throw std::system_error{errno, ...};
        } while (length < 0);
        offset += length;
    } while (offset < size);
    ```
    `rest` = the bytes from `offset` on.  An EINTR repeats the same request (inner loop);
    both loops are do-while, so an empty buffer still issues one write of 0 bytes. -/
def rwLoop (maxw : Nat) : Nat → OS → Bytes → RW × OS
  | 0, os, _ => (.outOfFuel, os)
  | fuel + 1, os, rest =>
    match os.write (rest.take maxw) with
    | (.wrote k, os') =>
      if (rest.drop k).isEmpty then (.done, os') else rwLoop maxw fuel os' (rest.drop k)
    | (.eintr, os') => rwLoop maxw fuel os' rest
    | (.err e, os') => (.error e, os')

/-- enough fuel for every schedule without `ok 0` answers (Lemmas: `rwLoop_terminates`) -/
def rwFuel (os : OS) (buf : Bytes) : Nat := os.sched.length + buf.length + 1

def reliableWrite (os : OS) (buf : Bytes) : RW × OS :=
  rwLoop maxWrite (rwFuel os buf) os buf

/-- The same loop on SIZES only (what the driver runs for a 100 MiB buffer); `Lemmas`
    proves it makes the same calls and reaches the same outcome as `rwLoop`. -/
def rwLoopN (maxw : Nat) : Nat → OS → Nat → List (Nat × WRes) → RW × OS × List (Nat × WRes)
  | 0, os, _, log => (.outOfFuel, os, log)
  | fuel + 1, os, rest, log =>
    let n := min maxw rest
    match os.respond n with
    | (.wrote k, os') =>
      if rest - k = 0 then (.done, os', log ++ [(n, .wrote k)])
      else rwLoopN maxw fuel os' (rest - k) (log ++ [(n, .wrote k)])
    | (.eintr, os') => rwLoopN maxw fuel os' rest (log ++ [(n, .eintr)])
    | (.err e, os') => (.error e, os', log ++ [(n, .err e)])

/-! ## Exceptions -/

inductive Err where
  | sys (e : Nat)       -- std::system_error (reliable_write / reliable_fsync / reliable_close / fclose)
  | gzip (code : Int)   -- osmium::gzip_error
  | bzip2 (code : Int)  -- osmium::bzip2_error
  | enc (tag : Nat)     -- whatever the encoder (OutputFormat / pool task) threw
  | refused             -- io_error "Can not write to writer when in status 'closed' or 'error'"
  deriving DecidableEq, Repr, Hashable

/-! ## Compressor interface   (io/compression.hpp:52-88) -/

/-- `write`, `close` return the exception thrown (if any), the object's state afterwards
    (the object survives the exception: its destructor calls `close()` again) and the OS. -/
structure Comp (κ : Type) where
  write : κ → Bytes → OS → Option Err × κ × OS
  close : κ → OS → Option Err × κ × OS
  fileSize : κ → Nat

/-- every compressor destructor is `try { close(); } catch (...) {}` -/
def Comp.destroy {κ : Type} (C : Comp κ) (k : κ) (os : OS) : κ × OS :=
  (C.close k os).2

/-! ### NoCompressor   (io/compression.hpp:233-281) -/

structure NoState where
  fdOpen : Bool := true      -- m_fd >= 0
  size : Nat := 0            -- m_file_size
  sync : Bool                -- do_fsync()
  deriving DecidableEq, Repr, Hashable

/-- ```
    void write(const std::string& data) override {
        reliable_write(m_fd, data.data(), data.size());
        m_file_size += data.size();
    }
    ``` -/
def noWrite (k : NoState) (d : Bytes) (os : OS) : Option Err × NoState × OS :=
  match reliableWrite os d with
  | (.done, os') => (none, { k with size := k.size + d.length }, os')
  | (.error e, os') => (some (.sys e), k, os')
  | (.outOfFuel, os') => (some (.sys 0), k, os')   -- unreachable for well-formed schedules

/-- ```
    void close() override {
        if (m_fd >= 0) {
            const int fd = m_fd;
            m_fd = -1;
            if (fd == 1) return;            // stdout: not modelled (the output is a file)
            if (do_fsync()) reliable_fsync(fd);
            reliable_close(fd);
        }
    }
    ``` -/
def noClose (k : NoState) (os : OS) : Option Err × NoState × OS :=
  if k.fdOpen then
    let k := { k with fdOpen := false }
    if k.sync then
      match os.fsync with
      | (some e, os') => (some (.sys e), k, os')
      | (none, os') =>
        match os'.close with
        | (some e, os'') => (some (.sys e), k, os'')
        | (none, os'') => (none, k, os'')
    else
      match os.close with
      | (some e, os') => (some (.sys e), k, os')
      | (none, os') => (none, k, os')
  else (none, k, os)

def noComp : Comp NoState := { write := noWrite, close := noClose, fileSize := (·.size) }

/-! ### GzipCompressor over a zlib "gz" library parameter   (io/gzip_compression.hpp:104-170) -/

/-- The zlib gz layer.  `gzwrite` returns the number of uncompressed bytes consumed (0 = error);
    `gzclose_w` returns Z_OK = 0 or an error code; it flushes what is buffered, writes the
    trailer and closes the (dup'ed) fd. -/
structure GzLib (γ : Type) where
  gzwrite : γ → Bytes → OS → Nat × γ × OS
  gzclose : γ → OS → Int × OS

structure GzState (γ : Type) where
  gz : Option γ              -- m_gzfile (none = nullptr)
  size : Nat := 0            -- m_file_size
  sync : Bool
  deriving DecidableEq, Repr, Hashable

/-- ```
    if (!data.empty()) {
        const int nwrite = ::gzwrite(m_gzfile, data.data(), data.size());
        if (nwrite == 0) throw_gzip_error(m_gzfile, "write failed");
    }
    ``` -/
def gzipWrite {γ : Type} (L : GzLib γ) (k : GzState γ) (d : Bytes) (os : OS) :
    Option Err × GzState γ × OS :=
  match k.gz with
  | none => (some (.gzip (-2)), k, os)          -- assert(m_gzfile): write after close
  | some g =>
    if d.isEmpty then (none, k, os) else
    match L.gzwrite g d os with
    | (0, g', os') => (some (.gzip (-1)), { k with gz := some g' }, os')
    | (_ + 1, g', os') => (none, { k with gz := some g' }, os')

/-- ```
    if (m_gzfile) {
        const int result = ::gzclose_w(m_gzfile);
        m_gzfile = nullptr;
        if (result != Z_OK) throw gzip_error{"gzip error: write close failed", result};
        if (m_fd == 1) return;
        m_file_size = osmium::file_size(m_fd);      // fstat
        if (do_fsync()) reliable_fsync(m_fd);
        reliable_close(m_fd);
    }
    ``` -/
def gzipClose {γ : Type} (L : GzLib γ) (k : GzState γ) (os : OS) : Option Err × GzState γ × OS :=
  match k.gz with
  | none => (none, k, os)
  | some g =>
    match L.gzclose g os with
    | (result, os1) =>
      let k := { k with gz := none }
      if result ≠ 0 then (some (.gzip result), k, os1) else
      let k := { k with size := os1.file.length }
      if k.sync then
        match os1.fsync with
        | (some e, os2) => (some (.sys e), k, os2)
        | (none, os2) =>
          match os2.close with
          | (some e, os3) => (some (.sys e), k, os3)
          | (none, os3) => (none, k, os3)
      else
        match os1.close with
        | (some e, os2) => (some (.sys e), k, os2)
        | (none, os2) => (none, k, os2)

def gzipComp {γ : Type} (L : GzLib γ) : Comp (GzState γ) :=
  { write := gzipWrite L, close := gzipClose L, fileSize := (·.size) }

/-! ### Bzip2Compressor over a libbz2 + stdio parameter   (io/bzip2_compression.hpp:96-238) -/

/-- libbz2's high-level write interface on a stdio FILE.  `bzWrite` = BZ2_bzWrite (returns
    bzerror: BZ_OK = 0), `bzWriteClose` = BZ2_bzWriteClose64 (bzerror, nbytes_out; it fflush()es
    the FILE), `fclose` = stdio fclose of the FILE (flushes, closes the fd; 0 = ok, else errno). -/
structure BzLib (β : Type) where
  bzWrite : β → Bytes → OS → Int × β × OS
  bzWriteClose : β → OS → Int × Nat × β × OS
  fclose : β → OS → Option Nat × OS

structure BzState (β : Type) where
  bz : Option β              -- m_bzfile (with the FILE it writes to)
  file : Option β := none    -- m_file still open after BZ2_bzWriteClose64 (only transiently)
  size : Nat := 0
  sync : Bool
  deriving DecidableEq, Repr, Hashable

/-- ```
    int bzerror = BZ_OK;
    ::BZ2_bzWrite(&bzerror, m_bzfile, data.data(), data.size());
    if (bzerror != BZ_OK && bzerror != BZ_STREAM_END) throw_bzip2_error(...);
    ``` (BZ_STREAM_END = 4) -/
def bzip2Write {β : Type} (L : BzLib β) (k : BzState β) (d : Bytes) (os : OS) :
    Option Err × BzState β × OS :=
  match k.bz with
  | none => (some (.bzip2 (-1)), k, os)         -- assert(m_bzfile)
  | some b =>
    match L.bzWrite b d os with
    | (code, b', os') =>
      if code ≠ 0 ∧ code ≠ 4 then (some (.bzip2 code), { k with bz := some b' }, os')
      else (none, { k with bz := some b' }, os')

/-- ```
    if (m_bzfile) {
        int bzerror = BZ_OK; unsigned lo = 0, hi = 0;
        ::BZ2_bzWriteClose64(&bzerror, m_bzfile, 0, nullptr, nullptr, &lo, &hi);
        m_bzfile = nullptr;
        if (do_fsync() && m_file.file()) reliable_fsync(fileno(m_file.file()));
        m_file.close();                       // fclose checked → system_error
        if (bzerror != BZ_OK) throw bzip2_error{"bzip2 error: write close failed", bzerror};
        m_file_size = hi << 32 | lo;
    }
    ```
    When reliable_fsync throws, `m_file.close()` is skipped; ~file_wrapper fcloses unchecked. -/
def bzip2Close {β : Type} (L : BzLib β) (k : BzState β) (os : OS) : Option Err × BzState β × OS :=
  match k.bz with
  | none => (none, k, os)
  | some b =>
    match L.bzWriteClose b os with
    | (code, nbytes, b', os1) =>
      let k := { k with bz := none }
      let fin (os2 : OS) : Option Err × BzState β × OS :=
        match L.fclose b' os2 with
        | (some e, os3) => (some (.sys e), k, os3)
        | (none, os3) =>
          if code ≠ 0 then (some (.bzip2 code), k, os3)
          else (none, { k with size := nbytes }, os3)
      if k.sync then
        match os1.fsync with
        | (some e, os2) => (some (.sys e), k, (L.fclose b' os2).2)
        | (none, os2) => fin os2
      else fin os1

def bzip2Comp {β : Type} (L : BzLib β) : Comp (BzState β) :=
  { write := bzip2Write L, close := bzip2Close L, fileSize := (·.size) }

/-! ### Reference libraries (executable; contracts proved in Lemmas/WriterSM.lean)

A "stored" container: every `write` call emits one frame `[len] ++ data` (len < 256, longer
data is split), close emits the trailer `[0]`.  Unbuffered; the raw write loop handles short
counts and treats EINTR as an error — as zlib's gz_comp and glibc's _IO_new_file_write do. -/

/-- loop until everything is written; any -1 (also EINTR) is an error -/
def rawWrite : Nat → OS → Bytes → Bool × OS
  | 0, os, _ => (false, os)
  | fuel + 1, os, rest =>
    if rest.isEmpty then (true, os) else
    match os.write rest with
    | (.wrote k, os') => rawWrite fuel os' (rest.drop k)
    | (_, os') => (false, os')

def frames : Nat → Bytes → Bytes
  | 0, _ => []
  | fuel + 1, d =>
    if d.isEmpty then [] else
    let c := d.take 255
    UInt8.ofNat c.length :: c ++ frames fuel (d.drop 255)

/-- the container format of the reference libraries -/
def refEnc (chunks : List Bytes) : Bytes :=
  (chunks.map fun d => frames (d.length + 1) d).flatten ++ [0]

structure RefLibState where
  failed : Bool := false     -- sticky error (state->err / ferror)
  out : Nat := 0             -- bytes handed to the OS successfully (bz2's nbytes_out)
  deriving DecidableEq, Repr, Hashable

def refEmit (s : RefLibState) (bytes : Bytes) (os : OS) : RefLibState × OS :=
  if s.failed then (s, os) else
  match rawWrite (os.sched.length + bytes.length + 1) os bytes with
  | (true, os') => ({ s with out := s.out + bytes.length }, os')
  | (false, os') => ({ s with failed := true }, os')

def refGz : GzLib RefLibState where
  gzwrite s d os :=
    let (s', os') := refEmit s (frames (d.length + 1) d) os
    (if s'.failed then 0 else d.length, s', os')
  gzclose s os :=
    let (s', os1) := refEmit s [0] os
    match os1.close with                       -- close of the dup'ed fd
    | (some _, os2) => (-1, os2)
    | (none, os2) => (if s'.failed then -1 else 0, os2)

def refBz : BzLib RefLibState where
  bzWrite s d os :=
    let (s', os') := refEmit s (frames (d.length + 1) d) os
    (if s'.failed then -6 else 0, s', os')     -- BZ_IO_ERROR = -6
  bzWriteClose s os :=
    let (s', os') := refEmit s [0] os
    (if s'.failed then -6 else 0, s'.out, s', os')
  fclose _ os :=
    match os.close with
    | (some e, os') => (some e, os')
    | (none, os') => (none, os')

/-! ## The Writer state machine -/

inductive Status where
  | okay | error | closed
  deriving DecidableEq, Repr, Hashable

/-- what a future in the output queue will yield -/
inductive Res where
  | data (b : Bytes)     -- `data []` IS the end-of-data marker (queue_util.hpp:89-95)
  | exc (e : Err)
  deriving DecidableEq, Repr, Hashable

/-- a std::future<std::string> in the output queue: its eventual result (the encoder is a
    deterministic function of the block, so it is fixed at submission) and whether the pool
    task has run already -/
structure Item where
  res : Res
  ready : Bool
  deriving DecidableEq, Repr, Hashable

def Item.isTerm (it : Item) : Bool :=
  match it.res with
  | .data [] => true
  | .data _ => false
  | .exc _ => true

/-- `add_end_of_data_to_queue` (queue_util.hpp:86-88): promise fulfilled with `std::string{}` -/
def endItem : Item := { res := .data [], ready := true }
/-- `add_to_queue(queue, std::exception_ptr)` (queue_util.hpp:79-84) -/
def excItem (e : Err) : Item := { res := .exc e, ready := true }

/-- What one call of `write_header` / `write_buffer` / `write_end` of the OutputFormat does in
    the calling thread: push these futures (pool tasks or ready strings), then maybe throw. -/
structure Enc where
  items : List Item := []
  throws : Option Err := none
  deriving DecidableEq, Repr, Hashable

/-- user-level calls; `ib` = what flushing the Writer's internal buffer does, if it has
    committed data at that time (writer.hpp:174-181) -/
inductive Api where
  | put (ib : Option Enc) (e : Enc)        -- operator()(Buffer&&)       writer.hpp:362-367
  | item (full : Option Enc)               -- operator()(const Item&)    writer.hpp:376-389
                                           --   (full = buffer_is_full path: do_flush first)
  | flush (ib : Option Enc)                -- flush()                    writer.hpp:348-352
  | close (ib : Option Enc) (eEnd : Enc)   -- close()                    writer.hpp:402-410
  | dtor (ib : Option Enc) (eEnd : Enc)    -- ~Writer()                  writer.hpp:308-314
  deriving DecidableEq, Repr, Hashable

inductive Outcome where
  | ok (n : Nat)        -- returned normally (n = close()'s return value, 0 for void calls)
  | raised (e : Err)
  deriving DecidableEq, Repr, Hashable

/-- micro-instructions of the producer thread -/
inductive Instr where
  | chk               -- ensure_cleanup: `if (m_status != okay) throw io_error` (outside the try)
  | closeChk          -- do_close: `if (m_status == status::okay) { ensure_cleanup(...) }`
  | hdr               -- `if (!m_header_written) write_header();`
  | setHdr            -- `m_header_written = true;`
  | poll              -- `if (m_notification) check_for_exception(m_write_future);`
  | push (it : Item)  -- Queue::push (blocks while the queue is full and in use)
  | throw (e : Err)   -- the encoder throws in the calling thread
  | setClosed         -- `m_status = status::closed;`
  | rethrow (e : Err) -- end of the catch block of ensure_cleanup: `throw;`
  | ret               -- normal return of a void call
  | futGet            -- `if (m_write_future.valid()) return m_write_future.get(); return 0;`
  | join              -- ~Writer: swallow, then member destructors: m_thread joins
  deriving DecidableEq, Repr, Hashable

def encInstrs (e : Enc) : List Instr :=
  e.items.map .push ++ (match e.throws with | some x => [.throw x] | none => [])

def optEnc : Option Enc → List Instr
  | none => []
  | some e => encInstrs e

/-- the body of each call, statement by statement -/
def callCode : Api → List Instr
  -- ensure_cleanup([&]{ do_flush(); do_write(std::move(buffer)); })
  | .put ib e => [.chk, .hdr, .poll] ++ optEnc ib ++ [.hdr] ++ encInstrs e ++ [.ret]
  -- ensure_cleanup([&]{ push_back(item) / catch buffer_is_full: do_flush(); push_back })
  | .item none => [.chk, .ret]
  | .item (some e) => [.chk, .hdr, .poll] ++ encInstrs e ++ [.ret]
  -- ensure_cleanup([&]{ do_flush(); })
  | .flush ib => [.chk, .hdr, .poll] ++ optEnc ib ++ [.ret]
  -- do_close(); future.get()
  | .close ib eEnd =>
    [.closeChk, .hdr] ++ optEnc ib ++ encInstrs eEnd ++ [.setClosed, .push endItem, .futGet]
  | .dtor ib eEnd =>
    [.closeChk, .hdr] ++ optEnc ib ++ encInstrs eEnd ++ [.setClosed, .push endItem, .join]

/-- the last instruction of a call (reached directly when do_close does nothing) -/
def finalInstr : Api → Instr
  | .close _ _ => .futGet
  | .dtor _ _ => .join
  | _ => .ret

/-- write thread program counter (write_thread.hpp:84-102) -/
inductive WPc where
  | pop                -- in m_queue.pop(): wait_and_pop
  | got (it : Item)    -- future taken out of the queue; in data_future.get()
  | closing            -- left the loop: m_compressor->close(); m_promise.set_value(file_size())
  | fail1 (e : Err)    -- in the catch block, before m_notification->store(true)
  | fail2 (e : Err)    -- before m_promise.set_exception
  | fail3              -- before m_queue.shutdown()
  | dtor               -- ~WriteThread: ~queue_wrapper (shutdown), ~Compressor (close, swallowed)
  | done               -- thread function returned (joinable → join returns)
  deriving DecidableEq, Repr, Hashable

structure St (κ : Type) where
  -- the user and the producer thread
  script : List Api                    -- calls still to be made (the last one is the destructor)
  cur : Option Api := none             -- call in progress
  code : List Instr := []              -- rest of its body
  results : List (Api × Outcome) := [] -- finished calls, oldest first (ghost)
  status : Status := .okay             -- m_status
  headerWritten : Bool := false        -- m_header_written
  futureValid : Bool := true           -- m_write_future.valid()
  destroyed : Bool := false            -- ~Writer has returned
  -- m_output_queue
  q : List Item := []
  inUse : Bool := true
  -- the write thread and what it owns
  wpc : WPc := .pop
  comp : κ
  os : OS
  notification : Bool := false         -- m_notification
  promise : Option Outcome := none     -- m_promise / m_write_future shared state
  -- ghost history
  pushed : List Res := []              -- every push attempt, in order (also the no-op ones)
  taken : List Res := []               -- futures the write thread took out of the queue
  written : List Bytes := []           -- blocks for which compressor.write returned normally
  deriving BEq, Hashable

inductive Ev where
  | prod                       -- the producer executes its next micro-instruction
  | wt                         -- the write thread moves
  | worker (i : Option Nat)    -- a pool thread finishes the task of the i-th queued future
                               --   (none: of the future the write thread is blocked on)
  deriving DecidableEq, Repr

/-- parameters of a machine -/
structure Cfg (κ : Type) where
  comp : Comp κ
  hdrEnc : Enc          -- what m_output->write_header does
  qmax : Nat            -- OSMIUM_MAX_OUTPUT_QUEUE_SIZE (0 = unbounded)

section steps
variable {κ : Type} (cfg : Cfg κ)

def finish (s : St κ) (a : Api) (o : Outcome) : St κ :=
  { s with cur := none, code := [], results := s.results ++ [(a, o)] }

/-- the catch block of ensure_cleanup (writer.hpp:192-197): status, two pushes, rethrow.
    In the destructor the rethrown exception is swallowed (writer.hpp:309-313). -/
def catchCode (a : Api) (e : Err) : List Instr :=
  [.push (excItem e), .push endItem,
   (match a with | .dtor _ _ => Instr.join | _ => Instr.rethrow e)]

def raiseInTry (s : St κ) (a : Api) (e : Err) : St κ :=
  { s with status := .error, code := catchCode a e }

/-- producer: next call, or next micro-instruction of the call in progress -/
def stepProd (s : St κ) : Option (St κ) :=
  match s.cur with
  | none =>
    match s.script with
    | [] => none
    | a :: rest => some { s with script := rest, cur := some a, code := callCode a }
  | some a =>
    match s.code with
    | [] => none
    | .chk :: rest =>
      if s.status ≠ .okay then some (finish s a (.raised .refused))
      else some { s with code := rest }
    | .closeChk :: rest =>
      if s.status = .okay then some { s with code := rest }
      else some { s with code := [finalInstr a] }
    | .hdr :: rest =>
      if s.headerWritten then some { s with code := rest }
      else some { s with code := encInstrs cfg.hdrEnc ++ [.setHdr] ++ rest }
    | .setHdr :: rest => some { s with headerWritten := true, code := rest }
    | .poll :: rest =>
      -- check_for_exception: valid() && wait_for(0) == ready → get()
      if s.notification ∧ s.futureValid then
        match s.promise with
        | some (.raised e) => some (raiseInTry { s with futureValid := false } a e)
        | some (.ok _) => some { s with futureValid := false, code := rest }
        | none => some { s with code := rest }
      else some { s with code := rest }
    | .push it :: rest =>
      -- Queue::push: `if (!m_in_use) return;` / wait while full / enqueue
      if ¬ s.inUse then some { s with code := rest, pushed := s.pushed ++ [it.res] }
      else if cfg.qmax ≠ 0 ∧ s.q.length ≥ cfg.qmax then none
      else some { s with code := rest, q := s.q ++ [it], pushed := s.pushed ++ [it.res] }
    | .throw e :: _ => some (raiseInTry s a e)
    | .setClosed :: rest => some { s with status := .closed, code := rest }
    | .rethrow e :: _ => some (finish s a (.raised e))
    | .ret :: _ => some (finish s a (.ok 0))
    | .futGet :: _ =>
      if s.futureValid then
        match s.promise with
        | none => none                                      -- future.get() blocks
        | some o => some (finish { s with futureValid := false } a o)
      else some (finish s a (.ok 0))
    | .join :: _ =>
      if s.wpc = .done then some { (finish s a (.ok 0)) with destroyed := true } else none

/-- Queue::shutdown (queue.hpp:236-243) -/
def shutdownQ (s : St κ) : St κ := { s with inUse := false, q := [] }

/-- the write thread -/
def stepWt (s : St κ) : Option (St κ) :=
  match s.wpc with
  | .pop =>
    -- queue_wrapper::pop: `if (m_queue.in_use()) { wait_and_pop … }` else data stays empty
    if ¬ s.inUse then some { s with wpc := .closing }
    else match s.q with
      | [] => none                                           -- waits on m_data_available
      | it :: rest => some { s with q := rest, wpc := .got it, taken := s.taken ++ [it.res] }
  | .got it =>
    if ¬ it.ready then none else                             -- future.get() blocks
    match it.res with
    | .exc e => some { s with wpc := .fail1 e }
    | .data [] => some { (shutdownQ s) with wpc := .closing }   -- at_end_of_data → shutdown; break
    | .data (b :: bs) =>
      match cfg.comp.write s.comp (b :: bs) s.os with
      | (none, k', os') =>
        some { s with wpc := .pop, comp := k', os := os', written := s.written ++ [b :: bs] }
      | (some e, k', os') => some { s with wpc := .fail1 e, comp := k', os := os' }
  | .closing =>
    match cfg.comp.close s.comp s.os with
    | (none, k', os') =>
      some { s with wpc := .dtor, comp := k', os := os',
                    promise := some (.ok (cfg.comp.fileSize k')) }
    | (some e, k', os') => some { s with wpc := .fail1 e, comp := k', os := os' }
  | .fail1 e => some { s with wpc := .fail2 e, notification := true }
  | .fail2 e => some { s with wpc := .fail3, promise := some (.raised e) }
  | .fail3 => some { (shutdownQ s) with wpc := .dtor }
  | .dtor =>
    let (k', os') := cfg.comp.destroy s.comp s.os
    some { (shutdownQ s) with wpc := .done, comp := k', os := os' }
  | .done => none

def setReady (it : Item) : Item := { it with ready := true }

/-- a pool thread completes a pending task -/
def stepWorker (s : St κ) : Option Nat → Option (St κ)
  | none =>
    match s.wpc with
    | .got it => if it.ready then none else some { s with wpc := .got (setReady it) }
    | _ => none
  | some i =>
    match s.q[i]? with
    | some it => if it.ready then none else some { s with q := s.q.set i (setReady it) }
    | none => none

def step? (s : St κ) : Ev → Option (St κ)
  | .prod => stepProd cfg s
  | .wt => stepWt cfg s
  | .worker i => stepWorker s i

end steps

/-- a Writer right after its constructor returned: the script ends with the destructor -/
def initSt {κ : Type} (k0 : κ) (os0 : OS) (script : List Api) : St κ :=
  { script := script, comp := k0, os := os0 }

def machine {κ : Type} (cfg : Cfg κ) (k0 : κ) (os0 : OS) (script : List Api) :
    Machine (St κ) Ev :=
  { init := initSt k0 os0 script, step? := step? cfg }

/-! ### A deterministic scheduler (used by the driver and by the examples in Props)

priority: producer, then pool workers (held future first, then queue order), then the write
thread.  With `wtFirst` the write thread gets the highest priority instead. -/

def pickEv {κ : Type} (cfg : Cfg κ) (wtFirst : Bool) (s : St κ) : Option (Ev × St κ) :=
  let workers : List Ev := .worker none :: (List.range s.q.length).map fun i => .worker (some i)
  let cands : List Ev := if wtFirst then .wt :: workers ++ [.prod] else .prod :: workers ++ [.wt]
  cands.findSome? fun e => (step? cfg s e).map fun s' => (e, s')

def runSched {κ : Type} (cfg : Cfg κ) (wtFirst : Bool) : Nat → St κ → List Ev × St κ
  | 0, s => ([], s)
  | fuel + 1, s =>
    match pickEv cfg wtFirst s with
    | none => ([], s)
    | some (e, s') =>
      let (tr, sf) := runSched cfg wtFirst fuel s'
      (e :: tr, sf)

/-! ### The repaired writer (fix fb588a3) — the main line of the model for OPL / XML / PBF
(for `debug` and `ids` see `Guards` / `fmtMachine` below: they still behave like `machine`)

Since fb588a3 `OPLOutputFormat::write_buffer` / `XMLOutputFormat::write_buffer` return early
when the buffer holds no node, way, relation or changeset
(`OutputFormat::contains_writable_objects`, output_format.hpp), so no pool task ever yields the
empty string; PBF blobs and the XML header/trailer strings are never empty.  In terms of this
model: what an OutputFormat call pushes never contains a `data []` item.  `Enc.repair` is that
early return; `repairedMachine` is the Writer as it is now.  `machine` on a raw script that
contains empty blocks is the PRE-FIX behaviour (kept as documentation of the defect
`empty-block-ends-output`). -/

/-- not the empty string (which is the end-of-data marker) -/
def Item.good (it : Item) : Bool :=
  match it.res with
  | .data [] => false
  | _ => true

def Enc.good (e : Enc) : Bool := e.items.all Item.good

def optGood : Option Enc → Bool
  | none => true
  | some e => e.good

def Api.good : Api → Bool
  | .put ib e => optGood ib && e.good
  | .item f => optGood f
  | .flush ib => optGood ib
  | .close ib e => optGood ib && e.good
  | .dtor ib e => optGood ib && e.good

/-- `if (!contains_writable_objects(buffer)) return;` — a block that would be encoded as the
    empty string is not submitted at all -/
def Enc.repair (e : Enc) : Enc := { e with items := e.items.filter Item.good }

def Api.repair : Api → Api
  | .put ib e => .put (ib.map Enc.repair) e.repair
  | .item f => .item (f.map Enc.repair)
  | .flush ib => .flush (ib.map Enc.repair)
  | .close ib e => .close (ib.map Enc.repair) e.repair
  | .dtor ib e => .dtor (ib.map Enc.repair) e.repair

def Cfg.repair {κ : Type} (cfg : Cfg κ) : Cfg κ := { cfg with hdrEnc := cfg.hdrEnc.repair }

/-- the Writer of the current tree for formats whose `write_buffer` is guarded (= `guardedMachine
    ⟨true, true⟩`): every script, through the repaired output formats -/
def repairedMachine {κ : Type} (cfg : Cfg κ) (k0 : κ) (os0 : OS) (script : List Api) :
    Machine (St κ) Ev :=
  machine cfg.repair k0 os0 (script.map Api.repair)

/-! ### Per format, per path: who keeps a block that encodes to "" out of the queue

The guard exists in two output formats only (`OPLOutputFormat::write_buffer`,
`XMLOutputFormat::write_buffer`: `if (!contains_writable_objects(buffer)) return;`).
`DebugOutputFormat::write_buffer` and `IDSOutputFormat::write_buffer` submit a pool task for
EVERY buffer (`m_output_queue.push(m_pool.submit(DebugOutputBlock{…}))`), and their blocks
encode a buffer without node/way/relation/changeset to the empty string, exactly like
OPL/XML did before fb588a3.  `PBFOutputFormat::write_buffer` never submits a per-buffer block
(it feeds the objects to its PrimitiveBlock, blobs are queued only when they hold ≥ 1 object);
`BlackholeOutputFormat::write_buffer` does nothing.

A buffer reaches `write_buffer` on two paths of the Writer (writer.hpp):
  * `do_write(std::move(buffer))`  — the argument of operator()(Buffer&&) and the internal
    buffer at close()/~Writer;
  * `do_flush()` — the internal buffer of operator()(const Item&), handed over by flush(),
    by operator()(Buffer&&) (which flushes first) and when the internal buffer is full.
A guard could also live in these two functions (it does not in the current tree), so the
model keeps one Boolean per path: effective guard = the Writer's ∨ the format's.  Which
guards exist is read off the source on every run (Generated/C08Guards.lean, written by
tools/props/c08.py) — `GuardTable` is that table. -/

inductive Fmt where
  | opl | xml | pbf | debug | ids | blackhole
  deriving DecidableEq, Repr

/-- is a block without writable objects kept out of the queue on the do_write / do_flush path? -/
structure Guards where
  doWrite : Bool
  doFlush : Bool
  deriving DecidableEq, Repr

/-- what the source says (regenerated from /repo on every run) -/
structure GuardTable where
  writerDoWrite : Bool       -- Writer::do_write tests contains_writable_objects
  writerDoFlush : Bool       -- Writer::do_flush tests contains_writable_objects
  fmt : Fmt → Bool           -- the format's write_buffer returns early / never submits a per-buffer block

def GuardTable.guards (T : GuardTable) (f : Fmt) : Guards :=
  { doWrite := T.writerDoWrite || T.fmt f, doFlush := T.writerDoFlush || T.fmt f }

def Enc.repairIf : Bool → Enc → Enc
  | true, e => e.repair
  | false, e => e

/-- the guards applied to a call: `ib`/`full` of put/item/flush travel through do_flush, the
    buffer argument of put and the internal buffer at close/dtor through do_write.  The
    trailer strings of `write_end` (and the header, `Cfg.repair`) are never empty in any
    format (XML: literal text; PBF: blobs; OPL/debug/ids/blackhole: no trailer). -/
def Api.guard (g : Guards) : Api → Api
  | .put ib e => .put (ib.map (Enc.repairIf g.doFlush)) (e.repairIf g.doWrite)
  | .item f => .item (f.map (Enc.repairIf g.doFlush))
  | .flush ib => .flush (ib.map (Enc.repairIf g.doFlush))
  | .close ib e => .close (ib.map (Enc.repairIf g.doWrite)) e.repair
  | .dtor ib e => .dtor (ib.map (Enc.repairIf g.doWrite)) e.repair

/-- the Writer with the given guards -/
def guardedMachine {κ : Type} (g : Guards) (cfg : Cfg κ) (k0 : κ) (os0 : OS) (script : List Api) :
    Machine (St κ) Ev :=
  machine cfg.repair k0 os0 (script.map (Api.guard g))

/-- the Writer of the tree described by `T`, writing format `f` -/
def fmtMachine {κ : Type} (T : GuardTable) (f : Fmt) (cfg : Cfg κ) (k0 : κ) (os0 : OS)
    (script : List Api) : Machine (St κ) Ev :=
  guardedMachine (T.guards f) cfg k0 os0 script

/-- all threads have finished and the Writer is gone -/
def St.terminated {κ : Type} (s : St κ) : Prop := s.destroyed = true

end Osmium.WriterSM
