/-
PBF writer and decoder of libosmium as executable models.  Core-only.

Writer: io/detail/pbf_output_format.hpp (DenseNodes, PrimitiveBlock, SerializeBlob, PBFOutputFormat)
Decoder: io/detail/pbf_decoder.hpp (PBFPrimitiveBlockDecoder, decode_blob, decode_header_block),
         io/detail/pbf_input_format.hpp (PBFParser framing; BlobHeader decoding is PbfFraming)
Tags: io/detail/protobuf_tags.hpp.

Integer conventions: C++ values are `Int`/`Nat`; `u64 x` is the uint64 a signed value is converted to
before `write_varint`; `Wire.toInt64/toInt32` are the casts on the read side.  int64 arithmetic in the
decoder (`c * granularity + offset`, `ts * date_factor`) wraps (`wrap64`), division truncates (`Int.tdiv`).
-/
import Osmium.Model.Wire
import Osmium.Model.PbfFraming
import Osmium.Model.PbfMsg
import Osmium.Model.Delta
import Osmium.Model.StringTable
import Osmium.Model.Osm

namespace Osmium.Pbf

open Osmium.Wire Osmium.PbfMsg Osmium.Osm
open Osmium.StringTable (Table lookup)

abbrev Bytes := List UInt8

/-! ## options -/

/-- `pbf_output_options` as far as it influences the bytes (compression is applied by the harness) -/
structure Opts where
  dense : Bool := true              -- use_dense_nodes
  mdVersion : Bool := true          -- add_metadata.version()
  mdTimestamp : Bool := true
  mdChangeset : Bool := true
  mdUid : Bool := true
  mdUser : Bool := true
  history : Bool := false           -- add_visible_flag = add_historical_information_flag = file.has_multiple_object_versions()
  locationsOnWays : Bool := false
  deriving Repr, DecidableEq

def Opts.anyMeta (o : Opts) : Bool := o.mdVersion || o.mdTimestamp || o.mdChangeset || o.mdUid || o.mdUser

/-! ## scalar conversions -/

/-- signed → uint64 (what `add_int64/add_int32` hand to `write_varint`: sign extension) -/
def u64 (x : Int) : Nat := (x % (2 : Int) ^ 64).toNat

def wrap64 (x : Int) : Int := Delta.swrap 64 x

/-- `encode_zigzag32` of an int32 -/
def zigzag32 (x : Int) : Nat := zigzag64 x % 2 ^ 32

/-- `decode_zigzag32(static_cast<uint32_t>(v))` -/
def unzigzag32 (v : Nat) : Int := unzigzag64 (v % 2 ^ 32)

def fVarint (tag : Nat) (v : Nat) : Field := ⟨tag, .varint, v, []⟩
def fBytes (tag : Nat) (p : Bytes) : Field := ⟨tag, .lengthDelimited, 0, p⟩

/-- a packed field: protozero rolls an empty packed field back (`close_submessage`), and
    `add_packed_*` returns early on an empty range -/
def fPacked (tag : Nat) (vs : List Nat) : List Field :=
  if vs.isEmpty then [] else [fBytes tag (pack vs)]

/-! ## writer: objects → fields -/

/-- `add_meta`, Info part (pbf_output_format.hpp:527-550) -/
def encInfo (o : Opts) (m : Meta) (userSid : Nat) : List Field :=
  (if o.mdVersion then [fVarint 1 (u64 (toInt32 m.version))] else []) ++
  (if o.mdTimestamp then [fVarint 2 (u64 m.timestamp)] else []) ++
  (if o.mdChangeset then [fVarint 3 (u64 m.changeset)] else []) ++
  (if o.mdUid then [fVarint 4 (u64 (toInt32 m.uid))] else []) ++
  (if o.mdUser then [fVarint 5 (userSid % 2 ^ 32)] else []) ++
  (if o.history then [fVarint 6 (if m.visible then 1 else 0)] else [])

/-- `add_meta` (pbf_output_format.hpp:512-551): keys, vals, Info; string-table adds in that order -/
def encMeta (o : Opts) (t : Table) (m : Meta) : List Field × Table :=
  let (ks, t1) := t.addAll (m.tags.map (·.key))
  let (vs, t2) := t1.addAll (m.tags.map (·.value))
  if o.anyMeta || o.history then
    let (u, t3) := if o.mdUser then t2.add m.user else (0, t2)
    (fPacked 2 ks ++ fPacked 3 vs ++ [fBytes 4 (encodeFields (encInfo o m u))], t3)
  else (fPacked 2 ks ++ fPacked 3 vs, t2)

/-- `PBFOutputFormat::node`, plain branch -/
def encNode (o : Opts) (t : Table) (m : Meta) (l : Location) : List Field × Table :=
  let (mf, t1) := encMeta o t m
  ([fVarint 1 (zigzag64 m.id)] ++ mf ++ [fVarint 8 (zigzag64 l.y), fVarint 9 (zigzag64 l.x)], t1)

/-- `PBFOutputFormat::way` -/
def encWay (o : Opts) (t : Table) (m : Meta) (ns : List NodeRef) : List Field × Table :=
  let (mf, t1) := encMeta o t m
  ([fVarint 1 (u64 m.id)] ++ mf ++
    fPacked 8 ((Delta.encId (ns.map (·.ref))).map zigzag64) ++
    (if o.locationsOnWays then
      fPacked 10 ((Delta.encCoord (ns.map (·.location.x))).map zigzag64) ++
      fPacked 9 ((Delta.encCoord (ns.map (·.location.y))).map zigzag64)
     else []), t1)

/-- `item_type_to_nwr_index` -/
def nwrIndex (ty : Nat) : Nat := ty - 1

/-- `PBFOutputFormat::relation` -/
def encRelation (o : Opts) (t : Table) (m : Meta) (ms : List Member) : List Field × Table :=
  let (mf, t1) := encMeta o t m
  let (rs, t2) := t1.addAll (ms.map (·.role))
  ([fVarint 1 (u64 m.id)] ++ mf ++
    fPacked 8 (rs.map fun r => u64 (toInt32 r)) ++
    fPacked 9 ((Delta.encId (ms.map (·.ref))).map zigzag64) ++
    fPacked 10 (ms.map fun x => u64 (nwrIndex x.type)), t2)

/-- one row of the `DenseNodes` vectors before delta coding -/
structure DenseRow where
  id : Int
  version : Nat
  timestamp : Nat
  changeset : Nat
  uid : Nat
  userSid : Nat
  visible : Bool
  lat : Int
  lon : Int
  tags : List Nat          -- key/value string ids followed by the terminating 0
  deriving Repr, DecidableEq

/-- `DenseNodes::add_node` (string-table adds: user, then key/value alternating) -/
def denseAdd (o : Opts) (t : Table) (m : Meta) (l : Location) : DenseRow × Table :=
  let (u, t1) := if o.mdUser then t.add m.user else (0, t)
  let (kv, t2) := t1.addAll (m.tags.flatMap fun tg => [tg.key, tg.value])
  ({ id := m.id, version := m.version, timestamp := m.timestamp, changeset := m.changeset, uid := m.uid,
     userSid := u, visible := m.visible, lat := l.y, lon := l.x, tags := kv ++ [0] }, t2)

/-- `DenseNodes::serialize` -/
def encDense (o : Opts) (rows : List DenseRow) : List Field :=
  let info : List Field :=
    (if o.mdVersion then fPacked 1 (rows.map fun r => u64 (toInt32 r.version)) else []) ++
    (if o.mdTimestamp then fPacked 2 ((Delta.encTimestamp (rows.map fun r => (r.timestamp : Int))).map zigzag64) else []) ++
    (if o.mdChangeset then fPacked 3 ((Delta.encChangeset (rows.map fun r => (r.changeset : Int))).map zigzag64) else []) ++
    (if o.mdUid then fPacked 4 ((Delta.encUid (rows.map fun r => (r.uid : Int))).map zigzag32) else []) ++
    (if o.mdUser then fPacked 5 ((Delta.encUserSid (rows.map fun r => (r.userSid : Int))).map zigzag32) else []) ++
    (if o.history then fPacked 6 (rows.map fun r => if r.visible then 1 else 0) else [])
  fPacked 1 ((Delta.encId (rows.map (·.id))).map zigzag64) ++
  -- an empty DenseInfo submessage is rolled back by protozero
  (if (o.anyMeta || o.history) && !info.isEmpty then [fBytes 5 (encodeFields info)] else []) ++
  fPacked 8 ((Delta.encCoord (rows.map (·.lat))).map zigzag64) ++
  fPacked 9 ((Delta.encCoord (rows.map (·.lon))).map zigzag64) ++
  fPacked 10 (rows.flatMap fun r => r.tags.map fun i => u64 (toInt32 i))

/-! ## writer: block accounting (class PrimitiveBlock) and blobs -/

def maxEntitiesPerBlock : Nat := 8000
/-- `max_used_blob_size = max_uncompressed_blob_size * 95U / 100U` -/
def maxUsedBlobSize : Nat := PbfFraming.maxUncompressedBlobSize * 95 / 100

structure Block where
  kind : Nat                       -- OSMFormat::PrimitiveGroup tag: 1 nodes, 2 dense, 3 ways, 4 relations
  items : List Bytes := []         -- m_pbf_primitive_group_data, one entry per object, newest first
  groupSize : Nat := 0             -- m_pbf_primitive_group_data.size()
  table : Table := {}
  rows : List DenseRow := []       -- DenseNodes vectors, newest first
  count : Nat := 0
  deriving Repr, DecidableEq

/-- `DenseNodes::size()` (fix 9b8b2e0): ids/lat/lon 3*8, then per vector that the options fill:
    versions 5, timestamps 10, changesets 10, uids 5, user_sids 5, visibles 1, and 5 per keys_vals entry -/
def denseSize (o : Opts) (rows : List DenseRow) : Nat :=
  let n := rows.length
  n * 3 * 8 + (if o.mdVersion then n * 5 else 0) + (if o.mdTimestamp then n * 10 else 0) +
  (if o.mdChangeset then n * 10 else 0) + (if o.mdUid then n * 5 else 0) + (if o.mdUser then n * 5 else 0) +
  (if o.history then n else 0) + (rows.map fun r => r.tags.length).sum * 5

/-- `PrimitiveBlock::size()`: group data + `m_stringtable.serialized_size()` + `m_dense_nodes->size()` -/
def Block.size (o : Opts) (b : Block) : Nat :=
  b.groupSize + b.table.serializedSize + (if b.kind == 2 then denseSize o b.rows else 0)

/-- `PrimitiveBlock::can_add` -/
def Block.canAdd (o : Opts) (b : Block) (kind : Nat) : Bool :=
  if kind != b.kind then false
  else if b.count ≥ maxEntitiesPerBlock then false
  else b.size o < maxUsedBlobSize

/-- `group_data()` -/
def Block.groupData (o : Opts) (b : Block) : Bytes :=
  if b.kind == 2 then encodeField (fBytes 2 (encodeFields (encDense o b.rows.reverse)))
  else b.items.reverse.flatten

/-- the PrimitiveBlock message built in `SerializeBlob::operator()` -/
def Block.message (o : Opts) (b : Block) : Bytes :=
  encodeFields [fBytes 1 (encodeFields (b.table.strings.map (fBytes 1))), fBytes 2 (b.groupData o)]

def be32 (n : Nat) : Bytes :=
  [UInt8.ofNat (n / 2 ^ 24 % 256), UInt8.ofNat (n / 2 ^ 16 % 256), UInt8.ofNat (n / 2 ^ 8 % 256), UInt8.ofNat (n % 256)]

/-- `SerializeBlob::operator()` with `pbf_compression::none`: 4-byte length, BlobHeader, Blob.
    Since fix 9b8b2e0 a message of more than 32 MiB raises pbf_error (`none`) instead of an assert; since
    fix 77d5451 so does a Blob (message + tag byte + length bytes) of more than 32 MiB, which is what the
    reader checks (`nextBlob`). -/
def frameBlob (type : Bytes) (msg : Bytes) : Option Bytes :=
  if msg.length > PbfFraming.maxUncompressedBlobSize then none else
  if (encodeFields [fBytes 1 msg]).length > PbfFraming.maxUncompressedBlobSize then none else
  let blob := encodeFields [fBytes 1 msg]
  let hdr := encodeFields [fBytes 1 type, fVarint 3 (u64 (toInt32 blob.length))]
  some (be32 (hdr.length % 2 ^ 32) ++ hdr ++ blob)

structure WState where
  cur : Option Block := none
  out : List Bytes := []           -- finished data blobs, newest first
  failed : Bool := false           -- a SerializeBlob raised: the Writer reports the error
  deriving Repr, DecidableEq

/-- `store_primitive_block` -/
def WState.store (o : Opts) (s : WState) : WState :=
  match s.cur with
  | none => s
  | some b =>
    if b.count == 0 then s else
    match frameBlob PbfFraming.osmData (b.message o) with
    | some f => { s with cur := none, out := f :: s.out }
    | none => { s with cur := none, failed := true }

/-- `switch_primitive_block_type` -/
def WState.switchTo (o : Opts) (s : WState) (kind : Nat) : WState × Block :=
  match s.cur with
  | some b => if b.canAdd o kind then (s, b) else ((s.store o), { kind := kind })
  | none => (s, { kind := kind })

/-- add one object encoded as group field `kind` -/
def Block.addItem (b : Block) (fs : List Field) (t : Table) : Block :=
  let bytes := encodeField (fBytes b.kind (encodeFields fs))
  { b with items := bytes :: b.items, groupSize := b.groupSize + bytes.length, table := t, count := b.count + 1 }

/-- `PBFOutputFormat::node / way / relation` (changesets are not handled by the PBF output handler) -/
def WState.write (o : Opts) (s : WState) : Object → WState
  | .node m l =>
    if o.dense then
      let (s1, b) := s.switchTo o 2
      let (row, t) := denseAdd o b.table m l
      { s1 with cur := some { b with rows := row :: b.rows, table := t, count := b.count + 1 } }
    else
      let (s1, b) := s.switchTo o 1
      let (fs, t) := encNode o b.table m l
      { s1 with cur := some (b.addItem fs t) }
  | .way m ns =>
    let (s1, b) := s.switchTo o 3
    let (fs, t) := encWay o b.table m ns
    { s1 with cur := some (b.addItem fs t) }
  | .relation m ms =>
    let (s1, b) := s.switchTo o 4
    let (fs, t) := encRelation o b.table m ms
    { s1 with cur := some (b.addItem fs t) }
  | .changeset .. => s

/-! ## writer: header -/

def Location.isValid (l : Location) : Bool :=
  -1800000000 ≤ l.x && l.x ≤ 1800000000 && -900000000 ≤ l.y && l.y ≤ 900000000

/-- `operator bool` of a Location -/
def Location.isSet (l : Location) : Bool := l.x != Location.undefinedCoordinate && l.y != Location.undefinedCoordinate

/-- `Box::extend(Location)` -/
def boxExtend (b : Location × Location) (l : Location) : Location × Location :=
  if Location.isValid l then
    if Location.isSet b.1 then
      (⟨if l.x < b.1.x then l.x else b.1.x, if l.y < b.1.y then l.y else b.1.y⟩,
       ⟨if l.x > b.2.x then l.x else b.2.x, if l.y > b.2.y then l.y else b.2.y⟩)
    else (l, l)
  else b

def boxUndefined : Location × Location := (Location.undefined, Location.undefined)

/-- `Header::joined_boxes` -/
def joinedBoxes (bs : List (Location × Location)) : Location × Location :=
  bs.foldl (fun acc b => boxExtend (boxExtend acc b.1) b.2) boxUndefined

/-- `write_header` (since fix 4309424: exact integers, nanodegrees = fixed-point value * 100; an invalid
    joined box raises invalid_location = `none`).  Header keys other than generator/boxes (sorting,
    osmosis_replication_*) are not carried by `Osm.Header`. -/
def encHeader (o : Opts) (h : Header) : Option (List Field) :=
  let rest : List Field :=
    [fBytes 4 "OsmSchema-V0.6".toUTF8.toList] ++
    (if o.dense then [fBytes 4 "DenseNodes".toUTF8.toList] else []) ++
    (if o.history then [fBytes 4 "HistoricalInformation".toUTF8.toList] else []) ++
    (if o.locationsOnWays then [fBytes 5 "LocationsOnWays".toUTF8.toList] else []) ++
    [fBytes 16 h.generator]
  if h.boxes.isEmpty then some rest else
    let b := joinedBoxes h.boxes
    if !Location.isValid b.1 || !Location.isValid b.2 then none else
    some ([fBytes 1 (encodeFields [fVarint 1 (zigzag64 (b.1.x * 100)), fVarint 2 (zigzag64 (b.2.x * 100)),
                                   fVarint 3 (zigzag64 (b.2.y * 100)), fVarint 4 (zigzag64 (b.1.y * 100))])] ++ rest)

/-- the whole file: header blob, then the data blobs in order (`write_end` stores the last block);
    `none` = the Writer reported an error -/
def encodeFile (o : Opts) (h : Header) (objs : List Object) : Option Bytes := do
  let hf ← encHeader o h
  let hb ← frameBlob PbfFraming.osmHeader (encodeFields hf)
  let s := (objs.foldl (WState.write o) {}).store o
  if s.failed then none else some (hb ++ s.out.reverse.flatten)

/-! ## decoder -/

/-- block parameters + string table (`m_stringtable`, `m_granularity`, …) -/
structure Params where
  strings : List Bytes := []
  granularity : Int := 100
  latOffset : Int := 0
  lonOffset : Int := 0
  dateFactor : Int := 1000
  deriving Repr, DecidableEq

/-- reader options: `osm_entity_bits` and `read_meta` -/
structure ROpts where
  nodes : Bool := true
  ways : Bool := true
  relations : Bool := true
  readMeta : Bool := true
  deriving Repr, DecidableEq

def int64Max : Int := 2 ^ 63 - 1

/-- `convert_pbf_lon/lat`: `static_cast<int32_t>((c * m_granularity + off) / resolution_convert)` -/
def convCoord (g off c : Int) : Int := toInt32 (u64 ((wrap64 (wrap64 (c * g) + off)).tdiv 100))

/-- `set_timestamp(v * m_date_factor / 1000)` → `Timestamp(int64)` → uint32 -/
def convTimestamp (factor v : Int) : Nat := u64 ((wrap64 (v * factor)).tdiv 1000) % 2 ^ 32

/-- object attributes set by `decode_info` / the dense loop -/
structure InfoAcc where
  version : Nat := 0
  timestamp : Nat := 0
  changeset : Nat := 0
  uid : Nat := 0
  visible : Bool := true
  deriving Repr, DecidableEq

/-- the version rule: `< -1` error, `-1 → 0` -/
def versionOf (v : Int) : Option Nat := if v < -1 then none else if v == -1 then some 0 else some v.toNat

/-- the changeset rule: `< -1 || > UINT32_MAX` error (fix 04636d9; was `>=`), `-1 → 0` -/
def changesetOf (c : Int) : Option Nat :=
  if c < -1 || c > 2 ^ 32 - 1 then none else if c == -1 then some 0 else some c.toNat

/-- `set_uid_from_signed` -/
def uidOf (u : Int) : Nat := if u < 0 then 0 else u.toNat

/-- the `switch` of `decode_info`; state = (attributes, user of THIS call) -/
def infoStep (p : Params) (s : InfoAcc × Bytes) (f : Field) : Option (InfoAcc × Bytes) :=
  match f.tag, f.wt with
  | 1, .varint => (versionOf (toInt32 f.val)).map fun v => ({ s.1 with version := v }, s.2)
  | 2, .varint => some ({ s.1 with timestamp := convTimestamp p.dateFactor (toInt64 f.val) }, s.2)
  | 3, .varint => (changesetOf (toInt64 f.val)).map fun c => ({ s.1 with changeset := c }, s.2)
  | 4, .varint => some ({ s.1 with uid := uidOf (toInt32 f.val) }, s.2)
  | 5, .varint => (lookup p.strings (f.val % 2 ^ 32 : Nat)).map fun u => (s.1, u)
  | 6, .varint => some ({ s.1 with visible := f.val != 0 }, s.2)   -- get_bool: first byte != 0 (minimal varints)
  | _, _ => some s

/-- `decode_info(data, object)`: returns the user; the object keeps what earlier Info messages set -/
def decodeInfo (p : Params) (acc : InfoAcc) (payload : Bytes) : Option (InfoAcc × Bytes) :=
  match readFields payload with
  | .error _ => none
  | .ok fs => decodeMsg (infoStep p) (acc, []) fs

/-- `build_tag_list(keys, vals)`: pairs up to the shorter array; index = `next_uint32()` -/
def buildTags (p : Params) : List Nat → List Nat → Option (List Tag)
  | k :: ks, v :: vs => do
    let key ← lookup p.strings (k % 2 ^ 32 : Nat)
    let val ← lookup p.strings (v % 2 ^ 32 : Nat)
    let rest ← buildTags p ks vs
    pure (⟨key, val⟩ :: rest)
  | _, _ => some []

/-- common part of the node/way/relation loops -/
structure ObjAcc where
  id : Int := 0
  keys : Bytes := []
  vals : Bytes := []
  info : InfoAcc := {}
  user : Bytes := []
  a : Bytes := []        -- way: refs       relation: roles_sid
  b : Bytes := []        -- way: lats       relation: memids
  c : Bytes := []        -- way: lons       relation: types
  lat : Int := int64Max  -- node
  lon : Int := int64Max  -- node
  deriving Repr, DecidableEq

def metaStep (p : Params) (r : ROpts) (s : ObjAcc) (f : Field) : Option ObjAcc :=
  match f.tag, f.wt with
  | 2, .lengthDelimited => some { s with keys := f.payload }
  | 3, .lengthDelimited => some { s with vals := f.payload }
  | 4, .lengthDelimited =>
    if r.readMeta then (decodeInfo p s.info f.payload).map fun (i, u) => { s with info := i, user := u }
    else some s
  | _, _ => some s

/-- the `switch` of `decode_node` -/
def nodeStep (p : Params) (r : ROpts) (s : ObjAcc) (f : Field) : Option ObjAcc :=
  match f.tag, f.wt with
  | 1, .varint => some { s with id := unzigzag64 f.val }
  | 8, .varint => some { s with lat := unzigzag64 f.val }
  | 9, .varint => some { s with lon := unzigzag64 f.val }
  | _, _ => metaStep p r s f

def mkMeta (s : ObjAcc) (tags : List Tag) : Meta :=
  { id := s.id, version := s.info.version, visible := s.info.visible, timestamp := s.info.timestamp,
    changeset := s.info.changeset, uid := s.info.uid, user := s.user, tags := tags }

def finishTags (p : Params) (s : ObjAcc) : Option (List Tag) := do
  let ks ← unpack s.keys
  let vs ← unpack s.vals
  buildTags p ks vs

/-- `decode_node` over the fields of a Node message -/
def decodeNode (p : Params) (r : ROpts) (fs : List Field) : Option Object := do
  let s ← decodeMsg (nodeStep p r) {} fs
  let loc ←
    if s.info.visible then
      if s.lon == int64Max || s.lat == int64Max then none
      else some (Location.mk (convCoord p.granularity p.lonOffset s.lon) (convCoord p.granularity p.latOffset s.lat))
    else some Location.undefined
  let tags ← finishTags p s
  pure (.node (mkMeta s tags) loc)

/-- the `switch` of `decode_way` -/
def wayStep (p : Params) (r : ROpts) (s : ObjAcc) (f : Field) : Option ObjAcc :=
  match f.tag, f.wt with
  | 1, .varint => some { s with id := toInt64 f.val }
  | 8, .lengthDelimited => some { s with a := f.payload }
  | 9, .lengthDelimited => some { s with b := f.payload }
  | 10, .lengthDelimited => some { s with c := f.payload }
  | _, _ => metaStep p r s f

def zip3With {α β γ δ : Type} (f : α → β → γ → δ) : List α → List β → List γ → List δ
  | a :: as, b :: bs, c :: cs => f a b c :: zip3With f as bs cs
  | _, _, _ => []

/-- `decode_way` -/
def decodeWay (p : Params) (r : ROpts) (fs : List Field) : Option Object := do
  let s ← decodeMsg (wayStep p r) {} fs
  let refs ← unpack s.a
  let lats ← unpack s.b
  let lons ← unpack s.c
  let ids := Delta.dec (refs.map unzigzag64)
  let nodes : List NodeRef :=
    if lats.isEmpty then ids.map fun i => { ref := i }
    else zip3With (fun i x y => { ref := i, location := ⟨convCoord p.granularity p.lonOffset x, convCoord p.granularity p.latOffset y⟩ })
      ids (Delta.dec (lons.map unzigzag64)) (Delta.dec (lats.map unzigzag64))
  let tags ← finishTags p s
  pure (.way (mkMeta s tags) nodes)

/-- the `switch` of `decode_relation` -/
def relationStep (p : Params) (r : ROpts) (s : ObjAcc) (f : Field) : Option ObjAcc :=
  match f.tag, f.wt with
  | 1, .varint => some { s with id := toInt64 f.val }
  | 8, .lengthDelimited => some { s with a := f.payload }
  | 9, .lengthDelimited => some { s with b := f.payload }
  | 10, .lengthDelimited => some { s with c := f.payload }
  | _, _ => metaStep p r s f

def buildMembers (p : Params) : List Nat → List Int → List Nat → Option (List Member)
  | role :: rs, ref :: fs, ty :: ts => do
    let r ← lookup p.strings (toInt32 role)
    let t := toInt32 ty
    if t < 0 || t > 2 then none
    let rest ← buildMembers p rs fs ts
    pure (⟨t.toNat + 1, ref, r⟩ :: rest)
  | _, _, _ => some []

/-- `decode_relation`.  The member ids are delta-decoded in step with the loop, i.e. only as many as
    the three arrays have in common. -/
def decodeRelation (p : Params) (r : ROpts) (fs : List Field) : Option Object := do
  let s ← decodeMsg (relationStep p r) {} fs
  let roles ← unpack s.a
  let refs ← unpack s.b
  let types ← unpack s.c
  let ms ← buildMembers p roles (Delta.dec (refs.map unzigzag64)) types
  let tags ← finishTags p s
  pure (.relation (mkMeta s tags) ms)

/-- the arrays collected by `decode_dense_nodes` -/
structure DenseAcc where
  hasInfo : Bool := false
  ids : Bytes := []
  lats : Bytes := []
  lons : Bytes := []
  tags : Bytes := []
  versions : Bytes := []
  timestamps : Bytes := []
  changesets : Bytes := []
  uids : Bytes := []
  userSids : Bytes := []
  visibles : Bytes := []
  deriving Repr, DecidableEq

def denseInfoStep (s : DenseAcc) (f : Field) : Option DenseAcc :=
  match f.tag, f.wt with
  | 1, .lengthDelimited => some { s with versions := f.payload }
  | 2, .lengthDelimited => some { s with timestamps := f.payload }
  | 3, .lengthDelimited => some { s with changesets := f.payload }
  | 4, .lengthDelimited => some { s with uids := f.payload }
  | 5, .lengthDelimited => some { s with userSids := f.payload }
  | 6, .lengthDelimited => some { s with visibles := f.payload }
  | _, _ => some s

/-- the outer `switch` of `decode_dense_nodes` (`meta = false`: `decode_dense_nodes_without_metadata`,
    where DenseInfo falls into `default: skip`) -/
def denseStep (r : ROpts) (s : DenseAcc) (f : Field) : Option DenseAcc :=
  match f.tag, f.wt with
  | 1, .lengthDelimited => some { s with ids := f.payload }
  | 5, .lengthDelimited =>
    if r.readMeta then
      match readFields f.payload with
      | .error _ => none
      | .ok fs => decodeMsg denseInfoStep { s with hasInfo := true } fs
    else some s
  | 8, .lengthDelimited => some { s with lats := f.payload }
  | 9, .lengthDelimited => some { s with lons := f.payload }
  | 10, .lengthDelimited => some { s with tags := f.payload }
  | _, _ => some s

/-- `build_tag_list_from_dense_nodes`: consumes one 0-terminated group; returns tags and the rest -/
def denseTags (p : Params) : Nat → List Nat → Option (List Tag × List Nat)
  | 0, ts => some ([], ts)
  | _, [] => some ([], [])
  | fuel + 1, k :: ts =>
    let ki := toInt32 k
    if ki == 0 then some ([], ts)
    else do
      let key ← lookup p.strings ki
      match ts with
      | [] => none                      -- "PBF format error": keys/vals must come in pairs
      | v :: ts' => do
        let val ← lookup p.strings (toInt32 v)
        let (rest, ts'') ← denseTags p fuel ts'
        pure (⟨key, val⟩ :: rest, ts'')

/-- cursor state of the `while (!ids.empty())` loop -/
structure DenseCur where
  ids : List Nat
  lats : List Nat
  lons : List Nat
  tags : List Nat
  versions : List Nat
  timestamps : List Nat
  changesets : List Nat
  uids : List Nat
  userSids : List Nat
  visibles : List Nat
  -- DeltaDecode<int64_t> states
  dId : Int := 0
  dLat : Int := 0
  dLon : Int := 0
  dUid : Int := 0
  dUserSid : Int := 0
  dChangeset : Int := 0
  dTimestamp : Int := 0

def pop (l : List Nat) : Option (Nat × List Nat) :=
  match l with
  | [] => none
  | x :: xs => some (x, xs)

/-- the loop of `decode_dense_nodes` / `…_without_metadata` (the latter: hasInfo = false and the
    location is always set) -/
def denseLoop (p : Params) (hasInfo : Bool) : Nat → DenseCur → List Object → Option (List Object)
  | 0, _, acc => some acc.reverse
  | fuel + 1, c, acc =>
    match c.ids with
    | [] => some acc.reverse
    | idv :: ids' =>
      if c.lons.isEmpty || c.lats.isEmpty then none else do
      let id := wrap64 (c.dId + unzigzag64 idv)
      let mut c := { c with ids := ids', dId := id }
      let mut info : InfoAcc := {}
      let mut user : Bytes := []
      if hasInfo then
        if let some (v, rest) := pop c.versions then
          let ver ← versionOf (toInt32 v)
          info := { info with version := ver }
          c := { c with versions := rest }
        if let some (v, rest) := pop c.changesets then
          let d := wrap64 (c.dChangeset + unzigzag64 v)
          let cs ← changesetOf d
          info := { info with changeset := cs }
          c := { c with changesets := rest, dChangeset := d }
        if let some (v, rest) := pop c.timestamps then
          let d := wrap64 (c.dTimestamp + unzigzag64 v)
          info := { info with timestamp := convTimestamp p.dateFactor d }
          c := { c with timestamps := rest, dTimestamp := d }
        if let some (v, rest) := pop c.uids then
          let d := wrap64 (c.dUid + unzigzag32 v)
          info := { info with uid := uidOf (toInt32 (u64 d)) }
          c := { c with uids := rest, dUid := d }
        if let some (v, rest) := pop c.visibles then
          info := { info with visible := toInt32 v != 0 }
          c := { c with visibles := rest }
        if let some (v, rest) := pop c.userSids then
          let d := wrap64 (c.dUserSid + unzigzag32 v)
          let u ← lookup p.strings d
          user := u
          c := { c with userSids := rest, dUserSid := d }
      match c.lons, c.lats with
      | lonv :: lons', latv :: lats' =>
        let lon := wrap64 (c.dLon + unzigzag64 lonv)
        let lat := wrap64 (c.dLat + unzigzag64 latv)
        c := { c with lons := lons', lats := lats', dLon := lon, dLat := lat }
        let loc := if info.visible then Location.mk (convCoord p.granularity p.lonOffset lon) (convCoord p.granularity p.latOffset lat)
                   else Location.undefined
        let (tags, trest) ← if c.tags.isEmpty then some ([], []) else denseTags p c.tags.length c.tags
        c := { c with tags := trest }
        let m : Meta := { id := id, version := info.version, visible := info.visible, timestamp := info.timestamp,
                          changeset := info.changeset, uid := info.uid, user := user, tags := tags }
        denseLoop p hasInfo fuel c (.node m loc :: acc)
      | _, _ => none

/-- `decode_dense_nodes` -/
def decodeDense (p : Params) (r : ROpts) (fs : List Field) : Option (List Object) := do
  let s ← decodeMsg (denseStep r) {} fs
  let ids ← unpack s.ids
  let cur : DenseCur := {
    ids := ids, lats := ← unpack s.lats, lons := ← unpack s.lons, tags := ← unpack s.tags,
    versions := ← unpack s.versions, timestamps := ← unpack s.timestamps, changesets := ← unpack s.changesets,
    uids := ← unpack s.uids, userSids := ← unpack s.userSids, visibles := ← unpack s.visibles }
  denseLoop p s.hasInfo (ids.length + 1) cur []

/-- parse a sub-message payload and hand its fields to `k` -/
def withFields {α : Type} (payload : Bytes) (k : List Field → Option α) : Option α :=
  match readFields payload with
  | .error _ => none
  | .ok fs => k fs

/-- the `switch` over a PrimitiveGroup (`decode_primitive_block_data`, inner loop); state = objects so far -/
def groupStep (p : Params) (r : ROpts) (acc : List Object) (f : Field) : Option (List Object) :=
  match f.tag, f.wt with
  | 1, .lengthDelimited => if r.nodes then (withFields f.payload (decodeNode p r)).map fun o => acc ++ [o] else some acc
  | 2, .lengthDelimited => if r.nodes then (withFields f.payload (decodeDense p r)).map fun os => acc ++ os else some acc
  | 3, .lengthDelimited => if r.ways then (withFields f.payload (decodeWay p r)).map fun o => acc ++ [o] else some acc
  | 4, .lengthDelimited => if r.relations then (withFields f.payload (decodeRelation p r)).map fun o => acc ++ [o] else some acc
  | _, _ => some acc

def maxOsmStringLength : Nat := 256 * 4

/-- `decode_stringtable`: `next(1, length_delimited)` skips everything else; an entry is refused
    ("overlong string", and since repair da64936 "string with embedded NUL byte": a tag key such as
    "a\0b" desynchronises `Tag::next()`, DESIGN.md F13a) -/
def decodeStringTable (cur : List Bytes) (payload : Bytes) : Option (List Bytes) :=
  if !cur.isEmpty then none          -- "more than one stringtable in pbf file"
  else withFields payload fun fs =>
    let ss := (fs.filter fun f => f.tag == 1 && f.wt == .lengthDelimited).map (·.payload)
    if ss.any (fun s => s.length > maxOsmStringLength || s.contains 0) then none else some ss

/-- the `switch` of `decode_primitive_block_metadata` -/
def blockMetaStep (p : Params) (f : Field) : Option Params :=
  match f.tag, f.wt with
  | 1, .lengthDelimited => (decodeStringTable p.strings f.payload).map fun ss => { p with strings := ss }
  | 17, .varint => some { p with granularity := toInt32 f.val }
  | 18, .varint => some { p with dateFactor := toInt32 f.val }
  | 19, .varint => some { p with latOffset := toInt64 f.val }
  | 20, .varint => some { p with lonOffset := toInt64 f.val }
  | _, _ => some p

/-- `decode_primitive_block_data`, outer loop: `next(2, length_delimited)` -/
def blockDataStep (p : Params) (r : ROpts) (acc : List Object) (f : Field) : Option (List Object) :=
  match f.tag, f.wt with
  | 2, .lengthDelimited => withFields f.payload fun gs => decodeMsg (groupStep p r) acc gs
  | _, _ => some acc

/-- `PBFPrimitiveBlockDecoder::operator()` over the fields of the PrimitiveBlock message -/
def decodeBlock (r : ROpts) (fs : List Field) : Option (List Object) := do
  let p ← decodeMsg blockMetaStep {} fs
  decodeMsg (blockDataStep p r) [] fs

/-- `decode_blob`.  `inflate kind data rawSize` stands for zlib (kind 3) / lz4 (kind 6) decompression
    (external libraries; the correspondence harness inflates such blobs before the model sees them). -/
structure BlobAcc where
  rawSize : Int := 0
  comp : Nat := 0
  data : Bytes := []
  result : Option Bytes := none      -- set by the `raw` case, which returns immediately
  deriving Repr, DecidableEq

def blobStep (s : BlobAcc) (f : Field) : Option BlobAcc :=
  if s.result.isSome then some s else
  match f.tag, f.wt with
  | 1, .lengthDelimited => if f.payload.length > PbfFraming.maxUncompressedBlobSize then none else some { s with result := some f.payload }
  | 2, .varint =>
    let rs := toInt32 f.val
    if rs ≤ 0 || rs > PbfFraming.maxUncompressedBlobSize then none else some { s with rawSize := rs }
  | 3, .lengthDelimited => some { s with comp := 3, data := f.payload }
  | 4, .lengthDelimited => none
  | 6, .lengthDelimited => some { s with comp := 6, data := f.payload }
  | 7, .lengthDelimited => none
  | _, _ => some s

def decodeBlob (inflate : Nat → Bytes → Nat → Option Bytes) (blob : Bytes) : Option Bytes :=
  withFields blob fun fs => do
    let s ← decodeMsg blobStep {} fs
    match s.result with
    | some d => some d
    | none =>
      if s.data.isEmpty then none
      else if s.rawSize == 0 then none
      else inflate s.comp s.data s.rawSize.toNat

def noInflate : Nat → Bytes → Nat → Option Bytes := fun _ _ _ => none

/-- `decode_header_bbox` -/
structure BBoxAcc where
  left : Int := int64Max
  right : Int := int64Max
  top : Int := int64Max
  bottom : Int := int64Max
  deriving Repr, DecidableEq

def bboxStep (s : BBoxAcc) (f : Field) : Option BBoxAcc :=
  match f.tag, f.wt with
  | 1, .varint => some { s with left := unzigzag64 f.val }
  | 2, .varint => some { s with right := unzigzag64 f.val }
  | 3, .varint => some { s with top := unzigzag64 f.val }
  | 4, .varint => some { s with bottom := unzigzag64 f.val }
  | _, _ => some s

/-- `Location(int64, int64)`: both casts to int32 -/
def loc64 (x y : Int) : Location := ⟨toInt32 (u64 x), toInt32 (u64 y)⟩

def decodeBBox (payload : Bytes) : Option (Location × Location) :=
  withFields payload fun fs => do
    let s ← decodeMsg bboxStep {} fs
    if s.left == int64Max || s.right == int64Max || s.top == int64Max || s.bottom == int64Max then none
    else
      let b := boxExtend boxUndefined (loc64 (s.left.tdiv 100) (s.bottom.tdiv 100))
      some (boxExtend b (loc64 (s.right.tdiv 100) (s.top.tdiv 100)))

def featureOk (f : Bytes) : Option Bool :=   -- some true = HistoricalInformation
  if PbfFraming.strncmpEq "OsmSchema-V0.6".toUTF8.toList f then some false
  else if PbfFraming.strncmpEq "DenseNodes".toUTF8.toList f then some false
  else if PbfFraming.strncmpEq "HistoricalInformation".toUTF8.toList f then some true
  else none

/-- the `switch` of `decode_header_block`, restricted to what `Osm.Header` carries -/
def headerStep (h : Header) (f : Field) : Option Header :=
  match f.tag, f.wt with
  | 1, .lengthDelimited => (decodeBBox f.payload).map fun b => { h with boxes := h.boxes ++ [b] }
  | 4, .lengthDelimited => (featureOk f.payload).map fun hist => if hist then { h with multipleVersions := true } else h
  | 16, .lengthDelimited => some { h with generator := f.payload }
  | _, _ => some h

def decodeHeader (inflate : Nat → Bytes → Nat → Option Bytes) (blob : Bytes) : Option Header := do
  let d ← decodeBlob inflate blob
  withFields d fun fs => decodeMsg headerStep {} fs

def decodeDataBlob (inflate : Nat → Bytes → Nat → Option Bytes) (r : ROpts) (blob : Bytes) : Option (List Object) := do
  let d ← decodeBlob inflate blob
  withFields d (decodeBlock r)

/-! ## framing (PBFParser, queue branch; one contiguous input) -/

def rdBe32 : Bytes → Nat
  | a :: b :: c :: d :: _ => ((a.toNat * 256 + b.toNat) * 256 + c.toNat) * 256 + d.toNat
  | _ => 0

/-- `check_type_and_get_blob_size` + `read_from_input_queue_with_check`: next blob, or `none` at EOF.
    Outer Option: error. -/
def nextBlob (first : Bool) (bs : Bytes) : Option (Option (Bytes × Bytes)) :=
  if bs.isEmpty then some none                     -- nothing left: clean end of file
  else if bs.length < 4 then none                  -- 1..3 bytes of a size field: "unexpected EOF" (fix ade9cb4)
  else
    let size := rdBe32 bs
    let bs := bs.drop 4
    if size > PbfFraming.maxBlobHeaderSize then none
    else if size == 0 then some none               -- `if (size == 0) return 0; // EOF`
    else if bs.length < size then none             -- truncated data
    else match PbfFraming.blobSize first (bs.take size) with
      | none => none
      | some bsize =>
        let bs := bs.drop size
        if bsize > PbfFraming.maxUncompressedBlobSize then none
        else if bs.length < bsize then none
        else some (some (bs.take bsize, bs.drop bsize))

/-- `parse_data_blobs` -/
def dataBlobs : Nat → Bytes → List Bytes → Option (List Bytes)
  | 0, _, acc => some acc.reverse
  | fuel + 1, bs, acc =>
    match nextBlob false bs with
    | none => none
    | some none => some acc.reverse
    | some (some (blob, rest)) => dataBlobs fuel rest (blob :: acc)

/-- `PBFParser::run`: header blob, then (if any entity type is requested) the data blobs -/
def decodeFile (inflate : Nat → Bytes → Nat → Option Bytes) (r : ROpts) (bs : Bytes) : Option (Header × List Object) := do
  let first ← nextBlob true bs
  let (hblob, rest) := match first with
    | some x => x
    | none => ([], [])                             -- EOF: `decode_header("")` then fails in decode_blob
  let h ← decodeHeader inflate hblob
  if !(r.nodes || r.ways || r.relations) then pure (h, [])
  else
    let blobs ← dataBlobs (rest.length + 1) rest []
    let objs ← blobs.foldlM (fun acc b => (decodeDataBlob inflate r b).map (acc ++ ·)) []
    pure (h, objs)

/-! ## what a write → read cycle preserves -/

def projectMeta (o : Opts) (m : Meta) : Meta :=
  { id := m.id,
    version := if o.mdVersion then m.version else 0,
    visible := if o.history then m.visible else true,
    timestamp := if o.mdTimestamp then m.timestamp else 0,
    changeset := if o.mdChangeset then m.changeset else 0,
    uid := if o.mdUid then m.uid else 0,
    user := if o.mdUser then m.user else [],
    tags := m.tags }

/-- the object as it comes back: fields the option vector drops are reset to their defaults; a node
    written as deleted (history file) has no location; way-node locations only with locations_on_ways;
    changesets are not written at all -/
def project (o : Opts) : Object → Option Object
  | .node m l => some (.node (projectMeta o m) (if o.history && !m.visible then Location.undefined else l))
  | .way m ns => some (.way (projectMeta o m) (ns.map fun n => if o.locationsOnWays then n else { ref := n.ref }))
  | .relation m ms => some (.relation (projectMeta o m) ms)
  | .changeset .. => none

/-- the header as it comes back: one joined box, the generator, the history flag of the FILE options -/
def projectHeader (o : Opts) (h : Header) : Header :=
  { generator := h.generator,
    boxes := if h.boxes.isEmpty then [] else [joinedBoxes h.boxes],
    multipleVersions := o.history }

end Osmium.Pbf
