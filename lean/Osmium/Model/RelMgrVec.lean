/-
Vector-level machine of the relation managers (property C11): the members databases as
`members_database.hpp` has them — ONE sorted `std::vector<element>` per member type, entries marked
removed in place, ranges found by binary search, loops over index ranges.

Transcribed from include/osmium/relations/members_database.hpp:
  `m_elements`                     `Array Elem` (`VState.ndb / wdb / rmdb`)
  `prepare_for_lookup()`           `std::sort(m_elements)` with `element::operator<`   → `vPrepare`
  `find(id)`                       `std::equal_range(begin, end, element{id}, compare_member_id{})`
                                   = (`std::lower_bound`, `std::upper_bound`): two binary searches
                                   that only evaluate `compare_member_id`               → `vFind`
  `count_not_removed(range)`       loop over the range                                  → `countSeg`
  `add_object(object, range)`      loop over the range, writes `object_handle`          → `mapSeg`
  `remove(member_id, relation_id)` `find`, `count_not_removed`, stash removal + handle invalidation
                                   loop, mark loop with `break`; the vector is NOT resized or
                                   reordered                                            → `vRemove`
  `get_object(id)`                 `find`, first element of the range                   → `vDbLookup`
  `MembersDatabase::add()`         `find`, `add_object`, then `for (auto& elem : range)`: the range is
                                   a pair of ITERATORS INTO `m_elements` that stay in use while the
                                   completion callback runs `remove()` on the same vector → `vCompleteLoop`
                                   reads `m_elements[i].relation_pos` from the CURRENT vector at every
                                   iteration (an index outside the vector is recorded as `ub`).

The abstract model (Model/RelMgr.lean) works on `List Elem` with `takeWhile`/`dropWhile` ranges and
passes the relation positions of the range to its completion loop up front.  Lemmas/RelMgrVec.lean
proves that this machine implements it for ALL configurations, relation sets and histories
(`vrun_abs : (vRun c rels ops).abs = run c rels ops`); the key invariant is that nothing the
callback does moves, adds or drops an element of any members database (`Stable`).

The compiled model (lean/Driver/C11.lean) runs THIS machine: every list operation of the abstract
model is linear in the size of a database, the vector machine needs O(log n + range).  Updates are
written so that the arrays are not shared when they are modified (in-place updates).

Core-only (no Mathlib).
-/
import Osmium.Model.RelMgr

namespace Osmium.RelMgr

open Osmium.Order (Kind CheckState checkStep)

structure VState where
  stash : Stash := #[]
  rdb   : Array RelEntry := #[]
  ndb   : Array Elem := #[]
  wdb   : Array Elem := #[]
  rmdb  : Array Elem := #[]
  chk   : CheckState := {}
  outBytes : Nat := 0
  flushes : Nat := 0
  flushedBytes : Nat := 0
  ub    : Bool := false
  log   : List Event := []

/-- the abstract state a vector state stands for -/
def VState.abs (v : VState) : State :=
  { stash := v.stash, rdb := v.rdb, ndb := v.ndb.toList, wdb := v.wdb.toList, rmdb := v.rmdb.toList,
    chk := v.chk, outBytes := v.outBytes, flushes := v.flushes, flushedBytes := v.flushedBytes,
    ub := v.ub, log := v.log }

def VState.getDb (v : VState) : Kind → Array Elem
  | .node => v.ndb
  | .way => v.wdb
  | .relation => v.rmdb

def VState.setDb (v : VState) (k : Kind) (es : Array Elem) : VState :=
  match k with
  | .node => { v with ndb := es }
  | .way => { v with wdb := es }
  | .relation => { v with rmdb := es }

/-- `m_relations_db[pos].operator*()` -/
def VState.relAt (v : VState) (pos : Nat) : Option Rel :=
  match v.rdb[pos]? with
  | some e =>
    match stashGet v.stash e.h with
    | some (.rel r) => some r
    | _ => none
  | none => none

/-! ### Binary search -/

/-- the loop of `std::lower_bound` / `std::upper_bound` (libstdc++ `__lower_bound`): `p` is
    "go right" (`comp(*middle, value)` for the lower, `!comp(value, *middle)` for the upper bound) -/
def partPoint (p : Elem → Bool) (es : Array Elem) (first len : Nat) : Nat :=
  if len = 0 then first else
    match es[first + len / 2]? with
    | some e =>
      if p e then partPoint p es (first + len / 2 + 1) (len - len / 2 - 1)
      else partPoint p es first (len / 2)
    | none => first
termination_by len
decreasing_by all_goals omega

/-- `compare_member_id{}(e, element{id})` -/
def cmpLower (id : Int) (e : Elem) : Bool := decide (e.mid < id)

/-- `!compare_member_id{}(element{id}, e)` -/
def cmpUpper (id : Int) (e : Elem) : Bool := !decide (id < e.mid)

/-- `find(id)`: the index range `[lo, hi)` of `std::equal_range` -/
def vFind (es : Array Elem) (id : Int) : Nat × Nat :=
  let lo := partPoint (cmpLower id) es 0 es.size
  (lo, partPoint (cmpUpper id) es lo (es.size - lo))

/-! ### Loops over an index range `[i, i + n)` -/

/-- `for (auto& elem : range) elem = g(elem)` -/
def mapSeg (g : Elem → Elem) : Array Elem → Nat → Nat → Array Elem
  | es, _, 0 => es
  | es, i, n + 1 => mapSeg g (es.modify i g) (i + 1) n

/-- `count_not_removed(range)` -/
def countSeg : Array Elem → Nat → Nat → Nat
  | _, _, 0 => 0
  | es, i, n + 1 =>
    (match es[i]? with
     | some e => if e.num.isSome then 1 else 0
     | none => 0) + countSeg es (i + 1) n

/-- the loop with `break` at the end of `remove()` -/
def markSeg (relIdOf : Nat → Option Int) (relid : Int) : Array Elem → Nat → Nat → Array Elem
  | es, _, 0 => es
  | es, i, n + 1 =>
    match es[i]? with
    | none => es
    | some e =>
      if e.num.isSome && relIdOf e.rpos == some relid then es.setIfInBounds i { e with num := none }
      else markSeg relIdOf relid es (i + 1) n

/-! ### First pass -/

def vAddRelation (c : Cfg) (v : VState) (r : Rel) : VState :=
  if c.newRel r then
    let pos := v.rdb.size
    let h := v.stash.size + 1
    { v with
      stash := v.stash.push (some (.rel { r with members := markMembers c r }))
      rdb := v.rdb.push { h := h, missing := wantedCount c r }
      ndb := v.ndb ++ trackElems c r pos .node
      wdb := v.wdb ++ trackElems c r pos .way
      rmdb := v.rmdb ++ trackElems c r pos .relation }
  else v

/-- `std::sort(m_elements.begin(), m_elements.end())`: all elements of a database differ in
    (member_id, member_num, relation_pos) or are equal, so every sorting algorithm gives the same vector -/
def vSort (es : Array Elem) : Array Elem := (es.toList.mergeSort elemLe).toArray

def vPrepare (v : VState) : VState :=
  { v with ndb := vSort v.ndb, wdb := vSort v.wdb, rmdb := vSort v.rmdb }

/-! ### Lookups -/

/-- `MembersDatabaseCommon::get_object(id)` -/
def vDbLookup (st : Stash) (es : Array Elem) (id : Int) : Lookup :=
  let r := vFind es id
  if r.1 = r.2 then .absent else
  match es[r.1]? with
  | none => .absent
  | some e =>
    if e.h = 0 then .absent else
    match stashGet st e.h with
    | some (.obj o) => .found o
    | _ => .wild

def VState.lookup (v : VState) (k : Kind) (id : Int) : Lookup :=
  if id = 0 then .absent else vDbLookup v.stash (v.getDb k) id

/-! ### Output buffer -/

def VState.possiblyFlush (c : Cfg) (v : VState) : VState :=
  if v.outBytes > c.maxBuf then
    if c.hasCallback && v.outBytes > 0 then
      { v with flushes := v.flushes + 1, flushedBytes := v.flushedBytes + v.outBytes, outBytes := 0 }
    else v
  else v

def VState.flushOutput (c : Cfg) (v : VState) : VState :=
  if c.hasCallback && v.outBytes > 0 then
    { v with flushes := v.flushes + 1, flushedBytes := v.flushedBytes + v.outBytes, outBytes := 0 }
  else v

/-! ### `MembersDatabaseCommon::remove` -/

def vRemove (c : Cfg) (v : VState) (k : Kind) (id relid : Int) : VState :=
  let es := v.getDb k
  let r := vFind es id
  if r.1 = r.2 then v else
  let n := r.2 - r.1
  let h0 := match es[r.1]? with
    | some e => e.h
    | none => 0
  let last := countSeg es r.1 n == 1
  let ub := v.ub || (last && (stashGet v.stash h0).isNone)
  -- the vector is taken out of the state while it is modified (no copy in the compiled model)
  let v1 := v.setDb k #[]
  let es1 := if last && c.fixed then mapSeg (fun e : Elem => { e with h := 0 }) es r.1 n else es
  let es2 := markSeg (fun p => (v1.relAt p).map (·.id)) relid es1 r.1 n
  ({ v1 with stash := if last then stashRemove v1.stash h0 else v1.stash, ub := ub } : VState).setDb k es2

/-! ### `RelationsManager::handle_complete_relation` -/

def vRemoveMembers (c : Cfg) (relid : Int) : VState → List Member → VState
  | v, [] => v
  | v, m :: ms =>
    vRemoveMembers c relid (if m.ref ≠ 0 then vRemove c v m.kind m.ref relid else v) ms

def vAnnounce (c : Cfg) (v : VState) (pos : Nat) (r : Rel) : VState :=
  let looks := (r.members.filter (fun m => m.ref ≠ 0)).map (fun m => (m, v.lookup m.kind m.ref))
  { v with log := .complete pos r.id r.content looks :: v.log, outBytes := v.outBytes + c.wr }

def vRelRemove (v : VState) (pos : Nat) : VState :=
  match v.rdb[pos]? with
  | some e => { v with stash := stashRemove v.stash e.h, rdb := v.rdb.setIfInBounds pos { h := 0, missing := 0 } }
  | none => v

def vHandleComplete (c : Cfg) (v : VState) (pos : Nat) : VState :=
  match v.relAt pos with
  | none => { v with ub := true, log := .completeWild pos :: v.log }
  | some r => vRelRemove (vRemoveMembers c r.id ((vAnnounce c v pos r).possiblyFlush c) r.members) pos

/-! ### `MembersDatabase::add` -/

def vCompleteStep (c : Cfg) (v : VState) (pos : Nat) : VState :=
  match v.rdb[pos]? with
  | none => { v with ub := true }
  | some e =>
    if e.missing = 0 then
      { v with ub := true, rdb := v.rdb.setIfInBounds pos { e with missing := 2 ^ 64 - 1 } }
    else
      let v1 := { v with rdb := v.rdb.setIfInBounds pos { e with missing := e.missing - 1 } }
      if e.missing - 1 = 0 then vHandleComplete c v1 pos else v1

/-- `for (auto& elem : range) { … m_relations_db[elem.relation_pos] … func(rel_handle) … }`:
    `i` is the iterator, `n` the distance to `range.end()`; `elem` is read from the vector AS IT IS
    NOW.  An iterator outside the vector (possible only if something shortened it) is undefined
    behaviour. -/
def vCompleteLoop (c : Cfg) (k : Kind) : VState → Nat → Nat → VState
  | v, _, 0 => v
  | v, i, n + 1 =>
    match (v.getDb k)[i]? with
    | none => { v with ub := true }
    | some e => vCompleteLoop c k (vCompleteStep c v e.rpos) (i + 1) n

def vMemberAdd (c : Cfg) (v0 : VState) (o : Obj) : VState :=
  let es := v0.getDb o.kind
  let r := vFind es o.id
  if r.1 = r.2 then
    ({ v0 with log := .notIn o.kind o.id :: v0.log } : VState).possiblyFlush c
  else
    let n := r.2 - r.1
    -- add_object: store it and put the handle into every element of the range
    let h := v0.stash.size + 1
    let v1 := v0.setDb o.kind #[]
    let es1 := mapSeg (fun e : Elem => { e with h := h }) es r.1 n
    let v2 := ({ v1 with stash := v1.stash.push (some (.obj o)) } : VState).setDb o.kind es1
    (vCompleteLoop c o.kind v2 r.1 n).possiblyFlush c

/-! ### Histories -/

/-- second pass (`handle_node / handle_way / handle_relation` inlined: type switch, CheckOrder,
    `MembersDatabase::add`); stops at the first `out_of_order_error` -/
def vRunOps (c : Cfg) : VState → List Op → VState
  | v, [] => v
  | v, .query k id :: ops => vRunOps c { v with log := .query k id (v.lookup k id) :: v.log } ops
  | v, .flush :: ops => vRunOps c (v.flushOutput c) ops
  | v, .obj o :: ops =>
    if !c.enabled o.kind then vRunOps c v ops else
    match checkStep v.chk o.kind o.id with
    | none => { v with log := .thrown :: v.log }
    | some chk => vRunOps c (vMemberAdd c { v with chk := chk } o) ops

def vFirstPass (c : Cfg) (rels : List Rel) : VState :=
  vPrepare (rels.foldl (vAddRelation c) {})

/-- both passes and the final `flush()`, on the vector machine -/
def vRun (c : Cfg) (rels : List Rel) (ops : List Op) : VState :=
  (vRunOps c (vFirstPass c rels) ops).flushOutput c

end Osmium.RelMgr
