/-
PoolSM — osmium::thread::Pool (include/osmium/thread/pool.hpp) on top of QueueSM.  Core-only.

  m_work_queue : Queue<function_wrapper>   = a QueueSM over `Task`
  function_wrapper                         = `Task.job id out` (a packaged_task: running it
                                             stores `out` — value or exception OF ANY TYPE, see
                                             `Outcome` — in the shared state of its future; the
                                             wrapper is made explicit in `xstep?` below) or `Task.stop`
                                             (`function_wrapper{0}`, impl_base::call returns true)
  worker_thread()   pool.hpp:136-147       loop: wait_and_pop (QueueSM pop events of the worker)
                                             → `workerGot w b` (hook "worker-got", b = `task ?`)
                                             → `taskRun w id` | `workerExit w` | back to the loop
  submit(f)         pool.hpp:223-230       packaged_task + future, then push = QueueSM push
                                             events with a fresh job
  ~Pool()           pool.hpp:190-196,208   `dtorStart`; N pushes of `Task.stop`; `dtorPushed`;
                                             thread_joiner: `dtorJoin w` needs w exited;
                                             `dtorDone`
  future.get()                             `futureGet t id o` needs the shared state to be `o`

Domain: the destructor may only start when no submit() is in progress and nothing is
submitted afterwards (anything else is a use-after-free in C++), the pool never calls
try_pop/shutdown on its queue, tasks do not submit tasks.
-/
import Osmium.Model.QueueSM

namespace Osmium.PoolSM

open Osmium.Mon Osmium

/-- How the function handed to submit() ends when it is called (its OUTCOME).  It returns
    (`void` functions: value 0), or it throws: an object whose class is derived from
    std::exception (`cls` names the class: std::runtime_error, a user class, …), or an object of
    ANY other type (`ty`: int, std::string, a struct of some other library, …).  `payload` is
    what the thrown object carries (what() / its members).  The C++ language lets a function
    throw any copyable type; the property ("its result or exception arrives in the future")
    quantifies over all of them. -/
inductive Outcome where
  | value (v : Nat)
  | stdExc (cls : Nat) (payload : Nat)
  | otherExc (ty : Nat) (payload : Nat)
  deriving DecidableEq, Repr

/-- the function threw -/
def Outcome.isException : Outcome → Bool
  | .value _ => false
  | _ => true

/-- `catch (const std::exception&)` matches the thrown object -/
def Outcome.isStdException : Outcome → Bool
  | .stdExc _ _ => true
  | _ => false

inductive Task where
  | job (id : Nat) (out : Outcome)
  | stop
  deriving DecidableEq, Repr

inductive WPc where
  | loop                        -- about to call / inside wait_and_pop
  | got (r : Option Task)       -- wait_and_pop returned
  | running (id : Nat) (out : Outcome)
  | stopping                    -- task() returned true
  | exited
  deriving DecidableEq, Repr

inductive DPc where
  | notStarted
  | pushing (k : Nat)           -- k stop tasks handed to push() so far
  | joining
  | done
  deriving DecidableEq, Repr

inductive Ev where
  | q (e : QueueSM.Ev Task)
  | workerGot (w : Tid) (nonempty : Bool)
  | taskRun (w : Tid) (id : Nat)
  | workerExit (w : Tid)
  | dtorStart (d : Tid)
  | dtorPushed (d : Tid)
  | dtorJoin (d : Tid) (w : Tid)
  | dtorDone (d : Tid)
  | futureGet (t : Tid) (id : Nat) (o : Outcome)
  deriving DecidableEq, Repr

structure Cfg where
  workers : List Tid            -- m_threads
  qc : QueueSM.Cfg              -- work queue bound, condvar semantics
  deriving Repr

structure State where
  q : QueueSM.State Task
  wpc : Tid → WPc
  dtor : DPc
  dtorTid : Tid
  runCount : Nat → Nat                 -- how often job `id` was executed
  future : Nat → Option Outcome        -- shared state of the future of job `id`
  submitted : List (Nat × Outcome)     -- ghost: jobs in submit order
  exitedL : List Tid                   -- workers whose thread function returned
  joined : List Tid

def init : State :=
  { q := QueueSM.init Task, wpc := fun _ => .loop, dtor := .notStarted, dtorTid := 0,
    runCount := fun _ => 0, future := fun _ => none, submitted := [], exitedL := [], joined := [] }

/-- no push() call is in progress on the work queue -/
def noPushInProgress (s : State) : Bool :=
  s.q.called.length == s.q.pushed.length + s.q.dropped.length

/-- `if (task && task())`: what the worker does with what it got -/
def afterGot : Option Task → WPc
  | some (.job id out) => .running id out
  | some .stop => .stopping
  | none => .loop

def step? (c : Cfg) (s : State) : Ev → Option State
  | .q (.pushEnter t (.job id out)) =>
    if t ∉ c.workers ∧ s.dtor = .notStarted ∧ (∀ p ∈ s.submitted, p.1 ≠ id) then
      (QueueSM.step? c.qc s.q (.pushEnter t (.job id out))).map fun q' =>
        { s with q := q', submitted := s.submitted ++ [(id, out)] }
    else none
  | .q (.pushEnter t .stop) =>
    match s.dtor with
    | .pushing k =>
      if t = s.dtorTid ∧ k < c.workers.length then
        (QueueSM.step? c.qc s.q (.pushEnter t .stop)).map fun q' => { s with q := q', dtor := .pushing (k + 1) }
      else none
    | _ => none
  | .q (.pushTest t saw) => (QueueSM.step? c.qc s.q (.pushTest t saw)).map fun q' => { s with q := q' }
  | .q (.pushSize t n) => (QueueSM.step? c.qc s.q (.pushSize t n)).map fun q' => { s with q := q' }
  | .q (.pushFullWaited t n) => (QueueSM.step? c.qc s.q (.pushFullWaited t n)).map fun q' => { s with q := q' }
  | .q (.pushLocked t n w) => (QueueSM.step? c.qc s.q (.pushLocked t n w)).map fun q' => { s with q := q' }
  | .q (.popNow t n r) =>
    if t ∈ c.workers ∧ s.wpc t = .loop then
      (QueueSM.step? c.qc s.q (.popNow t n r)).map fun q' =>
        { s with q := q', wpc := setPc s.wpc t (.got (r.map (·.2))) }
    else none
  | .q (.popWake t n r) =>
    if t ∈ c.workers ∧ s.wpc t = .loop then
      (QueueSM.step? c.qc s.q (.popWake t n r)).map fun q' =>
        { s with q := q', wpc := setPc s.wpc t (.got (r.map (·.2))) }
    else none
  | .q (.popBlock t) =>
    if t ∈ c.workers ∧ s.wpc t = .loop then
      (QueueSM.step? c.qc s.q (.popBlock t)).map fun q' => { s with q := q' }
    else none
  | .q (.popRewait t) =>
    if t ∈ c.workers ∧ s.wpc t = .loop then
      (QueueSM.step? c.qc s.q (.popRewait t)).map fun q' => { s with q := q' }
    else none
  | .q (.tryPop _ _ _) | .q (.sdEnter _) | .q (.sdFlag _) | .q (.sdLocked _) => none
  | .workerGot w b =>
    match s.wpc w with
    | .got r =>
      if b = r.isSome then
        some { s with wpc := setPc s.wpc w (afterGot r) }
      else none
    | _ => none
  | .taskRun w id =>
    match s.wpc w with
    | .running id' out =>
      if id = id' then
        some { s with wpc := setPc s.wpc w .loop,
                      runCount := setPc s.runCount id (s.runCount id + 1),
                      future := setPc s.future id (some out) }
      else none
    | _ => none
  | .workerExit w =>
    if s.wpc w = .stopping then
      some { s with wpc := setPc s.wpc w .exited, exitedL := w :: s.exitedL }
    else none
  | .dtorStart d =>
    if s.dtor = .notStarted ∧ d ∉ c.workers ∧ noPushInProgress s = true then
      some { s with dtor := .pushing 0, dtorTid := d }
    else none
  | .dtorPushed d =>
    if s.dtor = .pushing c.workers.length ∧ d = s.dtorTid ∧ noPushInProgress s = true then
      some { s with dtor := .joining }
    else none
  | .dtorJoin d w =>
    if s.dtor = .joining ∧ d = s.dtorTid ∧ w ∈ c.workers ∧ w ∈ s.exitedL ∧ w ∉ s.joined then
      some { s with joined := w :: s.joined }
    else none
  | .dtorDone d =>
    if s.dtor = .joining ∧ d = s.dtorTid ∧ s.joined.length = c.workers.length then
      some { s with dtor := .done }
    else none
  | .futureGet _ id o =>
    if s.future id = some o then some s else none

def machine (c : Cfg) : Machine State Ev := { init := init, step? := step? c }

/-! ## the task wrapper made explicit

`submit()` (pool.hpp:223-230) wraps the function in a `std::packaged_task`; the worker calls it
through `function_wrapper::impl_type<F>::call()` (`m_functor(); return false;`,
function_wrapper.hpp) from `worker_thread()` (`if (task && task()) return;`, pool.hpp:136-147).
Neither `call()` nor `worker_thread()` has a handler, so whatever leaves the wrapper's
`operator()` leaves the thread function: std::terminate().  `taskRun` of `step?` above is the
step for `std::packaged_task`, whose `operator()` stores the result OR ANY exception in the
shared state ([futures.task.members]) and returns normally.  `xstep?` is the same machine with
the wrapper's handler as a parameter, so that "every exception type is transferred, the worker
goes on" is a theorem about `Wrapper.packagedTask` (Lemmas/PoolSMOutcome.lean) and not a
silent assumption: for a wrapper that lets some thrown type through, the run reaches
`terminated`. -/

/-- the `try { … } catch` of the callable that submit() puts into the work queue: which thrown
    objects does its handler catch (and store in the shared state) -/
structure Wrapper where
  catches : Outcome → Bool

/-- `std::packaged_task<R()>::operator()`: `catch (...)` -/
def Wrapper.packagedTask : Wrapper := ⟨fun _ => true⟩

/-- a wrapper whose handler is `catch (const std::exception&)` -/
def Wrapper.stdExceptionOnly : Wrapper := ⟨Outcome.isStdException⟩

/-- what one call of the wrapper does: what it writes into the shared state of the future and
    which exception leaves its `operator()` -/
structure CallResult where
  stored : Option Outcome
  escapes : Option Outcome
  deriving DecidableEq, Repr

def Wrapper.call (wr : Wrapper) (out : Outcome) : CallResult :=
  match out with
  | .value v => ⟨some (.value v), none⟩
  | e => if wr.catches e then ⟨some e, none⟩ else ⟨none, some e⟩

structure XState where
  base : State
  /-- std::terminate(): exception `e` left the thread function of worker `w` running job `id` -/
  terminated : Option (Tid × Nat × Outcome)

def xinit : XState := ⟨init, none⟩

/-- the pool machine for an arbitrary task wrapper: as `step?`, but running a job goes through
    `Wrapper.call`; an escaping exception ends the process (no further step) -/
def xstep? (wr : Wrapper) (c : Cfg) (x : XState) (e : Ev) : Option XState :=
  if x.terminated.isSome then none else
  match e with
  | .taskRun w id =>
    match x.base.wpc w with
    | .running id' out =>
      if id = id' then
        match (wr.call out).escapes with
        | none =>
          some ⟨{ x.base with wpc := setPc x.base.wpc w .loop,
                              runCount := setPc x.base.runCount id (x.base.runCount id + 1),
                              future := setPc x.base.future id (wr.call out).stored }, none⟩
        | some ex =>
          some ⟨{ x.base with runCount := setPc x.base.runCount id (x.base.runCount id + 1) }, some (w, id, ex)⟩
      else none
    | _ => none
  | e => (step? c x.base e).map fun s' => ⟨s', none⟩

def xmachine (wr : Wrapper) (c : Cfg) : Machine XState Ev := { init := xinit, step? := xstep? wr c }

/-- worker threads of the pool whose thread function has not returned -/
def liveWorkers (c : Cfg) (s : State) : List Tid := c.workers.filter fun w => decide (s.wpc w ≠ .exited)

end Osmium.PoolSM
