/-
C10 — area assembly (DESIGN.md §3 C10).  Core-only executable model of the exact-integer
geometric core and of the list algorithms around it, plus the executable validity
SPECIFICATION (`Valid`) that judges what the real assembler produced.

Transcribed from
  include/osmium/osm/location.hpp                 Location::operator<, operator==, valid()
  include/osmium/area/detail/vector.hpp           vec, operator-, cross product operator*
  include/osmium/area/detail/node_ref_segment.hpp NodeRefSegment ctor (endpoint normalisation),
                                                  operator==, operator<, outside_x_range,
                                                  y_range_overlap, calculate_intersection, det
  include/osmium/area/detail/segment_list.hpp     extract_segments_from_way_impl, sort,
                                                  erase_duplicate_segments, find_intersections
  include/osmium/area/detail/proto_ring.hpp       add_segment_back (m_sum), reverse, is_cw,
                                                  fix_direction
  include/osmium/area/detail/basic_assembler.hpp  create_locations_list / find_split_locations
                                                  (the open-ring and touching-ring counts only)

NOT modelled (DESIGN.md: C10 is partial): the ring-building search of basic_assembler.hpp
(add_new_ring*, find_candidates, join_connected_rings, find_enclosing_ring).  Its OUTPUT is
judged by `Valid` below.

Coordinates are unbounded `Int`; the property's domain is |x|,|y| ≤ 2^29, on which every
int64 intermediate of the C++ code stays inside (−2^63, 2^63) (`no_overflow` in Props/C10.lean),
so the C++ arithmetic is the mathematical one.  The float rounding of the intersection POINT
returned by calculate_intersection for a proper crossing is not modelled: only the decision
"defined / undefined Location" is (for a collinear overlap the returned location is exact and
is modelled).
-/
namespace Osmium.Area

/-! ## vectors and locations -/

/-- `struct vec` (vector.hpp) / the two coordinates of a `Location`. -/
structure Vec where
  x : Int
  y : Int
deriving DecidableEq, Repr, Inhabited

namespace Vec

/-- `operator-(vec, vec)` -/
def sub (a b : Vec) : Vec := ⟨a.x - b.x, a.y - b.y⟩

/-- `operator+(vec, vec)` -/
def add (a b : Vec) : Vec := ⟨a.x + b.x, a.y + b.y⟩

/-- cross product `operator*(vec, vec)` : `lhs.x * rhs.y - lhs.y * rhs.x` -/
def cross (a b : Vec) : Int := a.x * b.y - a.y * b.x

/-- `operator<(Location, Location)` : `(lx == rx && ly < ry) || lx < rx` -/
def lt (a b : Vec) : Bool := (a.x == b.x && decide (a.y < b.y)) || decide (a.x < b.x)

end Vec

/-- The property's coordinate bound (quantifier of C10): ±2^29. -/
def coordBound : Int := 536870912

def Vec.inRange (v : Vec) : Bool :=
  decide (-coordBound ≤ v.x) && decide (v.x ≤ coordBound) &&
  decide (-coordBound ≤ v.y) && decide (v.y ≤ coordBound)

/-! ## segments -/

/-- `NodeRefSegment` reduced to what the geometry looks at: the two locations, `first` being
    the smaller one in location order. -/
structure Seg where
  first : Vec
  second : Vec
deriving DecidableEq, Repr, Inhabited

namespace Seg

/-- `NodeRefSegment(nr1, nr2, role, way)` :
    `m_first(nr1.location() < nr2.location() ? nr1 : nr2)`, `m_second(... ? nr2 : nr1)` -/
def ofEnds (a b : Vec) : Seg := if a.lt b then ⟨a, b⟩ else ⟨b, a⟩

/-- what the constructor establishes for segments of non-zero length (the only ones
    `extract_segments_from_way_impl` creates) -/
def wf (s : Seg) : Bool := s.first.lt s.second

/-- `operator<(NodeRefSegment, NodeRefSegment)` -/
def lt (l r : Seg) : Bool :=
  if l.first == r.first then
    let p := l.second.sub l.first
    let q := r.second.sub r.first
    if p.x == 0 && q.x == 0 then
      decide (p.y < q.y)
    else
      let a := p.y * q.x
      let b := q.y * p.x
      if a == b then decide (p.x < q.x) else decide (a > b)
  else
    l.first.lt r.first

/-- `outside_x_range(s1, s2)` : `s1.first().x() > s2.second().x()` -/
def outsideXRange (s1 s2 : Seg) : Bool := decide (s1.first.x > s2.second.x)

/-- `y_range_overlap(s1, s2)` -/
def yRangeOverlap (s1 s2 : Seg) : Bool :=
  let m1lo := min s1.first.y s1.second.y
  let m1hi := max s1.first.y s1.second.y
  let m2lo := min s2.first.y s2.second.y
  let m2hi := max s2.first.y s2.second.y
  !(decide (m1lo > m2hi) || decide (m2lo > m1hi))

end Seg

/-- Which branch of `calculate_intersection` decided. -/
inductive IsectCase where
  | same                 -- identical segments: undefined Location
  | endpointTouch        -- not collinear, share an end point: undefined
  | cross                -- not collinear, 0 ≤ na/d ≤ 1 and 0 ≤ nb/d ≤ 1: defined (rounded point)
  | miss                 -- not collinear, parameters out of range: undefined
  | parallel             -- d = 0 but on different lines: undefined
  | collinearTouch       -- same line, sl[1] == sl[2]: undefined
  | collinearApart       -- same line, sl[0] and sl[1] belong to the same segment: undefined
  | overlap (loc : Vec)   -- same line, overlapping: the location that is returned
deriving DecidableEq, Repr

def IsectCase.hit : IsectCase → Bool
  | .cross => true
  | .overlap _ => true
  | _ => false

/-- insertion of one `seg_loc` record (segment number, location) into a list sorted by
    location; `std::sort` on 4 elements is libstdc++'s insertion sort.  (The decision does not
    depend on how ties are ordered: see `collinear_decision` in Lemmas.) -/
def insertLoc (e : Nat × Vec) : List (Nat × Vec) → List (Nat × Vec)
  | [] => [e]
  | h :: t => if e.2.lt h.2 then e :: h :: t else h :: insertLoc e t

def sortLoc (l : List (Nat × Vec)) : List (Nat × Vec) :=
  l.foldl (fun acc e => insertLoc e acc) []

/-- the collinear, same-line part of `calculate_intersection` -/
def collinearCase (p0 p1 q0 q1 : Vec) : IsectCase :=
  match sortLoc [(0, p0), (0, p1), (1, q0), (1, q1)] with
  | [a, b, c, _] =>
    if b.2 == c.2 then .collinearTouch
    else if a.1 != b.1 then
      (if a.2 == b.2 then .overlap c.2 else .overlap b.2)
    else .collinearApart
  | _ => .collinearApart   -- unreachable: sorting keeps the length

/-- `calculate_intersection(s1, s2)` : the decision and the branch that took it. -/
def Seg.intersectCase (s1 s2 : Seg) : IsectCase :=
  let p0 := s1.first
  let p1 := s1.second
  let q0 := s2.first
  let q1 := s2.second
  if (p0 == q0 && p1 == q1) || (p0 == q1 && p1 == q0) then .same
  else
    let pd := p1.sub p0
    let d := pd.cross (q1.sub q0)
    if d != 0 then
      if p0 == q0 || p0 == q1 || p1 == q0 || p1 == q1 then .endpointTouch
      else
        let na := (q1.x - q0.x) * (p0.y - q0.y) - (q1.y - q0.y) * (p0.x - q0.x)
        let nb := (p1.x - p0.x) * (p0.y - q0.y) - (p1.y - p0.y) * (p0.x - q0.x)
        if (decide (d > 0) && decide (na ≥ 0) && decide (na ≤ d) && decide (nb ≥ 0) && decide (nb ≤ d)) ||
           (decide (d < 0) && decide (na ≤ 0) && decide (na ≥ d) && decide (nb ≤ 0) && decide (nb ≥ d)) then .cross
        else .miss
    else if pd.cross (q0.sub p0) == 0 then collinearCase p0 p1 q0 q1
    else .parallel

/-- The DECISION of `calculate_intersection`: is the returned Location defined? -/
def Seg.intersect? (s1 s2 : Seg) : Bool := (s1.intersectCase s2).hit

/-! ## the segment list -/

/-- insertion sort by `Seg.lt` (`SegmentList::sort()` is `std::sort` with `operator<`; on
    well-formed segments `operator<` is a strict total order up to `==`, so every correct sort
    produces this list — checked against the real `std::sort` by the correspondence). -/
def insertSeg (s : Seg) : List Seg → List Seg
  | [] => [s]
  | h :: t => if s.lt h then s :: h :: t else h :: insertSeg s t

def sortSegs (l : List Seg) : List Seg := l.foldr insertSeg []

/-- one round of `erase_duplicate_segments`: `std::adjacent_find`, then `erase(it, it + 2)`.
    Returns the list without the first adjacent equal pair and whether `*it == *(it + 2)`
    (an "overlapping segment" is counted); `none` when there is no adjacent pair. -/
def eraseStep : List Seg → Option (List Seg × Bool)
  | a :: b :: rest =>
    if a == b then some (rest, rest.head? == some a)
    else (eraseStep (b :: rest)).map fun (l, o) => (a :: l, o)
  | _ => none

/-- `erase_duplicate_segments` : repeat until no adjacent pair is left.  Result list, number
    of erased pairs, number of "overlapping" reports.  Fuel = length is enough because every
    round removes two elements. -/
def eraseLoop : Nat → List Seg → List Seg × Nat × Nat
  | 0, l => (l, 0, 0)
  | fuel + 1, l =>
    match eraseStep l with
    | none => (l, 0, 0)
    | some (l', o) =>
      let (r, pairs, overl) := eraseLoop fuel l'
      (r, pairs + 1, overl + (if o then 1 else 0))

def eraseDuplicatesFull (l : List Seg) : List Seg × Nat × Nat := eraseLoop l.length l

def eraseDuplicates (l : List Seg) : List Seg := (eraseDuplicatesFull l).1

/-- inner loop of `find_intersections` for a fixed `s1`: walks the later segments, stops at
    the first one that is `outside_x_range(s2, s1)` (the `break`). -/
def countFrom (s1 : Seg) : List Seg → Nat
  | [] => 0
  | s2 :: rest =>
    if s2.outsideXRange s1 then 0
    else (if s1.yRangeOverlap s2 && s1.intersect? s2 then 1 else 0) + countFrom s1 rest

/-- `SegmentList::find_intersections` : number of intersections found. -/
def findIntersections : List Seg → Nat
  | [] => 0
  | s1 :: rest => countFrom s1 rest + findIntersections rest

/-! ## extracting segments from ways -/

/-- a `NodeRef`: id and location -/
structure Node where
  id : Int
  loc : Vec
deriving DecidableEq, Repr, Inhabited

/-- `Location::valid()` with `precision() = 10^7` -/
def Vec.valid (v : Vec) : Bool :=
  decide (v.x ≥ -1800000000) && decide (v.x ≤ 1800000000) &&
  decide (v.y ≥ -900000000) && decide (v.y ≤ 900000000)

/-- `extract_segments_from_way_impl` : nodes with an invalid location are skipped (and
    counted), consecutive nodes with the same location give no segment (and are counted).
    `prev` is `previous_nr` (`none` = the default-constructed NodeRef whose location is
    undefined, so `if (previous_nr.location())` fails). -/
def extractFrom (prev : Option Node) : List Node → List Seg
  | [] => []
  | nr :: rest =>
    if !nr.loc.valid then extractFrom prev rest
    else
      match prev with
      | some p =>
        if p.loc != nr.loc then Seg.ofEnds p.loc nr.loc :: extractFrom (some nr) rest
        else extractFrom (some nr) rest
      | none => extractFrom (some nr) rest

def extractSegments (way : List Node) : List Seg := extractFrom none way

/-- return value of `extract_segments_from_way_impl` -/
def countInvalid (way : List Node) : Nat := (way.filter fun n => !n.loc.valid).length

/-- increments of `duplicate_nodes` -/
def countDupNodesFrom (prev : Option Node) : List Node → Nat
  | [] => 0
  | nr :: rest =>
    if !nr.loc.valid then countDupNodesFrom prev rest
    else
      match prev with
      | some p => (if p.loc != nr.loc then 0 else 1) + countDupNodesFrom (some nr) rest
      | none => countDupNodesFrom (some nr) rest

/-- all segments of a set of ways (`extract_segments_from_ways` for distinct way ids) -/
def allSegments (ways : List (List Node)) : List Seg := ways.flatMap extractSegments

/-! ## open rings and touching points (create_locations_list + find_split_locations) -/

def insertVec (v : Vec) : List Vec → List Vec
  | [] => [v]
  | h :: t => if v.lt h then v :: h :: t else h :: insertVec v t

/-- the locations of `m_locations` in sorted order: both end points of every segment -/
def endpointList (segs : List Seg) : List Vec :=
  (segs.flatMap fun s => [s.first, s.second]).foldr insertVec []

/-- `find_split_locations` on the sorted end point list: (open_rings, split locations).
    `prev` = `previous_location`, `splits` = `m_split_locations` (most recent first). -/
def splitScan : Nat → Option Vec → List Vec → List Vec → Nat × List Vec
  | 0, _, splits, _ => (0, splits)
  | _ + 1, _, splits, [] => (0, splits)
  | _ + 1, _, splits, [_] => (1, splits)
  | fuel + 1, prev, splits, a :: b :: rest =>
    if a != b then
      let (o, s) := splitScan fuel (some a) splits (b :: rest)
      (o + 1, s)
    else
      let splits' := if prev == some a && splits.head? != some a then a :: splits else splits
      splitScan fuel (some a) splits' rest

def openAndSplit (segs : List Seg) : Nat × Nat :=
  let l := endpointList segs
  let (o, s) := splitScan (l.length + 1) none [] l
  (o, s.length)

/-! ## rings: shoelace sum and direction -/

/-- a segment inside a ring: the normalised segment and its `m_reverse` flag -/
structure DSeg where
  seg : Seg
  rev : Bool
deriving DecidableEq, Repr, Inhabited

namespace DSeg
/-- `start()` -/
def start (d : DSeg) : Vec := if d.rev then d.seg.second else d.seg.first
/-- `stop()` -/
def stop (d : DSeg) : Vec := if d.rev then d.seg.first else d.seg.second
/-- `det()` : `vec(start()) * vec(stop())` -/
def det (d : DSeg) : Int := d.start.cross d.stop
/-- `NodeRefSegment::reverse()` -/
def flip (d : DSeg) : DSeg := { d with rev := !d.rev }
/-- the directed segment from `a` to `b` -/
def ofPoints (a b : Vec) : DSeg := ⟨Seg.ofEnds a b, !(a.lt b)⟩
end DSeg

/-- `ProtoRing::m_segments` -/
abbrev Ring := List DSeg

namespace Ring
/-- `m_sum` as `add_segment_back` accumulates it: Σ det -/
def sum : Ring → Int
  | [] => 0
  | d :: r => d.det + sum r
/-- `ProtoRing::reverse()` on the segment vector: every segment flipped, order reversed
    (the C++ code also sets `m_sum = -m_sum`; `shoelace_reverse` shows this is the sum of the
    reversed ring). -/
def reverse (r : Ring) : Ring := (r.map DSeg.flip).reverse
/-- `is_cw()` : `m_sum <= 0` -/
def isCw (r : Ring) : Bool := decide (r.sum ≤ 0)
/-- `fix_direction()` : `if (is_cw() == is_outer()) reverse();` -/
def fixDirection (r : Ring) (isOuter : Bool) : Ring :=
  if r.isCw == isOuter then r.reverse else r
/-- node locations in ring order: start of the first segment, then every stop
    (`build_ring_from_proto_ring`) -/
def points : Ring → List Vec
  | [] => []
  | d :: r => d.start :: (d :: r).map DSeg.stop
end Ring

/-- directed segments between consecutive points -/
def ringOfPoints : List Vec → Ring
  | a :: b :: rest => DSeg.ofPoints a b :: ringOfPoints (b :: rest)
  | _ => []

/-! ## the validity specification -/

/-- an outer ring with the inner rings attached to it (node locations in ring order, first =
    last for a closed ring), as `add_rings_to_area` writes them -/
structure OuterRing where
  outer : List Vec
  inners : List (List Vec)
deriving Repr

abbrev MP := List OuterRing

/-- normalised segments of a point sequence -/
def pointSegs : List Vec → List Seg
  | a :: b :: rest => Seg.ofEnds a b :: pointSegs (b :: rest)
  | _ => []

/-- shoelace sum Σ pᵢ × pᵢ₊₁ of a point sequence (= twice the signed area when closed) -/
def shoelace : List Vec → Int
  | a :: b :: rest => a.cross b + shoelace (b :: rest)
  | _ => 0

def ringClosed (pts : List Vec) : Bool :=
  match pts.head?, pts.getLast? with
  | some a, some b => a == b
  | _, _ => false

/-- Even-odd ray cast in DOUBLED coordinates (so that segment midpoints are integral): does a
    ray from `p2` (already doubled) towards +x cross the ring an odd number of times?
    An edge (a,b) is crossed when exactly one end is strictly above the ray and the crossing
    lies strictly to the right of the point — decided by the sign of a cross product. -/
def crossesRay (p2 a b : Vec) : Bool :=
  let ax := 2 * a.x
  let ay := 2 * a.y
  let bx := 2 * b.x
  let by' := 2 * b.y
  if decide (ay > p2.y) == decide (by' > p2.y) then false
  else
    let dy := by' - ay
    let lhs := (p2.x - ax) * dy
    let rhs := (p2.y - ay) * (bx - ax)
    if dy > 0 then decide (lhs < rhs) else decide (lhs > rhs)

def rayParity (p2 : Vec) : List Vec → Bool
  | a :: b :: rest => xor (crossesRay p2 a b) (rayParity p2 (b :: rest))
  | _ => false

/-- doubled midpoints of the edges of a ring -/
def midpoints2 : List Vec → List Vec
  | a :: b :: rest => ⟨a.x + b.x, a.y + b.y⟩ :: midpoints2 (b :: rest)
  | _ => []

/-- `some true` : every edge midpoint of `r` is inside `r'`; `some false` : every one is
    outside; `none` : mixed (the rings cross) -/
def sideOf (r r' : List Vec) : Option Bool :=
  let ins := (midpoints2 r).map fun m => rayParity m r'
  if ins.all id then (if ins.isEmpty then none else some true)
  else if ins.all (!·) then some false
  else none

/-- all rings of a multipolygon with (index of own outer ring among all rings, or none) -/
def allRings (mp : MP) : List (List Vec) :=
  mp.flatMap fun o => o.outer :: o.inners

/-- number of OTHER rings that contain ring number `i` -/
def depthOf (rings : List (List Vec)) (i : Nat) : Nat :=
  match rings[i]? with
  | none => 0
  | some r =>
    ((List.range rings.length).filter fun j => j != i && sideOf r (rings.getD j []) == some true).length

/-- segments of odd multiplicity: the even-odd target -/
def oddIn (input : List Seg) (s : Seg) : Bool := input.count s % 2 == 1

/-- `segs` is, as a set, exactly the set of input segments of odd multiplicity -/
def targetOk (input segs : List Seg) : Bool :=
  segs.all (oddIn input) && input.all fun s => !oddIn input s || segs.contains s

/-- pairwise check on a list -/
def allPairs (p : Seg → Seg → Bool) : List Seg → Bool
  | [] => true
  | s :: rest => rest.all (p s) && allPairs p rest

/-- The clauses of C10's "valid multipolygon covering exactly the input's region", each as an
    executable check; `input` = all segments extracted from the input ways. -/
structure Verdict where
  nonEmpty : Bool      -- at least one ring
  closed : Bool        -- every ring closed
  fourPoints : Bool    -- every ring has ≥ 4 points
  distinct : Bool      -- no ring segment occurs twice (no overlap of identical segments)
  noCrossing : Bool    -- no two ring segments cross / overlap (calculate_intersection both ways)
  orientation : Bool   -- outer rings counter-clockwise (shoelace > 0), inner rings clockwise (< 0)
  consistent : Bool    -- any two rings: one entirely inside or entirely outside the other
  innerInOuter : Bool  -- every inner ring inside its outer ring, directly (depth = depth outer + 1)
  outerEven : Bool     -- every outer ring is inside an even number of other rings
  target : Bool        -- ring segments = input segments of odd multiplicity
deriving Repr

def judge (input : List Seg) (mp : MP) : Verdict :=
  let rings := allRings mp
  let segs := rings.flatMap pointSegs
  let n := rings.length
  let idx := List.range n
  -- (ring index, is outer, index of its outer ring)
  let roles : List (Nat × Bool × Nat) :=
    (mp.foldl (fun (acc : List (Nat × Bool × Nat) × Nat) o =>
      let oi := acc.2
      let inn := (List.range o.inners.length).map fun k => (oi + 1 + k, false, oi)
      (acc.1 ++ (oi, true, oi) :: inn, oi + 1 + o.inners.length)) ([], 0)).1
  { nonEmpty := !rings.isEmpty
    closed := rings.all ringClosed
    fourPoints := rings.all fun r => decide (r.length ≥ 4)
    distinct := allPairs (fun a b => a != b) segs
    noCrossing := allPairs (fun a b => !(a.intersect? b) && !(b.intersect? a)) segs
    orientation := mp.all fun o =>
      decide (shoelace o.outer > 0) && o.inners.all fun i => decide (shoelace i < 0)
    consistent := idx.all fun i => idx.all fun j =>
      i == j || (sideOf (rings.getD i []) (rings.getD j [])).isSome
    innerInOuter := roles.all fun (i, isOuter, oi) =>
      isOuter || (sideOf (rings.getD i []) (rings.getD oi []) == some true &&
                  depthOf rings i == depthOf rings oi + 1)
    outerEven := roles.all fun (i, isOuter, _) => !isOuter || depthOf rings i % 2 == 0
    target := targetOk input segs }

def Verdict.ok (v : Verdict) : Bool :=
  v.nonEmpty && v.closed && v.fourPoints && v.distinct && v.noCrossing && v.orientation &&
  v.consistent && v.innerInOuter && v.outerEven && v.target

/-- names of the clauses that fail (diagnostics for the driver) -/
def Verdict.failing (v : Verdict) : List String :=
  (if v.nonEmpty then [] else ["no-rings"]) ++
  (if v.closed then [] else ["ring-not-closed"]) ++
  (if v.fourPoints then [] else ["ring-too-short"]) ++
  (if v.distinct then [] else ["segment-twice"]) ++
  (if v.noCrossing then [] else ["segments-cross"]) ++
  (if v.orientation then [] else ["orientation"]) ++
  (if v.consistent then [] else ["rings-cross"]) ++
  (if v.innerInOuter then [] else ["inner-not-in-outer"]) ++
  (if v.outerEven then [] else ["outer-at-odd-depth"]) ++
  (if v.target then [] else ["not-even-odd-fill"])

/-- `Valid input mp` : `mp` is a valid multipolygon covering exactly the even-odd fill of the
    input segments. -/
def Valid (input : List Seg) (mp : MP) : Bool := (judge input mp).ok

/-- What the part of `create_rings()` BEFORE ring building decides, as a function of the
    segment list: (nodes, erased pairs, overlapping, intersections, open rings, touching points).
    `intersections > 0`, `open rings > 0` or an empty list mean "rejected". -/
structure PreCheck where
  nodes : Nat
  pairs : Nat
  overlapping : Nat
  remaining : Nat
  intersections : Nat
  openRings : Nat
  touching : Nat
deriving Repr

def preCheck (input : List Seg) : PreCheck :=
  let sorted := sortSegs input
  let (l, pairs, ov) := eraseDuplicatesFull sorted
  if l.isEmpty then ⟨input.length, pairs, ov, 0, 0, 0, 0⟩
  else
    let ix := findIntersections l
    if ix > 0 then ⟨input.length, pairs, ov, l.length, ix, 0, 0⟩
    else
      let (o, t) := openAndSplit l
      ⟨input.length, pairs, ov, l.length, ix, o, if o > 0 then 0 else t⟩

end Osmium.Area
