/-
C10 — area assembly (DESIGN.md §3 C10).  Core-only executable model of the exact-integer
geometric core and of the list algorithms around it, plus the executable validity
SPECIFICATION (`Valid`) that judges what the real assembler produced.

Transcribed from
  include/osmium/osm/location.hpp                 Location::operator<, operator==, valid()
  include/osmium/area/detail/vector.hpp           vec, operator-, cross product operator*
  include/osmium/area/detail/node_ref_segment.hpp NodeRefSegment ctor (endpoint normalisation),
                                                  operator==, operator<, outside_x_range,
                                                  y_range_overlap, calculate_intersection, det
  include/osmium/area/detail/segment_list.hpp     extract_segments_from_way_impl, sort,
                                                  erase_duplicate_segments, find_intersections
  include/osmium/area/detail/proto_ring.hpp       add_segment_back (m_sum), reverse, is_cw,
                                                  fix_direction
  include/osmium/area/detail/basic_assembler.hpp  slocation, create_locations_list,
                                                  find_split_locations, get_next_segment,
                                                  add_new_ring, create_rings_simple_case,
                                                  find_enclosing_ring (+ remove_duplicates),
                                                  is_split_location, add_new_ring_complex and the
                                                  two cutting loops of create_rings_complex_case
                                                  (section "ring building" at the end of this file)

NOT modelled (DESIGN.md: C10 is partial): the rest of the complex case — try_to_merge,
merge_two_rings, join_connected_rings, find_candidates, find_inner_outer_complex.  The OUTPUT of
the whole assembler is judged by `Valid` below.  `find_enclosing_ring` compares heights as C++
`double`s: it is transcribed with Lean's `Float` (IEEE binary64, same operations), so it can be run
and compared with the real code, but no theorem speaks about it — the ring-building theorems
quantify over every function in its place.

Coordinates are unbounded `Int`; the property's domain is |x|,|y| ≤ 2^29, on which every
int64 intermediate of the C++ code stays inside (−2^63, 2^63) (`no_overflow` in Props/C10.lean),
so the C++ arithmetic is the mathematical one.  The float rounding of the intersection POINT
returned by calculate_intersection for a proper crossing is not modelled: only the decision
"defined / undefined Location" is (for a collinear overlap the returned location is exact and
is modelled).
-/
namespace Osmium.Area

/-! ## vectors and locations -/

/-- `struct vec` (vector.hpp) / the two coordinates of a `Location`. -/
structure Vec where
  x : Int
  y : Int
deriving DecidableEq, Repr, Inhabited

namespace Vec

/-- `operator-(vec, vec)` -/
def sub (a b : Vec) : Vec := ⟨a.x - b.x, a.y - b.y⟩

/-- `operator+(vec, vec)` -/
def add (a b : Vec) : Vec := ⟨a.x + b.x, a.y + b.y⟩

/-- cross product `operator*(vec, vec)` : `lhs.x * rhs.y - lhs.y * rhs.x` -/
def cross (a b : Vec) : Int := a.x * b.y - a.y * b.x

/-- `operator<(Location, Location)` : `(lx == rx && ly < ry) || lx < rx` -/
def lt (a b : Vec) : Bool := (a.x == b.x && decide (a.y < b.y)) || decide (a.x < b.x)

end Vec

/-- The property's coordinate bound (quantifier of C10): ±2^29. -/
def coordBound : Int := 536870912

def Vec.inRange (v : Vec) : Bool :=
  decide (-coordBound ≤ v.x) && decide (v.x ≤ coordBound) &&
  decide (-coordBound ≤ v.y) && decide (v.y ≤ coordBound)

/-! ## segments -/

/-- `NodeRefSegment` reduced to what the geometry looks at: the two locations, `first` being
    the smaller one in location order. -/
structure Seg where
  first : Vec
  second : Vec
deriving DecidableEq, Repr, Inhabited

namespace Seg

/-- `NodeRefSegment(nr1, nr2, role, way)` :
    `m_first(nr1.location() < nr2.location() ? nr1 : nr2)`, `m_second(... ? nr2 : nr1)` -/
def ofEnds (a b : Vec) : Seg := if a.lt b then ⟨a, b⟩ else ⟨b, a⟩

/-- what the constructor establishes for segments of non-zero length (the only ones
    `extract_segments_from_way_impl` creates) -/
def wf (s : Seg) : Bool := s.first.lt s.second

/-- `operator<(NodeRefSegment, NodeRefSegment)` -/
def lt (l r : Seg) : Bool :=
  if l.first == r.first then
    let p := l.second.sub l.first
    let q := r.second.sub r.first
    if p.x == 0 && q.x == 0 then
      decide (p.y < q.y)
    else
      let a := p.y * q.x
      let b := q.y * p.x
      if a == b then decide (p.x < q.x) else decide (a > b)
  else
    l.first.lt r.first

/-- `outside_x_range(s1, s2)` : `s1.first().x() > s2.second().x()` -/
def outsideXRange (s1 s2 : Seg) : Bool := decide (s1.first.x > s2.second.x)

/-- `y_range_overlap(s1, s2)` -/
def yRangeOverlap (s1 s2 : Seg) : Bool :=
  let m1lo := min s1.first.y s1.second.y
  let m1hi := max s1.first.y s1.second.y
  let m2lo := min s2.first.y s2.second.y
  let m2hi := max s2.first.y s2.second.y
  !(decide (m1lo > m2hi) || decide (m2lo > m1hi))

end Seg

/-- Which branch of `calculate_intersection` decided. -/
inductive IsectCase where
  | same                 -- identical segments: undefined Location
  | endpointTouch        -- not collinear, share an end point: undefined
  | cross                -- not collinear, 0 ≤ na/d ≤ 1 and 0 ≤ nb/d ≤ 1: defined (rounded point)
  | miss                 -- not collinear, parameters out of range: undefined
  | parallel             -- d = 0 but on different lines: undefined
  | collinearTouch       -- same line, sl[1] == sl[2]: undefined
  | collinearApart       -- same line, sl[0] and sl[1] belong to the same segment: undefined
  | overlap (loc : Vec)   -- same line, overlapping: the location that is returned
deriving DecidableEq, Repr

def IsectCase.hit : IsectCase → Bool
  | .cross => true
  | .overlap _ => true
  | _ => false

/-- insertion of one `seg_loc` record (segment number, location) into a list sorted by
    location; `std::sort` on 4 elements is libstdc++'s insertion sort.  (The decision does not
    depend on how ties are ordered: see `collinear_decision` in Lemmas.) -/
def insertLoc (e : Nat × Vec) : List (Nat × Vec) → List (Nat × Vec)
  | [] => [e]
  | h :: t => if e.2.lt h.2 then e :: h :: t else h :: insertLoc e t

def sortLoc (l : List (Nat × Vec)) : List (Nat × Vec) :=
  l.foldl (fun acc e => insertLoc e acc) []

/-- the collinear, same-line part of `calculate_intersection` -/
def collinearCase (p0 p1 q0 q1 : Vec) : IsectCase :=
  match sortLoc [(0, p0), (0, p1), (1, q0), (1, q1)] with
  | [a, b, c, _] =>
    if b.2 == c.2 then .collinearTouch
    else if a.1 != b.1 then
      (if a.2 == b.2 then .overlap c.2 else .overlap b.2)
    else .collinearApart
  | _ => .collinearApart   -- unreachable: sorting keeps the length

/-- `calculate_intersection(s1, s2)` : the decision and the branch that took it. -/
def Seg.intersectCase (s1 s2 : Seg) : IsectCase :=
  let p0 := s1.first
  let p1 := s1.second
  let q0 := s2.first
  let q1 := s2.second
  if (p0 == q0 && p1 == q1) || (p0 == q1 && p1 == q0) then .same
  else
    let pd := p1.sub p0
    let d := pd.cross (q1.sub q0)
    if d != 0 then
      if p0 == q0 || p0 == q1 || p1 == q0 || p1 == q1 then .endpointTouch
      else
        let na := (q1.x - q0.x) * (p0.y - q0.y) - (q1.y - q0.y) * (p0.x - q0.x)
        let nb := (p1.x - p0.x) * (p0.y - q0.y) - (p1.y - p0.y) * (p0.x - q0.x)
        if (decide (d > 0) && decide (na ≥ 0) && decide (na ≤ d) && decide (nb ≥ 0) && decide (nb ≤ d)) ||
           (decide (d < 0) && decide (na ≤ 0) && decide (na ≥ d) && decide (nb ≤ 0) && decide (nb ≥ d)) then .cross
        else .miss
    else if pd.cross (q0.sub p0) == 0 then collinearCase p0 p1 q0 q1
    else .parallel

/-- The DECISION of `calculate_intersection`: is the returned Location defined? -/
def Seg.intersect? (s1 s2 : Seg) : Bool := (s1.intersectCase s2).hit

/-! ## the segment list -/

/-- insertion sort by `Seg.lt` (`SegmentList::sort()` is `std::sort` with `operator<`; on
    well-formed segments `operator<` is a strict total order up to `==`, so every correct sort
    produces this list — checked against the real `std::sort` by the correspondence). -/
def insertSeg (s : Seg) : List Seg → List Seg
  | [] => [s]
  | h :: t => if s.lt h then s :: h :: t else h :: insertSeg s t

def sortSegs (l : List Seg) : List Seg := l.foldr insertSeg []

/-- one round of `erase_duplicate_segments`: `std::adjacent_find`, then `erase(it, it + 2)`.
    Returns the list without the first adjacent equal pair and whether `*it == *(it + 2)`
    (an "overlapping segment" is counted); `none` when there is no adjacent pair. -/
def eraseStep : List Seg → Option (List Seg × Bool)
  | a :: b :: rest =>
    if a == b then some (rest, rest.head? == some a)
    else (eraseStep (b :: rest)).map fun (l, o) => (a :: l, o)
  | _ => none

/-- `erase_duplicate_segments` : repeat until no adjacent pair is left.  Result list, number
    of erased pairs, number of "overlapping" reports.  Fuel = length is enough because every
    round removes two elements. -/
def eraseLoop : Nat → List Seg → List Seg × Nat × Nat
  | 0, l => (l, 0, 0)
  | fuel + 1, l =>
    match eraseStep l with
    | none => (l, 0, 0)
    | some (l', o) =>
      let (r, pairs, overl) := eraseLoop fuel l'
      (r, pairs + 1, overl + (if o then 1 else 0))

def eraseDuplicatesFull (l : List Seg) : List Seg × Nat × Nat := eraseLoop l.length l

def eraseDuplicates (l : List Seg) : List Seg := (eraseDuplicatesFull l).1

/-- inner loop of `find_intersections` for a fixed `s1`: walks the later segments, stops at
    the first one that is `outside_x_range(s2, s1)` (the `break`). -/
def countFrom (s1 : Seg) : List Seg → Nat
  | [] => 0
  | s2 :: rest =>
    if s2.outsideXRange s1 then 0
    else (if s1.yRangeOverlap s2 && s1.intersect? s2 then 1 else 0) + countFrom s1 rest

/-- `SegmentList::find_intersections` : number of intersections found. -/
def findIntersections : List Seg → Nat
  | [] => 0
  | s1 :: rest => countFrom s1 rest + findIntersections rest

/-! ## extracting segments from ways -/

/-- a `NodeRef`: id and location -/
structure Node where
  id : Int
  loc : Vec
deriving DecidableEq, Repr, Inhabited

/-- `Location::valid()` with `precision() = 10^7` -/
def Vec.valid (v : Vec) : Bool :=
  decide (v.x ≥ -1800000000) && decide (v.x ≤ 1800000000) &&
  decide (v.y ≥ -900000000) && decide (v.y ≤ 900000000)

/-- `extract_segments_from_way_impl` : nodes with an invalid location are skipped (and
    counted), consecutive nodes with the same location give no segment (and are counted).
    `prev` is `previous_nr` (`none` = the default-constructed NodeRef whose location is
    undefined, so `if (previous_nr.location())` fails). -/
def extractFrom (prev : Option Node) : List Node → List Seg
  | [] => []
  | nr :: rest =>
    if !nr.loc.valid then extractFrom prev rest
    else
      match prev with
      | some p =>
        if p.loc != nr.loc then Seg.ofEnds p.loc nr.loc :: extractFrom (some nr) rest
        else extractFrom (some nr) rest
      | none => extractFrom (some nr) rest

def extractSegments (way : List Node) : List Seg := extractFrom none way

/-- return value of `extract_segments_from_way_impl` -/
def countInvalid (way : List Node) : Nat := (way.filter fun n => !n.loc.valid).length

/-- increments of `duplicate_nodes` -/
def countDupNodesFrom (prev : Option Node) : List Node → Nat
  | [] => 0
  | nr :: rest =>
    if !nr.loc.valid then countDupNodesFrom prev rest
    else
      match prev with
      | some p => (if p.loc != nr.loc then 0 else 1) + countDupNodesFrom (some nr) rest
      | none => countDupNodesFrom (some nr) rest

/-- all segments of a set of ways (`extract_segments_from_ways` for distinct way ids) -/
def allSegments (ways : List (List Node)) : List Seg := ways.flatMap extractSegments

/-! ## open rings and touching points (create_locations_list + find_split_locations) -/

def insertVec (v : Vec) : List Vec → List Vec
  | [] => [v]
  | h :: t => if v.lt h then v :: h :: t else h :: insertVec v t

/-- the locations of `m_locations` in sorted order: both end points of every segment -/
def endpointList (segs : List Seg) : List Vec :=
  (segs.flatMap fun s => [s.first, s.second]).foldr insertVec []

/-- `find_split_locations` on the sorted end point list: (open_rings, split locations).
    `prev` = `previous_location`, `splits` = `m_split_locations` (most recent first). -/
def splitScan : Nat → Option Vec → List Vec → List Vec → Nat × List Vec
  | 0, _, splits, _ => (0, splits)
  | _ + 1, _, splits, [] => (0, splits)
  | _ + 1, _, splits, [_] => (1, splits)
  | fuel + 1, prev, splits, a :: b :: rest =>
    if a != b then
      let (o, s) := splitScan fuel (some a) splits (b :: rest)
      (o + 1, s)
    else
      let splits' := if prev == some a && splits.head? != some a then a :: splits else splits
      splitScan fuel (some a) splits' rest

def openAndSplit (segs : List Seg) : Nat × Nat :=
  let l := endpointList segs
  let (o, s) := splitScan (l.length + 1) none [] l
  (o, s.length)

/-! ## rings: shoelace sum and direction -/

/-- a segment inside a ring: the normalised segment and its `m_reverse` flag -/
structure DSeg where
  seg : Seg
  rev : Bool
deriving DecidableEq, Repr, Inhabited

namespace DSeg
/-- `start()` -/
def start (d : DSeg) : Vec := if d.rev then d.seg.second else d.seg.first
/-- `stop()` -/
def stop (d : DSeg) : Vec := if d.rev then d.seg.first else d.seg.second
/-- `det()` : `vec(start()) * vec(stop())` -/
def det (d : DSeg) : Int := d.start.cross d.stop
/-- `NodeRefSegment::reverse()` -/
def flip (d : DSeg) : DSeg := { d with rev := !d.rev }
/-- the directed segment from `a` to `b` -/
def ofPoints (a b : Vec) : DSeg := ⟨Seg.ofEnds a b, !(a.lt b)⟩
end DSeg

/-- `ProtoRing::m_segments` -/
abbrev Ring := List DSeg

namespace Ring
/-- `m_sum` as `add_segment_back` accumulates it: Σ det -/
def sum : Ring → Int
  | [] => 0
  | d :: r => d.det + sum r
/-- `ProtoRing::reverse()` on the segment vector: every segment flipped, order reversed
    (the C++ code also sets `m_sum = -m_sum`; `shoelace_reverse` shows this is the sum of the
    reversed ring). -/
def reverse (r : Ring) : Ring := (r.map DSeg.flip).reverse
/-- `is_cw()` : `m_sum <= 0` -/
def isCw (r : Ring) : Bool := decide (r.sum ≤ 0)
/-- `fix_direction()` : `if (is_cw() == is_outer()) reverse();` -/
def fixDirection (r : Ring) (isOuter : Bool) : Ring :=
  if r.isCw == isOuter then r.reverse else r
/-- node locations in ring order: start of the first segment, then every stop
    (`build_ring_from_proto_ring`) -/
def points : Ring → List Vec
  | [] => []
  | d :: r => d.start :: (d :: r).map DSeg.stop
end Ring

/-- directed segments between consecutive points -/
def ringOfPoints : List Vec → Ring
  | a :: b :: rest => DSeg.ofPoints a b :: ringOfPoints (b :: rest)
  | _ => []

/-! ## the validity specification -/

/-- an outer ring with the inner rings attached to it (node locations in ring order, first =
    last for a closed ring), as `add_rings_to_area` writes them -/
structure OuterRing where
  outer : List Vec
  inners : List (List Vec)
deriving Repr

abbrev MP := List OuterRing

/-- normalised segments of a point sequence -/
def pointSegs : List Vec → List Seg
  | a :: b :: rest => Seg.ofEnds a b :: pointSegs (b :: rest)
  | _ => []

/-- shoelace sum Σ pᵢ × pᵢ₊₁ of a point sequence (= twice the signed area when closed) -/
def shoelace : List Vec → Int
  | a :: b :: rest => a.cross b + shoelace (b :: rest)
  | _ => 0

def ringClosed (pts : List Vec) : Bool :=
  match pts.head?, pts.getLast? with
  | some a, some b => a == b
  | _, _ => false

/-- Even-odd ray cast in DOUBLED coordinates (so that segment midpoints are integral): does a
    ray from `p2` (already doubled) towards +x cross the ring an odd number of times?
    An edge (a,b) is crossed when exactly one end is strictly above the ray and the crossing
    lies strictly to the right of the point — decided by the sign of a cross product. -/
def crossesRay (p2 a b : Vec) : Bool :=
  let ax := 2 * a.x
  let ay := 2 * a.y
  let bx := 2 * b.x
  let by' := 2 * b.y
  if decide (ay > p2.y) == decide (by' > p2.y) then false
  else
    let dy := by' - ay
    let lhs := (p2.x - ax) * dy
    let rhs := (p2.y - ay) * (bx - ax)
    if dy > 0 then decide (lhs < rhs) else decide (lhs > rhs)

def rayParity (p2 : Vec) : List Vec → Bool
  | a :: b :: rest => xor (crossesRay p2 a b) (rayParity p2 (b :: rest))
  | _ => false

/-- doubled midpoints of the edges of a ring -/
def midpoints2 : List Vec → List Vec
  | a :: b :: rest => ⟨a.x + b.x, a.y + b.y⟩ :: midpoints2 (b :: rest)
  | _ => []

/-- `some true` : every edge midpoint of `r` is inside `r'`; `some false` : every one is
    outside; `none` : mixed (the rings cross) -/
def sideOf (r r' : List Vec) : Option Bool :=
  let ins := (midpoints2 r).map fun m => rayParity m r'
  if ins.all id then (if ins.isEmpty then none else some true)
  else if ins.all (!·) then some false
  else none

/-- all rings of a multipolygon with (index of own outer ring among all rings, or none) -/
def allRings (mp : MP) : List (List Vec) :=
  mp.flatMap fun o => o.outer :: o.inners

/-- number of OTHER rings that contain ring number `i` -/
def depthOf (rings : List (List Vec)) (i : Nat) : Nat :=
  match rings[i]? with
  | none => 0
  | some r =>
    ((List.range rings.length).filter fun j => j != i && sideOf r (rings.getD j []) == some true).length

/-- segments of odd multiplicity: the even-odd target -/
def oddIn (input : List Seg) (s : Seg) : Bool := input.count s % 2 == 1

/-- `segs` is, as a set, exactly the set of input segments of odd multiplicity -/
def targetOk (input segs : List Seg) : Bool :=
  segs.all (oddIn input) && input.all fun s => !oddIn input s || segs.contains s

/-- pairwise check on a list -/
def allPairs (p : Seg → Seg → Bool) : List Seg → Bool
  | [] => true
  | s :: rest => rest.all (p s) && allPairs p rest

/-- The clauses of C10's "valid multipolygon covering exactly the input's region", each as an
    executable check; `input` = all segments extracted from the input ways. -/
structure Verdict where
  nonEmpty : Bool      -- at least one ring
  closed : Bool        -- every ring closed
  fourPoints : Bool    -- every ring has ≥ 4 points
  distinct : Bool      -- no ring segment occurs twice (no overlap of identical segments)
  noCrossing : Bool    -- no two ring segments cross / overlap (calculate_intersection both ways)
  orientation : Bool   -- outer rings counter-clockwise (shoelace > 0), inner rings clockwise (< 0)
  consistent : Bool    -- any two rings: one entirely inside or entirely outside the other
  innerInOuter : Bool  -- every inner ring inside its outer ring, directly (depth = depth outer + 1)
  outerEven : Bool     -- every outer ring is inside an even number of other rings
  target : Bool        -- ring segments = input segments of odd multiplicity
deriving Repr

def judge (input : List Seg) (mp : MP) : Verdict :=
  let rings := allRings mp
  let segs := rings.flatMap pointSegs
  let n := rings.length
  let idx := List.range n
  -- (ring index, is outer, index of its outer ring)
  let roles : List (Nat × Bool × Nat) :=
    (mp.foldl (fun (acc : List (Nat × Bool × Nat) × Nat) o =>
      let oi := acc.2
      let inn := (List.range o.inners.length).map fun k => (oi + 1 + k, false, oi)
      (acc.1 ++ (oi, true, oi) :: inn, oi + 1 + o.inners.length)) ([], 0)).1
  { nonEmpty := !rings.isEmpty
    closed := rings.all ringClosed
    fourPoints := rings.all fun r => decide (r.length ≥ 4)
    distinct := allPairs (fun a b => a != b) segs
    noCrossing := allPairs (fun a b => !(a.intersect? b) && !(b.intersect? a)) segs
    orientation := mp.all fun o =>
      decide (shoelace o.outer > 0) && o.inners.all fun i => decide (shoelace i < 0)
    consistent := idx.all fun i => idx.all fun j =>
      i == j || (sideOf (rings.getD i []) (rings.getD j [])).isSome
    innerInOuter := roles.all fun (i, isOuter, oi) =>
      isOuter || (sideOf (rings.getD i []) (rings.getD oi []) == some true &&
                  depthOf rings i == depthOf rings oi + 1)
    outerEven := roles.all fun (i, isOuter, _) => !isOuter || depthOf rings i % 2 == 0
    target := targetOk input segs }

def Verdict.ok (v : Verdict) : Bool :=
  v.nonEmpty && v.closed && v.fourPoints && v.distinct && v.noCrossing && v.orientation &&
  v.consistent && v.innerInOuter && v.outerEven && v.target

/-- names of the clauses that fail (diagnostics for the driver) -/
def Verdict.failing (v : Verdict) : List String :=
  (if v.nonEmpty then [] else ["no-rings"]) ++
  (if v.closed then [] else ["ring-not-closed"]) ++
  (if v.fourPoints then [] else ["ring-too-short"]) ++
  (if v.distinct then [] else ["segment-twice"]) ++
  (if v.noCrossing then [] else ["segments-cross"]) ++
  (if v.orientation then [] else ["orientation"]) ++
  (if v.consistent then [] else ["rings-cross"]) ++
  (if v.innerInOuter then [] else ["inner-not-in-outer"]) ++
  (if v.outerEven then [] else ["outer-at-odd-depth"]) ++
  (if v.target then [] else ["not-even-odd-fill"])

/-- `Valid input mp` : `mp` is a valid multipolygon covering exactly the even-odd fill of the
    input segments. -/
def Valid (input : List Seg) (mp : MP) : Bool := (judge input mp).ok

/-- What the part of `create_rings()` BEFORE ring building decides, as a function of the
    segment list: (nodes, erased pairs, overlapping, intersections, open rings, touching points).
    `intersections > 0`, `open rings > 0` or an empty list mean "rejected". -/
structure PreCheck where
  nodes : Nat
  pairs : Nat
  overlapping : Nat
  remaining : Nat
  intersections : Nat
  openRings : Nat
  touching : Nat
deriving Repr

def preCheck (input : List Seg) : PreCheck :=
  let sorted := sortSegs input
  let (l, pairs, ov) := eraseDuplicatesFull sorted
  if l.isEmpty then ⟨input.length, pairs, ov, 0, 0, 0, 0⟩
  else
    let ix := findIntersections l
    if ix > 0 then ⟨input.length, pairs, ov, l.length, ix, 0, 0⟩
    else
      let (o, t) := openAndSplit l
      ⟨input.length, pairs, ov, l.length, ix, o, if o > 0 then 0 else t⟩


/-! ## ring building (basic_assembler.hpp): `m_locations`, `find_split_locations`, the simple case

Transcribed from include/osmium/area/detail/basic_assembler.hpp:
`struct slocation`, `create_locations_list`, `find_split_locations`, `get_next_segment`,
`add_new_ring`, `create_rings_simple_case`, `find_enclosing_ring`, `remove_duplicates`,
`is_split_location`, `add_new_ring_complex` and the first two loops of
`create_rings_complex_case`; from proto_ring.hpp: `add_segment_back`, `reverse`, `fix_direction`.

`segs` below is `m_segment_list` as it is when ring building starts: sorted, duplicates
cancelled (`eraseDuplicates (sortSegs input)`).  A segment is addressed by its index (`item`).
Per-segment mutable state of the C++ code and how it is represented here:
  * `m_ring` / `is_done()`        : the segment's index is in the list `ds` (= it is in some ring);
  * `m_reverse`                   : the `reverse` flag stored with the segment in its ring
                                    (a segment that is in no ring has never been reversed: false);
  * `m_direction_done`            : in the simple case it is set exactly when the segment is put
                                    into a ring (`mark_direction_done` next to every
                                    `add_segment_back`), so it equals `is_done()` whenever
                                    `find_enclosing_ring` looks at it.
-/

/-- `BasicAssembler::slocation` : segment number and which end (`reverse` = `second()`). -/
structure SLoc where
  item : Nat
  reverse : Bool
deriving DecidableEq, Repr, Inhabited

/-- `m_segment_list[i]`.  (Reads past the end are never performed — `locations_items_lt`,
    `getNext_spec` — the default segment only makes the function total.) -/
def segAt (segs : List Seg) (i : Nat) : Seg := segs.getD i default

namespace SLoc
/-- `slocation::location(segment_list)` : `reverse ? second() : first()`.  For a ring entry
    (segment + its `m_reverse`) this is `start()`. -/
def loc (segs : List Seg) (s : SLoc) : Vec :=
  if s.reverse then (segAt segs s.item).second else (segAt segs s.item).first
/-- `stop()` of a ring entry : `m_reverse ? first() : second()` -/
def stop (segs : List Seg) (s : SLoc) : Vec :=
  if s.reverse then (segAt segs s.item).first else (segAt segs s.item).second
/-- the other end of the same segment / `NodeRefSegment::reverse()` on a ring entry -/
def flip (s : SLoc) : SLoc := ⟨s.item, !s.reverse⟩
end SLoc

/-- what `create_locations_list` pushes before sorting: (0,false), (0,true), (1,false), … -/
def allSLocs : Nat → List SLoc
  | 0 => []
  | n + 1 => allSLocs n ++ [⟨n, false⟩, ⟨n, true⟩]

/-- insertion that keeps equal locations in their original order when elements are inserted
    from the back (`foldr`): `x` goes in front of the first element that is not smaller. -/
def insertSLoc (segs : List Seg) (x : SLoc) : List SLoc → List SLoc
  | [] => [x]
  | h :: t => if (h.loc segs).lt (x.loc segs) then h :: insertSLoc segs x t else x :: h :: t

/-- `create_locations_list()` : `std::stable_sort` by location.  Every stable sort produces this
    list (`locations_stable`: sorted by location, ties in the order (item, reverse)). -/
def locationsList (segs : List Seg) : List SLoc :=
  (allSLocs segs.length).foldr (insertSLoc segs) []

/-- default-constructed `osmium::Location` (`previous_location` in `find_split_locations`):
    both coordinates `undefined_coordinate = 2147483647`. -/
def undefinedLoc : Vec := ⟨2147483647, 2147483647⟩

/-- the loop of `find_split_locations()` over `m_locations`.  `prev` = `previous_location`,
    `splits` = `m_split_locations` (push order).  Result: the slocations reported with
    `report_ring_not_closed` (`m_stats.open_rings` = their number) and `m_split_locations`.
    The `if (it == m_locations.end()) break;` after `++it` is dead code (`std::next(it)` was
    just seen not to be the end). -/
def findSplitScan (segs : List Seg) : Vec → List Vec → List SLoc → List SLoc × List Vec
  | _, splits, [] => ([], splits)
  | _, splits, [a] => ([a], splits)
  | prev, splits, a :: b :: rest =>
    if a.loc segs != b.loc segs then
      ((findSplitScan segs (a.loc segs) splits (b :: rest)).1.cons a,
       (findSplitScan segs (a.loc segs) splits (b :: rest)).2)
    else
      findSplitScan segs (a.loc segs)
        (if a.loc segs == prev && (splits.isEmpty || splits.getLast? != some prev)
         then splits ++ [prev] else splits) rest

/-- `find_split_locations()` : (reported open ends, `m_split_locations`); the C++ function
    returns `open_rings == 0`. -/
def findSplitLocations (segs : List Seg) : List SLoc × List Vec :=
  findSplitScan segs undefinedLoc [] (locationsList segs)

/-- `is_split_location` : `std::find` in `m_split_locations` -/
def isSplitLocation (splits : List Vec) (v : Vec) : Bool := splits.contains v

/-- `get_next_segment(location)` : `std::lower_bound` in `m_locations` (= the first element whose
    location is not smaller: the list is sorted), then `if (is_done) ++it`.  `none` = one of the
    three `assert`s fails (with NDEBUG the C++ code would read past the end / return a segment
    that is already in a ring: outside the model). -/
def getNext (segs : List Seg) (locs : List SLoc) (ds : List Nat) (location : Vec) : Option Nat :=
  match locs.dropWhile (fun x => (x.loc segs).lt location) with
  | [] => none
  | a :: rest =>
    if ds.contains a.item then
      match rest with
      | [] => none
      | b :: _ => if ds.contains b.item then none else some b.item
    else some a.item

/-- the `while (first_location != last_location)` loop of `add_new_ring`.  `ds` = segments that
    are in a ring, `cur` = `ring->segments()` with the `m_reverse` flags.  `fuel` bounds the number
    of iterations (`none` when it runs out; `ring_loop_terminates`: the number of segments not yet
    in a ring is enough).  The segment found has never been reversed, so `start()` is `first()`:
    it is reversed iff `first() != last_location`. -/
def ringLoop (segs : List Seg) (locs : List SLoc) :
    Nat → Vec → Vec → List Nat → List SLoc → Option (List Nat × List SLoc)
  | 0, first, last, ds, cur => if first == last then some (ds, cur) else none
  | fuel + 1, first, last, ds, cur =>
    if first == last then some (ds, cur)
    else
      match getNext segs locs ds last with
      | none => none
      | some r =>
        let e : SLoc := ⟨r, (segAt segs r).first != last⟩
        ringLoop segs locs fuel first (e.stop segs) (r :: ds) (cur ++ [e])

/-- `ProtoRing` : `m_segments` (with each segment's `m_reverse`) and `m_outer_ring` (index into
    `m_rings`; `none` = outer ring).  `m_sum` is `Ring.sum` of `ringOf`. -/
structure PRing where
  segs : List SLoc
  outer : Option Nat
deriving DecidableEq, Repr, Inhabited

/-- the directed segments of a ring -/
def ringOf (segs : List Seg) (r : List SLoc) : Ring := r.map fun x => ⟨segAt segs x.item, x.reverse⟩

/-- `ProtoRing::reverse()` on the entries -/
def revEntries (r : List SLoc) : List SLoc := (r.map SLoc.flip).reverse

/-- `ProtoRing::fix_direction()` : `if (is_cw() == is_outer()) reverse();` -/
def fixEntries (segs : List Seg) (r : List SLoc) (isOuter : Bool) : List SLoc :=
  if (ringOf segs r).isCw == isOuter then revEntries r else r

/-- What `find_enclosing_ring` may answer: the index of the enclosing outer ring (`some (some k)`),
    "this is an outer ring" (`some none`), or an `assert` failure (`none`).  The theorems about
    ring building quantify over ALL such functions — `find_enclosing_ring` compares heights as
    `double`s, and nothing that is proved depends on what it answers. -/
abbrev Enclosing := List PRing → Nat → Option (Option Nat)

/-- `add_new_ring(node)`.  Returns the new `m_rings`, the new set of done segments and the number
    of segments of the ring (`nodes`). -/
def addNewRing (enc : Enclosing) (segs : List Seg) (locs : List SLoc) (rings : List PRing)
    (ds : List Nat) (node : SLoc) : Option (List PRing × List Nat × Nat) :=
  -- if (node.reverse) segment->reverse();   (the ring entry `node` itself: start() = node.loc)
  -- if (segment != &m_segment_list.front()) outer_ring = find_enclosing_ring(segment);
  match (if node.item != 0 then enc rings node.item else some none) with
  | none => none
  | some outer =>
    -- m_rings.emplace_back(segment): the segment is done; first/last location
    match ringLoop segs locs (segs.length - (ds.length + 1)) (node.loc segs) (node.stop segs)
        (node.item :: ds) [node] with
    | none => none
    | some (ds', cur) =>
      -- ring->fix_direction()
      some (rings ++ [⟨fixEntries segs cur outer.isNone, outer⟩], ds', cur.length)

/-- the `for (const slocation& sl : m_locations)` loop of `create_rings_simple_case`;
    `cnt` = `count_remaining` (only compared with 0; `Int` so that no wrap-around is hidden). -/
def simpleFor (enc : Enclosing) (segs : List Seg) (locs : List SLoc) :
    List SLoc → List PRing → List Nat → Int → Option (List PRing × List Nat)
  | [], rings, ds, _ => some (rings, ds)
  | sl :: rest, rings, ds, cnt =>
    if ds.contains sl.item then simpleFor enc segs locs rest rings ds cnt
    else
      match addNewRing enc segs locs rings ds sl with
      | none => none
      | some (rings', ds', nodes) =>
        if cnt - nodes == 0 then some (rings', ds')
        else simpleFor enc segs locs rest rings' ds' (cnt - nodes)

/-- `create_rings_simple_case()` : `m_rings` and the segments that are in a ring. -/
def createRingsSimple (enc : Enclosing) (segs : List Seg) : Option (List PRing × List Nat) :=
  simpleFor enc segs (locationsList segs) (locationsList segs) [] [] segs.length

/-! ### `find_enclosing_ring` (uses `double`: executable, kept out of the theorems) -/

/-- (ring index, m_reverse) of segment `i` if it is in a ring -/
def lookupSeg (rings : List PRing) (i : Nat) : Option (Nat × Bool) :=
  let rec go : List PRing → Nat → Option (Nat × Bool)
    | [], _ => none
    | r :: rest, k =>
      match r.segs.find? (fun x => x.item == i) with
      | some x => some (k, x.reverse)
      | none => go rest (k + 1)
  go rings 0

/-- the first `while` of `find_enclosing_ring` : move to the last segment of the group that
    starts in `location` + 1 (or stay on the last segment of the list) -/
def skipGroup (segs : List Seg) (location : Vec) : Nat → Nat → Nat
  | 0, s => s
  | fuel + 1, s =>
    if (segAt segs s).first == location then
      (if s + 1 == segs.length then s else skipGroup segs location fuel (s + 1))
    else s

/-- `rings_stack_element` -/
structure StackEl where
  y : Float
  ring : Nat

/-- one iteration of the second `while` of `find_enclosing_ring` for segment number `s` -/
def enclosingStep (segs : List Seg) (rings : List PRing) (location endLocation : Vec)
    (s : Nat) (acc : Int × List StackEl) : Int × List StackEl :=
  match lookupSeg rings s with
  | none => acc                                   -- !is_direction_done()
  | some (k, rev) =>
    let a := (segAt segs s).first
    let b := (segAt segs s).second
    let isOuter := ((rings.getD k default).outer).isNone
    if a == location then
      let z := (b.x - a.x) * (endLocation.y - a.y) - (b.y - a.y) * (endLocation.x - a.x)
      if z > 0 then
        (acc.1 + (if rev then -1 else 1),
         if isOuter then acc.2 ++ [⟨Float.ofInt a.y, k⟩] else acc.2)
      else acc
    else if a.x ≤ location.x && location.x < b.x then
      let z := (b.x - a.x) * (location.y - a.y) - (b.y - a.y) * (location.x - a.x)
      if z ≥ 0 then
        (acc.1 + (if rev then -1 else 1),
         if isOuter then
           acc.2 ++ [⟨Float.ofInt a.y + Float.ofInt ((b.y - a.y) * (location.x - a.x)) / Float.ofInt (b.x - a.x), k⟩]
         else acc.2)
      else acc
    else acc

/-- segments `s, s-1, …, 0` -/
def enclosingScan (segs : List Seg) (rings : List PRing) (location endLocation : Vec) :
    Nat → Int × List StackEl → Int × List StackEl
  | 0, acc => enclosingStep segs rings location endLocation 0 acc
  | s + 1, acc =>
    enclosingScan segs rings location endLocation s (enclosingStep segs rings location endLocation (s + 1) acc)

/-- stable insertion into a list sorted ascending by `y` (after the equal elements) -/
def insertEl (e : StackEl) : List StackEl → List StackEl
  | [] => [e]
  | h :: t => if e.y < h.y then e :: h :: t else h :: insertEl e t

/-- `std::stable_sort(outer_rings.rbegin(), outer_rings.rend())` : the reversed vector sorted
    ascending (stable), read backwards again -/
def sortStack (l : List StackEl) : List StackEl :=
  (l.reverse.foldl (fun acc e => insertEl e acc) []).reverse

/-- `remove_duplicates` : erase adjacent pairs with the same ring until there is none -/
def removeDupStep : List StackEl → Option (List StackEl)
  | a :: b :: rest =>
    if a.ring == b.ring then some rest else (removeDupStep (b :: rest)).map (a :: ·)
  | _ => none

def removeDups : Nat → List StackEl → List StackEl
  | 0, l => l
  | fuel + 1, l =>
    match removeDupStep l with
    | none => l
    | some l' => removeDups fuel l'

/-- `find_enclosing_ring(&m_segment_list[s])` -/
def findEnclosingRing (segs : List Seg) : Enclosing := fun rings s =>
  let location := (segAt segs s).first
  let endLocation := (segAt segs s).second
  let s' := skipGroup segs location segs.length s
  let (nesting, stack) := enclosingScan segs rings location endLocation s' (0, [])
  if nesting % 2 == 0 then some none
  else
    match removeDups stack.length (sortStack stack) with
    | [] => none                                  -- assert(!outer_rings.empty())
    | e :: _ => some (some e.ring)

/-! ### the complex case: partial rings between split locations -/

/-- the loop of `add_new_ring_complex` :
    `while (first_location != last_location && !is_split_location(last_location))` -/
def ringLoopComplex (segs : List Seg) (locs : List SLoc) (splits : List Vec) :
    Nat → Vec → Vec → List Nat → List SLoc → Option (List Nat × List SLoc)
  | 0, first, last, ds, cur =>
    if first == last || isSplitLocation splits last then some (ds, cur) else none
  | fuel + 1, first, last, ds, cur =>
    if first == last || isSplitLocation splits last then some (ds, cur)
    else
      match getNext segs locs ds last with
      | none => none
      | some r =>
        let e : SLoc := ⟨r, (segAt segs r).first != last⟩
        ringLoopComplex segs locs splits fuel first (e.stop segs) (r :: ds) (cur ++ [e])

/-- `add_new_ring_complex(node)` : the new (possibly open) ring and the done set -/
def addNewRingComplex (segs : List Seg) (locs : List SLoc) (splits : List Vec)
    (ds : List Nat) (node : SLoc) : Option (List Nat × List SLoc) :=
  ringLoopComplex segs locs splits (segs.length - (ds.length + 1)) (node.loc segs) (node.stop segs)
    (node.item :: ds) [node]

/-- `for (auto& loc : locs) if (!is_done) { count_remaining -= add_new_ring_complex(loc); if (count_remaining == 0) break; }`
    — both loops of `create_rings_complex_case` have this body; the result says whether the
    `break` was taken. -/
def complexFor (segs : List Seg) (locs : List SLoc) (splits : List Vec) :
    List SLoc → List (List SLoc) → List Nat → Int → Option (List (List SLoc) × List Nat × Int × Bool)
  | [], rings, ds, cnt => some (rings, ds, cnt, false)
  | sl :: rest, rings, ds, cnt =>
    if ds.contains sl.item then complexFor segs locs splits rest rings ds cnt
    else
      match addNewRingComplex segs locs splits ds sl with
      | none => none
      | some (ds', cur) =>
        if cnt - cur.length == 0 then some (rings ++ [cur], ds', cnt - cur.length, true)
        else complexFor segs locs splits rest (rings ++ [cur]) ds' (cnt - cur.length)

/-- `std::equal_range` in the sorted `m_locations` : the slocations at `location` -/
def equalRange (segs : List Seg) (locs : List SLoc) (location : Vec) : List SLoc :=
  (locs.dropWhile (fun x => (x.loc segs).lt location)).takeWhile (fun x => !(location.lt (x.loc segs)))

/-- first loop of `create_rings_complex_case` : over `m_split_locations`.  (The `break` only
    leaves the inner loop; with `count_remaining == 0` every later segment is done.) -/
def complexSplitLoop (segs : List Seg) (locs : List SLoc) (splits : List Vec) :
    List Vec → List (List SLoc) → List Nat → Int → Option (List (List SLoc) × List Nat × Int)
  | [], rings, ds, cnt => some (rings, ds, cnt)
  | v :: rest, rings, ds, cnt =>
    match complexFor segs locs splits (equalRange segs locs v) rings ds cnt with
    | none => none
    | some (rings', ds', cnt', _) => complexSplitLoop segs locs splits rest rings' ds' cnt'

/-- the part of `create_rings_complex_case` that cuts the segments into partial rings: both
    loops (the merging/searching that follows is NOT modelled). -/
def createPieces (segs : List Seg) (splits : List Vec) : Option (List (List SLoc) × List Nat) :=
  let locs := locationsList segs
  match complexSplitLoop segs locs splits splits [] [] segs.length with
  | none => none
  | some (rings, ds, cnt) =>
    if cnt > 0 then
      (complexFor segs locs splits locs rings ds cnt).map fun (r, d, _, _) => (r, d)
    else some (rings, ds)

end Osmium.Area
