/-
C17 — geometry exports (DESIGN.md §3 C17).  Core-only executable model of

  include/osmium/geom/factory.hpp      GeometryFactory<TGeomImpl,TProjection>
  include/osmium/geom/wkb.hpp          detail::WKBFactoryImpl   (WKB / EWKB / hex)
  include/osmium/geom/wkt.hpp          detail::WKTFactoryImpl   (WKT / EWKT)
  include/osmium/geom/geojson.hpp      detail::GeoJSONFactoryImpl
  include/osmium/geom/coordinates.hpp  Coordinates::append_to_string
  include/osmium/util/double.hpp       double2string

Coordinates stay symbolic: `P` is "a projected point"; the projection is a parameter
`proj : Location → Except Err P` (IdentityProjection / MercatorProjection both call
`Location::lon()/lat()`, which throw `invalid_location` for an invalid location).  The WKB
implementation sees a point through `bits : P → Dbl × Dbl` (the two IEEE doubles as opaque
8-byte values, host byte order = little endian), the text implementations through
`fmt : P → String × String` (the two coordinates printed by `double2string` at the factory's
precision).

The C++ factory is a template over the implementation class; here `Impl P σ O` is the record of
the implementation's member functions over its state `σ`, and `Factory.create*` are the
template's member functions, transcribed statement by statement.

`Variant.fixed` is the code as it is now, i.e. with the fix commits 5a3ae5e (double2string),
e768562 (first element of a unique fill), d672e4f (ring point count) — the model's main line.
`Variant.beforeFix` is the code before those commits (findings F9, F10, precision-0 zero
stripping, short rings); it is kept so that the refutations stay documented and so that the
check's regression probes can still run the old behaviour through the driver (op letter
`c` = before the fixes, `r` = fixed; the check picks the letter by probing the real code).
-/
namespace Osmium.Geom

/-! ## Locations, errors, options -/

/-- osm/location.hpp `class Location`: two int32 fixed-point coordinates. -/
structure Location where
  x : Int
  y : Int
deriving DecidableEq, Repr

/-- `Location::undefined_coordinate = 2147483647` -/
def undefinedCoordinate : Int := 2147483647

/-- `Location()` : both coordinates undefined. -/
def Location.undefined : Location := ⟨undefinedCoordinate, undefinedCoordinate⟩

/-- `Location::valid()` -/
def Location.valid (l : Location) : Bool :=
  decide (-1800000000 ≤ l.x) && decide (l.x ≤ 1800000000) &&
  decide (-900000000 ≤ l.y) && decide (l.y ≤ 900000000)

/-- exception classes: `osmium::geometry_error`, `osmium::invalid_location` -/
inductive Err
  | geometry
  | location
deriving DecidableEq, Repr

/-- the code before the fix commits / the code as it is now -/
inductive Variant
  | beforeFix
  | fixed
deriving DecidableEq, Repr

/-- `use_nodes::unique|all`, `direction::forward|backward` -/
structure Opts where
  unique : Bool
  backward : Bool
deriving DecidableEq, Repr

/-! ## Geometries (the decoded form every format must agree on) -/

structure Poly (P : Type) where
  outer : List P
  inners : List (List P)
deriving DecidableEq, Repr

inductive Geom (P : Type)
  | point (p : P)
  | linestring (ps : List P)
  | polygon (p : Poly P)
  | multipolygon (polys : List (Poly P))
deriving DecidableEq, Repr

def Poly.map {P Q : Type} (f : P → Q) (p : Poly P) : Poly Q :=
  ⟨p.outer.map f, p.inners.map (·.map f)⟩

def Geom.map {P Q : Type} (f : P → Q) : Geom P → Geom Q
  | .point p => .point (f p)
  | .linestring ps => .linestring (ps.map f)
  | .polygon p => .polygon (p.map f)
  | .multipolygon polys => .multipolygon (polys.map (·.map f))

def Poly.rings {P : Type} (p : Poly P) : List (List P) := p.outer :: p.inners

/-! ## OSM objects handed to the factory -/

/-- one sub-item of an `osmium::Area`: `(true, nodes)` = OuterRing, `(false, nodes)` = InnerRing,
in buffer order (other sub-items, e.g. the tag list, are skipped by `create_multipolygon`). -/
abbrev RingItem := Bool × List Location

inductive Obj
  | node (l : Location)                 -- create_point
  | way (nodes : List Location)         -- create_linestring
  | wayPolygon (nodes : List Location)  -- create_polygon
  | area (items : List RingItem)        -- create_multipolygon
deriving Repr

/-- the property's domain for areas: the first ring (if any) is an outer ring (an inner ring
belongs to the polygon of the preceding outer ring; `create_multipolygon` has no polygon to
attach a leading inner ring to and back-patches a stale offset) -/
def Obj.wf : Obj → Prop
  | .area ((false, _) :: _) => False
  | _ => True

/-! ## The specification `geomOf`

Independent of the factory code: the object's coordinate sequence, reversed if requested, with
consecutive duplicates removed if requested, every location projected (an undefined or invalid
location at any position is an error), thresholds 2 (linestring) / 4 (polygon, ring), rings
grouped under the polygon of the preceding outer ring, an area needs at least one ring. -/

/-- remove consecutive duplicates -/
def dedup : List Location → List Location
  | [] => []
  | [a] => [a]
  | a :: b :: rest => if a = b then dedup (b :: rest) else a :: dedup (b :: rest)

def seqOf (o : Opts) (nodes : List Location) : List Location :=
  let s := if o.backward then nodes.reverse else nodes
  if o.unique then dedup s else s

/-- group ring items (right to left): result = (inner rings not yet owned, polygons) -/
def groupAux {P : Type} : List (Bool × List P) → List (List P) × List (Poly P)
  | [] => ([], [])
  | (false, r) :: rest => (r :: (groupAux rest).1, (groupAux rest).2)
  | (true, r) :: rest => ([], ⟨r, (groupAux rest).1⟩ :: (groupAux rest).2)

section spec
variable {P : Type} (proj : Location → Except Err P)

def projAll (ls : List Location) : Except Err (List P) := ls.mapM proj

/-- the ring of an area: always without consecutive duplicates (`add_points`), ≥ 4 points -/
def ringOf (item : RingItem) : Except Err (Bool × List P) := do
  let ps ← projAll proj (dedup item.2)
  if ps.length < 4 then throw .geometry
  pure (item.1, ps)

def geomOf (obj : Obj) (o : Opts) : Except Err (Geom P) :=
  match obj with
  | .node l => do pure (.point (← proj l))
  | .way nodes => do
    let ps ← projAll proj (seqOf o nodes)
    if ps.length < 2 then throw .geometry
    pure (.linestring ps)
  | .wayPolygon nodes => do
    let ps ← projAll proj (seqOf o nodes)
    if ps.length < 4 then throw .geometry
    pure (.polygon ⟨ps, []⟩)
  | .area items => do
    let rings ← items.mapM (ringOf proj)
    if rings.isEmpty then throw .geometry
    pure (.multipolygon (groupAux rings).2)

end spec

/-! ## The implementation interface (`TGeomImpl`) -/

structure Impl (P σ O : Type) where
  init : σ
  makePoint : P → O
  linestringStart : σ → σ
  linestringAdd : σ → P → σ
  linestringFinish : σ → Nat → O
  polygonStart : σ → σ
  polygonAdd : σ → P → σ
  polygonFinish : σ → Nat → O
  mpStart : σ → σ
  mpPolygonStart : σ → σ
  mpPolygonFinish : σ → σ
  mpOuterStart : σ → σ
  mpOuterFinish : σ → σ
  mpInnerStart : σ → σ
  mpInnerFinish : σ → σ
  mpAdd : σ → P → σ
  mpFinish : σ → O

/-! ## GeometryFactory (factory.hpp) -/

namespace Factory

/-- the loop of `fill_linestring_unique` / `fill_polygon_unique` / `add_points` with
`last_location = last`: the locations that are passed on. -/
def uniqueFrom (last : Location) : List Location → List Location
  | [] => []
  | l :: rest => if last != l then l :: uniqueFrom l rest else uniqueFrom last rest

/-- factory.hpp:238-252 (and 311-321, 154-162).  `osmium::Location last_location;` is
default-constructed, i.e. the UNDEFINED location, so a leading undefined location compares
equal to it and is silently skipped (finding F10).  `repaired`: first element always passed on
(commit e768562). -/
def fillUnique (v : Variant) (nodes : List Location) : List Location :=
  match v with
  | .beforeFix => uniqueFrom Location.undefined nodes
  | .fixed =>
    match nodes with
    | [] => []
    | l :: rest => l :: uniqueFrom l rest

section
variable {P σ O : Type} (impl : Impl P σ O) (v : Variant) (proj : Location → Except Err P)

/-- the iteration order: `cbegin..cend` or `crbegin..crend` -/
def iter (backward : Bool) (nodes : List Location) : List Location :=
  if backward then nodes.reverse else nodes

/-- `fill_*` / `fill_*_unique`: returns the new implementation state and `num_points`;
`m_projection(...)` throws for an invalid location, which aborts the whole `create_*`. -/
def fill (add : σ → P → σ) (un : Bool) (s : σ) (seq : List Location) : Except Err (σ × Nat) := do
  let locs := if un then fillUnique v seq else seq
  let s ← locs.foldlM (fun s l => do let p ← proj l; pure (add s p)) s
  pure (s, locs.length)

/-- `create_point(const Location&)` -/
def createPoint (l : Location) : Except Err O := do
  let p ← proj l
  pure (impl.makePoint p)

/-- `create_linestring(const WayNodeList&, use_nodes, direction)` -/
def createLinestring (nodes : List Location) (o : Opts) : Except Err O := do
  let s := impl.linestringStart impl.init
  let (s, numPoints) ← fill v proj impl.linestringAdd o.unique s (iter o.backward nodes)
  if numPoints < 2 then throw .geometry
  pure (impl.linestringFinish s numPoints)

/-- `create_polygon(const WayNodeList&, use_nodes, direction)` -/
def createPolygon (nodes : List Location) (o : Opts) : Except Err O := do
  let s := impl.polygonStart impl.init
  let (s, numPoints) ← fill v proj impl.polygonAdd o.unique s (iter o.backward nodes)
  if numPoints < 4 then throw .geometry
  pure (impl.polygonFinish s numPoints)

/-- local state of `create_multipolygon` -/
structure MpSt (σ : Type) where
  s : σ
  numPolygons : Nat
  numRings : Nat

/-- `add_points(const NodeRefList&)` — always in "unique" mode -/
def addPoints (s : σ) (ring : List Location) : Except Err σ :=
  (fillUnique v ring).foldlM (fun s l => do let p ← proj l; pure (impl.mpAdd s p)) s

/-- one iteration of `for (const auto& item : area)` in `create_multipolygon`.
`repaired` additionally checks the ring's point count (commit d672e4f). -/
def mpItem (st : MpSt σ) (item : RingItem) : Except Err (MpSt σ) :=
  if item.1 then do
    let s := if st.numPolygons > 0 then impl.mpPolygonFinish st.s else st.s
    let s := impl.mpOuterStart (impl.mpPolygonStart s)
    let s ← addPoints impl v proj s item.2
    if v = .fixed ∧ (fillUnique v item.2).length < 4 then throw .geometry
    pure ⟨impl.mpOuterFinish s, st.numPolygons + 1, st.numRings + 1⟩
  else do
    let s ← addPoints impl v proj (impl.mpInnerStart st.s) item.2
    if v = .fixed ∧ (fillUnique v item.2).length < 4 then throw .geometry
    pure ⟨impl.mpInnerFinish s, st.numPolygons, st.numRings + 1⟩

/-- `create_multipolygon(const Area&)` -/
def createMultipolygon (items : List RingItem) : Except Err O := do
  let st ← items.foldlM (mpItem impl v proj) ⟨impl.mpStart impl.init, 0, 0⟩
  if st.numRings == 0 then throw .geometry
  pure (impl.mpFinish (impl.mpPolygonFinish st.s))

def create (obj : Obj) (o : Opts) : Except Err O :=
  match obj with
  | .node l => createPoint impl proj l
  | .way nodes => createLinestring impl v proj nodes o
  | .wayPolygon nodes => createPolygon impl v proj nodes o
  | .area items => createMultipolygon impl v proj items

end
end Factory

/-- the geometry kinds (also `enum wkbGeometryType` in wkb.hpp) -/
inductive GType
  | point
  | linestring
  | polygon
  | multipolygon
deriving DecidableEq, Repr

/-- `enum wkbGeometryType` -/
def GType.code : GType → Nat
  | .point => 1
  | .linestring => 2
  | .polygon => 3
  | .multipolygon => 6

/-! ## WKB (wkb.hpp) -/

/-- an IEEE double as it lies in memory on the (little-endian) host: 8 opaque bytes -/
structure Dbl where
  b0 : UInt8
  b1 : UInt8
  b2 : UInt8
  b3 : UInt8
  b4 : UInt8
  b5 : UInt8
  b6 : UInt8
  b7 : UInt8
deriving DecidableEq, Repr

def Dbl.bytes (d : Dbl) : List UInt8 := [d.b0, d.b1, d.b2, d.b3, d.b4, d.b5, d.b6, d.b7]

abbrev WPoint := Dbl × Dbl

namespace Wkb

/-- `str_push(str, uint32_t)` on a little-endian host -/
def u32le (n : Nat) : List UInt8 :=
  [UInt8.ofNat (n % 256), UInt8.ofNat (n / 256 % 256), UInt8.ofNat (n / 65536 % 256),
   UInt8.ofNat (n / 16777216 % 256)]

def wkbSRID : Nat := 0x20000000

/-- constructor arguments of WKBFactoryImpl: srid (as the uint32 bit pattern of the `int`),
`wkb_type`, `out_type` -/
structure Cfg where
  srid : Nat
  ewkb : Bool
  hex : Bool
deriving DecidableEq, Repr

/-- `header(str, type, add_length)`: returns the new string and the offset of the length field.
Byte order marker: NDR (= 1) — `__BYTE_ORDER == __LITTLE_ENDIAN` on the hosts we run on. -/
def header (c : Cfg) (str : List UInt8) (t : GType) (addLength : Bool) : List UInt8 × Nat :=
  let str := str ++ [1]
  let str := if c.ewkb then str ++ u32le (t.code ||| wkbSRID) ++ u32le c.srid
             else str ++ u32le t.code
  let offset := str.length
  let str := if addLength then str ++ u32le 0 else str
  (str, offset)

/-- `set_size(offset, size)`: `std::copy_n(&s, 4, &m_data[offset])`.  (The `size > UINT32_MAX`
throw is outside the modelled domain: counts are < 2^32, an explicit hypothesis of the
round-trip theorem.) -/
def setSize (data : List UInt8) (offset size : Nat) : List UInt8 :=
  data.take offset ++ u32le size ++ data.drop (offset + 4)

def pointBytes (p : WPoint) : List UInt8 := p.1.bytes ++ p.2.bytes

def hexChar (n : Nat) : UInt8 :=
  if n < 10 then UInt8.ofNat (48 + n) else UInt8.ofNat (55 + n)

/-- `convert_to_hex`: upper-case hex, as ASCII bytes -/
def toHex (bs : List UInt8) : List UInt8 :=
  bs.flatMap fun b => [hexChar (b.toNat / 16), hexChar (b.toNat % 16)]

def out (c : Cfg) (data : List UInt8) : List UInt8 :=
  if c.hex then toHex data else data

/-- member variables of WKBFactoryImpl -/
structure St where
  data : List UInt8 := []
  points : Nat := 0
  linestringSizeOffset : Nat := 0
  polygons : Nat := 0
  rings : Nat := 0
  multipolygonSizeOffset : Nat := 0
  polygonSizeOffset : Nat := 0
  ringSizeOffset : Nat := 0

def impl {P : Type} (bits : P → WPoint) (c : Cfg) : Impl P St (List UInt8) where
  init := {}
  makePoint p := out c ((header c [] .point false).1 ++ pointBytes (bits p))
  linestringStart s :=
    let (d, off) := header c [] .linestring true
    { s with data := d, linestringSizeOffset := off }
  linestringAdd s p := { s with data := s.data ++ pointBytes (bits p) }
  linestringFinish s n := out c (setSize s.data s.linestringSizeOffset n)
  polygonStart s :=
    let (d, off) := header c [] .polygon true
    let d := setSize d off 1
    { s with data := d ++ u32le 0, ringSizeOffset := d.length }
  polygonAdd s p := { s with data := s.data ++ pointBytes (bits p) }
  polygonFinish s n := out c (setSize s.data s.ringSizeOffset n)
  mpStart s :=
    let (d, off) := header c [] .multipolygon true
    { s with data := d, polygons := 0, multipolygonSizeOffset := off }
  mpPolygonStart s :=
    let (d, off) := header c s.data .polygon true
    { s with polygons := s.polygons + 1, rings := 0, data := d, polygonSizeOffset := off }
  mpPolygonFinish s := { s with data := setSize s.data s.polygonSizeOffset s.rings }
  mpOuterStart s :=
    { s with rings := s.rings + 1, points := 0, ringSizeOffset := s.data.length,
             data := s.data ++ u32le 0 }
  mpOuterFinish s := { s with data := setSize s.data s.ringSizeOffset s.points }
  mpInnerStart s :=
    { s with rings := s.rings + 1, points := 0, ringSizeOffset := s.data.length,
             data := s.data ++ u32le 0 }
  mpInnerFinish s := { s with data := setSize s.data s.ringSizeOffset s.points }
  mpAdd s p := { s with data := s.data ++ pointBytes (bits p), points := s.points + 1 }
  mpFinish s := out c (setSize s.data s.multipolygonSizeOffset s.polygons)

/-! ### declarative encoder (what the byte string is, without back-patching) -/

def hdr (c : Cfg) (t : GType) : List UInt8 :=
  [1] ++ (if c.ewkb then u32le (t.code + wkbSRID) ++ u32le c.srid else u32le t.code)

def encPoints (ps : List WPoint) : List UInt8 := ps.flatMap pointBytes

def encRing (r : List WPoint) : List UInt8 := u32le r.length ++ encPoints r

def encRings (rs : List (List WPoint)) : List UInt8 := rs.flatMap encRing

def encPolyBody (p : Poly WPoint) : List UInt8 :=
  u32le (1 + p.inners.length) ++ encRing p.outer ++ encRings p.inners

def encPoly (c : Cfg) (p : Poly WPoint) : List UInt8 := hdr c .polygon ++ encPolyBody p

def encPolys (c : Cfg) (ps : List (Poly WPoint)) : List UInt8 := ps.flatMap (encPoly c)

def encode (c : Cfg) : Geom WPoint → List UInt8
  | .point p => hdr c .point ++ pointBytes p
  | .linestring ps => hdr c .linestring ++ u32le ps.length ++ encPoints ps
  | .polygon p => encPoly c p
  | .multipolygon polys => hdr c .multipolygon ++ u32le polys.length ++ encPolys c polys

/-- the emitted string: binary or hex -/
def emit (c : Cfg) (g : Geom WPoint) : List UInt8 := out c (encode c g)

/-! ### independent decoder -/

def readU32 : List UInt8 → Option (Nat × List UInt8)
  | a :: b :: c :: d :: rest =>
    some (a.toNat + 256 * b.toNat + 65536 * c.toNat + 16777216 * d.toNat, rest)
  | _ => none

def readDbl : List UInt8 → Option (Dbl × List UInt8)
  | a :: b :: c :: d :: e :: f :: g :: h :: rest => some (⟨a, b, c, d, e, f, g, h⟩, rest)
  | _ => none

def readPoint (bs : List UInt8) : Option (WPoint × List UInt8) := do
  let (x, bs) ← readDbl bs
  let (y, bs) ← readDbl bs
  pure ((x, y), bs)

def readPoints : Nat → List UInt8 → Option (List WPoint × List UInt8)
  | 0, bs => some ([], bs)
  | n + 1, bs => do
    let (p, bs) ← readPoint bs
    let (ps, bs) ← readPoints n bs
    pure (p :: ps, bs)

def readRing (bs : List UInt8) : Option (List WPoint × List UInt8) := do
  let (n, bs) ← readU32 bs
  readPoints n bs

def readRings : Nat → List UInt8 → Option (List (List WPoint) × List UInt8)
  | 0, bs => some ([], bs)
  | n + 1, bs => do
    let (r, bs) ← readRing bs
    let (rs, bs) ← readRings n bs
    pure (r :: rs, bs)

/-- what a header says: geometry type, SRID if the EWKB flag is set -/
structure Head where
  gtype : Nat
  srid : Option Nat
deriving DecidableEq, Repr

def readHead (bs : List UInt8) : Option (Head × List UInt8) :=
  match bs with
  | 1 :: bs => do
    let (t, bs) ← readU32 bs
    if t / wkbSRID % 2 = 1 then do
      let (srid, bs) ← readU32 bs
      pure (⟨t % wkbSRID, some srid⟩, bs)
    else pure (⟨t, none⟩, bs)
  | _ => none      -- XDR (0) is never produced on a little-endian host

def readPolyBody (bs : List UInt8) : Option (Poly WPoint × List UInt8) := do
  let (n, bs) ← readU32 bs
  match n with
  | 0 => none
  | n + 1 => do
    let (o, bs) ← readRing bs
    let (inn, bs) ← readRings n bs
    pure (⟨o, inn⟩, bs)

/-- nested polygon of a multipolygon: own header, must repeat the outer SRID convention -/
def readPolys (srid : Option Nat) : Nat → List UInt8 → Option (List (Poly WPoint) × List UInt8)
  | 0, bs => some ([], bs)
  | n + 1, bs => do
    let (h, bs) ← readHead bs
    if h.gtype ≠ 3 ∨ h.srid ≠ srid then none
    let (p, bs) ← readPolyBody bs
    let (ps, bs) ← readPolys srid n bs
    pure (p :: ps, bs)

def hexVal (c : UInt8) : Option Nat :=
  if 48 ≤ c.toNat ∧ c.toNat ≤ 57 then some (c.toNat - 48)
  else if 65 ≤ c.toNat ∧ c.toNat ≤ 70 then some (c.toNat - 55)
  else none

def unHex : List UInt8 → Option (List UInt8)
  | [] => some []
  | [_] => none
  | a :: b :: rest => do
    let x ← hexVal a
    let y ← hexVal b
    let r ← unHex rest
    pure (UInt8.ofNat (16 * x + y) :: r)

/-- decode a binary WKB/EWKB string: (SRID if EWKB, geometry); all input must be consumed -/
def parseBin (bs : List UInt8) : Option (Option Nat × Geom WPoint) := do
  let (h, bs) ← readHead bs
  let (g, rest) ← (match h.gtype with
    | 1 => do
      let (p, bs) ← readPoint bs
      pure (Geom.point p, bs)
    | 2 => do
      let (ps, bs) ← readRing bs
      pure (Geom.linestring ps, bs)
    | 3 => do
      let (p, bs) ← readPolyBody bs
      pure (Geom.polygon p, bs)
    | 6 => do
      let (n, bs) ← readU32 bs
      let (ps, bs) ← readPolys h.srid n bs
      pure (Geom.multipolygon ps, bs)
    | _ => none : Option (Geom WPoint × List UInt8))
  if rest.isEmpty then pure (h.srid, g) else none

def parse (hex : Bool) (bs : List UInt8) : Option (Option Nat × Geom WPoint) :=
  if hex then (unHex bs).bind parseBin else parseBin bs

end Wkb

/-! ## Text formats: token lists over an abstract number formatter -/

/-- lexemes of the two text formats.  `open`/`close` are `(`/`)` in WKT and `[`/`]` in GeoJSON,
`kw` a fixed piece of text (`POINT`, `SRID=4326;`, `{"type":"Point","coordinates":`, `}`),
`num` one printed coordinate. -/
inductive Tok
  | kw (s : String)
  | «open»
  | close
  | comma
  | sp
  | num (s : String)
deriving DecidableEq, Repr

abbrev TPoint := String × String

/-- `str.back() = c` on the token level (the last token is always a one-character lexeme) -/
def setBack (c : Tok) (s : List Tok) : List Tok := s.dropLast ++ [c]

/-- items separated by commas, terminated by `close` -/
def listClose {α : Type} (item : α → List Tok) : List α → List Tok
  | [] => [.close]
  | [a] => item a ++ [.close]
  | a :: b :: rest => item a ++ [.comma] ++ listClose item (b :: rest)

namespace Text

/-- what distinguishes WKTFactoryImpl from GeoJSONFactoryImpl: how a point is written inside a
coordinate list / as a POINT geometry, the text before the first bracket, the text after the
last one.  Everything else (commas, brackets, `str.back() = …`) is the same code. -/
structure Fmt where
  pt : TPoint → List Tok
  ptG : TPoint → List Tok
  head : GType → List Tok
  tail : List Tok

/-- wkt.hpp WKTFactoryImpl / geojson.hpp GeoJSONFactoryImpl, member function by member
function (`m_str` is the state) -/
def impl {P : Type} (T : Fmt) (fmt : P → TPoint) : Impl P (List Tok) (List Tok) where
  init := []
  makePoint p := T.head .point ++ T.ptG (fmt p) ++ T.tail
  linestringStart _ := T.head .linestring ++ [.open]
  linestringAdd s p := s ++ T.pt (fmt p) ++ [.comma]
  linestringFinish s _ := setBack .close s ++ T.tail
  polygonStart _ := T.head .polygon ++ [.open, .open]
  polygonAdd s p := s ++ T.pt (fmt p) ++ [.comma]
  polygonFinish s _ := setBack .close s ++ [.close] ++ T.tail
  mpStart _ := T.head .multipolygon ++ [.open]
  mpPolygonStart s := s ++ [.open]
  mpPolygonFinish s := s ++ [.close, .comma]
  mpOuterStart s := s ++ [.open]
  mpOuterFinish s := setBack .close s
  mpInnerStart s := s ++ [.comma, .open]
  mpInnerFinish s := setBack .close s
  mpAdd s p := s ++ T.pt (fmt p) ++ [.comma]
  mpFinish s := setBack .close s ++ T.tail

/-! declarative encoder -/
def ring (T : Fmt) (r : List TPoint) : List Tok := [.open] ++ listClose T.pt r
def poly (T : Fmt) (p : Poly TPoint) : List Tok := [.open] ++ listClose (ring T) p.rings

def emit (T : Fmt) : Geom TPoint → List Tok
  | .point p => T.head .point ++ T.ptG p ++ T.tail
  | .linestring ps => T.head .linestring ++ [.open] ++ listClose T.pt ps ++ T.tail
  | .polygon p => T.head .polygon ++ poly T p ++ T.tail
  | .multipolygon polys => T.head .multipolygon ++ [.open] ++ listClose (poly T) polys ++ T.tail

/-! independent decoder: recursive descent, generic in the point-list reader `parsePts`
(`fuel` bounds the number of list items) -/
section
variable (parsePts : List Tok → Option (List TPoint × List Tok))

/-- `( pts , ( pts , … ( pts )` -/
def parseRings : Nat → List Tok → Option (List (List TPoint) × List Tok)
  | 0, _ => none
  | fuel + 1, .open :: rest =>
    match parsePts rest with
    | some (r, .comma :: rest) =>
      match parseRings fuel rest with
      | some (rs, rest) => some (r :: rs, rest)
      | none => none
    | some (r, .close :: rest) => some ([r], rest)
    | _ => none
  | _ + 1, _ => none

def parsePoly (fuel : Nat) : List Tok → Option (Poly TPoint × List Tok)
  | .open :: rest =>
    match parseRings parsePts fuel rest with
    | some (o :: inn, rest) => some (⟨o, inn⟩, rest)
    | _ => none
  | _ => none

def parsePolys : Nat → List Tok → Option (List (Poly TPoint) × List Tok)
  | 0, _ => none
  | fuel + 1, toks =>
    match parsePoly parsePts toks.length toks with
    | some (p, .comma :: rest) =>
      match parsePolys fuel rest with
      | some (ps, rest) => some (p :: ps, rest)
      | none => none
    | some (p, .close :: rest) => some ([p], rest)
    | _ => none

end
end Text

namespace Wkt

/-- constructor arguments of WKTFactoryImpl that matter for the text: the `SRID=n;` prefix -/
structure Cfg where
  sridPrefix : Option String     -- `some "SRID=4326;"` for wkt_type::ewkt
deriving DecidableEq, Repr

def pre (c : Cfg) : List Tok :=
  match c.sridPrefix with
  | some s => [.kw s]
  | none => []

def kwOf : GType → String
  | .point => "POINT"
  | .linestring => "LINESTRING"
  | .polygon => "POLYGON"
  | .multipolygon => "MULTIPOLYGON"

/-- `xy.append_to_string(str, ' ', precision)` -/
def pt (p : TPoint) : List Tok := [.num p.1, .sp, .num p.2]

/-- wkt.hpp: `m_srid_prefix + "POINT"`, `xy.append_to_string(str, '(', ' ', ')', …)` -/
def tfmt (c : Cfg) : Text.Fmt where
  pt := pt
  ptG p := [.open] ++ pt p ++ [.close]
  head t := pre c ++ [.kw (kwOf t)]
  tail := []

def impl {P : Type} (fmt : P → TPoint) (c : Cfg) : Impl P (List Tok) (List Tok) :=
  Text.impl (tfmt c) fmt

def emit (c : Cfg) (g : Geom TPoint) : List Tok := Text.emit (tfmt c) g

/-- `x y , x y , … x y )` -/
def parsePts : List Tok → Option (List TPoint × List Tok)
  | .num a :: .sp :: .num b :: .comma :: rest =>
    match parsePts rest with
    | some (ps, rest) => some ((a, b) :: ps, rest)
    | none => none
  | .num a :: .sp :: .num b :: .close :: rest => some ([(a, b)], rest)
  | _ => none

def parseBody (k : String) (toks : List Tok) : Option (Geom TPoint) :=
  if k = "POINT" then
    match toks with
    | [.open, .num a, .sp, .num b, .close] => some (.point (a, b))
    | _ => none
  else if k = "LINESTRING" then
    match toks with
    | .open :: rest =>
      match parsePts rest with
      | some (ps, []) => some (.linestring ps)
      | _ => none
    | _ => none
  else if k = "POLYGON" then
    match Text.parsePoly parsePts toks.length toks with
    | some (p, []) => some (.polygon p)
    | _ => none
  else if k = "MULTIPOLYGON" then
    match toks with
    | .open :: rest =>
      match Text.parsePolys parsePts rest.length rest with
      | some (ps, []) => some (.multipolygon ps)
      | _ => none
    | _ => none
  else none

/-- decode: (SRID prefix if present, geometry) -/
def parse (toks : List Tok) : Option (Option String × Geom TPoint) :=
  match toks with
  | .kw s :: .kw k :: rest =>
    if s.startsWith "SRID=" then (parseBody k rest).map (some s, ·) else none
  | .kw k :: rest => (parseBody k rest).map (none, ·)
  | _ => none

end Wkt

namespace GeoJson

/-- `xy.append_to_string(str, '[', ',', ']', precision)` -/
def pt (p : TPoint) : List Tok := [.open, .num p.1, .comma, .num p.2, .close]

def kwOf : GType → String
  | .point => "{\"type\":\"Point\",\"coordinates\":"
  | .linestring => "{\"type\":\"LineString\",\"coordinates\":"
  | .polygon => "{\"type\":\"Polygon\",\"coordinates\":"
  | .multipolygon => "{\"type\":\"MultiPolygon\",\"coordinates\":"

def kwEnd : String := "}"

def tfmt : Text.Fmt where
  pt := pt
  ptG := pt
  head t := [.kw (kwOf t)]
  tail := [.kw kwEnd]

def impl {P : Type} (fmt : P → TPoint) : Impl P (List Tok) (List Tok) :=
  Text.impl tfmt fmt

def emit (g : Geom TPoint) : List Tok := Text.emit tfmt g

/-- `[x,y] , [x,y] , … [x,y] ]` -/
def parsePts : List Tok → Option (List TPoint × List Tok)
  | .open :: .num a :: .comma :: .num b :: .close :: .comma :: rest =>
    match parsePts rest with
    | some (ps, rest) => some ((a, b) :: ps, rest)
    | none => none
  | .open :: .num a :: .comma :: .num b :: .close :: .close :: rest => some ([(a, b)], rest)
  | _ => none

def parse (toks : List Tok) : Option (Geom TPoint) :=
  match toks with
  | .kw k :: rest =>
    if k = kwOf .point then
      match rest with
      | [.open, .num a, .comma, .num b, .close, .kw e] => if e = kwEnd then some (.point (a, b)) else none
      | _ => none
    else if k = kwOf .linestring then
      match rest with
      | .open :: rest =>
        match parsePts rest with
        | some (ps, [.kw e]) => if e = kwEnd then some (.linestring ps) else none
        | _ => none
      | _ => none
    else if k = kwOf .polygon then
      match Text.parsePoly parsePts rest.length rest with
      | some (p, [.kw e]) => if e = kwEnd then some (.polygon p) else none
      | _ => none
    else if k = kwOf .multipolygon then
      match rest with
      | .open :: rest =>
        match Text.parsePolys parsePts rest.length rest with
        | some (ps, [.kw e]) => if e = kwEnd then some (.multipolygon ps) else none
        | _ => none
      | _ => none
    else none
  | _ => none

end GeoJson

/-! ## double2string (util/double.hpp) as a contract over `snprintf("%.*f")`

`snprintf(buffer, 20, "%.*f", precision, value)` returns the length `len` of the FULL output
(`full`), and stores `min(len, 19)` characters of it followed by NUL.  What the full output is
(the digits) is libc's business (checked by execution, not proved); its SHAPE for a finite value
is `[-] d+ [. d{precision}]` (`Shape`).  The code then reads `buffer[len - 1]` going down: for
`len > 20` that is a read beyond the buffer (F9), for an all-`0` output (`"0"`, precision 0) a
read before it.  Both are explicit error outcomes here. -/

inductive BufErr
  | overread      -- buffer[len-1] with len > 20: stack-buffer over-read
  | underread     -- buffer[-1]: every character was '0'
deriving DecidableEq, Repr

def maxDoubleLength : Nat := 20

/-- `while (buffer[len-1] == '0') --len;` on the reversed buffer prefix; `none` = ran off the
front of the buffer -/
def dropZerosRev : List Char → Option (List Char)
  | [] => none
  | c :: rest => if c = '0' then dropZerosRev rest else some (c :: rest)

/-- `if (buffer[len-1] == '.') --len;` -/
def dropDotRev : List Char → List Char
  | [] => []
  | c :: rest => if c = '.' then rest else c :: rest

/-- the code before 5a3ae5e: 20-byte buffer, trims zeros whether or not there is a decimal point -/
def double2stringBeforeFix (full : List Char) : Except BufErr (List Char) :=
  let len := full.length
  if len > maxDoubleLength then .error .overread
  else if len = maxDoubleLength then
    -- buffer = first 19 characters + NUL; buffer[19] = NUL is neither '0' nor '.', and
    -- copy_n(buffer, 20) copies the NUL as well
    .ok (full.take 19 ++ [Char.ofNat 0])
  else
    match dropZerosRev full.reverse with
    | none => .error .underread
    | some r => .ok (dropDotRev r).reverse

def maxDoubleLengthFixed : Nat := 336

/-- util/double.hpp after 5a3ae5e: `max_double_length = 336` (sign + 309 integer digits + '.' +
17 fraction digits + NUL fits every finite double at precision ≤ 17; a longer output — only
reachable with precision > 17 — is truncated to 335 characters, no out-of-bounds read), and
trailing zeros are removed only when the text contains a decimal point. -/
def double2stringFixed (full : List Char) : Except BufErr (List Char) :=
  let buf := if full.length ≥ maxDoubleLengthFixed then full.take (maxDoubleLengthFixed - 1) else full
  if buf.contains '.' then
    match dropZerosRev buf.reverse with
    | none => .ok buf      -- unreachable: the '.' stops the loop
    | some r => .ok (dropDotRev r).reverse
  else .ok buf

def double2string (v : Variant) (full : List Char) : Except BufErr (List Char) :=
  match v with
  | .beforeFix => double2stringBeforeFix full
  | .fixed => double2stringFixed full

/-- shape of `%.*f` output for a finite double -/
structure Shape where
  neg : Bool
  intDigits : List Char
  frac : List Char
deriving DecidableEq, Repr

def isDigit (c : Char) : Bool := decide ('0' ≤ c ∧ c ≤ '9')

def Shape.wf (s : Shape) : Prop :=
  s.intDigits ≠ [] ∧ (∀ c ∈ s.intDigits, isDigit c = true) ∧ (∀ c ∈ s.frac, isDigit c = true) ∧
  (s.intDigits.head? = some '0' → s.intDigits = ['0'])

/-- precision = number of fraction digits -/
def Shape.precision (s : Shape) : Nat := s.frac.length

def Shape.full (s : Shape) : List Char :=
  (if s.neg then ['-'] else []) ++ s.intDigits ++ (if s.frac = [] then [] else '.' :: s.frac)

/-- `len` as `snprintf` returns it: sign + integer digits (+ 1 + precision if precision > 0) -/
def Shape.len (s : Shape) : Nat :=
  (if s.neg then 1 else 0) + s.intDigits.length + (if s.frac = [] then 0 else 1 + s.frac.length)

/-- split at the first decimal point: (before, point and after) -/
def splitDot : List Char → List Char × List Char
  | [] => ([], [])
  | c :: l => if c = '.' then ([], c :: l) else (c :: (splitDot l).1, (splitDot l).2)

/-- undo the trimming: pad the fraction with zeros up to `p` digits (adding the point) -/
def restore (p : Nat) (t : List Char) : List Char :=
  if p = 0 then t
  else
    (splitDot t).1 ++ '.' :: ((splitDot t).2.drop 1 ++ List.replicate (p - ((splitDot t).2.length - 1)) '0')

end Osmium.Geom
