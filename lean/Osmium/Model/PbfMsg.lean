/-
The two protozero idioms every PBF decoder function is built from.  Core-only.

* `decodeMsg step init fs` — `while (msg.next()) { switch (msg.tag_and_type()) { case …: …; default: msg.skip(); } }`
  over the field list of a message (Wire.readFields of its bytes): a left fold whose step is the
  `switch`; `none` = an exception left the loop (pbf_error, std::out_of_range, protozero exception).
* `unpack` — `varint_range` (pbf_decoder.hpp:84-135): the varints of a packed repeated field.
  The C++ decodes lazily (`while (!r.empty()) r.next()`); the model decodes the whole payload first.
  The two differ only on malformed payloads whose broken tail the C++ loop never reaches (outside the
  domains of C01/C02: those files are produced by encoders).
-/
import Osmium.Model.Wire

namespace Osmium.PbfMsg

open Osmium.Wire

def decodeMsg {σ : Type} (step : σ → Field → Option σ) (init : σ) (fs : List Field) : Option σ :=
  fs.foldlM step init

/-- what `tag_and_type()` dispatches on -/
def key (f : Field) : Nat × WireType := (f.tag, f.wt)

def unpackGo : Nat → Bytes → List Nat → Option (List Nat)
  | _, [], acc => some acc.reverse
  | 0, _ :: _, _ => none
  | fuel + 1, bs@(_ :: _), acc =>
    match decodeVarint bs with
    | .error _ => none
    | .ok (v, rest) => unpackGo fuel rest (v :: acc)

def unpack (bs : Bytes) : Option (List Nat) := unpackGo bs.length bs []

/-- `packed_field_*::add_element` / `add_packed_*`: the varints one after the other -/
def pack (vs : List Nat) : Bytes := vs.flatMap encodeVarint

/-- stable insertion sort of a field list by a rank of the field's key (used by the specification
    encoder to realise "any field order"): fields of equal key keep their relative order -/
def insertByRank (rank : Nat × WireType → Nat) (f : Field) : List Field → List Field
  | [] => [f]
  | g :: gs => if rank (key f) ≤ rank (key g) then f :: g :: gs else g :: insertByRank rank f gs

def sortByRank (rank : Nat × WireType → Nat) : List Field → List Field
  | [] => []
  | f :: fs => insertByRank rank f (sortByRank rank fs)

end Osmium.PbfMsg
