/-
Model of libosmium's text <-> number conversions (property C13).

Transcribed statement by statement from
  include/osmium/osm/location.hpp          detail::string_to_location_coordinate,
                                           detail::append_location_coordinate_to_string,
                                           Location::set_lon / set_lon_partial
  include/osmium/osm/timestamp.hpp         detail::parse_timestamp, detail::fractional_seconds,
                                           Timestamp(const char*), Timestamp::to_iso / to_iso_all
  include/osmium/io/detail/opl_parser_functions.hpp   opl_parse_int<T>, opl_parse_timestamp
  include/osmium/osm/types_from_string.hpp string_to_object_id, detail::string_to_ulong
  include/osmium/util/misc.hpp             detail::str_to_int<T>
  include/osmium/io/detail/output_format.hpp  OutputBlock::output_int

Core-only (no Mathlib) so that the driver links as a `lean_exe`.

Conventions.
* A C string is a `List UInt8`; the cursor `const char*` is the remaining suffix.  Reading at
  the end of the list reads the terminating NUL (`peek [] = 0`).  No function of this file
  ever moves the cursor past the NUL (every advance is guarded by a successful comparison
  with a non-NUL character), so there is no out-of-bounds outcome to model.
* `int64_t` arithmetic that can overflow in the C++ code (only the scaling loop and the final
  rounding of the coordinate parser) is modelled with explicit two's-complement wrap-around
  (`wrap64`, what the compiled code computes) and the outcome carries `ovf = true` (the C++
  standard calls this undefined behaviour).  Everywhere else the values are bounded (lemmas
  in Osmium/Lemmas/ConvCoord.lean) and plain `Int`/`Nat` arithmetic is exact.
* libc `timegm`, `gmtime_r`, `strtoll`, `strtoul` are modelled by their contracts on the
  argument ranges the callers establish (`timegm`, `gmtime`, `strtoll`, `strtoul` below); the
  correspondence check runs the real libc functions against these contracts.
-/
namespace Osmium.Conv

/-! ### characters -/

/-- `*str` : the byte under the cursor, NUL at the end of the string -/
@[inline] def peek : List UInt8 → UInt8
  | [] => 0
  | c :: _ => c

/-- `c >= '0' && c <= '9'` -/
@[inline] def isDigit (c : UInt8) : Bool := 48 ≤ c.toNat && c.toNat ≤ 57

/-- `c - '0'` (only used on digits) -/
@[inline] def digitVal (c : UInt8) : Nat := c.toNat - 48

/-- `static_cast<char>(d) + '0'` for `0 ≤ d ≤ 9` -/
@[inline] def digitChar (d : Nat) : UInt8 := UInt8.ofNat (48 + d % 10)

def cMinus : UInt8 := 45
def cDot : UInt8 := 46
def cComma : UInt8 := 44
def cPlus : UInt8 := 43
def cZero : UInt8 := 48
def cE : UInt8 := 69
def ce : UInt8 := 101
def cT : UInt8 := 84
def cZ : UInt8 := 90
def cColon : UInt8 := 58

/-- exception classes thrown by the modelled functions -/
inductive Err
  | invalidLocation    -- osmium::invalid_location
  | invalidArgument    -- std::invalid_argument
  | rangeError         -- std::range_error
  | oplError           -- osmium::opl_error
  deriving Repr, DecidableEq

/-! ### int64 wrap-around -/

/-- the value a two's-complement 64-bit register holds after computing `x` -/
def wrap64 (x : Int) : Int := (x + 9223372036854775808) % 18446744073709551616 - 9223372036854775808

def int32Min : Int := -2147483648
def int32Max : Int := 2147483647

/-! ### coordinate parser -/

/-- Which source the model follows.  The tree now contains both fixes: `Variant.fixed`
    (= `Variant.now`) is the code as it is.
    `fixOvf` : fix 5d92c23 for finding F1 (reject instead of overflowing in the scaling loop).
    `fixDigits` : fix b0f4fdb for finding F14 (fraction digits beyond the 8th become
    significant again when a positive exponent shifts them in front of the 8th place).
    `Variant.old` = upstream before the fixes (kept: the refutations in Props/C13.lean and the
    regression probes of the check refer to it). -/
structure Variant where
  fixOvf : Bool
  fixDigits : Bool
  deriving Repr, DecidableEq

def Variant.old : Variant := ⟨false, false⟩
def Variant.fixedOvf : Variant := ⟨true, false⟩
def Variant.fixed : Variant := ⟨true, true⟩
/-- the code in the tree -/
def Variant.now : Variant := Variant.fixed

/-- `while (*str >= '0' && *str <= '9' && n > 0) { acc = acc * 10 + (*str - '0'); ++str; --n; }`
    returns (acc, n, str).  Used for the integer digits (n = max_digits = 10), the significant
    fraction digits (n = scale = 8) and the exponent digits (n = max_digits = 5). -/
def digitsLoop : Nat → Nat → List UInt8 → Nat × Nat × List UInt8
  | 0, acc, s => (acc, 0, s)
  | n + 1, acc, [] => (acc, n + 1, [])
  | n + 1, acc, c :: s =>
    if isDigit c then digitsLoop n (acc * 10 + digitVal c) s else (acc, n + 1, c :: s)

/-- `while (*str >= '0' && *str <= '9' && max_digits > 0) { ++str; --max_digits; }` -/
def skipDigits : Nat → List UInt8 → Nat × List UInt8
  | 0, s => (0, s)
  | n + 1, [] => (n + 1, [])
  | n + 1, c :: s => if isDigit c then skipDigits n s else (n + 1, c :: s)

/-- integer part: `if (*str != '.') { first digit; up to 10 more; } else { need digit after dot }`
    returns (result, str) or `none` = throw invalid_location -/
def intPart (s : List UInt8) : Option (Nat × List UInt8) :=
  if peek s != cDot then
    match s with
    | [] => none
    | c :: s' =>
      if isDigit c then
        let (r, md, s'') := digitsLoop 10 (digitVal c) s'
        if md == 0 then none else some (r, s'')
      else none
  else
    -- `*(str + 1) < '0' || *(str + 1) > '9'`
    if isDigit (peek s.tail) then some (0, s) else none

/-- optional decimal point and fraction; returns (result, scale, ignored digits, str).
    The ignored ("non-significant") digits are only looked at by the `fixDigits` variant. -/
def fracPart (result : Nat) (s : List UInt8) : Option (Nat × Nat × List UInt8 × List UInt8) :=
  if peek s == cDot then
    let s1 := s.tail
    let (r, scale, s2) := digitsLoop 8 result s1
    let (md, s3) := skipDigits 20 s2
    if md == 0 then none else some (r, scale, s2.take (20 - md), s3)
  else some (result, 8, [], s)

/-- optional exponent; returns (eresult * esign, str) -/
def expPart (s : List UInt8) : Option (Int × List UInt8) :=
  if peek s == ce || peek s == cE then
    let s1 := s.tail
    let (esign, s2) : Int × List UInt8 := if peek s1 == cMinus then (-1, s1.tail) else (1, s1)
    match s2 with
    | [] => none
    | c :: s3 =>
      if isDigit c then
        let (er, md, s4) := digitsLoop 5 (digitVal c) s3
        if md == 0 then none else some ((er : Int) * esign, s4)
      else none
  else some (0, s)

/-- `for (; scale < 0 && result > 0; ++scale) result /= 10;`  (`k = -scale`) -/
def divLoop : Nat → Nat → Nat
  | 0, r => r
  | k + 1, r => if r > 0 then divLoop k (r / 10) else r

/-- the bound the `fixOvf` variant checks before every multiplication:
    `(INT32_MAX + 2) * 10`; a result at or above it can only end outside the int32 range -/
def mulLimit : Int := 21474836490

/-- `for (; scale > 0; --scale) result *= 10;` exactly as written (`k = scale`), with the
    checks / digit pick-up of the variants; returns (result, overflowed) or `none` = throw. -/
def mulLoopNaive (v : Variant) : Nat → Int → List UInt8 → Bool → Option (Int × Bool)
  | 0, r, _, o => some (r, o)
  | k + 1, r, ex, o =>
    if v.fixOvf && r ≥ mulLimit then none
    else
      match v.fixDigits, ex with
      | true, c :: ex' =>
        let p := r * 10 + digitVal c
        mulLoopNaive v k (wrap64 p) ex' (o || wrap64 p != p)
      | _, _ =>
        let p := r * 10
        mulLoopNaive v k (wrap64 p) ex (o || wrap64 p != p)

/-- The same loop with a shortcut: once `result` is 0 (and no digit can be picked up any more)
    the remaining iterations leave it 0.  Equal to `mulLoopNaive` (lemma `mulLoop_eq_naive`);
    exists only so that the compiled model does not iterate 100000 times on "0e99999". -/
def mulLoop (v : Variant) : Nat → Int → List UInt8 → Bool → Option (Int × Bool)
  | 0, r, _, o => some (r, o)
  | k + 1, r, ex, o =>
    if r == 0 && (!v.fixDigits || ex.isEmpty) then some (0, o)
    else if v.fixOvf && r ≥ mulLimit then none
    else
      match v.fixDigits, ex with
      | true, c :: ex' =>
        let p := r * 10 + digitVal c
        mulLoop v k (wrap64 p) ex' (o || wrap64 p != p)
      | _, _ =>
        let p := r * 10
        mulLoop v k (wrap64 p) ex (o || wrap64 p != p)

structure CoordOut where
  value : Int            -- the int32 returned
  rest : List UInt8      -- `*data` afterwards
  ovf : Bool             -- a signed 64-bit overflow happened on the way (UB in C++; wrapped here)
  deriving Repr, DecidableEq

/-- `(result + 5) / 10 * sign`, range check, return -/
def finishCoord (r : Int) (o : Bool) (sign : Int) (rest : List UInt8) : Except Err CoordOut :=
  let a := wrap64 (r + 5)
  let res := Int.tdiv a 10 * sign
  if res > int32Max || res < int32Min then .error .invalidLocation
  else .ok ⟨res, rest, o || a != r + 5⟩

/-- `detail::string_to_location_coordinate(const char** data)` -/
def parseCoord (v : Variant) (s0 : List UInt8) : Except Err CoordOut :=
  -- optional minus sign
  let (sign, s1) : Int × List UInt8 := if peek s0 == cMinus then (-1, s0.tail) else (1, s0)
  match intPart s1 with
  | none => .error .invalidLocation
  | some (r1, s2) =>
    match fracPart r1 s2 with
    | none => .error .invalidLocation
    | some (r2, sc, extra, s3) =>
      match expPart s3 with
      | none => .error .invalidLocation
      | some (e, s4) =>
        -- scale += eresult * esign
        let scale : Int := (sc : Int) + e
        if scale < 0 then
          finishCoord (divLoop scale.natAbs r2) false sign s4
        else
          match mulLoop v scale.toNat r2 (if v.fixDigits then extra else []) false with
          | none => .error .invalidLocation
          | some (r3, o) => finishCoord r3 o sign s4

/-- `detail::string_to_location_coordinate` as it is in the tree -/
def stringToLocationCoordinate (s : List UInt8) : Except Err CoordOut := parseCoord Variant.now s

/-- `Location::set_lon(const char*)` / `set_lat(const char*)`: the whole string must be consumed -/
def parseCoordFull (v : Variant) (s : List UInt8) : Except Err Int :=
  match parseCoord v s with
  | .error e => .error e
  | .ok out => if peek out.rest != 0 then .error .invalidLocation else .ok out.value

/-! ### coordinate formatter -/

/-- `do { *t++ = v % 10 + '0'; v /= 10; } while (v != 0);`  — least significant digit first.
    `fuel` is the size of `temp` (10); an int32 has at most 10 digits. -/
def revDigits : Nat → Nat → List UInt8
  | 0, _ => []
  | fuel + 1, v => digitChar (v % 10) :: (if v / 10 != 0 then revDigits fuel (v / 10) else [])

/-- `while (t - temp < 7) *t++ = '0';` -/
def pad7 (t : List UInt8) : List UInt8 := t ++ List.replicate (7 - t.length) cZero

/-- body of `append_location_coordinate_to_string` for a non-negative value -/
def formatCoordAbs (value : Nat) : List UInt8 :=
  let temp := pad7 (revDigits 10 value)        -- temp[0] = least significant
  -- digits before the decimal point: `*iterator++ = *--t` 3, 2, 1 or 0 times
  let npop := if value ≥ 10000000 then (if value ≥ 100000000 then (if value ≥ 1000000000 then 3 else 2) else 1) else 0
  let low := temp.take (temp.length - npop)    -- temp[0 .. t)
  let hi := (temp.drop (temp.length - npop)).reverse
  let intOut := if value ≥ 10000000 then hi else [cZero]
  -- remove trailing zeros: `while (tn < t && *tn == '0') ++tn;`
  let kept := low.dropWhile (· == cZero)
  -- decimal point and the digits from t-1 down to tn
  if kept.isEmpty then intOut else intOut ++ cDot :: kept.reverse

/-- `detail::append_location_coordinate_to_string(iterator, int32_t value)` -/
def formatCoord (value : Int) : List UInt8 :=
  if value == int32Min then [cMinus, 50, 49, 52, cDot, 55, 52, 56, 51, 54, 52, 56]   -- "-214.7483648"
  else if value < 0 then cMinus :: formatCoordAbs (-value).toNat
  else formatCoordAbs value.toNat

/-! ### timestamps -/

/-- `mon_lengths` in parse_timestamp -/
def monLengths : List Nat := [31, 29, 31, 30, 31, 30, 31, 31, 30, 31, 30, 31]

/-- days from 1970-01-01 to the proleptic Gregorian date y-m-d (m in 1..12, any d ≥ 0,
    y ≥ 1): the arithmetic contract of `timegm` (H. Hinnant's days_from_civil; all
    intermediate values are natural numbers for y ≥ 1). -/
def daysFromCivil (y m d : Nat) : Int :=
  let y' := if m ≤ 2 then y - 1 else y
  let era := y' / 400
  let yoe := y' - era * 400
  let mp := if m > 2 then m - 3 else m + 9
  let doy := (153 * mp + 2) / 5 + d - 1
  let doe := yoe * 365 + yoe / 4 - yoe / 100 + doy
  ((era * 146097 + doe : Nat) : Int) - 719468

/-- inverse: (year, month 1..12, day 1..31) of day number z ≥ 0 since 1970-01-01: the
    arithmetic contract of `gmtime_r` (civil_from_days). -/
def civilFromDays (z : Nat) : Nat × Nat × Nat :=
  let z' := z + 719468
  let era := z' / 146097
  let doe := z' - era * 146097
  let yoe := (doe - doe / 1460 + doe / 36524 - doe / 146096) / 365
  let y := yoe + era * 400
  let doy := doe - (365 * yoe + yoe / 4 - yoe / 100)
  let mp := (5 * doy + 2) / 153
  let d := doy - (153 * mp + 2) / 5 + 1
  let m := if mp < 10 then mp + 3 else mp - 9
  (if m ≤ 2 then y + 1 else y, m, d)

/-- contract of `timegm(&tm)` for the field ranges parse_timestamp lets through
    (year 1900..9999, mon 1..12, mday 1..31, hour 0..23, min 0..59, sec 0..60):
    no normalisation other than plain positional arithmetic is needed, a day number past the
    end of the month simply runs into the next month. -/
def timegm (year mon mday hour min sec : Nat) : Int :=
  daysFromCivil year mon mday * 86400 + (hour * 3600 + min * 60 + sec : Nat)

/-- `fractional_seconds(const char** s)`: returns (result, new *s) -/
def fractionalSeconds (s : List UInt8) : Bool × List UInt8 :=
  if peek s != cDot && peek s != cComma then (false, s)
  else
    let s1 := s.tail
    if !isDigit (peek s1) then (false, s)
    else
      let s2 := s1.dropWhile isDigit      -- do { ++str; } while (digit)
      (peek s2 == cZ, s2)

/-- `detail::parse_timestamp(const char** s)`: returns (time_t, new *s).
    The 19 leading comparisons are one `&&` chain: a string shorter than 19 characters fails
    at its NUL (no read past it), here: the pattern does not match. -/
def parseTimestamp (s : List UInt8) : Except Err (Int × List UInt8) :=
  match s with
  | y0 :: y1 :: y2 :: y3 :: c4 :: m0 :: m1 :: c7 :: d0 :: d1 :: c10 :: h0 :: h1 :: c13 :: i0 :: i1 :: c16 :: s0 :: s1 :: rest =>
    if isDigit y0 && isDigit y1 && isDigit y2 && isDigit y3 && c4 == cMinus &&
       isDigit m0 && isDigit m1 && c7 == cMinus && isDigit d0 && isDigit d1 && c10 == cT &&
       isDigit h0 && isDigit h1 && c13 == cColon && isDigit i0 && isDigit i1 && c16 == cColon &&
       isDigit s0 && isDigit s1 then
      -- `str[19] == 'Z' || fractional_seconds(s)`, then `++(*s)`
      let (okz, afterZ) : Bool × List UInt8 :=
        if peek rest == cZ then (true, rest.tail)
        else let (b, r) := fractionalSeconds rest; (b, r.tail)
      if okz then
        let year := digitVal y0 * 1000 + digitVal y1 * 100 + digitVal y2 * 10 + digitVal y3   -- tm_year + 1900
        let mon := digitVal m0 * 10 + digitVal m1                                               -- tm_mon + 1
        let mday := digitVal d0 * 10 + digitVal d1
        let hour := digitVal h0 * 10 + digitVal h1
        let min := digitVal i0 * 10 + digitVal i1
        let sec := digitVal s0 * 10 + digitVal s1
        if year ≥ 1900 && mon ≥ 1 && mon ≤ 12 && mday ≥ 1 && mday ≤ monLengths.getD (mon - 1) 0 &&
           hour ≤ 23 && min ≤ 59 && sec ≤ 60 then
          .ok (timegm year mon mday hour min sec, afterZ)
        else .error .invalidArgument
      else .error .invalidArgument
    else .error .invalidArgument
  | _ => .error .invalidArgument

/-- `static_cast<uint32_t>(time_t)` -/
def toU32 (x : Int) : Nat := (x % 4294967296).toNat

/-- `Timestamp(const char*)`: the by-value overload, trailing characters are not looked at -/
def timestampOfString (s : List UInt8) : Except Err Nat :=
  match parseTimestamp s with
  | .error e => .error e
  | .ok (t, _) => .ok (toU32 t)

/-! #### the timestamp parser with the fixes 2814835 (leap-year check) and b3b4a84 (range check);
     `parseTimestamp` / `timestampOfString` above are the code BEFORE those fixes (flags false) -/

/-- Gregorian leap year -/
def isLeapYear (y : Nat) : Bool := y % 4 == 0 && (y % 100 != 0 || y % 400 == 0)

/-- year, month, day digits of "yyyy-mm-dd..." (0,0,0 if the string is too short) -/
def tsDateFields : List UInt8 → Nat × Nat × Nat
  | y0 :: y1 :: y2 :: y3 :: _ :: m0 :: m1 :: _ :: d0 :: d1 :: _ =>
    (digitVal y0 * 1000 + digitVal y1 * 100 + digitVal y2 * 10 + digitVal y3,
     digitVal m0 * 10 + digitVal m1, digitVal d0 * 10 + digitVal d1)
  | _ => (0, 0, 0)

/-- `parse_timestamp` with the proposed leap-year check (`leapFix = true`): February 29 is only
    accepted in leap years.  `leapFix = false` is the current code. -/
def parseTimestampV (leapFix : Bool) (s : List UInt8) : Except Err (Int × List UInt8) :=
  match parseTimestamp s with
  | .error e => .error e
  | .ok r =>
    let (y, mo, d) := tsDateFields s
    if leapFix && mo == 2 && d == 29 && !isLeapYear y then .error .invalidArgument else .ok r

/-- `Timestamp(const char*)` with the proposed range check (`rangeFix = true`): a time that
    does not fit the 32-bit representation is rejected instead of truncated. -/
def timestampOfStringV (leapFix rangeFix : Bool) (s : List UInt8) : Except Err Nat :=
  match parseTimestampV leapFix s with
  | .error e => .error e
  | .ok (t, _) =>
    if rangeFix && (t < 0 || t > 4294967295) then .error .invalidArgument else .ok (toU32 t)

/-- `detail::parse_timestamp` as it is in the tree (fix 2814835: leap-year check) -/
def parseTimestampNow (s : List UInt8) : Except Err (Int × List UInt8) := parseTimestampV true s

/-- `Timestamp(const char*)` as it is in the tree (fix b3b4a84: range check) -/
def timestampNow (s : List UInt8) : Except Err Nat := timestampOfStringV true true s

/-- `opl_parse_timestamp` over the variants -/
def oplParseTimestampV (leapFix rangeFix : Bool) (s : List UInt8) : Except Err (Nat × List UInt8) :=
  if peek s == 0 || peek s == 32 || peek s == 9 then .ok (0, s)
  else
    match timestampOfStringV leapFix rangeFix s with
    | .error _ => .error .oplError
    | .ok t => .ok (t, s.drop 20)

/-- `opl_parse_timestamp(const char** s)`: returns (timestamp, new *s) -/
def oplParseTimestamp (s : List UInt8) : Except Err (Nat × List UInt8) :=
  if peek s == 0 || peek s == 32 || peek s == 9 then .ok (0, s)
  else
    match timestampOfString s with
    | .error _ => .error .oplError
    | .ok t => .ok (t, s.drop 20)

/-- `add_2digit_int_to_string` (0 ≤ value ≤ 99) -/
def add2 (value : Nat) : List UInt8 :=
  if value > 9 then [digitChar (value / 10), digitChar (value - value / 10 * 10)]
  else [cZero, digitChar value]

/-- `add_4digit_int_to_string` (1000 ≤ value ≤ 9999) -/
def add4 (value : Nat) : List UInt8 :=
  let d1 := value / 1000
  let v1 := value - d1 * 1000
  let d2 := v1 / 100
  let v2 := v1 - d2 * 100
  let d3 := v2 / 10
  let v3 := v2 - d3 * 10
  [digitChar d1, digitChar d2, digitChar d3, digitChar v3]

/-- contract of `gmtime_r` for 0 ≤ t < 2^32: (year, mon 1..12, mday, hour, min, sec) -/
def gmtime (t : Nat) : Nat × Nat × Nat × Nat × Nat × Nat :=
  let (y, m, d) := civilFromDays (t / 86400)
  let r := t % 86400
  (y, m, d, r / 3600, r % 3600 / 60, r % 60)

/-- `Timestamp::to_iso_all()` (`to_iso_str`) -/
def toIsoAll (t : Nat) : List UInt8 :=
  let (y, m, d, hh, mm, ss) := gmtime t
  add4 y ++ [cMinus] ++ add2 m ++ [cMinus] ++ add2 d ++ [cT] ++ add2 hh ++ [cColon] ++ add2 mm ++ [cColon] ++ add2 ss ++ [cZ]

/-- `Timestamp::to_iso()`: empty for the invalid timestamp 0 -/
def toIso (t : Nat) : List UInt8 := if t != 0 then toIsoAll t else []

/-! ### integers -/

def int64Min : Int := -9223372036854775808
def int64Max : Int := 9223372036854775807

/-- the digit loop of `opl_parse_int`: `value` is accumulated NEGATIVELY in an int64; the
    guard before the multiplication makes the arithmetic overflow-free (lemma
    `oplDigits_no_overflow`). -/
def oplDigits : Int → List UInt8 → Except Err (Int × List UInt8)
  | value, [] => .ok (value, [])
  | value, c :: s =>
    if isDigit c then
      if value ≤ -922337203685477580 && (value < -922337203685477580 || c.toNat > 56) then
        .error .oplError            -- "integer too long"
      else oplDigits (value * 10 - digitVal c) s
    else .ok (value, c :: s)

/-- `opl_parse_int<T>(const char** s)` with `tmin = numeric_limits<T>::min()`,
    `tmax = numeric_limits<T>::max()`; returns (value, new *s) -/
def oplParseInt (tmin tmax : Int) (s : List UInt8) : Except Err (Int × List UInt8) :=
  let negative := peek s == cMinus
  let s1 := if negative then s.tail else s
  if !isDigit (peek s1) then .error .oplError          -- "expected integer"
  else
    match oplDigits 0 s1 with
    | .error e => .error e
    | .ok (value, rest) =>
      if negative then
        if value < tmin then .error .oplError else .ok (value, rest)
      else
        if value == int64Min then .error .oplError
        else if -value > tmax then .error .oplError
        else .ok (-value, rest)

/-- `isspace` in the "C" locale -/
def isSpace (c : UInt8) : Bool := c == 32 || (9 ≤ c.toNat && c.toNat ≤ 13)

/-- unbounded digit run: (value, rest) -/
def natDigits : Nat → List UInt8 → Nat × List UInt8
  | acc, [] => (acc, [])
  | acc, c :: s => if isDigit c then natDigits (acc * 10 + digitVal c) s else (acc, c :: s)

/-- common part of the contracts of strtoll / strtoul with base 10: skip white space, optional
    sign, digits.  `none` = no conversion performed (`end = input`, value 0). -/
def strtoScan (s : List UInt8) : Option (Bool × Nat × List UInt8) :=
  let s1 := s.dropWhile isSpace
  let (neg, s2) := if peek s1 == cMinus then (true, s1.tail) else if peek s1 == cPlus then (false, s1.tail) else (false, s1)
  if isDigit (peek s2) then
    let (m, rest) := natDigits 0 s2
    some (neg, m, rest)
  else none

/-- contract of `strtoll(input, &end, 10)`: (value clamped to [LLONG_MIN, LLONG_MAX], end) -/
def strtoll (s : List UInt8) : Int × List UInt8 :=
  match strtoScan s with
  | none => (0, s)
  | some (neg, m, rest) =>
    let x : Int := if neg then -(m : Int) else m
    (if x < int64Min then int64Min else if x > int64Max then int64Max else x, rest)

/-- contract of `strtoul(input, &end, 10)` (64-bit unsigned long): (value, end); overflow gives
    ULONG_MAX, a minus sign negates modulo 2^64 -/
def strtoul (s : List UInt8) : Nat × List UInt8 :=
  match strtoScan s with
  | none => (0, s)
  | some (neg, m, rest) =>
    if m > 18446744073709551615 then (18446744073709551615, rest)
    else (if neg then (18446744073709551616 - m) % 18446744073709551616 else m, rest)

/-- contract of `errno == ERANGE` after `errno = 0; strtoll(input, &end, 10)`: the digits
    denote a value outside [LLONG_MIN, LLONG_MAX] (the result was saturated) -/
def strtollErange (s : List UInt8) : Bool :=
  match strtoScan s with
  | none => false
  | some (neg, m, _) =>
    let x : Int := if neg then -(m : Int) else m
    x < int64Min || x > int64Max

/-- `string_to_object_id(const char* input)` (since the upstream fix e1fc4ce: overflow is
    detected through errno, INT64_MAX is a legal id, INT64_MIN still is not) -/
def stringToObjectId (s : List UInt8) : Except Err Int :=
  if peek s != 0 && !isSpace (peek s) then
    let (id, e) := strtoll s
    if !strtollErange s && id != int64Min && peek e == 0 then .ok id else .error .rangeError
  else .error .rangeError

/-- `detail::string_to_ulong(const char* input, const char* name)` (versions, changeset ids,
    uids, num_changes, num_comments) -/
def stringToUlong (s : List UInt8) : Except Err Nat :=
  if (match s with | a :: b :: r => a == cMinus && b == 49 && peek r == 0 | _ => false) then .ok 0   -- "-1"
  else if peek s != 0 && peek s != cMinus && !isSpace (peek s) then
    let (value, e) := strtoul s
    if value < 4294967295 && peek e == 0 then .ok value else .error .rangeError
  else .error .rangeError

/-- `detail::str_to_int<TReturn>(const char* str)` with `tmax = numeric_limits<TReturn>::max()`:
    0 on any error -/
def strToInt (tmax : Int) (s : List UInt8) : Int :=
  let (value, e) := strtoll s
  if value < 0 || value == int64Max || value ≥ tmax || peek e != 0 then 0 else value

/-- `do { *t++ = value % 10 + '0'; value /= 10; } while (value > 0);` least significant first;
    fuel = size of `temp` (20) -/
def revDigits64 : Nat → Nat → List UInt8
  | 0, _ => []
  | fuel + 1, v => digitChar (v % 10) :: (if v / 10 > 0 then revDigits64 fuel (v / 10) else [])

/-- `OutputBlock::output_int(int64_t value)` for INT64_MIN < value (negating INT64_MIN is
    undefined behaviour: `none`) -/
def outputInt (value : Int) : Option (List UInt8) :=
  if value ≤ int64Min || value > int64Max then none
  else if value < 0 then some (cMinus :: (revDigits64 20 (-value).toNat).reverse)
  else some ((revDigits64 20 value.toNat).reverse)

end Osmium.Conv
