/-
Carry-over readers: how each parser consumes the stream of chunks that arrives from the
file / decompressor (property C06).  Transcribed from

  io/detail/queue_util.hpp        queue_wrapper<std::string>::pop / has_reached_end_of_data
  io/detail/opl_input_format.hpp  line_by_line
  io/detail/pbf_input_format.hpp  ensure_available_in_input_queue, pop_from_input_queue,
                                  read_blob_header_size_from_file, check_type_and_get_blob_size,
                                  read_from_input_queue_with_check, parse_header_blob/parse_data_blobs
  io/detail/o5m_input_format.hpp  ensure_bytes_available, decode_data (dataset loop)
  io/detail/xml_input_format.hpp  XMLParser::run (feed loop)

Input contract (established by ReadThreadManager, property C09): the queue delivers the
chunks in order, every chunk non-empty, then the end marker (an empty string); popping the
end marker shuts the queue down (`input_done()` becomes true) and every later `get_input()`
returns the empty string.   Core-only.
-/
import Osmium.Model.Wire

namespace Osmium.Chunks

open Osmium.Wire

/-- The parser's view of the input queue: remaining chunks (end marker implicit after the
    last one) and the `input_done()` flag. -/
structure Src where
  chunks : List Bytes
  done : Bool := false
  deriving Repr, DecidableEq

/-- `get_input()`: pops the next chunk; the end marker is the empty string and sets `done`. -/
def Src.getInput (s : Src) : Bytes × Src :=
  if s.done then ([], s)
  else match s.chunks with
    | [] => ([], { s with done := true })
    | c :: cs => (c, { chunks := cs, done := c.isEmpty })
    -- an empty chunk IS the end marker (at_end_of_data); the contract excludes it mid-stream

/-- bytes still to come from the queue -/
def Src.pending (s : Src) : Bytes := if s.done then [] else s.chunks.flatten

/-! ## OPL: line_by_line -/

def isBreak (b : UInt8) : Bool := b == 10 || b == 13

/-- a line as `parse_line(const char*)` sees it: up to the first NUL -/
def cstr : Bytes → Bytes
  | [] => []
  | b :: bs => if b == 0 then [] else b :: cstr bs

/-- Position of the first line break (`find_first_of("\n\r")`), if any. -/
def findBreak : Bytes → Option Nat
  | [] => none
  | b :: bs => if isBreak b then some 0 else (findBreak bs).map (· + 1)

/-- The `for` loop over one chunk starting at `ppos` (here: over `input.drop ppos`).
    Returns the lines handed to `parse_line` and the new `rest`. Fuel = number of bytes. -/
def oplScan : Nat → Bytes → List Bytes × Bytes
  | 0, bs => ([], bs)
  | fuel + 1, bs =>
    match findBreak bs with
    | none => ([], bs)                       -- rest.assign(input, ppos)
    | some pos =>
      let data := bs.take pos
      -- `if (data[0] != '\0')` : data is NUL-terminated at pos, so an empty segment has data[0] == 0
      let out := if data.head? == some 0 || data.isEmpty then [] else [cstr data]
      let after := bs.drop (pos + 1)
      if after.isEmpty then (out, [])        -- `if (ppos >= input.size()) break;` then rest = ""
      else
        let (o, r) := oplScan fuel after
        (out ++ o, r)

/-- One iteration of the `while (!worker.input_done())` loop body for the popped chunk. -/
def oplChunk (rest input : Bytes) : List Bytes × Bytes :=
  if !rest.isEmpty then
    match findBreak input with
    | none => ([], rest ++ input)
    | some ppos =>
      let line := rest ++ input.take ppos
      -- `if (!rest.empty()) parse_line(rest.data())`
      let out := if line.isEmpty then [] else [cstr line]
      let (o, r) := oplScan input.length (input.drop (ppos + 1))
      (out ++ o, r)
  else oplScan input.length input

/-- The whole `line_by_line`: fuel = number of chunks + 1 (one more pop for the end marker). -/
def oplRun : Nat → Src → Bytes → List Bytes → List Bytes
  | 0, _, rest, acc => acc ++ (if rest.isEmpty then [] else [cstr rest])
  | fuel + 1, s, rest, acc =>
    if s.done then acc ++ (if rest.isEmpty then [] else [cstr rest])
    else
      let (input, s') := s.getInput
      let (o, r) := oplChunk rest input
      oplRun fuel s' r (acc ++ o)

def lineByLine (cs : List Bytes) : List Bytes :=
  oplRun (cs.length + 2) { chunks := cs } [] []

/-- Specification: split the whole byte stream at every `\n` / `\r`:
    (complete segments, trailing unterminated segment); `cur` = segment under construction. -/
def segs : Bytes → Bytes → List Bytes × Bytes
  | [], cur => ([], cur)
  | b :: bs, cur =>
    if isBreak b then ((cur :: (segs bs []).1), (segs bs []).2) else segs bs (cur ++ [b])

/-- the non-empty lines of a byte stream -/
def specLines (bs : Bytes) : List Bytes :=
  ((segs bs []).1 ++ [(segs bs []).2]).filter (fun l => !l.isEmpty)

/-! ## Buffered exact reads (PBF): m_input_buffer -/

inductive PbfErr
  | truncated            -- pbf_error "truncated data (EOF encountered)"
  | headerTooLarge       -- "invalid BlobHeader size (> max_blob_header_size)"
  | blobTooLarge         -- "invalid blob size"
  | headerFormat         -- decode_blob_header failed (missing datasize, wrong type, protozero error)
  deriving Repr, DecidableEq

structure PbfIn where
  buf : Bytes
  src : Src
  deriving Repr, DecidableEq

/-- `ensure_available_in_input_queue(size)`; fuel bounds the number of pops. -/
def PbfIn.ensure : Nat → PbfIn → Nat → Except PbfErr PbfIn
  | 0, p, size => if p.buf.length < size then .error .truncated else .ok p
  | fuel + 1, p, size =>
    if p.buf.length < size then
      let (d, s') := p.src.getInput
      if s'.done then .error .truncated
      else PbfIn.ensure fuel { buf := p.buf ++ d, src := s' } size
    else .ok p

def PbfIn.fuel (p : PbfIn) : Nat := p.src.chunks.length + 1

/-- ensure + take + pop: read exactly `size` bytes -/
def PbfIn.readExact (p : PbfIn) (size : Nat) : Except PbfErr (Bytes × PbfIn) :=
  match PbfIn.ensure p.fuel p size with
  | .error e => .error e
  | .ok p' => .ok (p'.buf.take size, { p' with buf := p'.buf.drop size })

def be32 : Bytes → Nat
  | [a, b, c, d] => ((a.toNat * 256 + b.toNat) * 256 + c.toNat) * 256 + d.toNat
  | _ => 0

/-- `read_blob_header_size_from_file` (queue branch).  When fewer than 4 bytes can be had,
    `ensure_available_in_input_queue` has appended everything that was still to come to
    `m_input_buffer` before it threw, so in the `catch` block the buffer is `buf ++ pending`:
    empty = clean end of file (0), 1 to 3 bytes left = the input ends inside the length field
    (`pbf_error "unexpected EOF"`, the same outcome class as every other truncation). -/
def PbfIn.readHeaderSize (maxHeader : Nat) (p : PbfIn) : Except PbfErr (Nat × PbfIn) :=
  match p.readExact 4 with
  | .error _ =>                  -- `catch (const osmium::pbf_error&)`
    if (p.buf ++ p.src.pending).isEmpty then .ok (0, p)   -- `return 0; // clean end of file`
    else .error .truncated                                  -- `if (!m_input_buffer.empty()) throw ...`
  | .ok (b, p') =>
    let size := be32 b
    if size > maxHeader then .error .headerTooLarge else .ok (size, p')

/-- One frame: returns `none` at EOF, else (blob header bytes, blob bytes).
    `blobSize first hdr` is `decode_blob_header` with expected type "OSMHeader" for the
    first frame and "OSMData" afterwards (a parameter here: C06 is about the carry-over; the
    header decoding is `Osmium.PbfFraming.decodeBlobHeader`). -/
def PbfIn.readFrame (maxHeader maxBlob : Nat) (blobSize : Bool → Bytes → Option Nat) (first : Bool) (p : PbfIn) :
    Except PbfErr (Option (Bytes × Bytes) × PbfIn) :=
  match p.readHeaderSize maxHeader with
  | .error e => .error e
  | .ok (hsize, p1) =>
    if hsize == 0 then .ok (none, p1)
    else match p1.readExact hsize with
      | .error e => .error e
      | .ok (hdr, p2) =>
        match blobSize first hdr with
        | none => .error .headerFormat
        | some bsize =>
          if bsize > maxBlob then .error .blobTooLarge
          else match p2.readExact bsize with
            | .error e => .error e
            | .ok (blob, p3) => .ok (some (hdr, blob), p3)

/-- All frames of the input; fuel = number of frames at most (each consumes ≥ 4 bytes). -/
def PbfIn.readFrames (maxHeader maxBlob : Nat) (blobSize : Bool → Bytes → Option Nat) :
    Nat → PbfIn → List (Bytes × Bytes) → List (Bytes × Bytes) × Option PbfErr
  | 0, _, acc => (acc.reverse, none)
  | fuel + 1, p, acc =>
    match p.readFrame maxHeader maxBlob blobSize acc.isEmpty with
    | .error e => (acc.reverse, some e)
    | .ok (none, _) => (acc.reverse, none)
    | .ok (some f, p') => PbfIn.readFrames maxHeader maxBlob blobSize fuel p' (f :: acc)

def pbfFrames (maxHeader maxBlob : Nat) (blobSize : Bool → Bytes → Option Nat) (cs : List Bytes) :
    List (Bytes × Bytes) × Option PbfErr :=
  PbfIn.readFrames maxHeader maxBlob blobSize ((cs.flatten.length) / 4 + 2) { buf := [], src := { chunks := cs } } []

/-! ## o5m: the window (m_input, m_data, m_end) and ensure_bytes_available

The model keeps the window as the list of bytes between `m_data` and `m_end` plus the bytes
of `m_input` that lie before `m_data` (already consumed, not yet erased).  This is the
behaviour of the code after the repair of finding F6 (the window is re-pointed before
`false` is returned); the behaviour before the repair is modelled by `ensureBytesUnrepaired`
below, where the window can become `stale`. -/

structure O5mIn where
  consumed : Nat          -- m_data - m_input.data()
  window : Bytes          -- [m_data, m_end)
  src : Src
  deriving Repr, DecidableEq

/-- the inner `while (m_input.size() < need_bytes)` loop; `inp` is m_input after the erase -/
def o5mFill : Nat → Bytes → Src → Nat → Bool × Bytes × Src
  | 0, inp, s, need => (decide (inp.length ≥ need), inp, s)
  | fuel + 1, inp, s, need =>
    if inp.length < need then
      let (d, s') := s.getInput
      if s'.done then (false, inp, s')
      else o5mFill fuel (inp ++ d) s' need
    else (true, inp, s)

/-- `ensure_bytes_available(need)` (repaired: re-points the window on every path that erased) -/
def O5mIn.ensure (o : O5mIn) (need : Nat) : Bool × O5mIn :=
  if o.window.length ≥ need then (true, o)
  else if o.src.done && o.consumed + o.window.length < need then (false, o)
  else
    let (ok, inp, s') := o5mFill (o.src.chunks.length + 1) o.window o.src need
    (ok, { consumed := 0, window := inp, src := s' })

/-- `m_data += n` (the callers guarantee n ≤ window length) -/
def O5mIn.advance (o : O5mIn) (n : Nat) : O5mIn :=
  { o with consumed := o.consumed + n, window := o.window.drop n }

/-- everything not yet consumed -/
def O5mIn.remaining (o : O5mIn) : Bytes := o.window ++ o.src.pending

inductive O5mErr
  | headerTooShort | wrongMagic | premature | varintTooLong
  deriving Repr, DecidableEq

/-- An element of the dataset stream as `decode_data` sees it. -/
inductive Dataset
  | reset
  | other (t : UInt8)                -- type > jump and ≠ reset (e.g. 0xfe end marker): ignored
  | data (t : UInt8) (payload : Bytes)
  deriving Repr, DecidableEq

/-- The dataset loop of `decode_data` (dispatch to the decoders abstracted away: the datasets
    are returned).  Fuel = upper bound on iterations (each consumes ≥ 1 byte). -/
def o5mLoop : Nat → O5mIn → List Dataset → List Dataset × Option O5mErr
  | 0, _, acc => (acc.reverse, none)
  | fuel + 1, o, acc =>
    let (ok, o1) := o.ensure 1
    if !ok then (acc.reverse, none)
    else
      match o1.window with
      | [] => (acc.reverse, none)   -- unreachable: ensure 1 succeeded
      | t :: _ =>
        let o2 := o1.advance 1
        if t.toNat > 0xef then
          o5mLoop fuel o2 ((if t.toNat == 0xff then Dataset.reset else Dataset.other t) :: acc)
        else
          let (_, o3) := o2.ensure 10          -- result ignored by the code
          match decodeVarint o3.window with
          | .error .endOfBuffer => (acc.reverse, some .premature)
          | .error _ => (acc.reverse, some .varintTooLong)
          | .ok (len, restw) =>
            let o4 := o3.advance (o3.window.length - restw.length)
            let (ok2, o5) := o4.ensure len
            if !ok2 then (acc.reverse, some .premature)
            else
              let payload := o5.window.take len
              o5mLoop fuel (o5.advance len) (Dataset.data t payload :: acc)

def o5mMagic : Bytes := [0xff, 0xe0, 0x04, 0x6f, 0x35]

/-- `decode_header` + `decode_data` -/
def o5mRun (cs : List Bytes) : List Dataset × Option O5mErr :=
  let o : O5mIn := { consumed := 0, window := [], src := { chunks := cs } }
  let (ok, o1) := o.ensure 7
  if !ok then ([], some .headerTooShort)
  else
    let w := o1.window
    if w.take 5 != o5mMagic then ([], some .wrongMagic)
    else if (w.drop 5).head? != some 0x6d && (w.drop 5).head? != some 0x63 then ([], some .wrongMagic)
    else if (w.drop 6).head? != some 0x32 then ([], some .wrongMagic)
    else o5mLoop (cs.flatten.length + 1) (o1.advance 7) []

/-! ## XML: the feed loop -/

/-- the calls `parser(data, last)` made by XMLParser::run (entity filter "nothing" aside) -/
def xmlFeedGo : Nat → Src → List (Bytes × Bool) → List (Bytes × Bool)
  | 0, _, acc => acc.reverse
  | fuel + 1, s, acc =>
    if s.done then acc.reverse
    else
      let (d, s') := s.getInput
      xmlFeedGo fuel s' ((d, s'.done) :: acc)

def xmlFeed (cs : List Bytes) : List (Bytes × Bool) := xmlFeedGo (cs.length + 2) { chunks := cs } []

end Osmium.Chunks
