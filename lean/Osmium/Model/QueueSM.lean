/-
QueueSM — osmium::thread::Queue<T> (include/osmium/thread/queue.hpp) as a monitor machine.
Core-only.  One event = one critical section / one unlocked atomic access of the code:

  push(value)                                   queue.hpp:149-176
    pushEnter t x      the call (harness-level marker, hook "push-enter")
    pushTest t saw     `if (!m_in_use) return;`  UNLOCKED read of the atomic; saw = value read
    pushSize t n       `while (size() >= m_max_size)`: size() takes and releases the mutex
    pushFullWaited t n `unique_lock; m_space_available.wait_for(lock, 10ms, pred)`; the timed
                       wait may end at any time (time-out is nondeterministic), so the whole
                       wait is one event whose only observable is the size seen when it ends
                       (hook "push-full-waited"); the intermediate lock/unlock of the wait
                       changes no shared state
    pushLocked t n w   `lock_guard; m_queue.push; m_data_available.notify_one()`
                       n = size after the push (hook "push-locked"), w = waiter chosen by
                       notify_one
  wait_and_pop(value)                           queue.hpp:178-200
    popNow t n r       lock; predicate `!m_in_use || !m_queue.empty()` true at once: take the
                       front if there is one (hooks pop-wait, pop-woken[, pop-took])
    popBlock t         lock; predicate false: wait() releases the mutex (hook pop-wait only)
    popWake t n r      woken (notified, or spuriously if the machine allows it), mutex
                       re-acquired, predicate true: take the front if there is one
    popRewait t        woken, predicate false: wait again (notified flag consumed)
  try_pop(value)                                queue.hpp:202-222
    tryPop t n r       lock; empty → false; else take (n = size before)
  shutdown()                                    queue.hpp:236-243
    sdEnter t          the call (harness-level marker)
    sdFlag t           `m_in_use = false;`  UNLOCKED store
    sdLocked t         `lock_guard; drain; m_data_available.notify_all()`

`m_space_available.notify_one()` after a pop has no event: a producer waiting for space uses
a *timed* wait, which the model lets end at any time, so the notification adds no behaviour.

Ghost fields (history variables, never read by a guard) record what the theorems talk about.
-/
import Osmium.Model.Mon

namespace Osmium.QueueSM

open Osmium.Mon

/-- queue element tagged with its producer -/
abbrev Item (α : Type) := Tid × α

inductive Pc (α : Type) where
  | idle
  | pushEntered (x : α)    -- in push(), m_in_use not yet tested
  | pushPolling (x : α)    -- bounded queue: about to call size()
  | pushMustWait (x : α)   -- saw size() >= max: inside the loop body (timed wait)
  | pushReady (x : α)      -- left the loop (or unbounded): about to lock and enqueue
  | popWaiting             -- inside m_data_available.wait()
  | sdEntered              -- in shutdown(), flag not yet stored
  | sdFlagged              -- flag stored, mutex not yet taken
  deriving DecidableEq, Repr

inductive Ev (α : Type) where
  | pushEnter (t : Tid) (x : α)
  | pushTest (t : Tid) (saw : Bool)
  | pushSize (t : Tid) (n : Nat)
  | pushFullWaited (t : Tid) (n : Nat)
  | pushLocked (t : Tid) (n : Nat) (woke : Option Tid)
  | popNow (t : Tid) (n : Nat) (r : Option (Item α))
  | popBlock (t : Tid)
  | popWake (t : Tid) (n : Nat) (r : Option (Item α))
  | popRewait (t : Tid)
  | tryPop (t : Tid) (n : Nat) (r : Option (Item α))
  | sdEnter (t : Tid)
  | sdFlag (t : Tid)
  | sdLocked (t : Tid)
  deriving DecidableEq, Repr

def Ev.tid {α : Type} : Ev α → Tid
  | .pushEnter t _ | .pushTest t _ | .pushSize t _ | .pushFullWaited t _ | .pushLocked t _ _
  | .popNow t _ _ | .popBlock t | .popWake t _ _ | .popRewait t | .tryPop t _ _
  | .sdEnter t | .sdFlag t | .sdLocked t => t

structure Cfg where
  /-- m_max_size; 0 = unbounded -/
  max : Nat
  /-- may condition-variable waits end without a notification? (true = what C++ allows;
      false = the adversarial case for progress) -/
  spurious : Bool
  deriving Repr

structure State (α : Type) where
  items : List (Item α)              -- m_queue, front first
  inUse : Bool                       -- m_in_use
  pc : Tid → Pc α
  waiters : CondVar                  -- wait set of m_data_available
  -- ghost / history
  called : List (Item α)             -- push() calls, in call order
  dropped : List (Item α)            -- calls that returned because the queue was not in use
  pushed : List (Item α)             -- enqueues, in lock order
  removed : List (Item α)            -- everything that left the front (popped or drained)
  popped : List (Tid × Item α)       -- (consumer, element) handed out, in lock order
  ready : List Tid                   -- threads at pushReady
  producers : List Tid               -- distinct threads that ever called push
  sawSize : Tid → Option Nat         -- last result of size() in the current push
  sdDone : Bool                      -- some shutdown() has returned

def init (α : Type) : State α :=
  { items := [], inUse := true, pc := fun _ => .idle, waiters := [], called := [], dropped := [],
    pushed := [], removed := [], popped := [], ready := [], producers := [],
    sawSize := fun _ => none, sdDone := false }

variable {α : Type} [DecidableEq α]

/-- the wait predicate of wait_and_pop: `!m_in_use || !m_queue.empty()` -/
def pred (s : State α) : Bool := !s.inUse || !s.items.isEmpty

/-- take the front element for consumer `t` (no-op on an empty queue) -/
def take (s : State α) (t : Tid) : State α :=
  match s.items with
  | [] => s
  | x :: rest => { s with items := rest, removed := s.removed ++ [x], popped := s.popped ++ [(t, x)] }

def step? (c : Cfg) (s : State α) : Ev α → Option (State α)
  | .pushEnter t x =>
    if s.pc t = .idle then
      some { s with pc := setPc s.pc t (.pushEntered x), called := s.called ++ [(t, x)],
                    producers := if t ∈ s.producers then s.producers else t :: s.producers,
                    sawSize := setPc s.sawSize t none }
    else none
  | .pushTest t saw =>
    match s.pc t with
    | .pushEntered x =>
      if saw = s.inUse then
        if saw then
          if c.max = 0 then some { s with pc := setPc s.pc t (.pushReady x), ready := t :: s.ready }
          else some { s with pc := setPc s.pc t (.pushPolling x) }
        else some { s with pc := setPc s.pc t .idle, dropped := s.dropped ++ [(t, x)] }
      else none
    | _ => none
  | .pushSize t n =>
    match s.pc t with
    | .pushPolling x =>
      if n = s.items.length then
        if n ≥ c.max then some { s with pc := setPc s.pc t (.pushMustWait x), sawSize := setPc s.sawSize t (some n) }
        else some { s with pc := setPc s.pc t (.pushReady x), ready := t :: s.ready,
                           sawSize := setPc s.sawSize t (some n) }
      else none
    | _ => none
  | .pushFullWaited t n =>
    match s.pc t with
    | .pushMustWait x =>
      if n = s.items.length then some { s with pc := setPc s.pc t (.pushPolling x) } else none
    | _ => none
  | .pushLocked t n woke =>
    match s.pc t with
    | .pushReady x =>
      if n = s.items.length + 1 ∧ s.waiters.notifyOneOk woke = true then
        some { s with items := s.items ++ [(t, x)], pushed := s.pushed ++ [(t, x)],
                      pc := setPc s.pc t .idle, ready := s.ready.erase t,
                      waiters := s.waiters.notifyOne woke }
      else none
    | _ => none
  | .popNow t n r =>
    if s.pc t = .idle ∧ n = s.items.length ∧ pred s = true ∧ r = s.items.head? then
      some (take s t)
    else none
  | .popBlock t =>
    if s.pc t = .idle ∧ pred s = false then
      some { s with pc := setPc s.pc t .popWaiting, waiters := s.waiters.wait t }
    else none
  | .popWake t n r =>
    if s.pc t = .popWaiting ∧ s.waiters.canWake c.spurious t = true ∧ n = s.items.length
        ∧ pred s = true ∧ r = s.items.head? then
      some (take { s with pc := setPc s.pc t .idle, waiters := s.waiters.remove t } t)
    else none
  | .popRewait t =>
    if s.pc t = .popWaiting ∧ s.waiters.canWake c.spurious t = true ∧ pred s = false then
      some { s with waiters := (s.waiters.remove t).wait t }
    else none
  | .tryPop t n r =>
    if s.pc t = .idle ∧ n = s.items.length ∧ r = s.items.head? then some (take s t) else none
  | .sdEnter t =>
    if s.pc t = .idle then some { s with pc := setPc s.pc t .sdEntered } else none
  | .sdFlag t =>
    if s.pc t = .sdEntered then some { s with pc := setPc s.pc t .sdFlagged, inUse := false } else none
  | .sdLocked t =>
    if s.pc t = .sdFlagged then
      some { s with pc := setPc s.pc t .idle, items := [], removed := s.removed ++ s.items,
                    waiters := s.waiters.notifyAll, sdDone := true }
    else none

/-- the queue as a machine -/
def machine (α : Type) [DecidableEq α] (c : Cfg) : Machine (State α) (Ev α) :=
  { init := init α, step? := step? c }

/-- what a thread at program counter `pc` is carrying through push() -/
def carry (t : Tid) : Pc α → List (Item α)
  | .pushEntered x | .pushPolling x | .pushMustWait x | .pushReady x => [(t, x)]
  | _ => []

/-- the element thread `t` is carrying through push(), if any -/
def inflight (s : State α) (t : Tid) : List (Item α) := carry t (s.pc t)

end Osmium.QueueSM
