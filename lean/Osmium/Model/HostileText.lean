/-
C03 — "the text parsers never read past the terminating NUL", stated over the existing
suffix-cursor models (Model/Conv.lean, Model/Escape.lean, Model/OplFmt.lean).

In those models a C string is the list `s` of its bytes before the NUL and the cursor is the
remaining suffix; `peek [] = 0` is the read of the terminator.  What really lies in memory is
`s ++ 0 :: junk` (`junk` = whatever follows the terminator: the rest of the input buffer, other
heap objects, unmapped memory).  A parser STOPS AT THE TERMINATOR iff running it on the real
memory gives exactly the result it gives on the C string, with the cursor left in front of the
NUL: nothing behind the terminator is ever looked at (the result does not depend on `junk`) and
the cursor never passes it (`0 :: junk` is still ahead).

Core-only.
-/
import Osmium.Model.Chunks

namespace Osmium.HostileText

abbrev Bytes := List UInt8

def NoNul (s : Bytes) : Prop := ∀ b ∈ s, b ≠ 0

/-- the memory behind the string -/
def behind (junk : Bytes) : Bytes := 0 :: junk

/-- result of a cursor parser moved from the C string to the real memory -/
def onMem {ε α : Type} (junk : Bytes) : Except ε (α × Bytes) → Except ε (α × Bytes)
  | .ok (a, rest) => .ok (a, rest ++ behind junk)
  | .error e => .error e

/-- the parser `f` (cursor in, value and new cursor out) stops at the terminator -/
def StopsAtNul {ε α : Type} (f : Bytes → Except ε (α × Bytes)) : Prop :=
  ∀ (s junk : Bytes), NoNul s → f (s ++ behind junk) = onMem junk (f s)

/-- a parser without cursor result: its value does not depend on what lies behind the NUL -/
def IgnoresBehindNul {β : Type} (f : Bytes → β) : Prop :=
  ∀ (s junk : Bytes), NoNul s → f (s ++ behind junk) = f s

/-! ### linear-time line splitting for the model driver

`Chunks.specLines` (the C06 specification of the OPL reader's line splitting) appends to the end of
the segment under construction: quadratic in the line length, minutes for the 64 KiB lines of the
hostile tier.  `specLinesFast` is the same function with reversed accumulators
(`Lemmas/HostileText.lean: specLinesFast_eq`, `Props/C03Text.lean: opl_driver_lines_eq`);
Driver/Text.lean uses it for `rd opl`. -/

def segsFast : Bytes → Bytes → List Bytes → List Bytes × Bytes
  | [], cur, acc => (acc.reverse, cur.reverse)
  | b :: bs, cur, acc =>
    if Chunks.isBreak b then segsFast bs [] (cur.reverse :: acc) else segsFast bs (b :: cur) acc

def specLinesFast (bs : Bytes) : List Bytes :=
  let r := segsFast bs [] []
  (r.1 ++ [r.2]).filter (fun l => !l.isEmpty)

/-- `Chunks.cstr`, tail recursive -/
def cstrFast : Bytes → Bytes → Bytes
  | [], acc => acc.reverse
  | b :: bs, acc => if b == 0 then acc.reverse else cstrFast bs (b :: acc)

end Osmium.HostileText
