/-
C03 — what the PBF decoder hands to the builders.

`toObjS` is the builder call sequence `PBFPrimitiveBlockDecoder` issues for a decoded object
(pbf_decoder.hpp: `build_tag_list`, `decode_node/way/relation`, `decode_dense_nodes`):
set_user(user), then — only if non-empty — one TagListBuilder block, one WayNodeListBuilder
block, one RelationMemberListBuilder block.  `strsOf` lists every string that reaches a builder.

Every string the decoder passes on is an entry of the block's string table (`m_stringtable.at(i)`,
bounds-checked: std::out_of_range → error) or the empty default; the table rejects entries longer
than `max_osm_string_length` and — since repair da64936 — entries containing NUL bytes (DESIGN.md
F13a).  `Pre` is the decoder as it was before that repair, kept for the regression witness.

Core-only.
-/
import Osmium.Model.Pbf
import Osmium.Model.HostileLayout

namespace Osmium.HostilePbf

open Osmium.Osm Osmium.HostileLayout

abbrev Bytes := List UInt8

def tagStrings (ts : List Tag) : List Bytes := ts.flatMap fun t => [t.key, t.value]

/-- every string handed to a builder for this object -/
def strsOf : Object → List Bytes
  | .node m _ => m.user :: tagStrings m.tags
  | .way m _ => m.user :: tagStrings m.tags
  | .relation m ms => m.user :: tagStrings m.tags ++ ms.map (·.role)
  | .changeset _ _ _ _ _ _ user _ _ tags cs => user :: tagStrings tags ++ cs.flatMap fun c => [c.user, c.text]

def tagsSub (ts : List Tag) : List SubS :=
  if ts.isEmpty then [] else [.tags (ts.map fun t => (t.key, t.value))]

/-- the builder calls issued for a decoded object (`fixed` = what the set_xxx calls wrote into
    the fixed part: irrelevant for traversal, see HostileLayout.ObjS) -/
def toObjS (fixed : Bytes) : Object → ObjS
  | .node m _ => { kind := .node, fixed := fixed, user := m.user, subs := tagsSub m.tags }
  | .way m ns =>
    { kind := .way, fixed := fixed, user := m.user,
      subs := (if ns.isEmpty then [] else [.nodes Layout.tyWayNodeList (ns.map fun n => ⟨n.ref, n.location.x, n.location.y⟩)]) ++
              tagsSub m.tags }
  | .relation m ms =>
    { kind := .relation, fixed := fixed, user := m.user,
      subs := (if ms.isEmpty then [] else [.members (ms.map fun x => ⟨x.type, x.ref, x.role⟩)]) ++ tagsSub m.tags }
  | .changeset _ _ _ _ _ _ user _ _ tags cs =>
    { kind := .changeset, fixed := fixed, user := user,
      subs := tagsSub tags ++
        (if cs.isEmpty then [] else [.discussion (cs.map fun c => ⟨c.date, c.uid, c.user, some c.text⟩)]) }

/-- no string of the object contains a NUL byte — what `decode_stringtable` establishes since
    repair da64936 (`decodeFile_strings_nulfree`) and did not establish before -/
def NulFree (o : Object) : Prop := ∀ s ∈ strsOf o, noNul s = true

/-- `decode_stringtable` as it was BEFORE repair da64936: length check only.  Kept as regression
    documentation (Props/C03Pbf.lean `f13a_prefix_*`); the current function is
    `Pbf.decodeStringTable`. -/
def Pre.decodeStringTable (cur : List Bytes) (payload : Bytes) : Option (List Bytes) :=
  if !cur.isEmpty then none
  else Pbf.withFields payload fun fs =>
    let ss := (fs.filter fun f => f.tag == 1 && f.wt == .lengthDelimited).map (·.payload)
    if ss.any (fun s => s.length > Pbf.maxOsmStringLength) then none else some ss

end Osmium.HostilePbf
