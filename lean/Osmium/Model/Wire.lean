/-
Protobuf wire level as libosmium sees it through protozero (`/usr/include/protozero`):
varint decoding/encoding, zig-zag, and the field cursor `pbf_reader::next/skip/get_*`.
Shared by the PBF, o5m and chunking models (C01, C02, C03, C06).  Core-only.

protozero itself is an external library: this file is the *contract* the models assume for
it; the correspondence harnesses exercise the real protozero through libosmium.
-/
namespace Osmium.Wire

abbrev Bytes := List UInt8

inductive Err
  | endOfBuffer        -- protozero::end_of_buffer_exception
  | varintTooLong      -- protozero::varint_too_long_exception
  | unknownWireType    -- protozero::unknown_pbf_wire_type_exception
  | invalidTag         -- protozero::invalid_tag_exception
  | invalidLength      -- protozero::invalid_length_exception
  deriving Repr, DecidableEq

def Err.name : Err → String
  | .endOfBuffer => "end_of_buffer"
  | .varintTooLong => "varint_too_long"
  | .unknownWireType => "unknown_wire_type"
  | .invalidTag => "invalid_tag"
  | .invalidLength => "invalid_length"

/-- `decode_varint`: at most 10 bytes, little-endian base 128, the 10th byte contributes only
    its lowest bit; value is a uint64. `i` = index of the byte being read. -/
def decodeVarintGo : Bytes → Nat → Nat → Except Err (Nat × Bytes)
  | [], _, _ => .error .endOfBuffer
  | b :: rest, i, acc =>
    let v := if i == 9 then b.toNat % 2 else b.toNat % 128
    let acc' := acc + v * 2 ^ (7 * i)
    if b.toNat < 128 then .ok (acc', rest)
    else if i ≥ 9 then .error .varintTooLong
    else decodeVarintGo rest (i + 1) acc'

def decodeVarint (bs : Bytes) : Except Err (Nat × Bytes) := decodeVarintGo bs 0 0

/-- `skip_varint` -/
def skipVarintGo : Bytes → Nat → Except Err Bytes
  | [], n => if n ≥ 10 then .error .varintTooLong else .error .endOfBuffer
  | b :: rest, n =>
    if b.toNat ≥ 128 then skipVarintGo rest (n + 1)
    else if n ≥ 10 then .error .varintTooLong
    else .ok rest

def skipVarint (bs : Bytes) : Except Err Bytes := skipVarintGo bs 0

/-- `write_varint` / `add_varint_to_buffer` for a uint64 value (fuel = 10 bytes suffice). -/
def encodeVarintGo : Nat → Nat → Bytes
  | 0, v => [UInt8.ofNat (v % 128)]
  | fuel + 1, v =>
    if v < 128 then [UInt8.ofNat v]
    else UInt8.ofNat (v % 128 + 128) :: encodeVarintGo fuel (v / 128)

def encodeVarint (v : Nat) : Bytes := encodeVarintGo 10 (v % 2 ^ 64)

/-- `encode_zigzag64` on a signed 64-bit value given as Int in [-2^63, 2^63) -/
def zigzag64 (x : Int) : Nat :=
  if x ≥ 0 then (2 * x).toNat else (-2 * x - 1).toNat

/-- `decode_zigzag64` -/
def unzigzag64 (n : Nat) : Int :=
  if n % 2 == 0 then (n / 2 : Nat) else -((n / 2 : Nat) : Int) - 1

/-- uint64 → int64 reinterpretation -/
def toInt64 (n : Nat) : Int :=
  let m : Nat := n % 2 ^ 64
  if m < 2 ^ 63 then (m : Int) else (m : Int) - 2 ^ 64

/-- uint64 → int32 (static_cast) -/
def toInt32 (n : Nat) : Int :=
  let m : Nat := n % 2 ^ 32
  if m < 2 ^ 31 then (m : Int) else (m : Int) - 2 ^ 32

inductive WireType | varint | fixed64 | lengthDelimited | fixed32
  deriving Repr, DecidableEq

/-- A field as `pbf_reader` presents it: tag number, wire type, the bytes of its value
    (for varint: the decoded value is kept too). -/
structure Field where
  tag : Nat
  wt : WireType
  val : Nat        -- varint value (0 for other wire types)
  payload : Bytes  -- fixed / length-delimited payload ([] for varint)
  deriving Repr, DecidableEq

def splitAtChecked (n : Nat) (bs : Bytes) : Except Err (Bytes × Bytes) :=
  if bs.length < n then .error .endOfBuffer else .ok (bs.take n, bs.drop n)

/-- `next()` followed by reading (or skipping — same cursor movement) the value. -/
def readField (bs : Bytes) : Except Err (Field × Bytes) := do
  let (key, rest) ← decodeVarint bs
  let key32 := key % 2 ^ 32          -- get_varint<uint32_t>
  let tag := key32 / 8
  if tag == 0 || (19000 ≤ tag && tag ≤ 19999) then throw .invalidTag
  match key32 % 8 with
  | 0 => do
    let (v, rest') ← decodeVarint rest
    pure (⟨tag, .varint, v, []⟩, rest')
  | 1 => do
    let (p, rest') ← splitAtChecked 8 rest
    pure (⟨tag, .fixed64, 0, p⟩, rest')
  | 2 => do
    let (len, rest') ← decodeVarint rest
    let (p, rest'') ← splitAtChecked (len % 2 ^ 32) rest'
    pure (⟨tag, .lengthDelimited, 0, p⟩, rest'')
  | 5 => do
    let (p, rest') ← splitAtChecked 4 rest
    pure (⟨tag, .fixed32, 0, p⟩, rest')
  | _ => throw .unknownWireType

/-- All fields of a message (`while (msg.next()) …`), fuel = number of bytes. -/
def readFieldsGo : Nat → Bytes → List Field → Except Err (List Field)
  | _, [], acc => .ok acc.reverse
  | 0, _ :: _, acc => .ok acc.reverse
  | fuel + 1, bs@(_ :: _), acc => do
    let (f, rest) ← readField bs
    readFieldsGo fuel rest (f :: acc)

def readFields (bs : Bytes) : Except Err (List Field) := readFieldsGo bs.length bs []

end Osmium.Wire

namespace Osmium.Wire

/-! ### writer side (protozero::pbf_writer) -/

def WireType.code : WireType → Nat
  | .varint => 0 | .fixed64 => 1 | .lengthDelimited => 2 | .fixed32 => 5

/-- `pbf_writer::add_*`: key varint, then the value -/
def encodeField (f : Field) : Bytes :=
  encodeVarint (f.tag * 8 + f.wt.code) ++
    match f.wt with
    | .varint => encodeVarint f.val
    | .lengthDelimited => encodeVarint f.payload.length ++ f.payload
    | .fixed64 => f.payload
    | .fixed32 => f.payload

def encodeFields (fs : List Field) : Bytes := fs.flatMap encodeField

/-- what a writer can produce and a reader reads back unchanged -/
def Field.WF (f : Field) : Prop :=
  0 < f.tag ∧ f.tag < 2 ^ 29 ∧ ¬ (19000 ≤ f.tag ∧ f.tag ≤ 19999) ∧
  match f.wt with
  | .varint => f.val < 2 ^ 64 ∧ f.payload = []
  | .lengthDelimited => f.val = 0 ∧ f.payload.length < 2 ^ 32
  | .fixed64 => f.val = 0 ∧ f.payload.length = 8
  | .fixed32 => f.val = 0 ∧ f.payload.length = 4

end Osmium.Wire
