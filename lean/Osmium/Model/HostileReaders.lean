/-
C03 — what the OPL and the XML reader hand to the builders (the PBF and o5m readers:
Model/HostilePbf.lean `toObjS`).

OPL (opl_parser_functions.hpp, end of opl_parse_node / way / relation / changeset): after the
attribute loop `builder.set_user(user)`, then `if (tags_begin) opl_parse_tags(…)` (one TagListBuilder,
at least one tag), then `opl_parse_way_nodes` (`if (s == e) return;` before the WayNodeListBuilder is
created) resp. `if (members_begin != members_end) opl_parse_relation_members(…)`: `oplObjS`.
Strings: `opl_parse_string` appends the bytes in front of the next NUL / space / tab / ',' / '=' and
the UTF-8 encodings of the `%hex%` escapes (`%0%` appends '%'): no NUL byte can get into them.

XML (xml_input_format.hpp): the callbacks receive `const XML_Char*` C STRINGS — element name and
attribute values end at their first NUL whatever expat holds behind it; `cEv` makes that explicit:
the reader as the C code sees the events is `read types (evs.map cEv)`.  (Character data comes with
an explicit length; XML 1.0 has no NUL character — `Char ::= #x9 | #xA | #xD | [#x20-…]` — so a
conforming parser never reports one: premise `CharsNoNul` of the theorems, the only one about expat.)
The sub-builders are created lazily in DOCUMENT order (`m_tl_builder`, `m_wnl_builder`,
`m_rml_builder`, `m_changeset_discussion_builder`; at most one open at a time) — `XmlFmt.Cur.subs`
is exactly that sequence of blocks; `xmlObjS` maps it to builder calls.  `delivered` runs the
reader's event loop and records the builder state of every object at the moment it is committed;
`Lemmas/HostileReadersXml.lean: delivered_assemble` shows these are the objects `XmlFmt.read` returns
(`assemble` = what the accessors `tags()` / `nodes()` / `members()` / `discussion()` see).

Core-only.
-/
import Osmium.Model.HostilePbf
import Osmium.Model.XmlFmt

namespace Osmium.HostileReaders

open Osmium.Osm Osmium.HostileLayout Osmium.HostilePbf

abbrev Bytes := List UInt8

/-! ### OPL -/

/-- the builder calls of `opl_parse_node/way/relation/changeset` for the object they deliver -/
def oplObjS (fixed : Bytes) : Object → ObjS
  | .node m _ => { kind := .node, fixed := fixed, user := m.user, subs := tagsSub m.tags }
  | .way m ns =>
    { kind := .way, fixed := fixed, user := m.user,
      subs := tagsSub m.tags ++
        (if ns.isEmpty then [] else [.nodes Layout.tyWayNodeList (ns.map fun n => ⟨n.ref, n.location.x, n.location.y⟩)]) }
  | .relation m ms =>
    { kind := .relation, fixed := fixed, user := m.user,
      subs := tagsSub m.tags ++ (if ms.isEmpty then [] else [.members (ms.map fun x => ⟨x.type, x.ref, x.role⟩)]) }
  | .changeset _ _ _ _ _ _ user _ _ tags _ =>
    { kind := .changeset, fixed := fixed, user := user, subs := tagsSub tags }

/-! ### XML -/

open Osmium.XmlFmt

/-- a `const XML_Char*` as the callback reads it: up to the first NUL -/
def cAttrs (attrs : List (String × Bytes)) : List (String × Bytes) := attrs.map fun a => (a.1, Chunks.cstr a.2)

/-- the event as `start_element(const XML_Char* element, const XML_Char** attrs)` /
    `characters(const XML_Char* text, int len)` see it -/
def cEv : Ev → Ev
  | .start n attrs => .start n (cAttrs attrs)
  | e => e

/-- character data without NUL (XML 1.0 `Char` production) -/
def CharsNoNul (evs : List Ev) : Prop := ∀ t, Ev.chars t ∈ evs → noNul t = true

/-- one block of `Cur.subs` as builder calls (every comment has its text: `add_comment_text` at
    `</text>` or `add_comment_text("")` at `</comment>`, repair 5690f83) -/
def xmlSub : Sub → SubS
  | .tags ts => .tags (ts.map fun t => (t.key, t.value))
  | .nodes ns => .nodes Layout.tyWayNodeList (ns.map fun n => ⟨n.ref, n.location.x, n.location.y⟩)
  | .members ms => .members (ms.map fun x => ⟨x.type, x.ref, x.role⟩)
  | .discussion cs => .discussion (cs.map fun c => ⟨c.date, c.uid, c.user, some c.text⟩)

def curUser (c : Cur) : Bytes :=
  match c.obj with
  | .node m _ => m.user
  | .way m _ => m.user
  | .relation m _ => m.user
  | .changeset _ _ _ _ _ _ user _ _ _ _ => user

def curKind (c : Cur) : OKind :=
  match c.obj with
  | .node .. => .node
  | .way .. => .way
  | .relation .. => .relation
  | .changeset .. => .changeset

/-- the builder calls the XML reader issued for a committed object -/
def xmlObjS (fixed : Bytes) (c : Cur) : ObjS :=
  { kind := curKind c, fixed := fixed, user := curUser c, subs := c.subs.map xmlSub }

/-- the builder state this event commits (`end_element` of node / way / relation / changeset with
    that entity type being read: `m_buffer.commit()`), if any -/
def committed (types : OplFmt.Types) (st : RSt) : Ev → Option Cur
  | .stop _ =>
    match st.stack with
    | .node :: _ => if types.node then st.cur else none
    | .way :: _ => if types.way then st.cur else none
    | .relation :: _ => if types.relation then st.cur else none
    | .changeset :: _ => if types.changeset then st.cur else none
    | _ => none
  | _ => none

/-- `XmlFmt.runEvents` with the committed builder states recorded (most recent first) -/
def deliveredGo (types : OplFmt.Types) : List Ev → RSt → List Cur → Except XErr (RSt × List Cur)
  | [], st, acc => .ok (st, acc)
  | e :: es, st, acc =>
    TextFmt.bindE (stepEv types st e) fun st' =>
      deliveredGo types es st' (match committed types st e with | some c => c :: acc | none => acc)

/-- the builder states of the objects the reader delivers, in file order; an exception of the
    reader is an exception here -/
def delivered (types : OplFmt.Types) (evs : List Ev) : Except XErr (List Cur) :=
  TextFmt.bindE (deliveredGo types evs {} []) fun r => .ok r.2.reverse

end Osmium.HostileReaders
