/-
Model of libosmium's ItemStash (property C15).

Transcribed from
  include/osmium/storage/item_stash.hpp   ItemStash: add_item, get_item (get_item_offset and its
                                          asserts), remove_item, garbage_collect, clear, size,
                                          count_removed, should_gc, cleanup_helper::moving_in_buffer
  include/osmium/memory/buffer.hpp        calculate_capacity, reserve_space/grow (auto_grow::yes),
                                          add_item, commit, clear, purge_removed(callback)
  include/osmium/memory/item.hpp          padded_length, Item::padded_size, removed flag

Core-only.  The buffer is the list of committed items in buffer order; the byte offset of an
item is the sum of the padded sizes of the items before it (items are contiguous:
`add_item` appends at `m_written` = `m_committed`, `purge_removed` compacts).  An item is its
byte size (header + payload), its removed flag and its payload bytes.  `memmove` of an item
is modelled as moving the `Item` value.
Violated preconditions (the `assert`s of get_item_offset: invalid / out-of-range handle,
removed item, offset not committed; the helper running off the end of `m_index`) are the
explicit outcome `none` (undefined behaviour in NDEBUG builds).
-/
namespace Osmium.Stash

/-- `padded_length(n)`: round up to a multiple of `align_bytes` = 8 -/
def padded (n : Nat) : Nat := (n + 7) / 8 * 8

/-- an `osmium::memory::Item` stored in the buffer -/
structure Item where
  /-- `byte_size()` = 8 (item header) + payload length -/
  size : Nat
  removed : Bool
  payload : List UInt8
  deriving Repr, DecidableEq

def Item.psize (i : Item) : Nat := padded i.size

/-- `removed_item_offset = numeric_limits<size_t>::max()` -/
def REMOVED : Nat := 2 ^ 64 - 1

/-- `Buffer::calculate_capacity` -/
def calcCapacity (c : Nat) : Nat := if c < 64 then 64 else padded c

/-- `ItemStash` (with its `Buffer`: `capacity`, `items`, `m_written = m_committed = written`) -/
structure State where
  capacity : Nat
  items : List Item := []
  /-- `m_buffer.m_written` = `m_buffer.m_committed` (equal between the calls of ItemStash) -/
  written : Nat := 0
  /-- `m_index`: handle `h` ↦ `index[h-1]` -/
  index : List Nat := []
  countItems : Nat := 0
  countRemoved : Nat := 0
  deriving Repr

/-- `ItemStash()` with `initial_buffer_size = ibs` -/
def init (ibs : Nat) : State := { capacity := calcCapacity ibs }

def sizeSum : List Item → Nat
  | [] => 0
  | i :: r => i.psize + sizeSum r

/-- `m_buffer.committed()` -/
def committed (s : State) : Nat := s.written

/-- `should_gc()` -/
def shouldGc (s : State) : Bool :=
  if s.countRemoved < 10 * 1000 then false
  else if s.countRemoved > 5 * 1000 * 1000 then true
  else if s.countRemoved * 5 < s.countItems then false
  else decide (s.capacity - committed s < 10 * 1024)

/-- `m_buffer.get<Item>(offset)`: the item that starts at byte `off` (none = not an item start) -/
def itemAt : List Item → Nat → Option Item
  | [], _ => none
  | i :: r, off => if off = 0 then some i else if off < i.psize then none else itemAt r (off - i.psize)

/-- `item.set_removed(true)` on the item that starts at byte `off` -/
def markRemoved : List Item → Nat → List Item
  | [], _ => []
  | i :: r, off =>
    if off = 0 then { i with removed := true } :: r
    else if off < i.psize then i :: r else i :: markRemoved r (off - i.psize)

/-- `get_item_offset(handle)` with its four asserts -/
def itemOffset (s : State) (h : Nat) : Option Nat :=
  if h = 0 then none                       -- handle.valid()
  else match s.index[h - 1]? with
    | none => none                         -- handle.value <= m_index.size()
    | some off =>
      if off = REMOVED then none           -- offset != removed_item_offset
      else if off < committed s then some off else none

/-- `get_item(handle)`: the payload of the item (none = precondition violated / not an item) -/
def getItem (s : State) (h : Nat) : Option Item :=
  match itemOffset s h with
  | none => none
  | some off => itemAt s.items off

/-- `cleanup_helper`: `m_index[0 .. m_pos)` reversed, and `m_index[m_pos ..)` -/
structure Helper where
  doneRev : List Nat := []
  rest : List Nat

/-- `cleanup_helper::moving_in_buffer(old_offset, new_offset)`;
    none = `m_pos` ran past the end of `m_index` (out-of-bounds read) -/
def movingInBuffer (old new : Nat) : List Nat → List Nat → Option Helper
  | _, [] => none
  | doneRev, x :: rest =>
    if x != old then movingInBuffer old new (x :: doneRev) rest   -- ++m_pos
    else some { doneRev := new :: doneRev, rest := rest }          -- m_index[m_pos] = new; ++m_pos

/-- the loop of `Buffer::purge_removed(callback)`: `rd`/`wr` are the byte offsets of
    `it_read`/`it_write`; returns the kept items and the helper. -/
def purge : List Item → Nat → Nat → Helper → Option (List Item × Helper)
  | [], _, _, hp => some ([], hp)
  | i :: r, rd, wr, hp =>
    if !i.removed then
      let hp' := if rd != wr then movingInBuffer rd wr hp.doneRev hp.rest else some hp
      match hp' with
      | none => none
      | some hp' =>
        match purge r (rd + i.psize) (wr + i.psize) hp' with
        | none => none
        | some (kept, hp'') => some (i :: kept, hp'')
    else purge r (rd + i.psize) wr hp

/-- `garbage_collect()` -/
def garbageCollect (s : State) : Option State :=
  match purge s.items 0 0 { rest := s.index } with
  | none => none
  | some (kept, hp) =>
    -- m_written = m_committed = offset of it_write after the loop = size of the kept items
    some { s with countRemoved := 0, items := kept, written := sizeSum kept,
                  index := hp.doneRev.reverse ++ hp.rest }

/-- `Buffer::reserve_space(size)` with `auto_grow::yes`: the new capacity -/
def growFor (cap written size : Nat) : Nat :=
  if written + size > cap then
    let rec dbl (fuel c : Nat) : Nat :=
      match fuel with
      | 0 => c
      | f + 1 => if written + size > c then dbl f (c * 2) else c
    let nc := calcCapacity (dbl (written + size) (cap * 2))
    if cap < nc then nc else cap
  else cap

/-- `add_item(item)`: new state and the handle; the item is copied with its flags (the caller's
    item is not removed).  none = the helper of an automatic collection hit the end of the index. -/
def addItem (s : State) (payload : List UInt8) : Option (State × Nat) :=
  let s1 := if shouldGc s then garbageCollect s else some s
  match s1 with
  | none => none
  | some s1 =>
    let it : Item := { size := 8 + payload.length, removed := false, payload := payload }
    let off := committed s1
    let s2 := { s1 with
      countItems := s1.countItems + 1
      capacity := growFor s1.capacity off it.psize
      items := s1.items ++ [it]
      written := off + it.psize
      index := s1.index ++ [off] }
    some (s2, s2.index.length)

/-- `remove_item(handle)` -/
def removeItem (s : State) (h : Nat) : Option State :=
  match itemOffset s h with
  | none => none
  | some off =>
    match itemAt s.items off with
    | none => none
    | some it =>
      if it.removed then none     -- assert(!item.removed())
      else some { s with
        items := markRemoved s.items off
        index := s.index.set (h - 1) REMOVED
        countItems := s.countItems - 1
        countRemoved := s.countRemoved + 1 }

/-- `clear()` (the buffer keeps its capacity) -/
def clear (s : State) : State := { capacity := s.capacity }

/-! ### operation histories -/

inductive Op
  | add (payload : List UInt8) | get (h : Nat) | remove (h : Nat) | gc | clear | size
  deriving Repr, DecidableEq

inductive Out
  | unit
  /-- handle returned by add_item -/
  | handle (h : Nat)
  /-- byte size, removed flag and payload of the item a handle resolves to -/
  | item (size : Nat) (removed : Bool) (payload : List UInt8)
  | nat (n : Nat)
  /-- a precondition of the call is violated (undefined behaviour): the call is not made -/
  | ub
  deriving Repr, DecidableEq

def step (s : State) : Op → State × Out
  | .add p => match addItem s p with
    | none => (s, .ub)
    | some (s', h) => (s', .handle h)
  | .get h => match getItem s h with
    | none => (s, .ub)
    | some it => (s, .item it.size it.removed it.payload)
  | .remove h => match removeItem s h with
    | none => (s, .ub)
    | some s' => (s', .unit)
  | .gc => match garbageCollect s with
    | none => (s, .ub)
    | some s' => (s', .unit)
  | .clear => (clear s, .unit)
  | .size => (s, .nat s.countItems)

def run : State → List Op → State × List Out
  | s, [] => (s, [])
  | s, op :: ops =>
    let (s1, o) := step s op
    let (s2, os) := run s1 ops
    (s2, o :: os)

end Osmium.Stash
