/-
WriterSMQ — the Writer machine of C08 with its output queue at LOCK granularity (core-only).

`WriterSM.machine` treats `Queue::push`, `queue_wrapper::pop` and `Queue::shutdown` of
`m_output_queue` as atomic events.  Here the queue is a full copy of C19's lock-granular queue
machine `QueueSM` (one event = one critical section / one unlocked atomic access of
thread/queue.hpp), exactly as Model/Pipeline.lean does for the Reader's queues:

  producer (thread 0)   `.push it` of WriterSM's producer code becomes the QueueSM events
                        pushEnter · pushTest (UNLOCKED read of m_in_use) · pushSize ·
                        pushFullWaited (the 10 ms timed wait: may end at any time — busy
                        polling) · pushLocked (enqueue + notify_one)
  write thread (1)      queue_wrapper::pop (queue_util.hpp:131-144):
                          `if (m_queue.in_use())`      unlocked read           (event `wt`)
                          `m_queue.wait_and_pop(f)`     popNow | popBlock · popWake | popRewait
                          `data = f.get()`              as in WriterSM (`.got`)
                          `if (at_end_of_data(data)) m_queue.shutdown()`   sdEnter · sdFlag · sdLocked
                        the catch block's `m_queue.shutdown()` and `~queue_wrapper` likewise.
  pool workers          complete the task of a queued future (by position) or of the future the
                        write thread holds.

Queue elements are FUTURE IDS (`Nat`, allocated by `pushEnter`); what a future will yield and
whether its task has run lives in `futs` (the shared states of the futures), so the queue
component of every run is literally a run of `QueueSM.machine Nat` (Lemmas/WriterSMQ.lean:
`reachable_queue`).  Everything that is not a queue access is taken over from WriterSM
(`stepProd`, and `wtLocal` = the non-queue cases of `stepWt`).

The races this granularity adds to WriterSM: a push that read `m_in_use == true` may enqueue
after the write thread's `shutdown()` stored the flag / drained the queue (the element then
sits in a dead queue forever); the producer polls a full queue; the write thread sleeps on
`m_data_available` and depends on `notify_one` / `notify_all` (or a spurious wake-up).
-/
import Osmium.Model.WriterSM
import Osmium.Model.QueueSM

namespace Osmium.WriterSMQ

open Osmium.Mon Osmium.WriterSM

/-- the thread that calls the Writer's API -/
abbrev prodT : Tid := 0
/-- the write thread -/
abbrev wtT : Tid := 1

/-- write-thread program counter at lock granularity -/
inductive FW where
  | at (p : WPc)       -- as in WriterSM; `.at .pop` = before `if (m_queue.in_use())`
  | popping            -- inside `m_queue.wait_and_pop` (in_use() was true)
  | sdGot              -- inside `m_queue.shutdown()` called by queue_wrapper::pop (at_end_of_data:
                       --   the future held was ready and yielded "", i.e. it equals `endItem`)
  | sdFail             -- … called by the catch block of WriteThread::operator()
  | sdDtor             -- … called by ~queue_wrapper
  | dtor2              -- ~queue_wrapper done, ~Compressor next
  deriving DecidableEq, Repr

structure FSt (κ : Type) where
  /-- producer, compressor, OS, promise, ghosts: as in WriterSM.  The fields `q`, `inUse`,
      `wpc` of `base` are NOT used by this machine (they keep their initial values). -/
  base : St κ
  /-- m_output_queue -/
  qs : QueueSM.State Nat
  /-- shared states of the futures created so far (index = future id) -/
  futs : List Item := []
  fw : FW := .at .pop

inductive FEv where
  | prod                        -- a producer step that is not a queue access
  | wt                          -- a write-thread step that is not a queue access
  | worker (i : Option Nat)     -- a pool thread completes the task of the i-th queued future /
                                --   of the future the write thread holds
  | q (e : QueueSM.Ev Nat)      -- one critical section / atomic access of m_output_queue
  deriving DecidableEq, Repr

/-- the future with id `fid` -/
def look (futs : List Item) (fid : Nat) : Item := futs[fid]?.getD endItem

/-- `Queue::push` returned: the producer goes on (ghost: the push attempt is recorded) -/
def pushDone {κ : Type} (b : St κ) : St κ :=
  match b.code with
  | .push it :: rest => { b with code := rest, pushed := b.pushed ++ [it.res] }
  | _ => b

section steps
variable {κ : Type} (cfg : Cfg κ) (sp : Bool)

/-- the queue's parameters: max size (util/config.hpp get_max_queue_size), spurious wake-ups -/
def qcfg : QueueSM.Cfg := { max := cfg.qmax, spurious := sp }

/-- the write thread's steps that touch neither the queue nor its in-use flag: the
    corresponding cases of `WriterSM.stepWt`, returning the next pc -/
def wtLocal (b : St κ) : WPc → Option (St κ × WPc)
  | .got it =>
    if ¬ it.ready then none else                             -- future.get() blocks
    match it.res with
    | .exc e => some (b, .fail1 e)
    | .data [] => none                                       -- at_end_of_data: shutdown (queue events)
    | .data (x :: xs) =>
      match cfg.comp.write b.comp (x :: xs) b.os with
      | (none, k', os') =>
        some ({ b with comp := k', os := os', written := b.written ++ [x :: xs] }, .pop)
      | (some e, k', os') => some ({ b with comp := k', os := os' }, .fail1 e)
  | .closing =>
    match cfg.comp.close b.comp b.os with
    | (none, k', os') =>
      some ({ b with comp := k', os := os', promise := some (.ok (cfg.comp.fileSize k')) }, .dtor)
    | (some e, k', os') => some ({ b with comp := k', os := os' }, .fail1 e)
  | .fail1 e => some ({ b with notification := true }, .fail2 e)
  | .fail2 e => some ({ b with promise := some (.raised e) }, .fail3)
  | _ => none

/-- producer steps other than queue accesses: `WriterSM.stepProd`, except that `.push` is
    split into queue events and `.join` looks at this machine's write-thread pc -/
def stepProdF (s : FSt κ) : Option (FSt κ) :=
  match s.base.cur, s.base.code with
  | some _, .push _ :: _ => none
  | some a, .join :: _ =>
    if s.fw = .at .done then
      some { s with base := { (finish s.base a (.ok 0)) with destroyed := true } }
    else none
  | _, _ => (stepProd cfg s.base).map fun b => { s with base := b }

def stepWtF (s : FSt κ) : Option (FSt κ) :=
  match s.fw with
  | .at .pop =>
    -- queue_wrapper::pop: `if (m_queue.in_use())` — unlocked read of the atomic
    if s.qs.inUse then some { s with fw := .popping } else some { s with fw := .at .closing }
  | .at p => (wtLocal cfg s.base p).map fun (b, p') => { s with base := b, fw := .at p' }
  | .dtor2 =>
    let (k', os') := cfg.comp.destroy s.base.comp s.base.os
    some { s with base := { s.base with comp := k', os := os' }, fw := .at .done }
  | _ => none

def stepWorkerF (s : FSt κ) : Option Nat → Option (FSt κ)
  | none =>
    match s.fw with
    | .at (.got it) => if it.ready then none else some { s with fw := .at (.got (setReady it)) }
    | _ => none
  | some i =>
    match s.qs.items[i]? with
    | some (_, fid) =>
      if fid < s.futs.length ∧ ¬ (look s.futs fid).ready then
        some { s with futs := s.futs.set fid (setReady (look s.futs fid)) }
      else none
    | none => none

/-- one access to m_output_queue by the thread whose code is at that access -/
def stepQ (s : FSt κ) (e : QueueSM.Ev Nat) : Option (FSt κ) :=
  let qstep := QueueSM.step? (qcfg cfg sp) s.qs e
  match e with
  | .pushEnter t x =>
    -- the future was created before the call (`m_pool.submit(…)` / `promise.get_future()`)
    match s.base.cur, s.base.code with
    | some _, .push it :: _ =>
      if t = prodT ∧ x = s.futs.length then
        qstep.map fun qs' => { s with qs := qs', futs := s.futs ++ [it] }
      else none
    | _, _ => none
  | .pushTest t saw =>
    if t = prodT then
      qstep.map fun qs' =>
        if saw then { s with qs := qs' } else { s with qs := qs', base := pushDone s.base }
    else none
  | .pushSize t _ => if t = prodT then qstep.map fun qs' => { s with qs := qs' } else none
  | .pushFullWaited t _ => if t = prodT then qstep.map fun qs' => { s with qs := qs' } else none
  | .pushLocked t _ _ =>
    if t = prodT then qstep.map fun qs' => { s with qs := qs', base := pushDone s.base } else none
  | .popNow t _ r | .popWake t _ r =>
    if t = wtT ∧ s.fw = .popping then
      qstep.map fun qs' =>
        match r with
        | some (_, fid) =>
          { s with qs := qs', fw := .at (.got (look s.futs fid)),
                   base := { s.base with taken := s.base.taken ++ [(look s.futs fid).res] } }
        | none => { s with qs := qs', fw := .at .closing }     -- `data` stays empty → break
    else none
  | .popBlock t | .popRewait t =>
    if t = wtT ∧ s.fw = .popping then qstep.map fun qs' => { s with qs := qs' } else none
  | .tryPop _ _ _ => none                                      -- not used by the Writer
  | .sdEnter t =>
    if t = wtT then
      match s.fw with
      | .at (.got it) =>
        if it.ready = true ∧ it.res = .data [] then
          qstep.map fun qs' => { s with qs := qs', fw := .sdGot }
        else none
      | .at .fail3 => qstep.map fun qs' => { s with qs := qs', fw := .sdFail }
      | .at .dtor => qstep.map fun qs' => { s with qs := qs', fw := .sdDtor }
      | _ => none
    else none
  | .sdFlag t =>
    if t = wtT then
      match s.fw with
      | .sdGot | .sdFail | .sdDtor => qstep.map fun qs' => { s with qs := qs' }
      | _ => none
    else none
  | .sdLocked t =>
    if t = wtT then
      match s.fw with
      | .sdGot => qstep.map fun qs' => { s with qs := qs', fw := .at .closing }
      | .sdFail => qstep.map fun qs' => { s with qs := qs', fw := .at .dtor }
      | .sdDtor => qstep.map fun qs' => { s with qs := qs', fw := .dtor2 }
      | _ => none
    else none

def step? (s : FSt κ) : FEv → Option (FSt κ)
  | .prod => stepProdF cfg s
  | .wt => stepWtF cfg s
  | .worker i => stepWorkerF s i
  | .q e => stepQ cfg sp s e

end steps

def initF {κ : Type} (k0 : κ) (os0 : OS) (script : List Api) : FSt κ :=
  { base := initSt k0 os0 script, qs := QueueSM.init Nat }

/-- the Writer with a lock-granular output queue -/
def machine {κ : Type} (cfg : Cfg κ) (sp : Bool) (k0 : κ) (os0 : OS) (script : List Api) :
    Machine (FSt κ) FEv :=
  { init := initF k0 os0 script, step? := step? cfg sp }

/-! ### a deterministic scheduler (for the concrete runs in Props)

The events that can be enabled in `s` are determined by `s` (sizes / flags / front element seen
are what the state says); `wtFirst` gives the write thread priority over the producer. -/

def candidates {κ : Type} (wtFirst : Bool) (s : FSt κ) : List FEv :=
  let n := s.qs.items.length
  let prod : List FEv :=
    [.prod, .q (.pushEnter prodT s.futs.length), .q (.pushTest prodT s.qs.inUse), .q (.pushSize prodT n),
     .q (.pushLocked prodT (n + 1) none), .q (.pushLocked prodT (n + 1) (some wtT)),
     .q (.pushFullWaited prodT n)]
  let workers : List FEv := .worker none :: (List.range n).map fun i => .worker (some i)
  let wt : List FEv :=
    [.wt, .q (.popNow wtT n s.qs.items.head?), .q (.popWake wtT n s.qs.items.head?), .q (.popBlock wtT),
     .q (.sdEnter wtT), .q (.sdFlag wtT), .q (.sdLocked wtT), .q (.popRewait wtT)]
  if wtFirst then wt ++ workers ++ prod else prod ++ workers ++ wt

def pickF {κ : Type} (cfg : Cfg κ) (sp wtFirst : Bool) (s : FSt κ) : Option (FEv × FSt κ) :=
  (candidates wtFirst s).findSome? fun e => (step? cfg sp s e).map fun s' => (e, s')

def runSchedF {κ : Type} (cfg : Cfg κ) (sp wtFirst : Bool) : Nat → FSt κ → List FEv × FSt κ
  | 0, s => ([], s)
  | fuel + 1, s =>
    match pickF cfg sp wtFirst s with
    | none => ([], s)
    | some (e, s') =>
      let (tr, sf) := runSchedF cfg sp wtFirst fuel s'
      (e :: tr, sf)

/-! ### the abstraction to WriterSM's atomic-queue state

Linearisation points: a push takes effect at `pushLocked` (or at the `pushTest` that saw the
queue shut down), a pop at `popNow` / `popWake`, a shutdown at `sdFlag` (the unlocked store):
from then on the queue counts as empty and not in use, whatever is still in `m_queue`. -/

def absQ {κ : Type} (s : FSt κ) : List Item :=
  if s.qs.inUse then s.qs.items.map fun x => look s.futs x.2 else []

def absW {κ : Type} (s : FSt κ) : WPc :=
  match s.fw with
  | .at p => p
  | .popping => .pop
  | .sdGot => if s.qs.inUse then .got endItem else .closing
  | .sdFail => if s.qs.inUse then .fail3 else .dtor
  | .sdDtor => .dtor
  | .dtor2 => .dtor

def abs {κ : Type} (s : FSt κ) : St κ :=
  { s.base with q := absQ s, inUse := s.qs.inUse, wpc := absW s }

end Osmium.WriterSMQ
