/-
Model of osmium::memory::Buffer and of the builders (property C04).

Transcribed from
  include/osmium/memory/buffer.hpp   calculate_capacity, grow_internal, grow, reserve_space, commit,
                                     rollback, clear, add_item, add_buffer, push_back, swap, move,
                                     get_last_nested, purge_removed
  include/osmium/builder/builder.hpp Builder ctor (m_item_offset relative to committed), item_pos,
                                     add_padding, add_size (to all parents), append, append_with_zero,
                                     reserve_space_for, add_item
  include/osmium/builder/osm_object_builder.hpp  TagListBuilder, NodeRefListBuilder,
                                     RelationMemberListBuilder (add_member/add_role),
                                     ChangesetDiscussionBuilder (m_comment!), OSMObjectBuilder
                                     (ctor, set_user), ChangesetBuilder (ctor, set_user)
  include/osmium/builder/attr.hpp    add_node/add_way/add_relation/add_changeset = fixed sequences
                                     of the primitive builder calls (expanded by the driver)

Memory model.  `bytes` is the content of `[0, written)` of the buffer's memory; everything in
`[written, capacity)` is dead and has the content `fill` ("uninitialised"; the harness makes this
literally true by running under ASan with malloc_fill_byte and scrubbing dead space after
rollback/clear/purge).  A reallocation (`grow`, `grow_internal`) bumps `epoch`; raw pointers that
the real code keeps across calls are (epoch, offset) pairs and dereferencing one whose epoch is not
the buffer's current epoch is the explicit outcome `stale_pointer` (use after free in C++).
Only internally managed buffers (`Buffer(capacity, auto_grow)`) are modelled.

Builder calls are sequences of micro steps (`Micro`): `alloc` = `reserve_space(n)` followed by
writes into the buffer, `upd` = writes, `deref` = writes through a saved raw pointer.  All writes
are functions on the *uncommitted part* of the buffer (`Pend`), because that is how the builders
address memory: `item_pos() = data() + committed() + m_item_offset`.

Core-only (no Mathlib).
-/
import Osmium.Model.Layout

namespace Osmium.Buf

open Osmium.Layout

inductive Mode where
  | no | yes | internal
  deriving Repr, DecidableEq

/-- a nested buffer (`m_next_buffer` chain): capacity and committed content -/
structure NBuf where
  cap : Nat
  bytes : Bytes
  deriving Repr

structure Buf where
  cap : Nat
  committed : Nat
  bytes : Bytes            -- [0, written)
  nested : List NBuf       -- newest first, like the m_next_buffer chain
  mode : Mode
  epoch : Nat
  fill : UInt8
  valid : Bool             -- false for a moved-from buffer (m_data == nullptr)
  deriving Repr

def Buf.written (b : Buf) : Nat := b.bytes.length

/-- `calculate_capacity`: min_capacity 64, else padded -/
def minCapacity : Nat := 64
def calcCap (c : Nat) : Nat := if c < minCapacity then minCapacity else padded c

/-- `Buffer(capacity, auto_grow)` -/
def Buf.mk' (cap : Nat) (mode : Mode) (fill : UInt8) : Buf :=
  { cap := calcCap cap, committed := 0, bytes := [], nested := [], mode := mode, epoch := 0,
    fill := fill, valid := true }

/-- moved-from buffer -/
def Buf.invalid (b : Buf) : Buf :=
  { b with cap := 0, committed := 0, bytes := [], nested := [], valid := false }

/-- the uncommitted part `[committed, written)` -/
abbrev Pend := Bytes
def Buf.pend (b : Buf) : Pend := b.bytes.drop b.committed
/-- the committed part of the current buffer -/
def Buf.comm (b : Buf) : Bytes := b.bytes.take b.committed
/-- everything committed so far, nested buffers oldest first -/
def Buf.done (b : Buf) : Bytes := (b.nested.reverse.map (·.bytes)).flatten ++ b.comm

/-- apply a function to the uncommitted part (all builder writes have this shape) -/
def Buf.onPend (g : Pend → Pend) (b : Buf) : Buf := { b with bytes := b.comm ++ g b.pend }

/-- `grow_internal` -/
def growInternal (b : Buf) : Buf :=
  { b with nested := ⟨b.cap, b.bytes.take b.committed⟩ :: b.nested,
           bytes := b.bytes.drop b.committed,     -- copy_n(old + committed, written - committed, new)
           committed := 0,
           epoch := b.epoch + 1 }

/-- `grow(size)` -/
def grow (size : Nat) (b : Buf) : Buf :=
  if b.cap < calcCap size then { b with cap := calcCap size, epoch := b.epoch + 1 } else b

/-- "double buffer size until there is enough space" -/
def dbl : Nat → Nat → Nat → Nat
  | 0, _, c => c
  | f + 1, need, c => if need > c then dbl f need (c * 2) else c

inductive Err where
  | full            -- osmium::buffer_is_full
  | stale           -- dereference of a pointer into freed / abandoned memory (UB)
  | null            -- dereference of a null m_comment (UB; assert in debug builds)
  | misaligned      -- assert(buffer.is_aligned()) of Builder ctor / reserve_space_for / commit
  deriving Repr, DecidableEq

/-- the growth part of `reserve_space(n)` (only reached when `written + n > capacity`) -/
def growFor (n : Nat) (b : Buf) : Buf :=
  let b1 := if b.mode = .internal ∧ b.committed ≠ 0 then growInternal b else b
  if b1.written + n > b1.cap then grow (dbl (b1.written + n) (b1.written + n) (b1.cap * 2)) b1 else b1

/-- `m_written += size`: the reserved bytes have the content `fill` -/
def extend (n : Nat) (b : Buf) : Buf := { b with bytes := b.bytes ++ List.replicate n b.fill }

/-- `reserve_space(n)` -/
def reserve (n : Nat) (b : Buf) : Except Err Buf :=
  if b.written + n > b.cap then
    if b.mode = .no then .error .full else .ok (extend n (growFor n b))
  else .ok (extend n b)

/-! ### size fields -/

def setLE (p : Pend) (off v n : Nat) : Pend := writeAt p off (leBytes v n)

/-- `Item::add_size` on the item at `off` (uint32 arithmetic) -/
def addSizeAt (off n : Nat) (p : Pend) : Pend := setLE p off (u32At p off + n) 4

/-- `Builder::add_size`: this item, then every parent -/
def addSizeChain (offs : List Nat) (n : Nat) (p : Pend) : Pend :=
  offs.foldl (fun p o => addSizeAt o n p) p

/-- number of padding bytes `add_padding` appends for an item of size `sz` -/
def padOf (sz : Nat) : Nat := if sz % 8 = 0 then 0 else 8 - sz % 8

/-! ### builders -/

inductive Kind where
  | node | way | relation | area | changeset
  | taglist | wnl | outer | inner | rml | disc
  deriving Repr, DecidableEq

def Kind.isObj : Kind → Bool
  | .node | .way | .relation | .area | .changeset => true
  | _ => false

def Kind.ty : Kind → Nat
  | .node => tyNode | .way => tyWay | .relation => tyRelation | .area => tyArea
  | .changeset => tyChangeset | .taglist => tyTagList | .wnl => tyWayNodeList
  | .outer => tyOuterRing | .inner => tyInnerRing | .rml => tyMemberList | .disc => tyDiscussion

/-- sizeof(T) -/
def Kind.sizeT : Kind → Nat
  | .node => sizeofNode | .way | .relation | .area => sizeofObject | .changeset => sizeofChangeset
  | _ => 8

/-- offset of the user_size field / of the user string inside the object -/
def Kind.userSizeOff : Kind → Nat
  | .changeset => 48
  | k => k.sizeT
def Kind.userOff : Kind → Nat
  | .changeset => sizeofChangeset
  | k => k.sizeT + 2
/-- `available_space` of set_user -/
def Kind.userAvail : Kind → Nat
  | .changeset => 7
  | _ => 5

/-- An open builder: `m_item_offset` (relative to committed) and, for the discussion builder,
    `m_comment` as (epoch, offset relative to committed at that epoch). The parent is the next
    frame of the stack. -/
structure Frame where
  off : Nat
  kind : Kind
  ptr : Option (Nat × Nat)
  deriving Repr

inductive Micro where
  /-- `reserve_space(n pend)` then write into the buffer; `g off` gets the offset of the reserved
      space; `save` = keep a raw pointer to the reserved space in the top frame -/
  | alloc (n : Pend → Nat) (save : Bool) (g : Nat → Pend → Pend)
  | upd (g : Pend → Pend)
  /-- write through the raw pointer saved in the top frame; `keep = false`: forget it afterwards
      (`m_comment = nullptr`, or a local variable going out of scope) -/
  | deref (keep : Bool) (g : Nat → Pend → Pend)
  /-- `~ChangesetDiscussionBuilder()` since 5690f83: `if (m_comment_offset != no_comment) {
      current = comment(); m_comment_offset = no_comment; try { add_text(current, "", 0); }
      catch (...) {} }` — a compound step, see `execMicro`; `offs` = item offsets of the stack -/
  | finish (offs : List Nat)

structure St where
  b0 : Buf
  b1 : Buf
  stack : List Frame      -- top first
  fixF4 : Bool            -- false: the original code (m_comment is a raw pointer, the destructor
                          -- only asserts); true: the current code (offset; destructor finishes a
                          -- pending comment)
  dead : Option Err       -- a UB outcome ends the run
  deriving Repr

def St.init (c0 : Nat) (m0 : Mode) (c1 : Nat) (m1 : Mode) (fill : UInt8) (fix : Bool) : St :=
  { b0 := Buf.mk' c0 m0 fill, b1 := Buf.mk' c1 m1 fill, stack := [], fixF4 := fix, dead := none }

def setTopPtr (stack : List Frame) (p : Option (Nat × Nat)) : List Frame :=
  match stack with
  | [] => []
  | f :: rest => { f with ptr := p } :: rest

/-- one primitive micro step (`finish` is not primitive: a no-op here) -/
def execBase (s : St) : Micro → Except Err St
  | .alloc n save g =>
    let k := n s.b0.pend
    let off := s.b0.pend.length
    match reserve k s.b0 with
    | .error e => .error e
    | .ok b' =>
      let b'' := b'.onPend (g off)
      .ok { s with b0 := b'', stack := if save then setTopPtr s.stack (some (b''.epoch, off)) else s.stack }
  | .upd g => .ok { s with b0 := s.b0.onPend g }
  | .deref keep g =>
    match s.stack with
    | [] => .error .null
    | f :: _ =>
      match f.ptr with
      | none => .error .null
      | some (e, off) =>
        if e = s.b0.epoch ∨ s.fixF4 then
          .ok { s with b0 := s.b0.onPend (g off), stack := if keep then s.stack else setTopPtr s.stack none }
        else .error .stale
  | .finish _ => .ok s

/-- run micro steps with the step function `ex`; on an error the state reached so far is kept
    (partial effects of a call that throws are visible) -/
def execList (ex : St → Micro → Except Err St) (s : St) : List Micro → St × Option Err
  | [] => (s, none)
  | m :: ms =>
    match ex s m with
    | .error e => (s, some e)
    | .ok s' => execList ex s' ms

/-! ### the builder calls as micro programs (`offs` = item offsets of the stack, top first) -/

def zeros (n : Nat) : Bytes := List.replicate n 0

/- Only `reserve_space` can throw inside a builder call, so every `alloc` step below carries the
   straight-line code up to the next `reserve_space` with it (the copy into the reserved space and the
   `add_size` calls that follow it). -/

/-- `append(data, len)` + `add_size(len)` -/
def mAppend (offs : List Nat) (d : Bytes) : List Micro :=
  [.alloc (fun _ => d.length) false (fun off p => addSizeChain offs d.length (writeAt p off d))]

/-- `add_padding(self)`: `padding` is computed once from `size()`; the reserved space is
    `[off, length)`, so `padding = length - off` inside the write -/
def mPadding (offs : List Nat) (self : Bool) : List Micro :=
  match offs with
  | [] => []
  | top :: parents =>
    [.alloc (fun p => padOf (u32At p top)) false (fun off p =>
        addSizeChain (if self then top :: parents else parents) (p.length - off)
          (writeAt p off (zeros (p.length - off))))]

def itemHeader (size ty : Nat) : Bytes := leBytes size 4 ++ leBytes ty 2 ++ leBytes 0 2

/-- `T{}` of the object classes: header, zeroed fields; undefined locations are 0x7fffffff -/
def objectInit (k : Kind) : Bytes :=
  let undef := leBytes 0x7fffffff 4
  match k with
  | .node => itemHeader sizeofNode tyNode ++ zeros 24 ++ undef ++ undef
  | .changeset => itemHeader sizeofChangeset tyChangeset ++ undef ++ undef ++ undef ++ undef ++ zeros 32
  | k => itemHeader k.sizeT k.ty ++ zeros 24

/-- Builder constructor (+ derived class constructor) for kind `k`, parents `offs`, new item at
    offset `off` -/
def mCtor (k : Kind) (offs : List Nat) : List Micro :=
  if k.isObj then
    [.alloc (fun _ => k.sizeT + 8) false (fun off p =>
        -- Builder(): parent->add_size(size); new (&item()) T{}; add_size(min_size_for_user);
        -- memset(.., 0, min_size_for_user); set_user_size(1)
        let p := addSizeChain offs (k.sizeT + 8) p
        let p := writeAt p off (objectInit k)
        let p := addSizeChain (off :: offs) 8 p
        let p := writeAt p (off + k.sizeT) (zeros 8)
        setLE p (off + k.userSizeOff) 1 2)]
  else
    [.alloc (fun _ => 8) false (fun off p =>
        let p := addSizeChain offs 8 p
        writeAt p off (itemHeader 8 k.ty))]

/-- `set_user(user, length)` on the object at `top` of kind `k` -/
def mSetUser (k : Kind) (offs : List Nat) (u : Bytes) : List Micro :=
  match offs with
  | [] => []
  | top :: _ =>
    let need := if u.length > k.userAvail then padded (u.length - k.userAvail) else 0
    [.alloc (fun _ => need) false (fun off p =>
        let p := writeAt p off (zeros need)
        let p := if need = 0 then p else addSizeChain offs need p
        let p := writeAt p (top + k.userOff) u
        setLE p (top + k.userSizeOff) (u.length + 1) 2)]

def mTag (offs : List Nat) (k v : Bytes) : List Micro :=
  mAppend offs (k ++ [0]) ++ mAppend offs (v ++ [0])

def mNodeRef (offs : List Nat) (ref x y : Int) : List Micro :=
  mAppend offs (leBytesInt ref 8 ++ leBytesInt x 4 ++ leBytesInt y 4)

/-- `add_member(type, ref, role, len, full_member)`; `full` = the bytes (padded size) of the full
    member object or [] -/
def mMember (offs : List Nat) (ty : Nat) (ref : Int) (role : Bytes) (full : Option Bytes) : List Micro :=
  [ -- reserve_space_for<RelationMember>(); new (member) RelationMember{ref, type, full}: the last 2
    -- bytes of the struct are padding and are not written
    .alloc (fun _ => 16) true (fun off p =>
      addSizeChain offs 16
        (writeAt p off (leBytesInt ref 8 ++ leBytes ty 2 ++ leBytes (if full.isSome then 1 else 0) 2 ++ leBytes 0 2))),
    -- add_role: member.set_role_size(len + 1)
    .deref false (fun mo p => setLE p (mo + 12) (role.length + 1) 2) ] ++
  mAppend offs (role ++ [0]) ++ mPadding offs true ++
  (match full with
   | none => []
   | some fm => mAppend offs fm)     -- add_item: buffer.add_item(item); add_size(padded_size)

/-- `add_comment(date, uid, user)`: m_comment = reserve_space_for<ChangesetComment>();
    new (m_comment) ChangesetComment{date, uid}; add_size(16); add_user(*m_comment, user, len):
    comment.set_user_size(len + 1) through the pointer (kept!), append_with_zero(user) -/
def mComment (offs : List Nat) (date uid : Nat) (user : Bytes) : List Micro :=
  [ .alloc (fun _ => 16) true (fun off p =>
      addSizeChain offs 16 (writeAt p off (leBytes date 4 ++ leBytes uid 4 ++ leBytes 0 4 ++ leBytes 0 2))),
    .deref true (fun co p => setLE p (co + 12) (user.length + 1) 2) ] ++
  mAppend offs (user ++ [0])

/-- `add_comment_text(text)`: comment = *m_comment; m_comment = nullptr; add_text(comment, ..) -/
def mCommentText (offs : List Nat) (text : Bytes) : List Micro :=
  [ .deref false (fun co p => setLE p (co + 8) (text.length + 1) 4) ] ++
  mAppend offs (text ++ [0]) ++ mPadding offs true

/-- does the top frame hold a saved pointer / offset (`m_comment_offset != no_comment`)? -/
def pendingTop (s : St) : Bool :=
  match s.stack with
  | f :: _ => f.ptr.isSome
  | [] => false

/-- one micro step.  `finish offs` (current code only): if a comment is pending, run
    `add_text(current, "", 0)` = `mCommentText offs []` and swallow buffer_is_full
    (`catch (...) {}`): whatever the try block did before it threw stays done. -/
def execMicro (s : St) : Micro → Except Err St
  | .finish offs =>
    if s.fixF4 && pendingTop s then
      match execList execBase s (mCommentText offs []) with
      | (s', none) => .ok s'
      | (s', some .full) => .ok s'
      | (_, some e) => .error e
    else .ok s
  | .alloc n save g => execBase s (.alloc n save g)
  | .upd g => execBase s (.upd g)
  | .deref keep g => execBase s (.deref keep g)

def execMicros (s : St) (ms : List Micro) : St × Option Err := execList execMicro s ms

/-- destructor: `~ChangesetDiscussionBuilder()` first finishes a pending comment; all list
    builders then `add_padding()`; the object builders have trivial destructors -/
def mDtor (k : Kind) (offs : List Nat) : List Micro :=
  if k.isObj then [] else
  (if k = .disc then [.finish offs] else []) ++ mPadding offs false

/-! ### script operations -/

inductive Op where
  | open (k : Kind)
  | setField (fieldOff width : Nat) (v : Int)       -- object().set_xxx(v)
  | setVersion (v : Nat)                            -- m_version : 31 shares a word with m_deleted : 1
  | setDeleted (d : Bool)
  | setRemoved (v : Bool)                           -- builder.set_removed(v)
  | user (u : Bytes)
  | tag (k v : Bytes)
  | nodeRef (ref x y : Int)
  | member (ty : Nat) (ref : Int) (role : Bytes) (full : Option Nat)
  | comment (date uid : Nat) (user : Bytes)
  | commentText (text : Bytes)
  | close
  | commit | rollback | clear
  | addBuffer
  | pushBack (k : Nat)
  | swap
  | move
  | setRm (k : Nat) (v : Bool)
  | purge
  | popNested
  deriving Repr

inductive Status where
  | ok | full | badOp | stale | null | misaligned | terminate
  deriving Repr, DecidableEq

def Status.ofErr : Err → Status
  | .full => .full | .stale => .stale | .null => .null | .misaligned => .misaligned

def offsOf (stack : List Frame) : List Nat := stack.map (·.off)

/-- destroy all open builders, top first (stack unwinding after buffer_is_full) -/
def unwind : Nat → St → St × Option Err
  | 0, s => (s, none)
  | fuel + 1, s =>
    match s.stack with
    | [] => (s, none)
    | f :: rest =>
      match execMicros s (mDtor f.kind (offsOf s.stack)) with
      | (s', some e) => ({ s' with stack := [] }, some e)    -- a destructor throws: std::terminate
      | (s', none) => unwind fuel { s' with stack := rest }

/-- run a builder call; buffer_is_full unwinds the builders, UB outcomes end the run -/
def runMicros (s : St) (ms : List Micro) (after : St → St) : St × Status :=
  match execMicros s ms with
  | (s', none) => (after s', .ok)
  | (s', some .full) =>
    match unwind (s'.stack.length + 1) s' with
    | (s'', none) => (s'', .full)
    | (s'', some _) => ({ s'' with dead := some .full }, .terminate)
  | (s', some e) => ({ s' with dead := some e }, Status.ofErr e)

/-- k-th top-level item of a committed region: (offset, padded size, type) -/
def nthItem (b : Bytes) (k : Nat) : Option Hdr :=
  match headersAll b with
  | .ok hs => hs[k]?
  | .error _ => none

/-! #### purge_removed -/

/-- `advance_to_next_item_of_right_type` for `ItemIterator<OSMEntity>` -/
def skipNonEntity (b : Bytes) (lim : Nat) : Nat → Nat → Nat
  | 0, pos => pos
  | fuel + 1, pos =>
    if pos ≠ lim ∧ !isEntity (u16At b (pos + 4)) then
      skipNonEntity b lim fuel (pos + padded (u32At b pos))
    else pos

/-- the loop of `purge_removed(callback)`, in place, exactly as written: `r` = it_read,
    `w` = it_write; returns the memory, the final `w` and the callback calls (old, new) -/
def purgeLoop (lim : Nat) : Nat → Bytes → Nat → Nat → List (Nat × Nat) → Bytes × Nat × List (Nat × Nat)
  | 0, b, _, w, cbs => (b, w, cbs)
  | fuel + 1, b, r, w, cbs =>
    if r = lim then (b, w, cbs) else
    -- next = std::next(it_read)
    let nxt := skipNonEntity b lim (lim + 1) (r + padded (u32At b r))
    if u16At b (r + 6) % 2 == 0 then      -- !it_read->removed()
      let ps := padded (u32At b r)
      let (b', cbs') := if r ≠ w then (writeAt b w (slice b r ps), cbs ++ [(r, w)]) else (b, cbs)
      -- it_write.advance_once(): reads the size at the write position
      purgeLoop lim fuel b' nxt (w + padded (u32At b' w)) cbs'
    else
      purgeLoop lim fuel b nxt w cbs

/-- `purge_removed(&callback)` on the committed part `c` of a buffer -/
def purgeBytes (c : Bytes) : Bytes × List (Nat × Nat) :=
  let lim := c.length
  let start := skipNonEntity c lim (lim + 1) 0       -- begin()
  if start = lim then (c, []) else
  let (b, w, cbs) := purgeLoop lim (lim + 1) c start start []
  (b.take w, cbs)

def purgeBuf (b : Buf) : Buf × List (Nat × Nat) :=
  let c := b.comm
  let lim := c.length
  let start := skipNonEntity c lim (lim + 1) 0
  if start = lim then (b, []) else       -- early return: written is NOT reset
  let (c', cbs) := purgeBytes c
  ({ b with bytes := c', committed := c'.length }, cbs)

/-! #### the step function

`plan` decides what a script operation does from data that does not depend on where the buffer's
memory currently is (kinds and offsets of the open builders, the length of the uncommitted part,
the committed content); `exec` carries it out. -/

inductive After where
  | nothing
  | push (off : Nat) (k : Kind)     -- a builder was constructed
  | pop                             -- a builder was destroyed
  | commit                          -- push_back: commit() after add_item()
  deriving Repr, DecidableEq

inductive BufOp where
  | commit | rollback | clear | swap | move | purge | popNested
  | setRm (off : Nat) (v : Bool)
  deriving Repr, DecidableEq

inductive Plan where
  | bad
  | die (e : Err)
  | micros (ms : List Micro) (after : After)
  | bufop (o : BufOp)

/-- top-of-stack must be a builder of one of the given kinds -/
def topIs (fs : List (Nat × Kind)) (p : Kind → Bool) : Option (Nat × Kind) :=
  match fs with
  | f :: _ => if p f.2 then some f else none
  | [] => none

def flagWord (p : Pend) (off : Nat) (v : Bool) : Pend :=
  setLE p (off + 6) (u16At p (off + 6) / 2 * 2 + (if v then 1 else 0)) 2

/-- `fs`: (item offset, kind) of the open builders, top first; `pendLen` = written - committed;
    `aux`/`auxValid`: committed content of buf1; `comm0`: committed content of buf0.
    `assert(buffer.is_aligned())` (Builder ctor, reserve_space_for) is the outcome `misaligned`;
    it is evaluated on written - committed (committed is a multiple of 8 in every reachable
    state, theorem buf_inv). -/
def plan (fs : List (Nat × Kind)) (pendLen : Nat) (aux : Bytes) (auxValid : Bool) (comm0 : Bytes) (op : Op) : Plan :=
  let offs := fs.map (·.1)
  match op with
  | .open k =>
    if k.isObj ∧ !fs.isEmpty then .bad
    else if pendLen % 8 ≠ 0 then .die .misaligned
    else .micros (mCtor k offs) (.push pendLen k)      -- m_item_offset = written - committed
  | .setField fo w v =>
    match topIs fs (·.isObj) with
    | none => .bad
    | some f => .micros [.upd (fun p => writeAt p (f.1 + fo) (leBytesInt v w))] .nothing
  | .setVersion v =>
    match topIs fs (fun k => k.isObj && k != .changeset) with
    | none => .bad
    | some f => .micros [.upd (fun p => setLE p (f.1 + 16) (u32At p (f.1 + 16) % 2 + 2 * v) 4)] .nothing
  | .setDeleted d =>
    match topIs fs (fun k => k.isObj && k != .changeset) with
    | none => .bad
    | some f => .micros [.upd (fun p =>
        setLE p (f.1 + 16) (u32At p (f.1 + 16) / 2 * 2 + (if d then 1 else 0)) 4)] .nothing
  | .setRemoved v =>
    match topIs fs (·.isObj) with
    | none => .bad
    | some f => .micros [.upd (fun p => flagWord p f.1 v)] .nothing
  | .user u =>
    match topIs fs (·.isObj) with
    | none => .bad
    | some f => .micros (mSetUser f.2 offs u) .nothing
  | .tag k v =>
    match topIs fs (· == .taglist) with
    | none => .bad
    | some _ => .micros (mTag offs k v) .nothing
  | .nodeRef ref x y =>
    match topIs fs (fun k => k == .wnl || k == .outer || k == .inner) with
    | none => .bad
    | some _ => if pendLen % 8 ≠ 0 then .die .misaligned else .micros (mNodeRef offs ref x y) .nothing
  | .member ty ref role full =>
    match topIs fs (· == .rml) with
    | none => .bad
    | some _ =>
      let fm : Option (Option Bytes) :=
        match full with
        | none => some none
        | some k =>
          match nthItem aux k with
          | some h => if isObject h.ty then some (some (slice aux h.off h.psize)) else none
          | none => none
      match fm with
      | none => .bad
      | some fm => if pendLen % 8 ≠ 0 then .die .misaligned else .micros (mMember offs ty ref role fm) .nothing
  | .comment date uid user =>
    match topIs fs (· == .disc) with
    | none => .bad
    | some _ => if pendLen % 8 ≠ 0 then .die .misaligned else .micros (mComment offs date uid user) .nothing
  | .commentText text =>
    match topIs fs (· == .disc) with
    | none => .bad
    | some _ => .micros (mCommentText offs text) .nothing
  | .close =>
    match fs with
    | [] => .bad
    | f :: _ => .micros (mDtor f.2 offs) .pop
  | .commit => if !fs.isEmpty then .bad else .bufop .commit
  | .rollback => if !fs.isEmpty then .bad else .bufop .rollback
  | .clear => if !fs.isEmpty then .bad else .bufop .clear
  | .addBuffer =>
    if !fs.isEmpty ∨ !auxValid then .bad
    else .micros [.alloc (fun _ => aux.length) false (fun off p => writeAt p off aux)] .nothing
  | .pushBack k =>
    if !fs.isEmpty ∨ !auxValid then .bad
    else match nthItem aux k with
      | none => .bad
      | some h =>
        let src := slice aux h.off h.psize
        .micros [.alloc (fun _ => src.length) false (fun off p => writeAt p off src)] .commit
  | .swap => if !fs.isEmpty then .bad else .bufop .swap
  | .move => if !fs.isEmpty then .bad else .bufop .move
  | .setRm k v =>
    match nthItem comm0 k with
    | none => .bad
    | some h => .bufop (.setRm h.off v)
  | .purge => if !fs.isEmpty then .bad else .bufop .purge
  | .popNested => .bufop .popNested

def applyAfter (a : After) (s : St) : St :=
  match a with
  | .nothing => s
  | .push off k => { s with stack := ⟨off, k, none⟩ :: s.stack }
  | .pop => { s with stack := s.stack.tail }
  | .commit => { s with b0 := { s.b0 with committed := s.b0.written } }

/-- operations of the Buffer class itself -/
def execBufOp (s : St) : BufOp → St × List (Nat × Nat)
  | .commit => ({ s with b0 := { s.b0 with committed := s.b0.written } }, [])
  | .rollback => ({ s with b0 := { s.b0 with bytes := s.b0.comm } }, [])
  | .clear => ({ s with b0 := { s.b0 with bytes := [], committed := 0 } }, [])
  | .swap => ({ s with b0 := s.b1, b1 := s.b0 }, [])
  | .move => (s, [])      -- Buffer tmp{std::move(b0)}; b0 = std::move(tmp): same memory, same state
  | .setRm off v => ({ s with b0 := { s.b0 with bytes := flagWord s.b0.comm off v ++ s.b0.pend } }, [])
  | .purge =>
    let (b', cbs) := purgeBuf s.b0
    ({ s with b0 := b' }, cbs)
  | .popNested =>
    -- get_last_nested(): the oldest nested buffer is moved out
    ({ s with b0 := { s.b0 with nested := s.b0.nested.dropLast } }, [])

def frameSig (stack : List Frame) : List (Nat × Kind) := stack.map fun f => (f.off, f.kind)

/-- One script operation.  The third component is the list of purge callbacks. -/
def step (s : St) (op : Op) : St × Status × List (Nat × Nat) :=
  match s.dead with
  | some e => (s, Status.ofErr e, [])
  | none =>
  if !s.b0.valid then (s, .badOp, []) else
  match plan (frameSig s.stack) s.b0.pend.length s.b1.comm s.b1.valid s.b0.comm op with
  | .bad => (s, .badOp, [])
  | .die e => ({ s with dead := some e }, Status.ofErr e, [])
  | .micros ms after =>
    let r := runMicros s ms (applyAfter after)
    (r.1, r.2, [])
  | .bufop o =>
    let r := execBufOp s o
    (r.1, .ok, r.2)

/-- run a whole script -/
def run (s : St) : List Op → St
  | [] => s
  | op :: ops => run (step s op).1 ops

/-- the `View`: all committed items (nested buffers oldest first) as trees -/
def view (b : Buf) : Except DErr (List Tree) := decodeAll b.done

end Osmium.Buf
