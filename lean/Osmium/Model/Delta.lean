/-
Delta coding (util/delta.hpp: `DeltaEncode<TValue,TDelta>::update`, `DeltaDecode<TValue,TDelta>::update`)
with the widths used by the PBF writer/decoder.  Core-only.

C++ semantics transcribed: `update(new)` swaps the stored value with the new one and returns
`static_cast<TDelta>(new) - static_cast<TDelta>(old)`; the decoder does
`m_value = static_cast<TValue>(static_cast<TDelta>(m_value) + delta)`.
Signed overflow in these two expressions is formally undefined behaviour; the compiled code wraps
(two's complement) and so does the model (`swrap`).  Every instance starts at 0 and lives for one
block / one way / one relation (the per-block reset is the construction of a fresh object).
-/
namespace Osmium.Delta

/-- reinterpretation of an integer as a signed `bits`-bit value (two's complement wrap) -/
def swrap (bits : Nat) (x : Int) : Int :=
  let m := x % (2 : Int) ^ bits
  if m < (2 : Int) ^ (bits - 1) then m else m - (2 : Int) ^ bits

/-- `DeltaEncode<TValue,TDelta>` with `TDelta` a signed `bits`-bit type: the stored value is the raw
    `TValue`; both operands are cast to `TDelta` at the subtraction. -/
def encGo (bits : Nat) : Int → List Int → List Int
  | _, [] => []
  | prev, x :: xs => swrap bits (swrap bits x - swrap bits prev) :: encGo bits x xs

/-- all deltas of one encoder instance (initial value 0) -/
def enc (bits : Nat) (xs : List Int) : List Int := encGo bits 0 xs

/-- `DeltaDecode<int64_t,int64_t>` — the only instantiation the PBF decoder uses -/
def decGo : Int → List Int → List Int
  | _, [] => []
  | acc, d :: ds => let v := swrap 64 (acc + d); v :: decGo v ds

def dec (ds : List Int) : List Int := decGo 0 ds

/-! Widths of the `DenseNodes` encoders (pbf_output_format.hpp:159-167):
    id `<int64,int64>`, timestamp `<uint32,int64>`, changeset `<uint32,int64>`, uid `<uint32,int32>`,
    user_sid `<int32,int32>`, lat/lon `<int64,int64>`; way refs / relation member ids `<int64,int64>`,
    way lon/lat `<int64,int64>`. -/
def encId := enc 64
def encTimestamp := enc 64
def encChangeset := enc 64
def encUid := enc 32
def encUserSid := enc 32
def encCoord := enc 64

end Osmium.Delta
