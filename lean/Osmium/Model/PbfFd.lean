/-
PBF blob framing as the parser thread reads it (property C07, "the input ends early").

Two readers of the same record structure  `4-byte length | BlobHeader | Blob`, transcribed from
io/detail/pbf_input_format.hpp (`read_blob_header_size_from_file`, `check_type_and_get_blob_size`,
`read_from_input_queue_with_check`, `parse_header_blob`, `parse_data_blobs`) and
io/detail/read_write.hpp (`reliable_read`, `read_exactly`):

* `fdFrames`   the DIRECT-FD path (`m_fd != -1`: a PBF file / pipe / stdin that is not compressed is
               read by the parser thread itself through the file descriptor); read(2) may return
               short counts (`Fd.sched`), `read_exactly` loops;
* `qFrames`    the INPUT-QUEUE path (`m_fd == -1`) over the chunks as they arrive (C06's carry-over buffer `Chunks.PbfIn`);
* `flatFrames` the same function on the concatenated stream (`Lemmas/PbfTrunc.lean`: `qFrames_eq_flat`, `fdFrames_eq_flat`;
               the theorems about cuts are proved once, for `flatFrames`).

`Fixes.lengthStrict`: repair "input ending 1..3 bytes into the 4-byte length field is reported as
pbf_error `unexpected EOF`" (before: `return 0; // EOF` for ANY short read of the length field, so such a
file was taken for a complete one).  `true` = the repaired code.   Core-only.
-/
import Osmium.Model.Chunks
import Osmium.Model.PbfFraming

namespace Osmium.PbfFd

open Osmium.Wire Osmium.Chunks

structure Fixes where
  lengthStrict : Bool := true
  deriving Repr, DecidableEq

/-- the code as it is now -/
def Fixes.current : Fixes := {}
/-- the code before the repair -/
def Fixes.before : Fixes := { lengthStrict := false }

/-! ## the file descriptor -/

/-- bytes not yet read and the counts the next read(2) calls are willing to return (0 is taken as 1:
    a read of n > 0 bytes returns 0 only at the end of the input; no entry = the full count) -/
structure Fd where
  data : Bytes
  sched : List Nat := []
  deriving Repr, DecidableEq

/-- `reliable_read(fd, buf, n)`: between 1 and n bytes, `[]` only at EOF (or n = 0) -/
def Fd.read (fd : Fd) (n : Nat) : Bytes × Fd :=
  let m := match fd.sched with
    | [] => n
    | s :: _ => min n (max s 1)
  (fd.data.take m, { data := fd.data.drop m, sched := fd.sched.tail })

/-- the loop of `read_exactly`: `toRead` bytes still wanted; fuel ≥ toRead suffices (every round
    reads at least one byte).  Result: (true, bytes) or (false, bytes read before EOF). -/
def Fd.readExactlyGo : Nat → Nat → Fd → Bytes → Bool × Bytes × Fd
  | _, 0, fd, acc => (true, acc, fd)
  | 0, _ + 1, fd, acc => (false, acc, fd)
  | fuel + 1, toRead + 1, fd, acc =>
    let (b, fd') := fd.read (toRead + 1)
    if b.isEmpty then (false, acc, fd')
    else Fd.readExactlyGo fuel (toRead + 1 - b.length) fd' (acc ++ b)

def Fd.readExactly (fd : Fd) (size : Nat) : Bool × Bytes × Fd := Fd.readExactlyGo size size fd []

/-! ## direct-fd reader -/

/-- `read_blob_header_size_from_file`, fd branch -/
def fdHeaderSize (fx : Fixes) (maxHeader : Nat) (fd : Fd) : Except PbfErr (Nat × Fd) :=
  match fd.readExactly 4 with
  | (false, got, fd') =>
    if fx.lengthStrict && !got.isEmpty then .error .truncated   -- "unexpected EOF"
    else .ok (0, fd')                                           -- `return 0; // EOF`
  | (true, b, fd') =>
    if be32 b > maxHeader then .error .headerTooLarge else .ok (be32 b, fd')

/-- `check_type_and_get_blob_size` + `read_from_input_queue_with_check`, fd branch: one record;
    `none` = end of file.  The BlobHeader is fetched with `read_from_input_queue_with_check(size)`,
    which also compares `size` with max_uncompressed_blob_size. -/
def fdFrame (fx : Fixes) (maxHeader maxBlob : Nat) (blobSize : Bool → Bytes → Option Nat) (first : Bool) (fd : Fd) :
    Except PbfErr (Option (Bytes × Bytes) × Fd) :=
  match fdHeaderSize fx maxHeader fd with
  | .error e => .error e
  | .ok (hsize, fd1) =>
    if hsize == 0 then .ok (none, fd1)
    else if hsize > maxBlob then .error .blobTooLarge
    else match fd1.readExactly hsize with
      | (false, _, _) => .error .truncated                      -- "unexpected EOF"
      | (true, hdr, fd2) =>
        match blobSize first hdr with
        | none => .error .headerFormat
        | some bsize =>
          if bsize > maxBlob then .error .blobTooLarge
          else match fd2.readExactly bsize with
            | (false, _, _) => .error .truncated
            | (true, blob, fd3) => .ok (some (hdr, blob), fd3)

/-- header blob, then data blobs until end of file or the first error -/
def fdFrames (fx : Fixes) (maxHeader maxBlob : Nat) (blobSize : Bool → Bytes → Option Nat) :
    Nat → Fd → List (Bytes × Bytes) → List (Bytes × Bytes) × Option PbfErr
  | 0, _, acc => (acc.reverse, none)
  | fuel + 1, fd, acc =>
    match fdFrame fx maxHeader maxBlob blobSize acc.isEmpty fd with
    | .error e => (acc.reverse, some e)
    | .ok (none, _) => (acc.reverse, none)
    | .ok (some f, fd') => fdFrames fx maxHeader maxBlob blobSize fuel fd' (f :: acc)

/-! ## input-queue reader (`m_fd == -1`): chunks from the queue, carried over in `m_input_buffer`

`Chunks.PbfIn` / `PbfIn.readExact` (ensure_available_in_input_queue + take + pop_from_input_queue) are C06's model
of the carry-over buffer; the functions below are the parser's record loop on top of it, with the repair flag. -/

/-- `read_blob_header_size_from_file`, queue branch.  When `ensure_available_in_input_queue(4)` throws, it has
    popped the queue to its end, so `m_input_buffer` holds everything that was left: `p.buf ++ pending`. -/
def qHeaderSize (fx : Fixes) (maxHeader : Nat) (p : PbfIn) : Except PbfErr (Nat × PbfIn) :=
  match p.readExact 4 with
  | .error _ =>
    if fx.lengthStrict && !(p.buf ++ p.src.pending).isEmpty then .error .truncated   -- "unexpected EOF"
    else .ok (0, p)                                                                  -- `return 0; // EOF`
  | .ok (b, p') =>
    if be32 b > maxHeader then .error .headerTooLarge else .ok (be32 b, p')

def qFrame (fx : Fixes) (maxHeader maxBlob : Nat) (blobSize : Bool → Bytes → Option Nat) (first : Bool) (p : PbfIn) :
    Except PbfErr (Option (Bytes × Bytes) × PbfIn) :=
  match qHeaderSize fx maxHeader p with
  | .error e => .error e
  | .ok (hsize, p1) =>
    if hsize == 0 then .ok (none, p1)
    else match p1.readExact hsize with
      | .error e => .error e
      | .ok (hdr, p2) =>
        match blobSize first hdr with
        | none => .error .headerFormat
        | some bsize =>
          if bsize > maxBlob then .error .blobTooLarge
          else match p2.readExact bsize with
            | .error e => .error e
            | .ok (blob, p3) => .ok (some (hdr, blob), p3)

def qFrames (fx : Fixes) (maxHeader maxBlob : Nat) (blobSize : Bool → Bytes → Option Nat) :
    Nat → PbfIn → List (Bytes × Bytes) → List (Bytes × Bytes) × Option PbfErr
  | 0, _, acc => (acc.reverse, none)
  | fuel + 1, p, acc =>
    match qFrame fx maxHeader maxBlob blobSize acc.isEmpty p with
    | .error e => (acc.reverse, some e)
    | .ok (none, _) => (acc.reverse, none)
    | .ok (some f, p') => qFrames fx maxHeader maxBlob blobSize fuel p' (f :: acc)

/-- the whole input, arriving in the chunks `cs` -/
def readAllQ (fx : Fixes) (maxHeader maxBlob : Nat) (blobSize : Bool → Bytes → Option Nat) (cs : List Bytes) :
    List (Bytes × Bytes) × Option PbfErr :=
  qFrames fx maxHeader maxBlob blobSize (cs.flatten.length / 4 + 2) { buf := [], src := { chunks := cs } } []

/-! ## the same on the concatenated stream -/

def flatFrame (fx : Fixes) (maxHeader maxBlob : Nat) (blobSize : Bool → Bytes → Option Nat) (first : Bool) (r : Bytes) :
    Except PbfErr (Option (Bytes × Bytes) × Bytes) :=
  if r.length < 4 then
    if fx.lengthStrict && !r.isEmpty then .error .truncated else .ok (none, r)
  else
    let size := be32 (r.take 4)
    let r1 := r.drop 4
    if size > maxHeader then .error .headerTooLarge
    else if size == 0 then .ok (none, r1)
    else if r1.length < size then .error .truncated
    else
      match blobSize first (r1.take size) with
      | none => .error .headerFormat
      | some bsize =>
        if bsize > maxBlob then .error .blobTooLarge
        else if (r1.drop size).length < bsize then .error .truncated
        else .ok (some (r1.take size, (r1.drop size).take bsize), (r1.drop size).drop bsize)

def flatFrames (fx : Fixes) (maxHeader maxBlob : Nat) (blobSize : Bool → Bytes → Option Nat) :
    Nat → Bytes → List (Bytes × Bytes) → List (Bytes × Bytes) × Option PbfErr
  | 0, _, acc => (acc.reverse, none)
  | fuel + 1, r, acc =>
    match flatFrame fx maxHeader maxBlob blobSize acc.isEmpty r with
    | .error e => (acc.reverse, some e)
    | .ok (none, _) => (acc.reverse, none)
    | .ok (some f, r') => flatFrames fx maxHeader maxBlob blobSize fuel r' (f :: acc)

/-- fuel that always suffices: every record takes at least 4 bytes -/
def fuelFor (r : Bytes) : Nat := r.length / 4 + 2

/-- the whole input through the queue path / through the fd -/
def readAll (fx : Fixes) (maxHeader maxBlob : Nat) (blobSize : Bool → Bytes → Option Nat) (r : Bytes) :
    List (Bytes × Bytes) × Option PbfErr :=
  flatFrames fx maxHeader maxBlob blobSize (fuelFor r) r []

def readAllFd (fx : Fixes) (maxHeader maxBlob : Nat) (blobSize : Bool → Bytes → Option Nat) (fd : Fd) :
    List (Bytes × Bytes) × Option PbfErr :=
  fdFrames fx maxHeader maxBlob blobSize (fuelFor fd.data) fd []

/-! ## what `PBFParser::run` makes of it (the class of outcome the caller of the Reader sees) -/

inductive Outcome
  /-- run() returns normally: header set, the data blobs handed to the decoders, end-of-data marker queued -/
  | ok (dataBlobs : Nat)
  /-- exception before the header is known (header() is the first call that can report it): framing error
      in the first record, or no first record at all — `parse_header_blob` then decodes an EMPTY blob,
      `decode_blob` throws "blob contains no data" -/
  | errHeader
  /-- exception after `dataBlobs` complete data blobs (reported by read()) -/
  | errData (dataBlobs : Nat)
  deriving Repr, DecidableEq

def outcome : List (Bytes × Bytes) × Option PbfErr → Outcome
  | ([], _) => .errHeader
  | (_ :: ds, none) => .ok ds.length
  | (_ :: ds, some _) => .errData ds.length

def Outcome.isError : Outcome → Bool
  | .ok _ => false
  | _ => true

/-! ## the encoder side: a file as a list of records -/

/-- 4-byte length in network byte order -/
def enc32 (n : Nat) : Bytes :=
  [UInt8.ofNat (n / 2 ^ 24 % 256), UInt8.ofNat (n / 2 ^ 16 % 256), UInt8.ofNat (n / 2 ^ 8 % 256), UInt8.ofNat (n % 256)]

/-- one record: (BlobHeader bytes, Blob bytes) -/
def frameBytes (f : Bytes × Bytes) : Bytes := enc32 f.1.length ++ f.1 ++ f.2

def fileBytes (fs : List (Bytes × Bytes)) : Bytes := (fs.map frameBytes).flatten

/-- byte offset at which record j starts (= end of record j-1) -/
def boundary (fs : List (Bytes × Bytes)) (j : Nat) : Nat := (fileBytes (fs.take j)).length

end Osmium.PbfFd
