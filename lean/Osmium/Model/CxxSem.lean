/-
Semantics of the C++ integer fragment that `tools/cxx2lean.py` translates (hand-written, stable;
`Osmium/Generated/Src.lean` — which IS regenerated from /repo on every run — imports this file).

Every C++ integer value is a Lean `Int`:
  * a value of an unsigned type of width `w` is its canonical representative in `[0, 2^w)`,
  * a value of a signed type of width `w` is in `[-2^(w-1), 2^(w-1))`,
  * `bool` is `Bool`; `ofBool` / `toBool` are the integral conversions.
Unsigned `+ - *` wrap (`wrapU`), narrowing / sign-changing conversions are `wrapU` / `wrapS`
(two's complement, what gcc and clang implement and C++20 mandates).  Signed overflow, shifts by a
negative amount or by ≥ width, division by zero, `INT_MIN / -1`, `std::abs(INT_MIN)` are UNDEFINED:
the translator does not give them a value, it emits the side condition in `f_defined`.
C++ `/` and `%` are `Int.tdiv` / `Int.tmod` (truncation toward zero).
A `double` is only ever translated when it provably holds an exactly representable integer
(an integer converted to `double`, sums / differences / products of such): then IEEE-754 arithmetic is
exact as long as every result has magnitude ≤ 2^53 — `exactD`, which is part of `f_defined`.
Core-only.
-/
namespace Osmium.CxxSem

/-- conversion to an unsigned type of width `w` / result of unsigned arithmetic -/
def wrapU (w : Nat) (x : Int) : Int := x % (2 : Int) ^ w

/-- conversion to a signed type of width `w` (modular) -/
def wrapS (w : Nat) (x : Int) : Int := (x + (2 : Int) ^ (w - 1)) % (2 : Int) ^ w - (2 : Int) ^ (w - 1)

/-- `x` is a value of the unsigned type of width `w` -/
def inU (w : Nat) (x : Int) : Bool := decide (0 ≤ x) && decide (x < (2 : Int) ^ w)

/-- `x` is a value of the signed type of width `w` (the no-overflow condition of signed arithmetic) -/
def inS (w : Nat) (x : Int) : Bool := decide (-((2 : Int) ^ (w - 1)) ≤ x) && decide (x < (2 : Int) ^ (w - 1))

/-- the six comparisons as Bool-valued functions (so that unfolding a translated getter inside an operand
    does not leave a `Decidable` instance about the folded term behind) -/
def lt (a b : Int) : Bool := decide (a < b)
def le (a b : Int) : Bool := decide (a ≤ b)
def gt (a b : Int) : Bool := decide (a > b)
def ge (a b : Int) : Bool := decide (a ≥ b)
def eq (a b : Int) : Bool := decide (a = b)
def ne (a b : Int) : Bool := decide (a ≠ b)

/-- `bool` → integer -/
def ofBool (b : Bool) : Int := if b then 1 else 0

/-- integer → `bool` -/
def toBool (x : Int) : Bool := decide (x ≠ 0)

/-- `a & b` on canonical unsigned values -/
def band (a b : Int) : Int := ((a.toNat &&& b.toNat : Nat) : Int)

/-- `a | b` on canonical unsigned values -/
def bor (a b : Int) : Int := ((a.toNat ||| b.toNat : Nat) : Int)

/-- `a ^ b` on canonical unsigned values -/
def bxor (a b : Int) : Int := ((a.toNat ^^^ b.toNat : Nat) : Int)

/-- `~a` on a canonical unsigned value of width `w` -/
def bnot (w : Nat) (a : Int) : Int := (2 : Int) ^ w - 1 - a

/-- `a << n` in an unsigned type of width `w` (defined for `0 ≤ n < w`: see `shiftOk`) -/
def shl (w : Nat) (a n : Int) : Int := ((a.toNat <<< n.toNat : Nat) : Int) % (2 : Int) ^ w

/-- `a >> n` on a canonical unsigned value (defined for `0 ≤ n < w`) -/
def shr (a n : Int) : Int := ((a.toNat >>> n.toNat : Nat) : Int)

/-- `a >> n` on a signed value: arithmetic shift (implementation-defined before C++20; gcc/clang) -/
def sshr (a n : Int) : Int := a / (2 : Int) ^ n.toNat

/-- `a << n` on a signed value; only defined for `a ≥ 0` with the result representable -/
def sshl (a n : Int) : Int := a * (2 : Int) ^ n.toNat

/-- the shift amount is in range for a left operand of (promoted) width `w` -/
def shiftOk (w : Nat) (n : Int) : Bool := decide (0 ≤ n) && decide (n < (w : Int))

/-- signed bitwise ops go through the two's complement representation -/
def bandS (w : Nat) (a b : Int) : Int := wrapS w (band (wrapU w a) (wrapU w b))
def borS (w : Nat) (a b : Int) : Int := wrapS w (bor (wrapU w a) (wrapU w b))
def bxorS (w : Nat) (a b : Int) : Int := wrapS w (bxor (wrapU w a) (wrapU w b))
def bnotS (a : Int) : Int := -a - 1

/-- signed division is defined: divisor non-zero and not `MIN / -1` -/
def sdivOk (w : Nat) (a b : Int) : Bool := decide (b ≠ 0) && !(decide (a = -((2 : Int) ^ (w - 1))) && decide (b = -1))

/-- an integer-valued `double` computation is exact -/
def exactD (x : Int) : Bool := decide (-9007199254740992 ≤ x) && decide (x ≤ 9007199254740992)

/-- `std::tuple::operator<` on two tuples of integer components, given as the list of component
    pairs: `a < b || (!(b < a) && rest)` -/
def lexLt : List (Int × Int) → Bool
  | [] => false
  | (a, b) :: r => decide (a < b) || (!decide (b < a) && lexLt r)

/-- `std::pair<A, B>` of two integers -/
structure Pair where
  first : Int
  second : Int
deriving DecidableEq, Repr

/-- `std::minmax(a, b)` as a pair of values: `(b < a) ? (b, a) : (a, b)` -/
def minmax (a b : Int) : Pair := if b < a then ⟨b, a⟩ else ⟨a, b⟩

/-- a `std::vector<T>` / `std::string` as far as the translated code looks at it: its `size()` -/
structure Vector where
  size : Int
deriving DecidableEq, Repr

/-! ### functions with effects (tools/x2l_st.py)

A translated function that writes members of `*this`, throws, loops or calls such a function is a state
transformer `f [fuel] [self] args : Outcome σ ρ` (σ = the record of `*this`, `Unit` for a free function;
ρ = the return type, `Unit` for `void`). -/

/-- how a call of a translated function with effects ends -/
inductive Outcome (σ ρ : Type) where
  /-- the call returned `r`; the object is in state `s` -/
  | normal (s : σ) (r : ρ)
  /-- an exception of class `exc` left the function; the object is in state `s` -/
  | thrown (exc : String) (s : σ)
  /-- a loop did not finish within the fuel -/
  | nofuel
deriving DecidableEq, Repr

/-- sequencing after a call of a function with effects on the sub-object that `put` writes back into
    the caller's state: the callee's exception propagates with the caller's state updated -/
def Outcome.bindLift {τ σ α β : Type} (o : Outcome τ α) (put : τ → σ) (k : σ → α → Outcome σ β) : Outcome σ β :=
  match o with
  | .normal t r => k (put t) r
  | .thrown e t => .thrown e (put t)
  | .nofuel => .nofuel

/-- definedness of what follows a call: only looked at when the call returns normally -/
def Outcome.okAnd {τ σ α : Type} (o : Outcome τ α) (put : τ → σ) (k : σ → α → Bool) : Bool :=
  match o with
  | .normal t r => k (put t) r
  | _ => true

/-- what follows a loop (`none` = out of fuel) -/
def Outcome.ofOpt {σ α β : Type} (o : Option α) (k : α → Outcome σ β) : Outcome σ β :=
  match o with
  | some a => k a
  | none => .nofuel

def optAnd {α : Type} (o : Option α) (k : α → Bool) : Bool :=
  match o with
  | some a => k a
  | none => true

/-! ### character cursors (the pointer subset of tools/x2l_ex.py / x2l_st.py)

Every `const char*` / `const unsigned char*` value of a translated function points into ONE immutable byte
array `buf` (the array INCLUDES its terminating NUL, if it has one); the Lean value of the pointer is its
index, an `Int`.  Forming a pointer outside `[0, buf.length]` (`ptrOk`: one past the end is allowed) and
reading outside `[0, buf.length)` (`inB`) are undefined behaviour: they are conjuncts of `f_defined`, never
given a value the proofs could rely on (`rdU` of an index outside the array is 0 only to make it total). -/

/-- the byte array all character pointers of a translated function point into -/
abbrev Buf := List UInt8

/-- `i` is the index of an element: `*p` may be read -/
def inB (b : Buf) (i : Int) : Bool := decide (0 ≤ i) && decide (i < (b.length : Int))

/-- `i` is a pointer value that may be formed: an element or one past the end -/
def ptrOk (b : Buf) (i : Int) : Bool := decide (0 ≤ i) && decide (i ≤ (b.length : Int))

/-- `*p` through a `const unsigned char*` -/
def rdU (b : Buf) (i : Int) : Int := ((b.getD i.toNat 0).toNat : Int)

/-- `*p` through a `const char*`: `char` is SIGNED on the platform the library is checked on (x86-64 gcc/clang) -/
def rdS (b : Buf) (i : Int) : Int := if rdU b i < 128 then rdU b i else rdU b i - 256

/-- the pointer is used as a C string (`std::string + p`, `std::string{p}`): there is a NUL at or after it
    inside the array, so that `strlen` stays in bounds -/
def cstrOk (b : Buf) (i : Int) : Bool := inB b i && (b.drop i.toNat).contains 0

/-- A statement sequence in the middle of a function translated in JOIN style (functions with character
    cursors): it either falls through with the variables it assigned (`next`) or ends the call (`exit`:
    return / throw / a loop out of fuel).  A loop `f.loop_k fuel buf vars : Flow σ α ρ` delivers the variables
    it modifies. -/
inductive Flow (σ α ρ : Type) where
  | next (a : α)
  | exit (o : Outcome σ ρ)

/-- what follows inside another statement sequence -/
def Flow.bind {σ α β ρ : Type} (f : Flow σ α ρ) (k : α → Flow σ β ρ) : Flow σ β ρ :=
  match f with
  | .next a => k a
  | .exit o => .exit o

/-- what follows the call of another translated function with effects on the same state (the cursor cell): its
    exception / lack of fuel ends the caller too -/
def Flow.call {σ α β ρ : Type} (o : Outcome σ α) (k : σ → α → Flow σ β ρ) : Flow σ β ρ :=
  match o with
  | .normal t r => k t r
  | .thrown e t => .exit (.thrown e t)
  | .nofuel => .exit .nofuel

/-- what follows up to the end of the function -/
def Flow.seq {σ α ρ : Type} (f : Flow σ α ρ) (k : α → Outcome σ ρ) : Outcome σ ρ :=
  match f with
  | .next a => k a
  | .exit o => o

/-- definedness of what follows: only looked at when control falls through -/
def Flow.andThen {σ α ρ : Type} (f : Flow σ α ρ) (k : α → Bool) : Bool :=
  match f with
  | .next a => k a
  | .exit _ => true

/-! ### output strings (phase 4 of tools/x2l_st.py)

A `std::string& result` parameter (or a `std::back_insert_iterator<std::string>` passed by value, or a local
`std::string`) that the translated function only APPENDS to is an output byte list, versioned like a local; the
parameter is part of the state σ of the `Outcome` (σ = `Int × Buf` = cursor cell and string, `Buf` when there is no
cursor cell).  Nothing but `size()` / `empty()` may read it. -/

/-- the byte a `char` value is stored as -/
def byteOf (x : Int) : UInt8 := UInt8.ofNat (x % 256).toNat

/-- `result += c`, `result.push_back(c)`, `*out++ = c` -/
def push (out : Buf) (c : Int) : Buf := out ++ [byteOf c]

/-- the bytes `[first, last)` of the input array (`result.append(first, last)`, `result.append(p, n)`) -/
def slice (b : Buf) (first last : Int) : Buf := (b.drop first.toNat).take (last.toNat - first.toNat)

/-- the range `[first, last)` lies inside the array -/
def sliceOk (b : Buf) (first last : Int) : Bool := decide (0 ≤ first) && decide (first ≤ last) && decide (last ≤ (b.length : Int))

/-- sequencing after a call whose state τ (cursor cell and / or output string of the CALLEE) is bound to variables of the
    caller (`&local` as the callee's cursor cell, an output string handed on): `k` receives the callee's final state,
    `put` says what the caller's state is when the callee throws -/
def Outcome.bindVia {τ σ α β : Type} (o : Outcome τ α) (put : τ → σ) (k : τ → α → Outcome σ β) : Outcome σ β :=
  match o with
  | .normal t r => k t r
  | .thrown e t => .thrown e (put t)
  | .nofuel => .nofuel

/-- the same inside a branch / loop body -/
def Flow.callVia {τ σ α β ρ : Type} (o : Outcome τ α) (put : τ → σ) (k : τ → α → Flow σ β ρ) : Flow σ β ρ :=
  match o with
  | .normal t r => k t r
  | .thrown e t => .exit (.thrown e (put t))
  | .nofuel => .exit .nofuel

/-- `std::strlen(p)`: the distance to the first NUL at or after the cursor (defined when there is one: `cstrOk`) -/
def strlen (b : Buf) (i : Int) : Int := (((b.drop i.toNat).takeWhile (fun c => c != 0)).length : Int)

/-- the bytes `lit` lie in the array from index `i` on (a string literal that a static local pointer points at: the
    translation has ONE array, so the literal is part of it; the index is an extra parameter of the function) -/
def litAt (b : Buf) (i : Int) (lit : List UInt8) : Bool := decide (0 ≤ i) && ((b.drop i.toNat).take lit.length == lit)

end Osmium.CxxSem
