/-
Model of libosmium's relation managers (property C11).

Transcribed from
  include/osmium/storage/item_stash.hpp            ItemStash (abstractly: handle ↦ Option item;
                                                   the buffer/GC refinement is C15's)
  include/osmium/relations/relations_database.hpp  RelationsDatabase, RelationHandle
  include/osmium/relations/members_database.hpp    MembersDatabaseCommon, MembersDatabase
  include/osmium/relations/relations_manager.hpp   RelationsManagerBase, RelationsManager
  include/osmium/relations/manager_util.hpp        SecondPassHandler (pure forwarding)
  include/osmium/memory/callback_buffer.hpp        CallbackBuffer::possibly_flush/flush
  include/osmium/handler/check_order.hpp           CheckOrder (model shared with C16)
  include/osmium/area/multipolygon_manager.hpp     = RelationsManager<_, false, true, false>
                                                   with a particular new_relation

Core-only (no Mathlib).  Ids are unbounded `Int`.  `Cfg.fixed = false` is the CURRENT
behaviour of `MembersDatabaseCommon::remove` (object handles stay in the elements after
the stash item was removed); `fixed = true` is the behaviour after the proposed repair
(handles of the whole range are invalidated together with the stash item).
-/
import Osmium.Model.Order

namespace Osmium.RelMgr

open Osmium.Order (Kind CheckState checkStep)

/-! ### Data -/

/-- `osmium::RelationMember`: type and ref (roles play no part in the manager). -/
structure Member where
  kind : Kind
  ref  : Int
  deriving Repr, DecidableEq

/-- `osmium::Relation`: id, members; `content` stands for everything else (tags, ...). -/
structure Rel where
  id      : Int
  content : Nat
  members : List Member
  deriving Repr, DecidableEq

/-- A node / way / relation arriving in the second pass; `content` stands for the
    complete payload of the object (what "identical to the input object" compares). -/
structure Obj where
  kind    : Kind
  id      : Int
  content : Nat
  deriving Repr, DecidableEq

inductive Item
  | rel (r : Rel)
  | obj (o : Obj)
  deriving Repr, DecidableEq

/-! ### ItemStash, abstractly

`handle h ≥ 1` ↦ entry `h-1` of the array (arrays only for the speed of the compiled model); `none` = removed item
(`removed_item_offset`); handle `0` is the invalid handle. -/

abbrev Stash := Array (Option Item)

/-- `ItemStash::add_item` -/
def stashAdd (st : Stash) (it : Item) : Stash × Nat := (st.push (some it), st.size + 1)

/-- `ItemStash::get_item`: `none` where the C++ code has undefined behaviour (invalid
    handle, handle out of range, removed item: `m_buffer.get(SIZE_MAX)`; asserts in a
    debug build). -/
def stashGet (st : Stash) (h : Nat) : Option Item :=
  if h = 0 then none else
  match st[h - 1]? with
  | some (some it) => some it
  | _ => none

/-- `ItemStash::remove_item` (the invalid handle 0 is undefined behaviour in C++ — the callers
    record that in `ub` —; here it leaves the stash alone) -/
def stashRemove (st : Stash) (h : Nat) : Stash := if h = 0 then st else st.setIfInBounds (h - 1) none

/-- `ItemStash::size()` -/
def stashLive (st : Stash) : Nat := (st.toList.filter Option.isSome).length

/-! ### Databases -/

/-- `RelationsDatabase::element` -/
structure RelEntry where
  h       : Nat
  missing : Nat
  deriving Repr, DecidableEq

/-- `MembersDatabaseCommon::element`; `num = none` is `removed_value` (SIZE_MAX). -/
structure Elem where
  mid  : Int
  num  : Option Nat
  rpos : Nat
  h    : Nat
  deriving Repr, DecidableEq

/-- `member_num` comparison with `removed_value = SIZE_MAX` as the largest value -/
def numLe : Option Nat → Option Nat → Bool
  | some a, some b => a ≤ b
  | _, none => true
  | none, some _ => false

def numLt (a b : Option Nat) : Bool := !numLe b a

/-- `!(b < a)` for `element::operator<` = `std::tie(member_id, member_num, relation_pos) <`.
    (Distinct elements of one database differ in (member_num, relation_pos), so the
    result of `std::sort` is unique and any sorting algorithm models it.) -/
def elemLe (a b : Elem) : Bool :=
  a.mid < b.mid || (a.mid == b.mid && (numLt a.num b.num || (a.num == b.num && a.rpos ≤ b.rpos)))

/-- insertion into a sorted list (structural recursion, so that the kernel can evaluate it) -/
def insertElem (e : Elem) : List Elem → List Elem
  | [] => [e]
  | a :: l => if elemLe e a then e :: a :: l else a :: insertElem e l

/-- `prepare_for_lookup`: `std::sort(m_elements)` (the result is unique, see `elemLe`) -/
def sortElems (es : List Elem) : List Elem := es.foldr insertElem []

/-- `find(id)`: `std::equal_range(.., element{id}, compare_member_id{})` on a range
    partitioned by member_id, as the standard defines it (lower bound = partition point of
    `e.member_id < id`, upper bound = partition point of `!(id < e.member_id)`).
    Returns (before, range, after). -/
def splitRange (es : List Elem) (id : Int) : List Elem × List Elem × List Elem :=
  let pre := es.takeWhile (fun e => decide (e.mid < id))
  let rest := es.dropWhile (fun e => decide (e.mid < id))
  (pre, rest.takeWhile (fun e => !decide (id < e.mid)), rest.dropWhile (fun e => !decide (id < e.mid)))

/-! ### Configuration (template parameters and overridable predicates) -/

structure Cfg where
  tn : Bool                       -- TNodes
  tw : Bool                       -- TWays
  tr : Bool                       -- TRelations
  newRel : Rel → Bool             -- derived().new_relation
  newMem : Rel → Member → Nat → Bool  -- derived().new_member
  hasCallback : Bool              -- handler(callback) got a callback
  maxBuf : Nat                    -- CallbackBuffer::m_max_buffer_size
  wr : Nat                        -- bytes complete_relation() writes into buffer()
  fixed : Bool                    -- false: current remove(); true: after the proposed repair

def Cfg.enabled (c : Cfg) : Kind → Bool
  | .node => c.tn
  | .way => c.tw
  | .relation => c.tr

/-- result of `get_member_node/way/relation` / `get_member_object` -/
inductive Lookup
  | absent                -- nullptr
  | found (o : Obj)       -- pointer to a live stash item
  | wild                  -- pointer computed from a removed/invalid stash entry (UB)
  deriving Repr, DecidableEq

inductive Event
  | complete (pos : Nat) (rid : Int) (content : Nat) (looks : List (Member × Lookup))
  | completeWild (pos : Nat)             -- complete_relation(*handle) on a dead handle (UB)
  | notIn (k : Kind) (id : Int)          -- node/way/relation_not_in_any_relation
  | query (k : Kind) (id : Int) (res : Lookup)   -- lookup outside of a callback
  | thrown                                -- out_of_order_error left the handler
  deriving Repr, DecidableEq

structure State where
  stash : Stash := #[]
  rdb   : Array RelEntry := #[]
  ndb   : List Elem := []
  wdb   : List Elem := []
  rmdb  : List Elem := []
  chk   : CheckState := {}
  outBytes : Nat := 0        -- m_output.buffer().committed()
  flushes : Nat := 0
  flushedBytes : Nat := 0
  ub    : Bool := false      -- an operation with undefined behaviour was executed
  log   : List Event := []   -- newest first
  deriving Repr

def State.getDb (s : State) : Kind → List Elem
  | .node => s.ndb
  | .way => s.wdb
  | .relation => s.rmdb

def State.setDb (s : State) (k : Kind) (es : List Elem) : State :=
  match k with
  | .node => { s with ndb := es }
  | .way => { s with wdb := es }
  | .relation => { s with rmdb := es }

/-- `m_relations_db[pos].operator*()` -/
def State.relAt (s : State) (pos : Nat) : Option Rel :=
  match s.rdb[pos]? with
  | some e =>
    match stashGet s.stash e.h with
    | some (.rel r) => some r
    | _ => none
  | none => none

/-! ### First pass: `RelationsManager::relation()` -/

/-- `wanted_type(member.type()) && derived().new_member(relation, member, n)` -/
def wantedAt (c : Cfg) (r : Rel) (n : Nat) (m : Member) : Bool :=
  c.enabled m.kind && c.newMem r m n

/-- the stash copy of the relation after the loop: unwanted members get `set_ref(0)` -/
def markMembers (c : Cfg) (r : Rel) : List Member :=
  r.members.mapIdx (fun n m => if wantedAt c r n m then m else { m with ref := 0 })

/-- the elements `track()` appends to the members database of kind `k` -/
def trackElems (c : Cfg) (r : Rel) (pos : Nat) (k : Kind) : List Elem :=
  (r.members.zipIdx.filter (fun p => p.1.kind == k && wantedAt c r p.2 p.1)).map
    (fun p => { mid := p.1.ref, num := some p.2, rpos := pos, h := 0 })

/-- number of `increment_members()` calls -/
def wantedCount (c : Cfg) (r : Rel) : Nat :=
  (r.members.zipIdx.filter (fun p => wantedAt c r p.2 p.1)).length

def addRelation (c : Cfg) (s : State) (r : Rel) : State :=
  if c.newRel r then
    let pos := s.rdb.size
    let (st, h) := stashAdd s.stash (.rel { r with members := markMembers c r })
    { s with
      stash := st
      rdb := s.rdb.push { h := h, missing := wantedCount c r }
      ndb := s.ndb ++ trackElems c r pos .node
      wdb := s.wdb ++ trackElems c r pos .way
      rmdb := s.rmdb ++ trackElems c r pos .relation }
  else s

/-- `RelationsManagerBase::prepare_for_lookup` -/
def prepare (s : State) : State :=
  { s with ndb := sortElems s.ndb, wdb := sortElems s.wdb, rmdb := sortElems s.rmdb }

/-! ### Lookups -/

/-- `MembersDatabaseCommon::get_object(id)` -/
def dbLookup (st : Stash) (es : List Elem) (id : Int) : Lookup :=
  match (splitRange es id).2.1 with
  | [] => .absent
  | e :: _ =>
    if e.h = 0 then .absent else
    match stashGet st e.h with
    | some (.obj o) => .found o
    | _ => .wild

/-- `get_member_node/way/relation(id)`, `get_member_object(member)` -/
def State.lookup (s : State) (k : Kind) (id : Int) : Lookup :=
  if id = 0 then .absent else dbLookup s.stash (s.getDb k) id

/-! ### Output buffer -/

/-- `CallbackBuffer::possibly_flush` (+ `flush`) -/
def State.possiblyFlush (c : Cfg) (s : State) : State :=
  if s.outBytes > c.maxBuf then
    if c.hasCallback && s.outBytes > 0 then
      { s with flushes := s.flushes + 1, flushedBytes := s.flushedBytes + s.outBytes, outBytes := 0 }
    else s
  else s

/-- `SecondPassHandler::flush` → `flush_output` -/
def State.flushOutput (c : Cfg) (s : State) : State :=
  if c.hasCallback && s.outBytes > 0 then
    { s with flushes := s.flushes + 1, flushedBytes := s.flushedBytes + s.outBytes, outBytes := 0 }
  else s

/-! ### `MembersDatabaseCommon::remove` -/

/-- the loop at the end of `remove`: mark the first non-removed element whose relation
    has the given id -/
def markFirst (relIdOf : Nat → Option Int) (relid : Int) : List Elem → List Elem
  | [] => []
  | e :: es =>
    if e.num.isSome && relIdOf e.rpos == some relid then { e with num := none } :: es
    else e :: markFirst relIdOf relid es

def countNotRemoved (es : List Elem) : Nat := (es.filter (fun e => e.num.isSome)).length

def dbRemove (c : Cfg) (s : State) (k : Kind) (id relid : Int) : State :=
  match splitRange (s.getDb k) id with
  | (pre, mid, post) =>
    match mid with
    | [] => s
    | e0 :: _ =>
      let last := countNotRemoved mid == 1
      let st := if last then stashRemove s.stash e0.h else s.stash
      let ub := s.ub || (last && (stashGet s.stash e0.h).isNone)
      -- proposed repair: invalidate the handles of the whole range with the stash item
      let mid1 := if last && c.fixed then mid.map (fun e : Elem => { e with h := 0 }) else mid
      let mid2 := markFirst (fun p => (s.relAt p).map (·.id)) relid mid1
      { s with stash := st, ub := ub }.setDb k (pre ++ mid2 ++ post)

/-! ### `RelationsManager::handle_complete_relation` -/

def removeMembers (c : Cfg) (relid : Int) : State → List Member → State
  | s, [] => s
  | s, m :: ms =>
    removeMembers c relid (if m.ref ≠ 0 then dbRemove c s m.kind m.ref relid else s) ms

/-- `derived().complete_relation(*rel_handle)`: the observer looks every member with
    `ref != 0` up and writes `c.wr` bytes into the output buffer -/
def announce (c : Cfg) (s : State) (pos : Nat) (r : Rel) : State :=
  { s with
    log := .complete pos r.id r.content
      ((r.members.filter (fun m => m.ref ≠ 0)).map (fun m => (m, s.lookup m.kind m.ref))) :: s.log
    outBytes := s.outBytes + c.wr }

/-- `rel_handle.remove()` = `RelationsDatabase::remove(pos)` -/
def relRemove (s : State) (pos : Nat) : State :=
  match s.rdb[pos]? with
  | some e => { s with stash := stashRemove s.stash e.h, rdb := s.rdb.setIfInBounds pos { h := 0, missing := 0 } }
  | none => s

def handleComplete (c : Cfg) (s : State) (pos : Nat) : State :=
  match s.relAt pos with
  | none => { s with ub := true, log := .completeWild pos :: s.log }
  | some r => relRemove (removeMembers c r.id ((announce c s pos r).possiblyFlush c) r.members) pos

/-! ### `MembersDatabase::add` and the member handlers -/

/-- one iteration of the loop in `add`: decrement, complete when the counter is zero -/
def completeStep (c : Cfg) (s : State) (pos : Nat) : State :=
  match s.rdb[pos]? with
  | none => { s with ub := true }
  | some e =>
    if e.missing = 0 then
      -- decrement_members() below zero: assert / wrap-around to SIZE_MAX
      { s with ub := true, rdb := s.rdb.setIfInBounds pos { e with missing := 2 ^ 64 - 1 } }
    else
      let s1 := { s with rdb := s.rdb.setIfInBounds pos { e with missing := e.missing - 1 } }
      if e.missing - 1 = 0 then handleComplete c s1 pos else s1

def completeLoop (c : Cfg) : State → List Nat → State
  | s, [] => s
  | s, p :: ps => completeLoop c (completeStep c s p) ps

/-- the part of `handle_node / handle_way / handle_relation` after the order check:
    `MembersDatabase::add` with the completion callback, `*_not_in_any_relation`,
    `possibly_flush` -/
def memberAdd (c : Cfg) (s0 : State) (o : Obj) : State :=
  match splitRange (s0.getDb o.kind) o.id with
  | (pre, mid, post) =>
    if mid.isEmpty then
      { s0 with log := .notIn o.kind o.id :: s0.log }.possiblyFlush c
    else
      -- add_object: store it and put the handle into every element of the range
      let sh := stashAdd s0.stash (.obj o)
      let s1 := { s0 with stash := sh.1 }.setDb o.kind (pre ++ mid.map (fun e : Elem => { e with h := sh.2 }) ++ post)
      -- relation_pos is never modified, so the loop over the range reads these values
      (completeLoop c s1 (mid.map (·.rpos))).possiblyFlush c

/-- `handle_node / handle_way / handle_relation`; `none` = `out_of_order_error` thrown by
    the CheckOrder handler. -/
def handleObj (c : Cfg) (s : State) (o : Obj) : Option State :=
  if !c.enabled o.kind then some s else
  match checkStep s.chk o.kind o.id with
  | none => none
  | some chk => some (memberAdd c { s with chk := chk } o)

/-! ### Histories -/

inductive Op
  | obj (o : Obj)               -- second-pass object
  | query (k : Kind) (id : Int) -- get_member_*(id) called between two objects
  | flush                       -- SecondPassHandler::flush() (end of an input buffer)
  deriving Repr, DecidableEq

/-- second pass; stops at the first `out_of_order_error` -/
def runOps (c : Cfg) : State → List Op → State
  | s, [] => s
  | s, .query k id :: ops => runOps c { s with log := .query k id (s.lookup k id) :: s.log } ops
  | s, .flush :: ops => runOps c (s.flushOutput c) ops
  | s, .obj o :: ops =>
    match handleObj c s o with
    | none => { s with log := .thrown :: s.log }
    | some s' => runOps c s' ops

def firstPass (c : Cfg) (rels : List Rel) : State :=
  prepare (rels.foldl (addRelation c) {})

/-- both passes and the final `flush()` of the second-pass handler -/
def run (c : Cfg) (rels : List Rel) (ops : List Op) : State :=
  (runOps c (firstPass c rels) ops).flushOutput c

/-- events in the order they happened -/
def State.events (s : State) : List Event := s.log.reverse

/-- `for_each_incomplete_relation`: ids of the relations still in the database -/
def State.incomplete (s : State) : List Int :=
  s.rdb.toList.filterMap (fun e =>
    if e.h = 0 then none else
    match stashGet s.stash e.h with
    | some (.rel r) => some r.id
    | _ => none)

/-- `MembersDatabaseCommon::count()`: (tracked, available, removed) -/
def dbCounts (es : List Elem) : Nat × Nat × Nat :=
  ((es.filter (fun e => e.num.isSome && e.h == 0)).length,
   (es.filter (fun e => e.num.isSome && e.h != 0)).length,
   (es.filter (fun e => e.num.isNone)).length)

/-- `RelationsDatabase::count_relations()` -/
def State.countRelations (s : State) : Nat := (s.rdb.toList.filter (fun e => e.h != 0)).length

end Osmium.RelMgr
