/-
Byte-level model of libosmium's in-buffer item layout (properties C04, C03).

Transcribed from
  include/osmium/memory/item.hpp        Item header {u32 size, u16 type, u16 flags(bit0 = removed)},
                                        padded_length, align_bytes = 8
  include/osmium/memory/item_iterator.hpp / collection.hpp   next() = data() + padded_size()
  include/osmium/osm/object.hpp         OSMObject fixed fields, user_position, subitems_position
  include/osmium/osm/changeset.hpp      Changeset fixed fields, ChangesetComment {date,uid,text_size,user_size}
  include/osmium/osm/relation.hpp       RelationMember {ref,type,flags,role_size}, next() with full member
  include/osmium/osm/tag.hpp            Tag::next() = after_null(after_null(data()))
  include/osmium/osm/node_ref_list.hpp  NodeRef {ref, x, y}

All reads are little-endian (the platform the harness runs on) and bounds-checked: a read that
would leave the enclosing item yields `oob` instead of a value — this is the explicit error
outcome for what is an out-of-bounds read in the C++ code.  Core-only (no Mathlib).
-/
namespace Osmium.Layout

abbrev Bytes := List UInt8

/-- `padded_length` (item.hpp): round up to a multiple of `align_bytes` = 8. -/
def padded (n : Nat) : Nat := (n + 7) / 8 * 8

/-- sizeof(T) of the fixed part of each object type (probed from the headers; the hex diff of the
    correspondence check pins them). -/
def sizeofNode : Nat := 40
def sizeofObject : Nat := 32      -- Way, Relation, Area
def sizeofChangeset : Nat := 56

/- item_type values (osm/item_type.hpp) -/
def tyNode : Nat := 0x01
def tyWay : Nat := 0x02
def tyRelation : Nat := 0x03
def tyArea : Nat := 0x04
def tyChangeset : Nat := 0x05
def tyTagList : Nat := 0x11
def tyWayNodeList : Nat := 0x12
def tyMemberList : Nat := 0x13
def tyMemberListFull : Nat := 0x23
def tyOuterRing : Nat := 0x40
def tyInnerRing : Nat := 0x41
def tyDiscussion : Nat := 0x80
/-- pseudo types used in the tree for collection members that are not items themselves -/
def tyMember : Nat := 0x1001
def tyComment : Nat := 0x1002

/-- `OSMEntity::is_compatible_to` -/
def isEntity (t : Nat) : Bool := t == 1 || t == 2 || t == 3 || t == 4 || t == 5
/-- `OSMObject::is_compatible_to` -/
def isObject (t : Nat) : Bool := t == 1 || t == 2 || t == 3 || t == 4

/-! ### little-endian access -/

def byteAt (b : Bytes) (i : Nat) : Nat := (b.getD i 0).toNat

/-- little-endian unsigned read of `n` bytes at `off` (bytes outside the list read as 0;
    callers check bounds first) -/
def leAt (b : Bytes) (off : Nat) : Nat → Nat
  | 0 => 0
  | n + 1 => byteAt b off + 256 * leAt b (off + 1) n

def u32At (b : Bytes) (off : Nat) : Nat := leAt b off 4
def u16At (b : Bytes) (off : Nat) : Nat := leAt b off 2

/-- little-endian encoding of `v` in `n` bytes (wraps modulo 256^n like the C++ integer types) -/
def leBytes (v : Nat) : Nat → Bytes
  | 0 => []
  | n + 1 => UInt8.ofNat (v % 256) :: leBytes (v / 256) n

/-- two's complement encoding of a signed value in `n` bytes -/
def leBytesInt (v : Int) (n : Nat) : Bytes := leBytes (v % (256 ^ n : Nat)).toNat n

def toSigned (v : Nat) (bits : Nat) : Int :=
  if v ≥ 2 ^ (bits - 1) then (v : Int) - (2 ^ bits : Nat) else v

/-- overwrite `l[off ..]` with `d` (positions outside the list are dropped, the length never
    changes: this is a `memcpy` into existing memory) -/
def writeAt (l : Bytes) (off : Nat) : Bytes → Bytes
  | [] => l
  | x :: xs => writeAt (l.set off x) (off + 1) xs

def slice (b : Bytes) (off len : Nat) : Bytes := (b.drop off).take len

inductive DErr where
  | oob        -- a read would leave the enclosing item / buffer
  | fuel       -- nesting deeper than the fuel (cannot happen for fuel = length)
  deriving Repr, DecidableEq

/-- The abstract content of an item: type, removed flag, integer fields, string fields,
    children.  Collections list their members as children with pseudo types. -/
inductive Tree where
  | mk (ty : Nat) (removed : Bool) (fields : List Int) (strs : List Bytes) (children : List Tree)
  deriving Repr

def Tree.ty : Tree → Nat | .mk t _ _ _ _ => t
def Tree.removed : Tree → Bool | .mk _ r _ _ _ => r
def Tree.fields : Tree → List Int | .mk _ _ f _ _ => f
def Tree.strs : Tree → List Bytes | .mk _ _ _ s _ => s
def Tree.children : Tree → List Tree | .mk _ _ _ _ c => c

/-- C-string read (`strlen`/`strchr`): bytes from `pos` up to the first NUL strictly before
    `lim`; `none` if there is no NUL before `lim` (the real code would read on). Returns the
    string and the position after the NUL. -/
def cstr (b : Bytes) (pos lim : Nat) : Option (Bytes × Nat) :=
  let s := ((b.drop pos).take (lim - pos)).takeWhile (· ≠ 0)
  if pos + s.length < lim ∧ lim ≤ b.length then some (s, pos + s.length + 1) else none

/-- tags: `CollectionIterator<Tag>` from `pos` until `== end` -/
def decodeTags (b : Bytes) (endp : Nat) : Nat → Nat → Except DErr (List Bytes)
  | 0, _ => .error .fuel
  | fuel + 1, pos =>
    if pos = endp then .ok []
    else if pos > endp then .error .oob
    else match cstr b pos endp with
      | none => .error .oob
      | some (k, p1) =>
        -- the value may end exactly at `endp`
        if p1 ≥ endp then .error .oob else
        match cstr b p1 endp with
        | none => .error .oob
        | some (v, p2) => do
          let rest ← decodeTags b endp fuel p2
          pure (k :: v :: rest)

/-- node refs: count = (size - 8) / 16 -/
def decodeNodeRefs (b : Bytes) (pos : Nat) : Nat → List Int
  | 0 => []
  | n + 1 => toSigned (leAt b pos 8) 64 :: toSigned (leAt b (pos + 8) 4) 32 ::
             toSigned (leAt b (pos + 12) 4) 32 :: decodeNodeRefs b (pos + 16) n

/-- comments: `CollectionIterator<ChangesetComment>` -/
def decodeComments (b : Bytes) (endp : Nat) : Nat → Nat → Except DErr (List Tree)
  | 0, _ => .error .fuel
  | fuel + 1, pos =>
    if pos = endp then .ok []
    else if pos + 16 > endp then .error .oob
    else
      let date := u32At b pos
      let uid := u32At b (pos + 4)
      let textSize := u32At b (pos + 8)
      let userSize := u16At b (pos + 12)
      let nxt := pos + padded (16 + userSize + textSize)
      if nxt > endp then .error .oob else
      match cstr b (pos + 16) nxt with
      | none => .error .oob
      | some (user, _) =>
        match cstr b (pos + 16 + userSize) nxt with
        | none => .error .oob
        | some (text, _) => do
          let rest ← decodeComments b endp fuel nxt
          pure (.mk tyComment false [date, uid] [user, text] [] :: rest)

mutual
/-- One item at `off`, which must lie completely inside `[off, lim)`.  Returns the tree and the
    item's byte size (unpadded). -/
def decodeItem (b : Bytes) : Nat → Nat → Nat → Except DErr (Tree × Nat)
  | 0, _, _ => .error .fuel
  | fuel + 1, off, lim =>
    if off + 8 > lim ∨ lim > b.length then .error .oob else
    let size := u32At b off
    let ty := u16At b (off + 4)
    let removed := u16At b (off + 6) % 2 == 1
    let endp := off + size            -- data() + byte_size()
    let nxt := off + padded size      -- next()
    if size < 8 ∨ nxt > lim then .error .oob else
    if isObject ty then
      let szT := if ty == tyNode then sizeofNode else sizeofObject
      if size < szT + 2 then .error .oob else
      let userSize := u16At b (off + szT)
      let fixed : List Int :=
        [toSigned (leAt b (off + 8) 8) 64, (u32At b (off + 16) / 2 : Nat), (u32At b (off + 16) % 2 : Nat),
         (u32At b (off + 20) : Nat), (u32At b (off + 24) : Nat), (u32At b (off + 28) : Nat)]
      let loc : List Int := if ty == tyNode then
        [toSigned (u32At b (off + 32)) 32, toSigned (u32At b (off + 36)) 32] else []
      match cstr b (off + szT + 2) nxt with
      | none => .error .oob
      | some (user, _) => do
        let subs ← decodeItems b fuel (off + padded (szT + 2 + userSize)) nxt
        pure (.mk ty removed (fixed ++ loc) [user] subs, size)
    else if ty == tyChangeset then
      if size < sizeofChangeset + 1 then .error .oob else
      let userSize := u16At b (off + 48)
      let fixed : List Int :=
        [(u32At b (off + 32) : Nat), (u32At b (off + 44) : Nat), (u32At b (off + 24) : Nat),
         (u32At b (off + 28) : Nat), (u32At b (off + 36) : Nat), (u32At b (off + 40) : Nat),
         toSigned (u32At b (off + 8)) 32, toSigned (u32At b (off + 12)) 32,
         toSigned (u32At b (off + 16)) 32, toSigned (u32At b (off + 20)) 32]
      match cstr b (off + sizeofChangeset) nxt with
      | none => .error .oob
      | some (user, _) => do
        let subs ← decodeItems b fuel (off + padded (sizeofChangeset + userSize)) nxt
        pure (.mk ty removed fixed [user] subs, size)
    else if ty == tyTagList then do
      let strs ← decodeTags b endp (size + 1) (off + 8)
      pure (.mk ty removed [] strs [], size)
    else if ty == tyWayNodeList ∨ ty == tyOuterRing ∨ ty == tyInnerRing then
      pure (.mk ty removed (decodeNodeRefs b (off + 8) ((size - 8) / 16)) [] [], size)
    else if ty == tyMemberList ∨ ty == tyMemberListFull then do
      let ms ← decodeMembers b endp fuel (off + 8)
      pure (.mk ty removed [] [] ms, size)
    else if ty == tyDiscussion then do
      let cs ← decodeComments b endp (size + 1) (off + 8)
      pure (.mk ty removed [] [] cs, size)
    else
      pure (.mk ty removed [(size : Nat)] [] [], size)

/-- `ItemIterator<Item>` / `CollectionIterator<Item>` from `pos` until `== lim` -/
def decodeItems (b : Bytes) : Nat → Nat → Nat → Except DErr (List Tree)
  | 0, _, _ => .error .fuel
  | fuel + 1, pos, lim =>
    if pos = lim then .ok []
    else if pos > lim then .error .oob
    else do
      let (t, size) ← decodeItem b fuel pos lim
      let rest ← decodeItems b fuel (pos + padded size) lim
      pure (t :: rest)

/-- `CollectionIterator<RelationMember>`; `next()` skips `byte_size()` of a full member -/
def decodeMembers (b : Bytes) (endp : Nat) : Nat → Nat → Except DErr (List Tree)
  | 0, _ => .error .fuel
  | fuel + 1, pos =>
    if pos = endp then .ok []
    else if pos + 16 > endp then .error .oob
    else
      let ref := toSigned (leAt b pos 8) 64
      let mty := u16At b (pos + 8)
      let flags := u16At b (pos + 10)
      let roleSize := u16At b (pos + 12)
      let ep := pos + padded (16 + roleSize)
      if ep > endp then .error .oob else
      match cstr b (pos + 16) ep with
      | none => .error .oob
      | some (role, _) =>
        if flags == 1 then do
          let (full, fsize) ← decodeItem b fuel ep endp
          let rest ← decodeMembers b endp fuel (ep + fsize)
          pure (.mk tyMember false [(mty : Nat), ref] [role] [full] :: rest)
        else do
          let rest ← decodeMembers b endp fuel ep
          pure (.mk tyMember false [(mty : Nat), ref] [role] [] :: rest)
end

/-- All top-level items of a committed region `b` (= `[0, committed)`). -/
def decodeAll (b : Bytes) : Except DErr (List Tree) := decodeItems b (b.length + 2) 0 b.length

/-- Well-formed committed region: every traversal the library offers stays in bounds. -/
def WF (b : Bytes) : Bool :=
  match decodeAll b with
  | .ok _ => b.length % 8 == 0
  | .error _ => false

/-! ### top-level item walk (what `ItemIterator` sees): offsets, padded sizes, header fields -/

structure Hdr where
  off : Nat
  psize : Nat     -- padded size
  ty : Nat
  removed : Bool
  deriving Repr, DecidableEq

/-- Header walk over `[pos, lim)` exactly like `ItemIterator<Item>` does it (no content
    decoding). Stops with `oob` when an item header or body would cross `lim`, or when a size is
    0 (the real iterator would not advance). -/
def headers (b : Bytes) (lim : Nat) : Nat → Nat → Except DErr (List Hdr)
  | 0, _ => .error .fuel
  | fuel + 1, pos =>
    if pos = lim then .ok []
    else if pos + 8 > lim ∨ lim > b.length then .error .oob
    else
      let ps := padded (u32At b pos)
      if ps = 0 ∨ pos + ps > lim then .error .oob else do
        let rest ← headers b lim fuel (pos + ps)
        pure (⟨pos, ps, u16At b (pos + 4), u16At b (pos + 6) % 2 == 1⟩ :: rest)

def headersAll (b : Bytes) : Except DErr (List Hdr) := headers b b.length (b.length + 1) 0

/-! ### canonical printing (must equal harness/c04.cpp's dump) -/

def hexChar (n : Nat) : Char :=
  if n < 10 then Char.ofNat (n + 48) else Char.ofNat (n - 10 + 97)

def hex (bs : Bytes) : String :=
  if bs.isEmpty then "-" else
  String.ofList (bs.flatMap fun b => [hexChar (b.toNat / 16), hexChar (b.toNat % 16)])

def b01 (b : Bool) : String := if b then "1" else "0"

def joinWith (sep : String) (xs : List String) : String := sep.intercalate xs

def pairs : List Bytes → List String
  | k :: v :: rest => (hex k ++ "=" ++ hex v) :: pairs rest
  | _ => []

def triples : List Int → List String
  | a :: b :: c :: rest => (toString a ++ ":" ++ toString b ++ ":" ++ toString c) :: triples rest
  | _ => []

mutual
def printTree : Tree → String
  | .mk ty rm fields strs children =>
    if isObject ty then
      let letter := if ty == 1 then "n" else if ty == 2 then "w" else if ty == 3 then "r" else "a"
      letter ++ "{" ++ joinWith "," (fields.map toString) ++ "," ++ hex (strs.headD []) ++ "," ++ b01 rm ++ "}["
        ++ printTrees children ++ "]"
    else if ty == tyChangeset then
      "c{" ++ joinWith "," (fields.map toString) ++ "," ++ hex (strs.headD []) ++ "," ++ b01 rm ++ "}["
        ++ printTrees children ++ "]"
    else if ty == tyTagList then
      "T{" ++ b01 rm ++ "}(" ++ joinWith "," (pairs strs) ++ ")"
    else if ty == tyWayNodeList then "W{" ++ b01 rm ++ "}(" ++ joinWith "," (triples fields) ++ ")"
    else if ty == tyOuterRing then "O{" ++ b01 rm ++ "}(" ++ joinWith "," (triples fields) ++ ")"
    else if ty == tyInnerRing then "I{" ++ b01 rm ++ "}(" ++ joinWith "," (triples fields) ++ ")"
    else if ty == tyMemberList ∨ ty == tyMemberListFull then
      "M{" ++ b01 rm ++ "}(" ++ printMembers children ++ ")"
    else if ty == tyDiscussion then
      "D{" ++ b01 rm ++ "}(" ++ printMembers children ++ ")"
    else if ty == tyMember then
      joinWith ":" (fields.map toString) ++ ":" ++ hex (strs.headD []) ++ ":" ++
        (match children with
         | [] => "-"
         | c :: _ => printTree c)
    else if ty == tyComment then
      joinWith ":" (fields.map toString) ++ ":" ++ hex (strs.headD []) ++ ":" ++ hex ((strs.drop 1).headD [])
    else
      "?{" ++ toString ty ++ "," ++ joinWith "," (fields.map toString) ++ "}"

def printTrees : List Tree → String
  | [] => ""
  | [t] => printTree t
  | t :: rest => printTree t ++ " " ++ printTrees rest

def printMembers : List Tree → String
  | [] => ""
  | [t] => printTree t
  | t :: rest => printTree t ++ "," ++ printMembers rest
end

def printView (ts : List Tree) : String := if ts.isEmpty then "-" else printTrees ts

def printDecoded : Except DErr (List Tree) → String
  | .ok ts => printView ts
  | .error .oob => "oob"
  | .error .fuel => "fuel"

end Osmium.Layout
