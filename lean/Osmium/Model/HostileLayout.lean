/-
C03 — what the builders write, as a function of the builder-call script (object spec), and the
`Guards` under which that layout can be traversed without leaving the item.

`build fill o` is the byte string the real builders leave in the buffer for ONE top-level object
built by the call sequence every parser uses (harness/c03.cpp `lay`, Model/Buf.lean `script`):

    XBuilder b{buffer};  b.set_user(user);                       -- OSMObjectBuilder / ChangesetBuilder
    { TagListBuilder t{b};  t.add_tag(k, v) … }                  -- one block per `Sub`, in order
    { WayNodeListBuilder w{b};  w.add_node_ref(ref, x, y) … }
    { RelationMemberListBuilder m{b};  m.add_member(type, ref, role) … }
    { ChangesetDiscussionBuilder d{b};  d.add_comment(date, uid, user); [d.add_comment_text(text)] … }
    buffer.commit();

Since repair 5690f83 `~ChangesetDiscussionBuilder` finishes a comment that is still pending (the LAST
`add_comment` of the block without its `add_comment_text`) with an empty text and its padding:
`finishLast`.  A text-less comment followed by another `add_comment` is still API misuse (assertion;
NDEBUG: the comment stays unpadded) — no reader of the library issues that sequence any more.
`Pre.build` is the layout as it was before the repair (regression documentation).

Transcribed from include/osmium/builder/osm_object_builder.hpp and builder.hpp (add_size to all
parents, add_padding(self)), cross-checked three ways: `Buf.run (script o)` (Model/Buf.lean, the C04
model) gives the same bytes (theorem `script_build_examples`, runtime check `lay` of model_c03), and
the real builders give the same bytes (hostile tier, op `lay`).

`fill` is the content of bytes the builders reserve but never write (struct padding of
RelationMember / ChangesetComment): uninitialised memory.

Core-only (no Mathlib).
-/
import Osmium.Model.Layout
import Osmium.Model.Buf

namespace Osmium.HostileLayout

open Osmium.Layout

/-- one discussion comment: `add_comment(date, uid, user)` and, if `text = some t`,
    `add_comment_text(t)` -/
structure CommentS where
  date : Nat
  uid : Nat
  user : Bytes
  text : Option Bytes
  deriving Repr, DecidableEq

structure MemberS where
  ty : Nat
  ref : Int
  role : Bytes
  deriving Repr, DecidableEq

structure NodeRefS where
  ref : Int
  x : Int
  y : Int
  deriving Repr, DecidableEq

/-- one sub-builder block -/
inductive SubS where
  | tags (kvs : List (Bytes × Bytes))
  | nodes (ty : Nat) (ns : List NodeRefS)      -- ty = way_node_list / outer_ring / inner_ring
  | members (ms : List MemberS)
  | discussion (cs : List CommentS)
  deriving Repr, DecidableEq

/-- object kinds -/
inductive OKind where
  | node | way | relation | area | changeset
  deriving Repr, DecidableEq

def OKind.ty : OKind → Nat
  | .node => tyNode | .way => tyWay | .relation => tyRelation | .area => tyArea | .changeset => tyChangeset

/-- sizeof(T) -/
def OKind.sizeT : OKind → Nat
  | .node => sizeofNode | .changeset => sizeofChangeset | _ => sizeofObject

/-- One object: kind, the `sizeT - 8` bytes of the fixed part as the `set_xxx` calls left them
    (arbitrary: they never influence traversal — except the changeset's user_size at 48..50,
    which `build` overwrites), user name, sub-builder blocks. -/
structure ObjS where
  kind : OKind
  fixed : Bytes
  user : Bytes
  subs : List SubS
  deriving Repr, DecidableEq

def zeros (n : Nat) : Bytes := List.replicate n 0

/-- number of zero bytes that pad `n` to a multiple of 8 -/
def padTo (n : Nat) : Nat := padded n - n

def header (size ty : Nat) : Bytes := leBytes size 4 ++ leBytes ty 2 ++ leBytes 0 2

/-! ### sub-items -/

def tagBytes (kv : Bytes × Bytes) : Bytes := kv.1 ++ [0] ++ kv.2 ++ [0]

def tagsBody (kvs : List (Bytes × Bytes)) : Bytes := (kvs.map tagBytes).flatten

def nodeRefBytes (n : NodeRefS) : Bytes := leBytesInt n.ref 8 ++ leBytesInt n.x 4 ++ leBytesInt n.y 4

def nodesBody (ns : List NodeRefS) : Bytes := (ns.map nodeRefBytes).flatten

/-- `add_member`: RelationMember{ref, type, full = false}, role_size = len + 1 (uint16), two bytes
    of struct padding never written, role, NUL, `add_padding(true)` -/
def memberBytes (fill : UInt8) (m : MemberS) : Bytes :=
  leBytesInt m.ref 8 ++ leBytes m.ty 2 ++ leBytes 0 2 ++ leBytes (m.role.length + 1) 2 ++ [fill, fill] ++
  m.role ++ [0] ++ zeros (padTo (16 + m.role.length + 1))

def membersBody (fill : UInt8) (ms : List MemberS) : Bytes := (ms.map (memberBytes fill)).flatten

/-- `add_comment` (+ `add_comment_text`).  Without the text call: text_size stays 0, nothing is
    appended after the user name and NO padding is added. -/
def commentBytes (fill : UInt8) (c : CommentS) : Bytes :=
  leBytes c.date 4 ++ leBytes c.uid 4 ++
  (match c.text with
   | some t => leBytes (t.length + 1) 4
   | none => leBytes 0 4) ++
  leBytes (c.user.length + 1) 2 ++ [fill, fill] ++ c.user ++ [0] ++
  (match c.text with
   | some t => t ++ [0] ++ zeros (padTo (16 + (c.user.length + 1) + (t.length + 1)))
   | none => [])

/-- the comments one after the other, each exactly as its calls left it -/
def commentsBodyRaw (fill : UInt8) (cs : List CommentS) : Bytes := (cs.map (commentBytes fill)).flatten

/-- `~ChangesetDiscussionBuilder` (repair 5690f83): `if (m_comment_offset != no_comment)
    add_text(current, "", 0)` — a pending LAST comment gets the empty text (text_size 1, NUL,
    padding) -/
def finishLast : List CommentS → List CommentS
  | [] => []
  | [c] => [match c.text with | some _ => c | none => { c with text := some [] }]
  | c :: d :: r => c :: finishLast (d :: r)

/-- the body of a discussion after the builder's destructor -/
def commentsBody (fill : UInt8) (cs : List CommentS) : Bytes := commentsBodyRaw fill (finishLast cs)

def SubS.ty : SubS → Nat
  | .tags _ => tyTagList
  | .nodes t _ => t
  | .members _ => tyMemberList
  | .discussion _ => tyDiscussion

def SubS.body (fill : UInt8) : SubS → Bytes
  | .tags kvs => tagsBody kvs
  | .nodes _ ns => nodesBody ns
  | .members ms => membersBody fill ms
  | .discussion cs => commentsBody fill cs

/-- a sub-item as it sits in the buffer after its builder's destructor: size field = unpadded
    size, followed by the padding that `add_padding()` appended for the parents -/
def subBytes (fill : UInt8) (s : SubS) : Bytes :=
  header (8 + (s.body fill).length) s.ty ++ s.body fill ++ zeros (padTo (8 + (s.body fill).length))

def subsBytes (fill : UInt8) (ss : List SubS) : Bytes := (ss.map (subBytes fill)).flatten

/-! ### the object -/

/-- offset of the first sub-item = padded(sizeof(T) + sizeof(string_size_type) + user_size) for
    OSMObjects, padded(sizeof(Changeset) + user_size) for changesets, where user_size = len + 1 -/
def OKind.headLen (k : OKind) (userLen : Nat) : Nat :=
  match k with
  | .changeset => padded (sizeofChangeset + userLen + 1)
  | k => padded (k.sizeT + 2 + userLen + 1)

/-- fixed part + user name area (everything before the first sub-item, without the item header) -/
def headBody (o : ObjS) : Bytes :=
  match o.kind with
  | .changeset =>
    -- user_size lives at offset 48 of the Changeset struct
    (o.fixed.take 40 ++ leBytes (o.user.length + 1) 2 ++ (o.fixed.drop 42).take 6) ++ o.user ++
      zeros (padded (sizeofChangeset + o.user.length + 1) - (sizeofChangeset + o.user.length))
  | k =>
    o.fixed.take (k.sizeT - 8) ++ leBytes (o.user.length + 1) 2 ++ o.user ++
      zeros (padded (k.sizeT + 2 + o.user.length + 1) - (k.sizeT + 2 + o.user.length))

/-- total byte size of the object item (what ends up in its size field, modulo 2^32) -/
def objSize (fill : UInt8) (o : ObjS) : Nat := o.kind.headLen o.user.length + (subsBytes fill o.subs).length

/-- the committed bytes of one object -/
def build (fill : UInt8) (o : ObjS) : Bytes :=
  header (objSize fill o) o.kind.ty ++ headBody o ++ subsBytes fill o.subs

/-! ### Guards -/

def noNul (s : Bytes) : Bool := !s.contains 0

/-- `osmium::max_osm_string_length` -/
def maxStr : Nat := 256 * 4

/-- what the builders CHECK (they throw std::length_error otherwise): tag key / value, role and
    comment user name ≤ max_osm_string_length; comment text < 2^32 - 1 -/
def SubS.lengthsOk : SubS → Bool
  | .tags kvs => kvs.all fun kv => kv.1.length ≤ maxStr && kv.2.length ≤ maxStr
  | .nodes _ _ => true
  | .members ms => ms.all fun m => m.role.length ≤ maxStr
  | .discussion cs => (finishLast cs).all fun c => c.user.length ≤ maxStr &&
      (match c.text with | some t => t.length + 1 < 2 ^ 32 | none => true)

/-- the guards the proof forces on top of the builders' checks:
    * tag keys and values contain no NUL (Tag::next() is two `after_null`s),
    * every `add_comment` but the last of a block is followed by `add_comment_text` (the last one
      is finished by the destructor: `finishLast`),
    and for an exact read-back also: roles and comment user names / texts contain no NUL
    (not needed for in-bounds traversal: those strings are delimited by their size fields). -/
def SubS.extraOk : SubS → Bool
  | .tags kvs => kvs.all fun kv => noNul kv.1 && noNul kv.2
  | .nodes t _ => t == tyWayNodeList || t == tyOuterRing || t == tyInnerRing
  | .members ms => ms.all fun m => noNul m.role
  | .discussion cs => (finishLast cs).all fun c => noNul c.user &&
      (match c.text with | some t => noNul t | none => false)

structure Guards (fill : UInt8) (o : ObjS) : Prop where
  /-- the fixed part has its size (the builders' constructors guarantee it) -/
  fixedLen : o.fixed.length = o.kind.sizeT - 8
  /-- builders' own checks -/
  lengths : ∀ s ∈ o.subs, s.lengthsOk = true
  /-- the user_size field is 16 bits (`set_user` throws std::length_error beyond
      max_osm_string_length = 1024 since repair bc6b907; before, it only asserted: F13c) -/
  userLen : o.user.length + 1 < 2 ^ 16
  userNoNul : noNul o.user = true
  /-- EXTRA: not checked by the builders, established by every reader (F13a: PBF string table,
      repair da64936; F13b: XML discussion, repair 5690f83) -/
  extra : ∀ s ∈ o.subs, s.extraOk = true
  /-- EXTRA: the item size field is 32 bits -/
  total : objSize fill o < 2 ^ 32

instance (fill : UInt8) (o : ObjS) : Decidable (Guards fill o) :=
  if h1 : o.fixed.length = o.kind.sizeT - 8 then
    if h2 : ∀ s ∈ o.subs, s.lengthsOk = true then
      if h3 : o.user.length + 1 < 2 ^ 16 then
        if h4 : noNul o.user = true then
          if h5 : ∀ s ∈ o.subs, s.extraOk = true then
            if h6 : objSize fill o < 2 ^ 32 then isTrue ⟨h1, h2, h3, h4, h5, h6⟩
            else isFalse fun g => h6 g.total
          else isFalse fun g => h5 g.extra
        else isFalse fun g => h4 g.userNoNul
      else isFalse fun g => h3 g.userLen
    else isFalse fun g => h2 g.lengths
  else isFalse fun g => h1 g.fixedLen

/-! ### the content a complete traversal must deliver -/

def tagStrs : List (Bytes × Bytes) → List Bytes
  | [] => []
  | kv :: r => kv.1 :: kv.2 :: tagStrs r

def nodeInts : List NodeRefS → List Int
  | [] => []
  | n :: r => toSigned (leAt (leBytesInt n.ref 8) 0 8) 64 :: toSigned (leAt (leBytesInt n.x 4) 0 4) 32 ::
              toSigned (leAt (leBytesInt n.y 4) 0 4) 32 :: nodeInts r

def memberTree (m : MemberS) : Tree :=
  .mk tyMember false [((m.ty % 65536 : Nat) : Int), toSigned (leAt (leBytesInt m.ref 8) 0 8) 64] [m.role] []

def commentTree (c : CommentS) : Tree :=
  .mk tyComment false [((c.date % 2 ^ 32 : Nat) : Int), ((c.uid % 2 ^ 32 : Nat) : Int)] [c.user, c.text.getD []] []

def subTree : SubS → Tree
  | .tags kvs => .mk tyTagList false [] (tagStrs kvs) []
  | .nodes t ns => .mk t false (nodeInts ns) [] []
  | .members ms => .mk tyMemberList false [] [] (ms.map memberTree)
  | .discussion cs => .mk tyDiscussion false [] [] (cs.map commentTree)

/-! ### the layout before repair 5690f83 (regression documentation only) -/

namespace Pre

def body (fill : UInt8) : SubS → Bytes
  | .discussion cs => commentsBodyRaw fill cs       -- a pending last comment stayed without text and padding
  | s => s.body fill

def subBytes (fill : UInt8) (s : SubS) : Bytes :=
  header (8 + (body fill s).length) s.ty ++ body fill s ++ zeros (padTo (8 + (body fill s).length))

def subsBytes (fill : UInt8) (ss : List SubS) : Bytes := (ss.map (subBytes fill)).flatten

def build (fill : UInt8) (o : ObjS) : Bytes :=
  header (o.kind.headLen o.user.length + (subsBytes fill o.subs).length) o.kind.ty ++ headBody o ++ subsBytes fill o.subs

end Pre

/-! ### the same call sequence as a script of the C04 buffer model -/

def OKind.bufKind : OKind → Buf.Kind
  | .node => .node | .way => .way | .relation => .relation | .area => .area | .changeset => .changeset

def subScript : SubS → List Buf.Op
  | .tags kvs => [.open .taglist] ++ kvs.map (fun kv => Buf.Op.tag kv.1 kv.2) ++ [.close]
  | .nodes t ns =>
    [.open (if t == tyOuterRing then .outer else if t == tyInnerRing then .inner else .wnl)] ++
      ns.map (fun n => Buf.Op.nodeRef n.ref n.x n.y) ++ [.close]
  | .members ms => [.open .rml] ++ ms.map (fun m => Buf.Op.member m.ty m.ref m.role none) ++ [.close]
  | .discussion cs =>
    [.open .disc] ++
      (cs.map fun c => [Buf.Op.comment c.date c.uid c.user] ++
        (match c.text with | some t => [Buf.Op.commentText t] | none => [])).flatten ++ [.close]

/-- constructor, set_user, the sub-builder blocks, destructor, commit.  (The `set_xxx` calls that
    produce `fixed` are not part of the script: `scriptFixed` is what the constructor leaves.) -/
def script (o : ObjS) : List Buf.Op :=
  [.open o.kind.bufKind, .user o.user] ++ (o.subs.map subScript).flatten ++ [.close, .commit]

/-- the fixed part right after the constructor (`T{}`) -/
def ctorFixed (k : OKind) : Bytes := (Buf.objectInit k.bufKind).drop 8

/-- run the script in the C04 model (capacity large enough / growing: irrelevant by
    `C04.capacity_independent`) and return the committed bytes -/
def runScript (fill : UInt8) (o : ObjS) : Bytes × Option Buf.Err :=
  let s := Buf.run (Buf.St.init 64 .yes 64 .yes fill true) (script o)
  (s.b0.done, s.dead)

end Osmium.HostileLayout
