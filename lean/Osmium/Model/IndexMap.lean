/-
Model of libosmium's id → value indexes and of the NodeLocationsForWays handler (property C12).

Transcribed from
  include/osmium/index/map.hpp                       Map interface (set/get/get_noexcept/sort/dump_*)
  include/osmium/index/index.hpp                     empty_value, not_found
  include/osmium/index/detail/vector_map.hpp         VectorBasedDenseMap, VectorBasedSparseMap
  include/osmium/index/detail/mmap_vector_base.hpp   mmap_vector_base (m_size, capacity, fill, growth)
  include/osmium/index/detail/mmap_vector_file.hpp   mmap_vector_file(fd)  (= "load")
  include/osmium/index/map/flex_mem.hpp              FlexMem
  include/osmium/index/map/sparse_mem_map.hpp        SparseMemMap (std::map)
  include/osmium/handler/node_locations_for_ways.hpp NodeLocationsForWays

Core-only (no Mathlib) so that the driver links as a `lean_exe`.  Arrays, not lists, carry the
vectors so that the compiled model can follow histories with ids in the millions.

Replaced by their specification (DESIGN.md §2): `std::sort` (a sorted permutation — unique for
distinct ids, the property's domain), `std::map` (`Std.TreeMap`), `std::vector`.
`std::lower_bound` is NOT replaced: `lbSearch` is libstdc++'s halving loop, so the model also
follows the code on unsorted vectors (lookups before the documented sort step).
OS behaviour (`mmap`, `mremap`, `ftruncate`) is the parameter `Grow` with the contract `GrowOk`.
`NodeLocationsForWays` is modelled completely: its five members, `node` / `way` / `get_node_location` /
`ignore_errors` / `clear`, and `way()` as the loop over the way's node refs it is — a node ref is the pair
(ref id, location it CARRIES when the handler sees it), so "the result does not depend on what the way
carried" is a theorem about the model, not a modelling decision.  `NLFW.run` follows whole programs: way
objects live on in their buffers and can be passed through the handler (or a new handler) again.
Ids are `Nat` (`TId` is unsigned 64 bit; nothing in these classes does arithmetic that could wrap
for ids < 2^63, the range reachable from `object_id_type`).
-/
import Std.Data.TreeMap

namespace Osmium.IndexMap

/-- an insertion history, in insertion order -/
abbrev Hist (V : Type) := List (Nat × V)

/-- The mathematical map of a history: the value inserted with that id (first match), `none` for
    ids never inserted.  For distinct ids the order of the history is irrelevant
    (`specOf_iff_mem`). -/
def specOf {V : Type} : Hist V → Nat → Option V
  | [], _ => none
  | (k, v) :: t, id => if k = id then some v else specOf t id

/-- The interface `osmium::index::map::Map<TId, TValue>` as far as C12 looks at it.
    `get` = `get()` with `none` for the `not_found` exception; `dumpAsList` / `dumpAsArray`
    return the records written to the fd (`none` = "can't dump" `std::runtime_error`, or the
    dump loop not terminating within the fuel). -/
structure Impl (V : Type) where
  M : Type
  init : M
  set : M → Nat → V → M
  sort : M → M
  get : M → Nat → Option V
  getNoexcept : M → Nat → V
  dumpAsList : M → Option (Array (Nat × V))
  dumpAsArray : M → Option (Array V)
  /-- `clear()` ("After this you can not use the storage container any more": outside the laws) -/
  clear : M → M

/-- `n` insertions in order into a fresh index -/
def Impl.build {V : Type} (I : Impl V) (h : Hist V) : I.M :=
  h.foldl (fun m p => I.set m p.1 p.2) I.init

section
variable {V : Type} [DecidableEq V]

/-! ### VectorBasedDenseMap over std::vector (dense_mem_array) -/

/-- `VectorBasedDenseMap::set`: `if (size() <= id) m_vector.resize(id+1); m_vector[id] = value;`
    `std::vector::resize` value-initialises the new elements: `vinit` (= `TValue{}`), which is
    the empty value for `Location` but NOT for `size_t` (see `Generated.C12Constants`). -/
def Dense.set (vinit : V) (a : Array V) (id : Nat) (v : V) : Array V :=
  let a := if a.size ≤ id then a ++ Array.replicate (id + 1 - a.size) vinit else a
  a.setIfInBounds id v

/-- `VectorBasedDenseMap::get`: bounds check, then empty-value check -/
def Dense.get (e : V) (a : Array V) (id : Nat) : Option V :=
  if id ≥ a.size then none
  else
    let v := a.getD id e
    if v = e then none else some v

/-- `VectorBasedDenseMap::get_noexcept` -/
def Dense.getNoexcept (e : V) (a : Array V) (id : Nat) : V :=
  if id ≥ a.size then e else a.getD id e

def denseImpl (vinit e : V) : Impl V where
  M := Array V
  init := #[]
  set := Dense.set vinit
  sort := id
  get := Dense.get e
  getNoexcept := Dense.getNoexcept e
  dumpAsList := fun _ => none
  dumpAsArray := fun a => some a   -- reliable_write(fd, m_vector.data(), byte_size())
  clear := fun _ => #[]            -- m_vector.clear(); m_vector.shrink_to_fit();

end

/-! ### mmap_vector_base -/

/-- `MemoryMapping` of `capacity()` elements plus `m_size` -/
structure MmapVec (T : Type) where
  data : Array T
  size : Nat

/-- What the operating system does on `mmap` of a (grown) file / `mremap` of an anonymous
    mapping: `g old newCapacity` is the content of the new mapping. -/
abbrev Grow (T : Type) := Array T → Nat → Array T

/-- Contract for the OS: the new mapping has the requested size and the old content is still
    there.  Nothing is assumed about the new area (the code `std::fill`s it). -/
def GrowOk {T : Type} (g : Grow T) : Prop :=
  ∀ (a : Array T) (n : Nat), a.size ≤ n →
    (g a n).size = n ∧ ∀ i, i < a.size → (g a n)[i]? = a[i]?

/-- `std::fill(data() + lo, data() + lo + n, x)` -/
def fill {T : Type} (x : T) : Nat → Nat → Array T → Array T
  | 0, _, a => a
  | n + 1, lo, a => fill x n (lo + 1) (a.setIfInBounds lo x)

section
variable {T : Type} [DecidableEq T]

/-- `shrink_to_fit`: `while (m_size > 0 && data()[m_size-1] == empty) --m_size;` -/
def shrink (e : T) (data : Array T) : Nat → Nat
  | 0 => 0
  | n + 1 => if data.getD n e = e then shrink e data n else n + 1

/-- `mmap_vector_base(capacity = size_increment)` (anonymous) and
    `mmap_vector_base(fd, capacity, size = 0)` on a fresh temporary file -/
def MmapVec.init (g : Grow T) (inc : Nat) (e : T) : MmapVec T :=
  ⟨fill e inc 0 (g #[] inc), 0⟩

/-- `mmap_vector_file(fd)` on an existing file with the records `file`:
    capacity = max(size_increment, filesize), size = filesize, fill the rest, shrink_to_fit -/
def MmapVec.load (g : Grow T) (inc : Nat) (e : T) (file : Array T) : MmapVec T :=
  let cap := max inc file.size
  let d := fill e (cap - file.size) file.size (g file cap)
  ⟨d, shrink e d file.size⟩

/-- `reserve(new_capacity)` -/
def MmapVec.reserve (g : Grow T) (e : T) (mv : MmapVec T) (newCap : Nat) : MmapVec T :=
  if newCap > mv.data.size then
    let old := mv.data.size
    { mv with data := fill e (newCap - old) old (g mv.data newCap) }
  else mv

/-- `resize(new_size)` -/
def MmapVec.resize (g : Grow T) (inc : Nat) (e : T) (mv : MmapVec T) (newSize : Nat) : MmapVec T :=
  let mv := if newSize > mv.data.size then mv.reserve g e (newSize + inc) else mv
  { mv with size := newSize }

/-- `push_back(value)` -/
def MmapVec.pushBack (g : Grow T) (inc : Nat) (e : T) (mv : MmapVec T) (x : T) : MmapVec T :=
  let mv := mv.resize g inc e (mv.size + 1)
  { mv with data := mv.data.setIfInBounds (mv.size - 1) x }

/-- the elements `[begin(), end())` -/
def MmapVec.view (mv : MmapVec T) : Array T := mv.data.extract 0 mv.size

end

section
variable {V : Type} [DecidableEq V]

/-! ### VectorBasedDenseMap over mmap_vector (dense_mmap_array, dense_file_array) -/

def MDense.set (g : Grow V) (inc : Nat) (e : V) (mv : MmapVec V) (id : Nat) (v : V) : MmapVec V :=
  let mv := if mv.size ≤ id then mv.resize g inc e (id + 1) else mv
  { mv with data := mv.data.setIfInBounds id v }

def MDense.get (e : V) (mv : MmapVec V) (id : Nat) : Option V :=
  if id ≥ mv.size then none
  else
    let v := mv.data.getD id e
    if v = e then none else some v

def MDense.getNoexcept (e : V) (mv : MmapVec V) (id : Nat) : V :=
  if id ≥ mv.size then e else mv.data.getD id e

def mdenseImpl (g : Grow V) (inc : Nat) (e : V) : Impl V where
  M := MmapVec V
  init := MmapVec.init g inc e
  set := MDense.set g inc e
  sort := id
  get := MDense.get e
  getNoexcept := MDense.getNoexcept e
  dumpAsList := fun _ => none
  dumpAsArray := fun mv => some mv.view
  clear := fun mv => { mv with size := 0 }   -- mmap_vector_base::clear(): `m_size = 0;` (the slots keep their content)

/-! ### std::lower_bound (libstdc++ `__lower_bound`) -/

/-- `while (len > 0) { half = len >> 1; middle = first + half;
      if (comp(middle, val)) { first = middle + 1; len = len - half - 1; } else len = half; }`
    with `p i` = "element i is less than the value looked for". -/
def lbSearch (p : Nat → Bool) (first len : Nat) : Nat :=
  if h : len = 0 then first
  else
    let half := len / 2
    let middle := first + half
    if p middle then lbSearch p (middle + 1) (len - half - 1)
    else lbSearch p first half
termination_by len
decreasing_by all_goals omega

/-! ### VectorBasedSparseMap (sparse_mem_array; sparse_mmap_array / sparse_file_array via view) -/

/-- `a.first < b.first` on element `i` against the id looked for -/
def Sparse.keyLt (a : Array (Nat × V)) (id : Nat) (i : Nat) : Bool :=
  match a[i]? with
  | some p => decide (p.1 < id)
  | none => false

/-- `find_id` over the first `n` elements followed by the test
    `result == end() || result->first != id` -/
def Sparse.getN (a : Array (Nat × V)) (n : Nat) (id : Nat) : Option V :=
  let i := lbSearch (Sparse.keyLt a id) 0 n
  if i = n then none
  else match a[i]? with
    | some p => if p.1 = id then some p.2 else none
    | none => none

def Sparse.get (a : Array (Nat × V)) (id : Nat) : Option V := Sparse.getN a a.size id

/-- `get_noexcept` (note: no empty-value check in the sparse maps) -/
def Sparse.getNoexceptN (e : V) (a : Array (Nat × V)) (n : Nat) (id : Nat) : V :=
  (Sparse.getN a n id).getD e

/-- `std::sort(m_vector.begin(), m_vector.end())` by its specification.  The real comparison
    is `std::pair::operator<` (id, then value); for distinct ids only the id matters. -/
def Sparse.sort (a : Array (Nat × V)) : Array (Nat × V) :=
  (a.toList.mergeSort (fun p q => decide (p.1 ≤ q.1))).toArray

/-- inner loop of `VectorBasedSparseMap::dump_as_array`:
    `for (; offset < buffer_size && it != end(); ++offset) if (buffer_start_id + offset == it->first) { buf[offset] = it->second; ++it; }`
    with `pos = buffer_start_id + offset`, `n = buffer_size - offset`; the written prefix of the
    buffer is appended to `acc`. -/
def dumpInner (e : V) : Nat → Nat → List (Nat × V) → Array V → Array V × List (Nat × V)
  | 0, _, es, acc => (acc, es)
  | _ + 1, _, [], acc => (acc, [])
  | n + 1, pos, (k, v) :: es, acc =>
    if pos = k then dumpInner e n (pos + 1) es (acc.push v)
    else dumpInner e n (pos + 1) ((k, v) :: es) (acc.push e)

/-- outer loop `for (auto it = cbegin(); it != cend();) { … buffer_start_id += buffer_size; }`.
    On an unsorted vector the real loop never terminates: `none` when the fuel runs out. -/
def dumpOuter (bs : Nat) (e : V) : Nat → Nat → List (Nat × V) → Array V → Option (Array V)
  | _, _, [], acc => some acc
  | 0, _, _ :: _, _ => none
  | f + 1, start, es@(_ :: _), acc =>
    let r := dumpInner e bs start es acc
    dumpOuter bs e f (start + bs) r.2 r.1

/-- fuel that suffices for every sorted vector: one window per `bs` ids up to the largest id -/
def dumpFuel (bs : Nat) (es : List (Nat × V)) : Nat :=
  es.foldl (fun m p => max m p.1) 0 / bs + 1

def Sparse.dumpAsArray (bs : Nat) (e : V) (a : Array (Nat × V)) : Option (Array V) :=
  if bs = 0 then none else dumpOuter bs e (dumpFuel bs a.toList) 0 a.toList #[]

def sparseImpl (bs : Nat) (e : V) : Impl V where
  M := Array (Nat × V)
  init := #[]
  set := fun a id v => a.push (id, v)
  sort := Sparse.sort
  get := Sparse.get
  getNoexcept := fun a id => Sparse.getNoexceptN e a a.size id
  dumpAsList := fun a => some a
  dumpAsArray := Sparse.dumpAsArray bs e
  clear := fun _ => #[]

/-- the same class over `mmap_vector_anon` / `mmap_vector_file`; `pe` is
    `empty_value<std::pair<TId,TValue>>()` = `pair{}` -/
def MSparse.sort (mv : MmapVec (Nat × V)) : MmapVec (Nat × V) :=
  { mv with data := Sparse.sort mv.view ++ mv.data.extract mv.size mv.data.size }

def msparseImpl (g : Grow (Nat × V)) (inc : Nat) (bs : Nat) (e : V) (pe : Nat × V) : Impl V where
  M := MmapVec (Nat × V)
  init := MmapVec.init g inc pe
  set := fun mv id v => mv.pushBack g inc pe (id, v)
  sort := MSparse.sort
  get := fun mv id => Sparse.getN mv.data mv.size id
  getNoexcept := fun mv id => Sparse.getNoexceptN e mv.data mv.size id
  dumpAsList := fun mv => some mv.view
  dumpAsArray := fun mv => Sparse.dumpAsArray bs e mv.view
  clear := fun mv => { mv with size := 0 }

/-! ### SparseMemMap (std::map) -/

def stdMapImpl (e : V) : Impl V where
  M := Std.TreeMap Nat V compare
  init := {}
  set := fun t id v => t.insert id v
  sort := id
  get := fun t id => t[id]?
  getNoexcept := fun t id => t[id]?.getD e
  dumpAsList := fun t => some t.toList.toArray
  dumpAsArray := fun _ => none
  clear := fun _ => {}

/-! ### FlexMem -/

/-- `bits`, `min_dense_entries`, `density_factor` -/
structure FlexParams where
  bits : Nat
  minDense : Nat
  factor : Nat

structure Flex (V : Type) where
  sparse : Array (Nat × V) := #[]
  blocks : Array (Array V) := #[]
  maxId : Nat := 0
  dense : Bool := false

/-- `assure_block(num)` -/
def Flex.assureBlock (P : FlexParams) (e : V) (bl : Array (Array V)) (num : Nat) : Array (Array V) :=
  let bl := if num ≥ bl.size then bl ++ Array.replicate (num + 1 - bl.size) #[] else bl
  if (bl.getD num #[]).isEmpty then bl.setIfInBounds num (Array.replicate (2 ^ P.bits) e) else bl

/-- `set_dense(id, value)`; `block(id) = id >> bits`, `offset(id) = id & (block_size - 1)` -/
def Flex.setDense (P : FlexParams) (e : V) (bl : Array (Array V)) (id : Nat) (v : V) : Array (Array V) :=
  let bl := Flex.assureBlock P e bl (id / 2 ^ P.bits)
  bl.modify (id / 2 ^ P.bits) (fun b => b.setIfInBounds (id % 2 ^ P.bits) v)

/-- `get_dense(id)` -/
def Flex.getDense (P : FlexParams) (e : V) (bl : Array (Array V)) (id : Nat) : V :=
  if bl.size ≤ id / 2 ^ P.bits ∨ (bl.getD (id / 2 ^ P.bits) #[]).isEmpty then e
  else (bl.getD (id / 2 ^ P.bits) #[]).getD (id % 2 ^ P.bits) e

/-- `switch_to_dense()` -/
def Flex.switchToDense (P : FlexParams) (e : V) (s : Flex V) : Flex V :=
  if s.dense then s
  else
    { sparse := #[]
      blocks := s.sparse.foldl (fun bl p => Flex.setDense P e bl p.1 p.2) s.blocks
      maxId := 0
      dense := true }

/-- `set_sparse(id, value)` with the density heuristic -/
def Flex.setSparse (P : FlexParams) (e : V) (s : Flex V) (id : Nat) (v : V) : Flex V :=
  let s := { s with sparse := s.sparse.push (id, v) }
  if id > s.maxId then
    let s := { s with maxId := id }
    if s.sparse.size ≥ P.minDense then
      if s.maxId < s.sparse.size * P.factor then Flex.switchToDense P e s else s
    else s
  else s

def Flex.set (P : FlexParams) (e : V) (s : Flex V) (id : Nat) (v : V) : Flex V :=
  if s.dense then { s with blocks := Flex.setDense P e s.blocks id v } else Flex.setSparse P e s id v

/-- `get_noexcept`: `get_dense` / `get_sparse` (lower_bound with `entry::operator<` on ids) -/
def Flex.getNoexcept (P : FlexParams) (e : V) (s : Flex V) (id : Nat) : V :=
  if s.dense then Flex.getDense P e s.blocks id
  else Sparse.getNoexceptN e s.sparse s.sparse.size id

/-- `get`: `get_noexcept` + empty-value check -/
def Flex.get (P : FlexParams) (e : V) (s : Flex V) (id : Nat) : Option V :=
  let v := Flex.getNoexcept P e s id
  if v = e then none else some v

def Flex.sort (s : Flex V) : Flex V := { s with sparse := Sparse.sort s.sparse }

def flexImpl (P : FlexParams) (e : V) : Impl V where
  M := Flex V
  init := {}
  set := Flex.set P e
  sort := Flex.sort
  get := Flex.get P e
  getNoexcept := Flex.getNoexcept P e
  dumpAsList := fun _ => none
  dumpAsArray := fun _ => none
  clear := fun _ => {}             -- both vectors cleared, m_max_id = 0, m_dense = false

/-! ### Dummy (the default storage for negative ids) -/

def dummyImpl (e : V) : Impl V where
  M := Unit
  init := ()
  set := fun _ _ _ => ()
  sort := id
  get := fun _ _ => none
  getNoexcept := fun _ _ => e
  dumpAsList := fun _ => none
  dumpAsArray := fun _ => none
  clear := id

end

/-! ### NodeLocationsForWays -/

/-- the members of `NodeLocationsForWays` (include/osmium/handler/node_locations_for_ways.hpp):
    `m_storage_pos`, `m_storage_neg` (references to the two indexes — the model owns their states),
    `m_last_id = 0`, `m_ignore_errors = false`, `m_must_sort = false` -/
structure NLFW {V : Type} (Ip In : Impl V) where
  pos : Ip.M
  neg : In.M
  lastId : Nat := 0
  ignoreErrors : Bool := false
  mustSort : Bool := false

/-- `std::numeric_limits<unsigned_object_id_type>::max()` -/
def idMax : Nat := 2 ^ 64 - 1

/-- a node reference of a way (`osmium::NodeRef`): `ref()` and the `location()` it carries.  A way
    straight from a reader carries undefined locations; a way that went through a handler before, or
    that comes from input with locations on ways, carries defined ones. -/
abbrev NRef (V : Type) := Int × V

section
variable {V : Type} {Ip In : Impl V}

/-- the constructor (`ignore_errors()` called right after it when the flag is set) -/
def NLFW.init (Ip In : Impl V) (ignoreErrors : Bool) : NLFW Ip In :=
  { pos := Ip.init, neg := In.init, ignoreErrors := ignoreErrors }

/-- `ignore_errors()`: `m_ignore_errors = true;` -/
def NLFW.setIgnoreErrors (s : NLFW Ip In) : NLFW Ip In := { s with ignoreErrors := true }

/-- `node(const Node&)`; `positive_id()` = |id| -/
def NLFW.node (s : NLFW Ip In) (id : Int) (loc : V) : NLFW Ip In :=
  let pid := id.natAbs
  let s := if pid < s.lastId then { s with mustSort := true } else s
  let s := { s with lastId := pid }
  if id ≥ 0 then { s with pos := Ip.set s.pos id.toNat loc }
  else { s with neg := In.set s.neg (-id).toNat loc }

/-- `get_node_location(id)` -/
def NLFW.getNodeLocation (s : NLFW Ip In) (id : Int) : V :=
  if id ≥ 0 then Ip.getNoexcept s.pos id.toNat else In.getNoexcept s.neg (-id).toNat

/-- the sort step at the start of `way()` -/
def NLFW.prepare (s : NLFW Ip In) : NLFW Ip In :=
  if s.mustSort then
    { s with pos := Ip.sort s.pos, neg := In.sort s.neg, mustSort := false, lastId := idMax }
  else s

/-- the loop of `way()`, one iteration per node ref, in order:
    `node_ref.set_location(get_node_location(node_ref.ref())); if (!node_ref.location()) error = true;`
    — the location the ref carried is overwritten unconditionally (it is not even read), the ref
    id is not touched.  Returns the node refs as they are afterwards and the `error` flag. -/
def NLFW.wayLoop (ok : V → Bool) (s : NLFW Ip In) : List (NRef V) → Bool → List (NRef V) × Bool
  | [], error => ([], error)
  | (ref, _carried) :: rest, error =>
    let nodeRef : NRef V := (ref, s.getNodeLocation ref)
    let error := if !ok nodeRef.2 then true else error
    let r := NLFW.wayLoop ok s rest error
    (nodeRef :: r.1, r.2)

/-- `way(Way&)`: the node refs of the way afterwards and whether `not_found` is thrown (after the
    loop, so every ref has been written by then); `ok` = `Location::operator bool`. -/
def NLFW.way (ok : V → Bool) (s : NLFW Ip In) (refs : List (NRef V)) : NLFW Ip In × List (NRef V) × Bool :=
  let s := s.prepare
  let r := s.wayLoop ok refs false
  (s, r.1, !s.ignoreErrors && r.2)

/-- `clear()`: `m_storage_pos.clear(); m_storage_neg.clear();` (the flags stay as they are) -/
def NLFW.clear (s : NLFW Ip In) : NLFW Ip In :=
  { s with pos := Ip.clear s.pos, neg := In.clear s.neg }

/-- what a program does with a handler and way objects that live on in their buffers -/
inductive Ev (V : Type) where
  /-- `handler.node(n)` -/
  | node (id : Int) (loc : V)
  /-- a new way object whose node refs carry the given locations is passed to `handler.way()` -/
  | way (refs : List (NRef V))
  /-- the k-th way object created so far (as the handler left it) is passed to `handler.way()` again -/
  | again (k : Nat)
  /-- `handler.ignore_errors()` -/
  | ignoreErrors
  /-- `handler.clear()` -/
  | clear
  /-- the handler and its indexes are destroyed and new (empty) ones constructed; way objects survive -/
  | fresh

/-- handler + the way objects created so far -/
structure RunSt {V : Type} (Ip In : Impl V) where
  h : NLFW Ip In
  ways : List (List (NRef V)) := []

def setNth {α : Type} : List α → Nat → α → List α
  | [], _, _ => []
  | _ :: t, 0, x => x :: t
  | a :: t, k + 1, x => a :: setNth t k x

/-- feed a stream of events; one output per `way` / `again`: the way's node refs afterwards and
    whether `not_found` was thrown.  `h0` = a newly constructed handler over empty indexes. -/
def NLFW.run (ok : V → Bool) (h0 : NLFW Ip In) (c : RunSt Ip In) :
    List (Ev V) → RunSt Ip In × List (List (NRef V) × Bool)
  | [] => (c, [])
  | .node id loc :: rest => NLFW.run ok h0 { c with h := c.h.node id loc } rest
  | .way refs :: rest =>
    let r := c.h.way ok refs
    let r' := NLFW.run ok h0 { h := r.1, ways := c.ways ++ [r.2.1] } rest
    (r'.1, r.2 :: r'.2)
  | .again k :: rest =>
    let r := c.h.way ok (c.ways.getD k [])
    let r' := NLFW.run ok h0 { h := r.1, ways := setNth c.ways k r.2.1 } rest
    (r'.1, r.2 :: r'.2)
  | .ignoreErrors :: rest => NLFW.run ok h0 { c with h := c.h.setIgnoreErrors } rest
  | .clear :: rest => NLFW.run ok h0 { c with h := c.h.clear } rest
  | .fresh :: rest => NLFW.run ok h0 { c with h := { h0 with ignoreErrors := c.h.ignoreErrors } } rest

end

/-! ### the value type of the registered maps: osmium::Location -/

structure Loc where
  x : Int
  y : Int
  deriving DecidableEq, Repr

/-- `Location::undefined_coordinate` -/
def undefCoord : Int := 2147483647

/-- `Location{}` = `empty_value<Location>()` -/
def Loc.undef : Loc := ⟨undefCoord, undefCoord⟩

/-- `Location::operator bool` -/
def Loc.ok (l : Loc) : Bool := l.x != undefCoord && l.y != undefCoord

end Osmium.IndexMap
