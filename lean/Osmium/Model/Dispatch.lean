/-
Model of libosmium's handler dispatch and of the diff iterator (property C20).

Transcribed from
  include/osmium/visitor.hpp            apply_item_impl (its switch is NOT transcribed by hand: the
                                        table `dispatchRaw` is dumped from the compiled code on
                                        every run), wrapper_handler, apply_item, apply_flush,
                                        apply_impl, apply
  include/osmium/dynamic_handler.hpp    DynamicHandler / HandlerWrapper (what is forwarded)
  include/osmium/handler/chain.hpp      ChainHandler (what is forwarded, in which order)
  include/osmium/memory/item_iterator.hpp  ItemIterator<T> (advance_to_next_item_of_right_type, ++)
  include/osmium/io/input_iterator.hpp  InputIterator<TSource, TItem> (update_buffer, ++)
  include/osmium/diff_iterator.hpp      DiffIterator (constructor, operator++, set_diff, ==)
  include/osmium/osm/diff_object.hpp    DiffObject (first(), last() are pointer comparisons)
  include/osmium/diff_visitor.hpp       apply_diff, apply_diff_iterator_recurse

Core-only (no Mathlib) so that the driver links as a `lean_exe`.
-/
import Osmium.Generated.C20Tables

namespace Osmium.Dispatch

open Osmium.Generated.C20

/-! ### dispatch table (regenerated from the source) -/

def isMut : Constness → Bool
  | .mut => true
  | .const => false

/-- `apply_item_impl` on an item reached through a reference of static class `cls`:
    `none` = `throw osmium::unknown_type{}` -/
def dispatchOn (cls : ItemClass) (k : Constness) (t : ItemType) : Option (List (Callback × Bool)) :=
  dispatchRaw cls k t

/-- The generic overload (`TItem` = `memory::Item`): never throws. -/
def dispatch (t : ItemType) (k : Constness) : List (Callback × Bool) :=
  (dispatchRaw .item k t).getD []

/-- `T::is_compatible_to(t)` -/
def compat (c : FilterClass) (t : ItemType) : Bool := compatRaw c t

def toFilter : ItemClass → FilterClass
  | .item => .item
  | .entity => .entity
  | .object => .object

/-! ### items, handlers, events -/

/-- An item of a buffer as far as dispatch is concerned: its type and the `removed` flag
    (which no iterator and no `apply` looks at). -/
structure Item where
  ty : ItemType
  removed : Bool := false
  deriving Repr, DecidableEq, Inhabited

/-- An item together with its position in the whole input (all buffers, all types). -/
abbrev PItem := Nat × Item

/-- signature of a wrapped function object -/
structure Sig where
  param : Param
  nonConst : Bool
  deriving Repr, DecidableEq, Inhabited

/-- the logging leaves a handler can be made of -/
inductive Leaf
  | static    -- Handler subclass with const and non-const overloads of every callback
  | dyn       -- DynamicHandler::set<handler-style class with node..changeset and flush>
  | dynFn     -- DynamicHandler::set<functor with operator() for the five entity types, no flush>
  | dynUnset  -- DynamicHandler without set(): HandlerWrapperBase no-ops
  deriving Repr, DecidableEq, Inhabited

inductive Handler
  | leaf (l : Leaf)
  | lambda (s : Sig)            -- function object, wrapped by detail::make_handler
  | chain (subs : List Leaf)    -- ChainHandler<...> over references to the sub-handlers
  deriving Repr, Inhabited

/-- One observed callback: handler index (argument position), index inside a chain, callback,
    whether a non-const reference arrived, position of the item (`none` for flush). -/
structure Event where
  h : Nat
  sub : Nat
  cb : Callback
  nonConst : Bool
  pos : Option Nat
  deriving Repr, DecidableEq, Inhabited

/-- the five callbacks DynamicHandler, ChainHandler and wrapper_handler forward -/
def isEntityCb : Callback → Bool
  | .node | .way | .relation | .area | .changeset => true
  | _ => false

/-- What a leaf logs when the callback `cb` is invoked on it with a (non-)const reference. -/
def leafOn (l : Leaf) (h sub : Nat) (cb : Callback) (m : Bool) (pos : Nat) : List Event :=
  match l with
  | .static => [⟨h, sub, cb, m, some pos⟩]
  -- DynamicHandler::node(const Node&) etc.: only the five entity callbacks reach the inner
  -- handler, always as const references; everything else is Handler's inherited no-op
  | .dyn | .dynFn => if isEntityCb cb then [⟨h, sub, cb, false, some pos⟩] else []
  | .dynUnset => []

def leafFlush (l : Leaf) (h sub : Nat) : List Event :=
  match l with
  | .static | .dyn => [⟨h, sub, .flush, false, none⟩]
  -- flush_dispatch(handler, long): functor without flush(); unset handler
  | .dynFn | .dynUnset => []

/-- ChainHandler::node(Node&) → call_node<0..N>: `std::get<N>(handlers).node(object)` in tuple
    order, with the non-const reference. -/
def chainOn (subs : List Leaf) (h : Nat) (cb : Callback) (pos : Nat) : Nat → List Event
  | i => match subs with
    | [] => []
    | l :: rest => leafOn l h i cb true pos ++ chainOn rest h cb pos (i + 1)

def chainFlush (subs : List Leaf) (h : Nat) : Nat → List Event
  | i => match subs with
    | [] => []
    | l :: rest => leafFlush l h i ++ chainFlush rest h (i + 1)

/-- One callback invocation `handler.cb(item)` made by `apply_item_impl` for an item of type `t`
    of a container of const-ness `k`. -/
def handlerOn (hd : Handler) (h : Nat) (k : Constness) (t : ItemType) (cb : Callback) (m : Bool)
    (pos : Nat) : List Event :=
  match hd with
  | .leaf l => leafOn l h 0 cb m pos
  | .chain subs => if isEntityCb cb then chainOn subs h cb pos 0 else []
  -- wrapper_handler: osm_object and the sub-item callbacks are no-ops; the five entity callbacks
  -- call `operator()(x)`; overload resolution between the function object and the always
  -- matching fallback is what `wrapperRaw` records
  | .lambda s =>
    if isEntityCb cb then
      match wrapperRaw s.param s.nonConst k t with
      | some pm => [⟨h, 0, cb, pm, some pos⟩]
      | none => []
    else []

def handlerFlush (hd : Handler) (h : Nat) : List Event :=
  match hd with
  | .leaf l => leafFlush l h 0
  | .chain subs => chainFlush subs h 0
  | .lambda _ => []   -- wrapper_handler::flush() is a no-op

/-! ### apply -/

/-- `detail::apply_item_impl(item, handler)`; `none` = unknown_type thrown -/
def applyItemImpl (cls : ItemClass) (k : Constness) (it : PItem) (hd : Nat × Handler) :
    Option (List Event) :=
  match dispatchOn cls k it.2.ty with
  | none => none
  | some calls => some (calls.flatMap fun c => handlerOn hd.2 hd.1 k it.2.ty c.1 c.2 it.1)

/-- `apply_item(item, handlers...)`: the initializer-list pack expansion evaluates left to
    right.  Result: events so far, and whether an exception left the function. -/
def applyItem (cls : ItemClass) (k : Constness) (it : PItem) : List (Nat × Handler) → List Event × Bool
  | [] => ([], false)
  | hd :: rest =>
    match applyItemImpl cls k it hd with
    | none => ([], true)
    | some ev =>
      let r := applyItem cls k it rest
      (ev ++ r.1, r.2)

/-- the `for (; it != end; ++it) apply_item(*it, handlers...)` loop of `apply_impl` -/
def applyLoop (cls : ItemClass) (k : Constness) (hs : List (Nat × Handler)) : List PItem → List Event × Bool
  | [] => ([], false)
  | it :: rest =>
    let r := applyItem cls k it hs
    if r.2 then (r.1, true)
    else
      let r' := applyLoop cls k hs rest
      (r.1 ++ r'.1, r'.2)

/-- `apply_flush(handlers...)` -/
def applyFlush (hs : List (Nat × Handler)) : List Event :=
  hs.flatMap fun hd => handlerFlush hd.2 hd.1

/-- `apply_impl(it, end, handlers...)` over the items the iterator yields -/
def applyImpl (cls : ItemClass) (k : Constness) (hs : List (Nat × Handler)) (items : List PItem) :
    List Event × Bool :=
  let r := applyLoop cls k hs items
  if r.2 then (r.1, true) else (r.1 ++ applyFlush hs, false)

/-! ### ItemIterator<T>

State = the part of the buffer between `m_data` and `m_end` (so `m_data == m_end` ⇔ `[]`). -/

/-- `advance_to_next_item_of_right_type` -/
def advance (c : FilterClass) : List PItem → List PItem
  | [] => []
  | x :: rest => if compat c x.2.ty then x :: rest else advance c rest

/-- `ItemIterator(data, end)` -/
def ItemIter.mk (c : FilterClass) (data : List PItem) : List PItem := advance c data

/-- `operator++`: `m_data = next(); advance_to_next_item_of_right_type()` -/
def ItemIter.incr (c : FilterClass) (s : List PItem) : List PItem := advance c s.tail

/-- `for (it = begin; it != end; ++it) out.push_back(*it)`, fuel-bounded -/
def ItemIter.collect (c : FilterClass) : Nat → List PItem → List PItem
  | 0, _ => []
  | _ + 1, [] => []
  | fuel + 1, x :: rest => x :: ItemIter.collect c fuel (ItemIter.incr c (x :: rest))

/-- all items a `select<T>()` / `begin<T>()..end<T>()` loop visits -/
def ItemIter.run (c : FilterClass) (buf : List PItem) : List PItem :=
  ItemIter.collect c (buf.length + 1) (ItemIter.mk c buf)

/-! ### InputIterator<TSource, TItem>

Source = the buffers `read()` will still return (after the last one: an invalid buffer). -/

structure InState where
  source : List (List PItem)    -- buffers not yet read
  iter : Option (List PItem)    -- m_iter inside m_buffer; none = end iterator (m_source == nullptr)
  deriving Repr

/-- `update_buffer()`: read until a buffer has an item of the right type or input ends -/
def updateBuffer (c : FilterClass) : List (List PItem) → InState
  | [] => ⟨[], none⟩
  | b :: rest =>
    match ItemIter.mk c b with
    | [] => updateBuffer c rest           -- m_iter == select<TItem>().end(): next buffer
    | x :: xs => ⟨rest, some (x :: xs)⟩

/-- `InputIterator(source)` -/
def InIter.mk (c : FilterClass) (bufs : List (List PItem)) : InState := updateBuffer c bufs

/-- `operator++`: `++m_iter; if (m_iter == end) update_buffer()` -/
def InIter.incr (c : FilterClass) (s : InState) : InState :=
  match s.iter with
  | none => s
  | some it =>
    match ItemIter.incr c it with
    | [] => updateBuffer c s.source
    | x :: xs => ⟨s.source, some (x :: xs)⟩

def InIter.collect (c : FilterClass) : Nat → InState → List PItem
  | 0, _ => []
  | fuel + 1, s =>
    match s.iter with
    | none => []
    | some [] => []    -- unreachable: update_buffer never leaves an exhausted m_iter
    | some (x :: _) => x :: InIter.collect c fuel (InIter.incr c s)

def totalLen (bufs : List (List PItem)) : Nat := (bufs.map List.length).sum

def InIter.run (c : FilterClass) (bufs : List (List PItem)) : List PItem :=
  InIter.collect c (totalLen bufs + 1) (InIter.mk c bufs)

/-! ### entry points -/

/-- How `apply` gets its items. -/
inductive Source
  | filtered    -- Buffer::begin()/cbegin(), begin<T>()/cbegin<T>(), select<T>()
  | raw         -- a user iterator that yields every item (no type filter)
  | reader      -- InputIterator over a source of buffers
  deriving Repr, DecidableEq

def number (bufs : List (List Item)) : List (List PItem) :=
  let rec go (n : Nat) : List (List Item) → List (List PItem)
    | [] => []
    | b :: rest => (List.zipIdx b n).map (fun p => (p.2, p.1)) :: go (n + b.length) rest
  go 0 bufs

def itemsOf (src : Source) (cls : ItemClass) (bufs : List (List PItem)) : List PItem :=
  match src with
  | .filtered => ItemIter.run (toFilter cls) bufs.flatten
  | .raw => bufs.flatten
  | .reader => InIter.run (toFilter cls) bufs

def indexed {α : Type} (xs : List α) : List (Nat × α) := (List.zipIdx xs).map fun p => (p.2, p.1)

/-- `osmium::apply(<entry>, handlers...)` -/
def apply (src : Source) (cls : ItemClass) (k : Constness) (hs : List Handler) (bufs : List (List Item)) :
    List Event × Bool :=
  applyImpl cls k (indexed hs) (itemsOf src cls (number bufs))

/-! ### DiffIterator

The underlying range is `xs`; the basic iterators `m_prev, m_curr, m_next, m_end` are positions in
it.  `key` is (type, id). -/

structure Obj where
  ty : Nat        -- 1 node, 2 way, 3 relation, 4 area
  id : Int
  version : Nat
  deriving Repr, DecidableEq, Inhabited

def Obj.key (o : Obj) : Nat × Int := (o.ty, o.id)

structure DiffIter where
  mkRaw ::
  prev : Nat
  curr : Nat
  next : Nat
  «end» : Nat
  deriving Repr, DecidableEq

/-- what `*dit` exposes: positions of `prev()`, `curr()`, `next()` and the two flags -/
structure Diff where
  prev : Nat
  curr : Nat
  next : Nat
  first : Bool
  last : Bool
  deriving Repr, DecidableEq, Inhabited

/-- `DiffIterator(begin, end)`: `m_prev(begin), m_curr(begin), m_next(begin == end ? begin : ++begin)` -/
def DiffIter.mk (xs : List Obj) : DiffIter :=
  { prev := 0, curr := 0, next := if 0 == xs.length then 0 else 1, «end» := xs.length }

/-- `operator++` -/
def DiffIter.incr (s : DiffIter) : DiffIter :=
  { s with prev := s.curr, curr := s.next, next := if s.next != s.«end» then s.next + 1 else s.next }

/-- `set_diff()` + DiffObject: `none` = dereferencing a basic iterator outside the range -/
def DiffIter.deref (xs : List Obj) (s : DiffIter) : Option Diff :=
  match xs[s.prev]?, xs[s.curr]? with
  | some p, some c =>
    let useCurrForPrev := p.ty != c.ty || p.id != c.id
    let useCurrForNext :=
      s.next == s.«end» ||
        (match xs[s.next]? with
         | some n => n.ty != c.ty || n.id != c.id
         | none => true)
    let pp := if useCurrForPrev then s.curr else s.prev
    let np := if useCurrForNext then s.curr else s.next
    -- DiffObject::first() is `m_prev == m_curr`, last() is `m_curr == m_next` (pointers)
    some { prev := pp, curr := s.curr, next := np, first := pp == s.curr, last := s.curr == np }
  | _, _ => none

/-- `for (; dit != dend; ++dit) out.push_back(*dit)` with `dend = DiffIterator(end, end)`;
    `operator==` compares `m_curr` and `m_end`. -/
def DiffIter.collect (xs : List Obj) : Nat → DiffIter → List (Option Diff)
  | 0, _ => []
  | fuel + 1, s =>
    if s.curr == s.«end» then []
    else DiffIter.deref xs s :: DiffIter.collect xs fuel s.incr

def DiffIter.run (xs : List Obj) : List (Option Diff) :=
  DiffIter.collect xs (xs.length + 1) (DiffIter.mk xs)

/-! ### the specification of diff iteration (what the property says) -/

/-- same object: same type and same id -/
def Obj.same (a b : Obj) : Bool := a.ty == b.ty && a.id == b.id

def sameObj (xs : List Obj) (i j : Nat) : Bool :=
  match xs[i]?, xs[j]? with
  | some a, some b => a.same b
  | _, _ => false

/-- position `i` starts a new object: it is the first element or its predecessor is a different object -/
def isFirst (xs : List Obj) (i : Nat) : Bool := i == 0 || !sameObj xs (i - 1) i

/-- position `i` ends an object: it is the last element or its successor is a different object -/
def isLast (xs : List Obj) (i : Nat) : Bool := i + 1 == xs.length || !sameObj xs i (i + 1)

def diffAt (xs : List Obj) (i : Nat) : Diff :=
  { prev := if isFirst xs i then i else i - 1
    curr := i
    next := if isLast xs i then i else i + 1
    first := isFirst xs i
    last := isLast xs i }

def diffs (xs : List Obj) : List Diff := (List.range xs.length).map (diffAt xs)

/-! ### apply_diff -/

inductive DiffCb | node | way | relation
  deriving Repr, DecidableEq

structure DiffEvent where
  h : Nat
  cb : DiffCb
  d : Diff
  deriving Repr, DecidableEq

/-- `apply_diff_iterator_recurse(diff, handler)`: switch on `diff.type()` -/
def diffCbOf (ty : Nat) : Option DiffCb :=
  if ty == 1 then some .node else if ty == 2 then some .way else if ty == 3 then some .relation else none

/-- handlers in argument order; `none` = unknown_type thrown (area or anything else) -/
def applyDiffOne (ty : Nat) (d : Diff) : List Nat → List DiffEvent × Bool
  | [] => ([], false)
  | h :: rest =>
    match diffCbOf ty with
    | none => ([], true)
    | some cb =>
      let r := applyDiffOne ty d rest
      (⟨h, cb, d⟩ :: r.1, r.2)

def applyDiffLoop (xs : List Obj) (hs : List Nat) : List (Option Diff) → List DiffEvent × Bool
  | [] => ([], false)
  | none :: _ => ([], true)
  | some d :: rest =>
    let r := applyDiffOne ((xs[d.curr]?.map Obj.ty).getD 0) d hs
    if r.2 then (r.1, true)
    else
      let r' := applyDiffLoop xs hs rest
      (r.1 ++ r'.1, r'.2)

/-- `apply_diff(it, end, handlers...)` with `n` handlers -/
def applyDiff (xs : List Obj) (n : Nat) : List DiffEvent × Bool :=
  applyDiffLoop xs (List.range n) (DiffIter.run xs)

/-! ### driving patterns of the DiffIterator

A DiffIterator OBJECT is the four basic iterators plus the `mutable m_diff` that `set_diff()`
overwrites on every dereference (`operator*`, `operator->`).  A program drives two such objects
`a` and `b` (`b` starts as a copy of `a`) through any sequence of the public operations.  -/

structure DiffIterObj where
  it : DiffIter
  /-- `m_diff`: `none` = default-constructed DiffObject (or a dereference outside the range) -/
  diff : Option Diff
  deriving Repr, DecidableEq

/-- `*this == DiffIterator{end, end}`: `m_curr == rhs.m_curr && m_end == rhs.m_end` -/
def DiffIterObj.atEnd (o : DiffIterObj) : Bool := o.it.curr == o.it.«end»

/-- `operator==` -/
def DiffIterObj.eq (x y : DiffIterObj) : Bool := x.it.curr == y.it.curr && x.it.«end» == y.it.«end»

/-- `operator*` / `operator->`: `set_diff(); return m_diff;` -/
def DiffIterObj.star (xs : List Obj) (o : DiffIterObj) : DiffIterObj × Option Diff :=
  let o' : DiffIterObj := { o with diff := DiffIter.deref xs o.it }
  (o', o'.diff)

/-- `operator++()`: moves the basic iterators, does not touch `m_diff` -/
def DiffIterObj.incr (o : DiffIterObj) : DiffIterObj := { o with it := o.it.incr }

inductive DriveOp
  | deref    -- `use(*a)`
  | arrow    -- `use(*a.operator->())`
  | inc      -- `++a`
  | post     -- `use(*a++)`  (`DiffIterator tmp{*this}; operator++(); return tmp;` then `*tmp`)
  | adv2     -- `std::advance(a, 2)`
  | copy     -- `b = a`
  | assign   -- `a = b`
  | derefB   -- `use(*b)`
  | incB     -- `++b`
  | postB    -- `use(*b++)`
  | cmpEnd   -- `a == end`
  | cmpAB    -- `a == b`
  deriving Repr, DecidableEq

inductive DriveOut
  | present (d : Option Diff)   -- what a dereference presented
  | atEnd                       -- the operation needs a dereferenceable iterator: not executed
  | isEnd (b : Bool)
  | equal (b : Bool)
  deriving Repr, DecidableEq

structure DriveState where
  a : DiffIterObj
  b : DiffIterObj
  deriving Repr, DecidableEq

def DriveState.init (xs : List Obj) : DriveState :=
  { a := { it := DiffIter.mk xs, diff := none }, b := { it := DiffIter.mk xs, diff := none } }

def driveStep (xs : List Obj) (s : DriveState) : DriveOp → DriveState × List DriveOut
  | .deref =>
    if s.a.atEnd then (s, [.atEnd]) else ({ s with a := (s.a.star xs).1 }, [.present (s.a.star xs).2])
  | .arrow =>
    if s.a.atEnd then (s, [.atEnd]) else ({ s with a := (s.a.star xs).1 }, [.present (s.a.star xs).2])
  | .inc => if s.a.atEnd then (s, [.atEnd]) else ({ s with a := s.a.incr }, [])
  | .post =>
    -- the temporary copy is dereferenced after `a` has moved on, and dies
    if s.a.atEnd then (s, [.atEnd]) else ({ s with a := s.a.incr }, [.present (s.a.star xs).2])
  | .adv2 =>
    if s.a.atEnd || s.a.incr.atEnd then (s, [.atEnd]) else ({ s with a := s.a.incr.incr }, [])
  | .copy => ({ s with b := s.a }, [])
  | .assign => ({ s with a := s.b }, [])
  | .derefB =>
    if s.b.atEnd then (s, [.atEnd]) else ({ s with b := (s.b.star xs).1 }, [.present (s.b.star xs).2])
  | .incB => if s.b.atEnd then (s, [.atEnd]) else ({ s with b := s.b.incr }, [])
  | .postB =>
    if s.b.atEnd then (s, [.atEnd]) else ({ s with b := s.b.incr }, [.present (s.b.star xs).2])
  | .cmpEnd => (s, [.isEnd s.a.atEnd])
  | .cmpAB => (s, [.equal (s.a.eq s.b)])

def driveRun (xs : List Obj) : DriveState → List DriveOp → List DriveOut
  | _, [] => []
  | s, op :: rest => (driveStep xs s op).2 ++ driveRun xs (driveStep xs s op).1 rest

/-- `drive` = the outputs of a whole script on a fresh iterator -/
def drive (xs : List Obj) (ops : List DriveOp) : List DriveOut := driveRun xs (DriveState.init xs) ops

/-! the specification: outputs as a function of the POSITIONS of `a` and `b` alone -/

structure DrivePos where
  a : Nat
  b : Nat
  deriving Repr, DecidableEq

def presentAt (xs : List Obj) (i : Nat) : DriveOut := .present (some (diffAt xs i))

def specStep (xs : List Obj) (p : DrivePos) : DriveOp → DrivePos × List DriveOut
  | .deref => if p.a < xs.length then (p, [presentAt xs p.a]) else (p, [.atEnd])
  | .arrow => if p.a < xs.length then (p, [presentAt xs p.a]) else (p, [.atEnd])
  | .inc => if p.a < xs.length then ({ p with a := p.a + 1 }, []) else (p, [.atEnd])
  | .post => if p.a < xs.length then ({ p with a := p.a + 1 }, [presentAt xs p.a]) else (p, [.atEnd])
  | .adv2 => if p.a + 1 < xs.length then ({ p with a := p.a + 2 }, []) else (p, [.atEnd])
  | .copy => ({ p with b := p.a }, [])
  | .assign => ({ p with a := p.b }, [])
  | .derefB => if p.b < xs.length then (p, [presentAt xs p.b]) else (p, [.atEnd])
  | .incB => if p.b < xs.length then ({ p with b := p.b + 1 }, []) else (p, [.atEnd])
  | .postB => if p.b < xs.length then ({ p with b := p.b + 1 }, [presentAt xs p.b]) else (p, [.atEnd])
  | .cmpEnd => (p, [.isEnd (p.a == xs.length)])
  | .cmpAB => (p, [.equal (p.a == p.b)])

def specRun (xs : List Obj) : DrivePos → List DriveOp → List DriveOut
  | _, [] => []
  | p, op :: rest => (specStep xs p op).2 ++ specRun xs (specStep xs p op).1 rest

/-- where a script leaves the two iterators -/
def specPos (xs : List Obj) : DrivePos → List DriveOp → DrivePos
  | p, [] => p
  | p, op :: rest => specPos xs (specStep xs p op).1 rest

/-! ### driving patterns of the filtering iterators (ItemIterator<T>, InputIterator<_, T>)

The same scripts as for the DiffIterator, over any iterator given by its four public operations. -/

structure IterOps (σ : Type) where
  atEnd : σ → Bool          -- `it == end`
  incr : σ → σ              -- `operator++`
  star : σ → Option Nat     -- `operator*` / `operator->`: position of the item presented
  eq : σ → σ → Bool         -- `operator==`

inductive FOut
  | item (p : Option Nat) | atEnd | isEnd (b : Bool) | equal (b : Bool)
  deriving Repr, DecidableEq

def gdriveStep {σ : Type} (I : IterOps σ) (s : σ × σ) : DriveOp → (σ × σ) × List FOut
  | .deref => if I.atEnd s.1 then (s, [.atEnd]) else (s, [.item (I.star s.1)])
  | .arrow => if I.atEnd s.1 then (s, [.atEnd]) else (s, [.item (I.star s.1)])
  | .inc => if I.atEnd s.1 then (s, [.atEnd]) else ((I.incr s.1, s.2), [])
  | .post => if I.atEnd s.1 then (s, [.atEnd]) else ((I.incr s.1, s.2), [.item (I.star s.1)])
  | .adv2 => if I.atEnd s.1 || I.atEnd (I.incr s.1) then (s, [.atEnd]) else ((I.incr (I.incr s.1), s.2), [])
  | .copy => ((s.1, s.1), [])
  | .assign => ((s.2, s.2), [])
  | .derefB => if I.atEnd s.2 then (s, [.atEnd]) else (s, [.item (I.star s.2)])
  | .incB => if I.atEnd s.2 then (s, [.atEnd]) else ((s.1, I.incr s.2), [])
  | .postB => if I.atEnd s.2 then (s, [.atEnd]) else ((s.1, I.incr s.2), [.item (I.star s.2)])
  | .cmpEnd => (s, [.isEnd (I.atEnd s.1)])
  | .cmpAB => (s, [.equal (I.eq s.1 s.2)])

def gdriveRun {σ : Type} (I : IterOps σ) : σ × σ → List DriveOp → List FOut
  | _, [] => []
  | s, op :: rest => (gdriveStep I s op).2 ++ gdriveRun I (gdriveStep I s op).1 rest

/-- `ItemIterator<T>`: `==` compares `m_data` (and `m_end`): the same suffix of the buffer -/
def itemIterOps (c : FilterClass) : IterOps (List PItem) :=
  { atEnd := fun s => s.isEmpty, incr := ItemIter.incr c, star := fun s => s.head?.map (·.1),
    eq := fun x y => x.length == y.length }

/-- `InputIterator<TSource, T>` (ONE iterator object: copies share the source) -/
def inIterOps (c : FilterClass) : IterOps InState :=
  { atEnd := fun s => s.iter.isNone, incr := InIter.incr c,
    star := fun s => match s.iter with | some (x :: _) => some x.1 | _ => none,
    eq := fun x y => match x.iter, y.iter with
      | none, none => true
      | some a, some b => a.length == b.length && x.source.length == y.source.length
      | _, _ => false }

def itemDrive (c : FilterClass) (buf : List PItem) (ops : List DriveOp) : List FOut :=
  gdriveRun (itemIterOps c) (ItemIter.mk c buf, ItemIter.mk c buf) ops

def inDrive (c : FilterClass) (bufs : List (List PItem)) (ops : List DriveOp) : List FOut :=
  gdriveRun (inIterOps c) (InIter.mk c bufs, InIter.mk c bufs) ops

/-- the specification: the iterator at position `i` presents the `i`-th element of `vis` (the items
    the iterator has to visit), whatever was done before -/
def fspecStep (vis : List Nat) (p : DrivePos) : DriveOp → DrivePos × List FOut
  | .deref => if p.a < vis.length then (p, [.item vis[p.a]?]) else (p, [.atEnd])
  | .arrow => if p.a < vis.length then (p, [.item vis[p.a]?]) else (p, [.atEnd])
  | .inc => if p.a < vis.length then ({ p with a := p.a + 1 }, []) else (p, [.atEnd])
  | .post => if p.a < vis.length then ({ p with a := p.a + 1 }, [.item vis[p.a]?]) else (p, [.atEnd])
  | .adv2 => if p.a + 1 < vis.length then ({ p with a := p.a + 2 }, []) else (p, [.atEnd])
  | .copy => ({ p with b := p.a }, [])
  | .assign => ({ p with a := p.b }, [])
  | .derefB => if p.b < vis.length then (p, [.item vis[p.b]?]) else (p, [.atEnd])
  | .incB => if p.b < vis.length then ({ p with b := p.b + 1 }, []) else (p, [.atEnd])
  | .postB => if p.b < vis.length then ({ p with b := p.b + 1 }, [.item vis[p.b]?]) else (p, [.atEnd])
  | .cmpEnd => (p, [.isEnd (p.a == vis.length)])
  | .cmpAB => (p, [.equal (p.a == p.b)])

def fspecRun (vis : List Nat) : DrivePos → List DriveOp → List FOut
  | _, [] => []
  | p, op :: rest => (fspecStep vis p op).2 ++ fspecRun vis (fspecStep vis p op).1 rest

end Osmium.Dispatch
