/-
Model of the XML writer and of the XML reader over an abstract event stream (text part of
properties C01 / C02).

Transcribed statement by statement from
  include/osmium/io/detail/xml_output_format.hpp   detail::append_lat_lon_attributes, XMLOutputBlock::{write_attribute,
        write_meta, write_tags, write_discussion, open_close_op_tag, operator(), node, way, relation, changeset},
        XMLOutputFormat::{XMLOutputFormat, write_header, write_end}
  include/osmium/io/detail/xml_input_format.hpp    XMLParser::{init_object, init_changeset, get_tag, top_level_element,
        data_level_element, start_element, end_element, characters, run}
  include/osmium/osm/object.hpp                    OSMObject::set_attribute, set_visible(const char*), set_timestamp(const char*)
  include/osmium/osm/changeset.hpp                 Changeset::set_attribute
  include/osmium/osm/box.hpp                       Box::extend(Location)
  include/osmium/io/detail/input_format.hpp        Parser::set_header_value (first call wins)

Leaf conversions are the models of C13 / C14 (`Conv.outputInt`, `Conv.stringToObjectId`, `Conv.stringToUlong`,
`Conv.toIsoAll`, `Conv.toIso`, `Conv.parseTimestamp`, `Conv.timestampOfString`, `Conv.formatCoord`,
`Conv.parseCoordFull`, `Xml.escape`, `Xml.unescapeAttr`).

expat is a PARAMETER: the writer produces a list of markup `Piece`s, `serialize` turns them into
the bytes of the file (this is what is compared byte for byte with the real Writer), and the
reader `read` consumes a list of events `Ev`.  `ExpatContract` (below) states what a conforming
XML 1.0 parser delivers for a serialized piece list; `tokenize` is a small executable parser for
the subset the writer and the specification renderer produce, so that the model runs end to end.
Core-only.
-/
import Osmium.Model.OplFmt

namespace Osmium.XmlFmt
open Osmium.Osm Osmium.TextFmt Osmium.Conv

/-! ## markup -/

/-- one lexical piece of the document body -/
inductive Piece
  /-- literal white space between elements (indentation, line ends) -/
  | ws (b : Bytes)
  /-- `<name a="v" …>` or `<name …/>`; attribute values are RAW (already escaped) -/
  | elem (name : String) (attrs : List (String × Bytes)) (selfClose : Bool)
  /-- `</name>` -/
  | close (name : String)
  /-- character data, RAW (already escaped) -/
  | text (raw : Bytes)
  deriving Repr, DecidableEq

def str (s : String) : Bytes := s.toUTF8.toList

/-- attribute values the reader compares with / the writer emits literally (explicit bytes so that
    the theorems can compute with them) -/
def bTrue : Bytes := [0x74, 0x72, 0x75, 0x65]
def bFalse : Bytes := [0x66, 0x61, 0x6c, 0x73, 0x65]
/-- "0.6" -/
def bVersion : Bytes := [0x30, 0x2e, 0x36]

def serAttr (a : String × Bytes) : Bytes := 0x20 :: (str a.1 ++ 0x3d :: 0x22 :: (a.2 ++ [0x22]))

def serPiece : Piece → Bytes
  | .ws b => b
  | .elem n as sc => 0x3c :: (str n ++ (as.map serAttr).flatten ++ (if sc then [0x2f, 0x3e] else [0x3e]))
  | .close n => 0x3c :: 0x2f :: (str n ++ [0x3e])
  | .text raw => raw

def serialize (ps : List Piece) : Bytes := (ps.map serPiece).flatten

/-- what the parser reports -/
inductive Ev
  | start (name : String) (attrs : List (String × Bytes))
  | stop (name : String)
  | chars (t : Bytes)
  deriving Repr, DecidableEq

/-- events of a piece list under the XML 1.0 rules: attribute values and character data have their
    entity / character references decoded and (attributes) their white space normalised — this is
    `Xml.unescapeAttr` of C14; an empty-element tag yields start + end.  Character data is
    restricted to raw text without literal `"`, TAB, LF, CR (there the attribute rules and the
    content rules coincide); the writer escapes all four. `none` = not well-formed. -/
def decodeAttrs : List (String × Bytes) → Option (List (String × Bytes))
  | [] => some []
  | (n, raw) :: as =>
    match Xml.unescapeAttr raw, decodeAttrs as with
    | some v, some r => some ((n, v) :: r)
    | _, _ => none

def evOfPiece : Piece → Option (List Ev)
  | .ws b => some (if b.isEmpty then [] else [.chars b])
  | .elem n as sc =>
    match decodeAttrs as with
    | some as' => some (if sc then [.start n as', .stop n] else [.start n as'])
    | none => none
  | .close n => some [.stop n]
  | .text raw => (Xml.unescapeAttr raw).map fun t => if t.isEmpty then [] else [.chars t]

def eventsOf : List Piece → Option (List Ev)
  | [] => some []
  | p :: ps =>
    match evOfPiece p, eventsOf ps with
    | some a, some b => some (a ++ b)
    | _, _ => none

/-- `<?xml version='1.0' encoding='UTF-8'?>\n` -/
def xmlDecl : Bytes := str "<?xml version='1.0' encoding='UTF-8'?>\n"

/-- **The expat contract** (pointwise): on the document `xmlDecl ++ serialize ps` the parser
    reports exactly the events of `ps` (character data possibly split differently — the reader
    only ever concatenates it).  Trusted for expat; checked on every run by feeding generated
    documents to the real expat (harness op `expat`) and comparing with `eventsOf`. -/
def ExpatContract (expat : Bytes → Option (List Ev)) (ps : List Piece) : Prop :=
  expat (xmlDecl ++ serialize ps) = eventsOf ps

/-! ## writer -/

def sp (n : Nat) : Piece := .ws (List.replicate n 0x20)
def nl : Piece := .ws [0x0a]

/-- `write_attribute(name, value)` (integers) -/
def intAttr (name : String) (v : Int) : Except WErr (String × Bytes) :=
  bindE (wInt v) fun b => .ok (name, b)

/-- `detail::append_lat_lon_attributes` -/
def latLon (lat lon : String) (l : Location) : List (String × Bytes) :=
  [(lat, formatCoord l.y), (lon, formatCoord l.x)]

def addVisibleFlag (o : Opts) : Bool := (o.history || o.forceVisible) && !o.changeOps

def prefixSpaces (o : Opts) : Nat := if o.changeOps then 4 else 2

/-- `write_meta` -/
def metaAttrs (o : Opts) (m : Meta) : Except WErr (List (String × Bytes)) :=
  bindE (intAttr "id" m.id) fun aid =>
  bindE (if o.md.version && m.version != 0 then bindE (intAttr "version" m.version) fun a => .ok [a] else .ok []) fun av =>
  bindE (if o.md.uid && m.uid != 0 then bindE (intAttr "uid" m.uid) fun a => .ok [a] else .ok []) fun au =>
  bindE (if o.md.changeset && m.changeset != 0 then bindE (intAttr "changeset" m.changeset) fun a => .ok [a] else .ok []) fun ac =>
  .ok ([aid] ++ av ++
       (if o.md.timestamp && m.timestamp != 0 then [("timestamp", toIsoAll m.timestamp)] else []) ++ au ++
       (if o.md.user && !m.user.isEmpty then [("user", Xml.escape m.user)] else []) ++ ac ++
       (if addVisibleFlag o then [("visible", (if m.visible then bTrue else bFalse))] else []))

/-- `write_tags(tags, spaces)` -/
def tagPieces (spaces : Nat) (ts : List Tag) : List Piece :=
  ts.flatMap fun t => [sp (spaces + 2), .elem "tag" [("k", Xml.escape t.key), ("v", Xml.escape t.value)] true, nl]

/-- `item_type_to_name` -/
def typeName (t : Nat) : Bytes :=
  if t = 1 then [0x6e, 0x6f, 0x64, 0x65] else if t = 2 then [0x77, 0x61, 0x79]
  else if t = 3 then [0x72, 0x65, 0x6c, 0x61, 0x74, 0x69, 0x6f, 0x6e]
  else [0x75, 0x6e, 0x64, 0x65, 0x66, 0x69, 0x6e, 0x65, 0x64]

/-- `write_discussion` -/
def discussionPieces (cs : List Comment) : Except WErr (List Piece) :=
  bindE (mapE (fun (c : Comment) =>
      bindE (intAttr "uid" c.uid) fun au =>
      .ok [sp 3, Piece.elem "comment" [au, ("user", Xml.escape c.user), ("date", toIsoAll c.date)] false, nl,
           sp 4, .elem "text" [] false, .text (Xml.escape c.text), .close "text", nl, sp 3, .close "comment", nl]) cs) fun xs =>
  .ok ([sp 2, .elem "discussion" [] false, nl] ++ xs.flatten ++ [sp 2, .close "discussion", nl])

/-- `operation` of a change file: 1 create, 2 modify, 3 delete (0 none) -/
def opOf (m : Meta) : Nat := if m.visible then (if m.version = 1 then 1 else 2) else 3

def opName (op : Nat) : String := if op = 1 then "create" else if op = 2 then "modify" else "delete"

/-- `open_close_op_tag(op)` with `m_last_op = last` -/
def opTagPieces (last op : Nat) : List Piece :=
  if op = last then []
  else (if last = 0 then [] else [sp 2, .close (opName last), nl]) ++
       (if op = 0 then [] else [sp 2, .elem (opName op) [] false, nl])

/-- `node` / `way` / `relation` / `changeset` of `XMLOutputBlock` (without the op tags) -/
def objectPieces (o : Opts) : Object → Except WErr (List Piece)
  | .node m l =>
    bindE (metaAttrs o m) fun as =>
    let as := as ++ (if bothDefined l then latLon "lat" "lon" l else [])
    if m.tags.isEmpty then .ok [sp (prefixSpaces o), .elem "node" as true, nl]
    else .ok ([sp (prefixSpaces o), .elem "node" as false, nl] ++ tagPieces (prefixSpaces o) m.tags ++
              [sp (prefixSpaces o), .close "node", nl])
  | .way m ns =>
    bindE (metaAttrs o m) fun as =>
    if m.tags.isEmpty && ns.isEmpty then .ok [sp (prefixSpaces o), .elem "way" as true, nl]
    else
      bindE (mapE (fun (n : NodeRef) =>
          bindE (intAttr "ref" n.ref) fun ar =>
          .ok [sp (prefixSpaces o + 2),
               Piece.elem "nd" (ar :: (if o.locationsOnWays && bothDefined n.location then latLon "lat" "lon" n.location else [])) true,
               nl]) ns) fun xs =>
      .ok ([sp (prefixSpaces o), .elem "way" as false, nl] ++ xs.flatten ++ tagPieces (prefixSpaces o) m.tags ++
           [sp (prefixSpaces o), .close "way", nl])
  | .relation m ms =>
    bindE (metaAttrs o m) fun as =>
    if m.tags.isEmpty && ms.isEmpty then .ok [sp (prefixSpaces o), .elem "relation" as true, nl]
    else
      bindE (mapE (fun (x : Member) =>
          bindE (intAttr "ref" x.ref) fun ar =>
          .ok [sp (prefixSpaces o + 2),
               Piece.elem "member" [("type", typeName x.type), ar, ("role", Xml.escape x.role)] true, nl]) ms) fun xs =>
      .ok ([sp (prefixSpaces o), .elem "relation" as false, nl] ++ xs.flatten ++ tagPieces (prefixSpaces o) m.tags ++
           [sp (prefixSpaces o), .close "relation", nl])
  | .changeset id ca cl nc ncm uid user bl tr tags cs =>
    bindE (intAttr "id" id) fun aid =>
    bindE (if uid != 0 then bindE (intAttr "uid" uid) fun a => .ok [("user", Xml.escape user), a] else .ok []) fun au =>
    bindE (intAttr "num_changes" nc) fun anc =>
    bindE (intAttr "comments_count" ncm) fun acc =>
    let as := [aid] ++ (if ca != 0 then [("created_at", toIso ca)] else []) ++
      (if cl != 0 then [("closed_at", toIso cl), ("open", bFalse)] else [("open", bTrue)]) ++ au ++
      (if !isUndefined bl || !isUndefined tr then latLon "min_lat" "min_lon" bl ++ latLon "max_lat" "max_lon" tr else []) ++
      [anc, acc]
    if tags.isEmpty && cs.isEmpty then .ok [sp 1, .elem "changeset" as true, nl]
    else
      bindE (if cs.isEmpty then .ok [] else discussionPieces cs) fun ds =>
      .ok ([sp 1, .elem "changeset" as false, nl] ++ tagPieces 0 tags ++ ds ++ [sp 1, .close "changeset", nl])

/-- the op of an object in a change file (changesets have none: `changeset()` never calls
    `open_close_op_tag`, so a changeset inherits whatever section is open) -/
def objOp : Object → Option Nat
  | .node m _ => some (opOf m)
  | .way m _ => some (opOf m)
  | .relation m _ => some (opOf m)
  | .changeset .. => none

/-- one `XMLOutputBlock::operator()`: all objects of one buffer; `m_last_op` starts at none and the
    section is closed at the end of the block -/
def blockPieces (o : Opts) : Nat → List Object → Except WErr (List Piece)
  | last, [] => .ok (if o.changeOps then opTagPieces last 0 else [])
  | last, obj :: rest =>
    let op := if o.changeOps then (objOp obj).getD last else last
    bindE (objectPieces o obj) fun ps =>
    bindE (blockPieces o op rest) fun qs =>
    .ok ((if o.changeOps then opTagPieces last op else []) ++ ps ++ qs)

/-- `write_header` (without the XML declaration); `upload` = the `xml_josm_upload` header option is
    not modelled (never set by the harness) -/
def headerPieces (o : Opts) (h : Header) : List Piece :=
  (if o.changeOps then [Piece.elem "osmChange" [("version", bVersion), ("generator", Xml.escape h.generator)] false]
   else [Piece.elem "osm" [("version", bVersion), ("generator", Xml.escape h.generator)] false]) ++ [nl] ++
  h.boxes.flatMap fun (bl, tr) =>
    [sp 2, .elem "bounds" (latLon "minlat" "minlon" bl ++ latLon "maxlat" "maxlon" tr) true, nl]

/-- `write_end` -/
def endPieces (o : Opts) : List Piece := [.close (if o.changeOps then "osmChange" else "osm"), nl]

/-- the markup of a whole file: header, the blocks (one per buffer handed to the Writer), end -/
def filePieces (o : Opts) (h : Header) (blocks : List (List Object)) : Except WErr (List Piece) :=
  bindE (mapE (blockPieces o 0) blocks) fun bs => .ok (headerPieces o h ++ bs.flatten ++ endPieces o)

def writeObject (o : Opts) (obj : Object) : Except WErr Bytes :=
  bindE (objectPieces o obj) fun ps => .ok (serialize ps)

def writeHeader (o : Opts) (h : Header) : Bytes := xmlDecl ++ serialize (headerPieces o h)

def writeFile (o : Opts) (h : Header) (blocks : List (List Object)) : Except WErr Bytes :=
  bindE (filePieces o h blocks) fun ps => .ok (xmlDecl ++ serialize ps)

/-! ## reader -/

inductive XErr
  /-- `osmium::xml_error` (also: expat reports a syntax error) -/
  | xml
  /-- `osmium::format_version_error` -/
  | formatVersion
  /-- `std::range_error` from `string_to_object_id` / `string_to_ulong` -/
  | range
  /-- `std::invalid_argument` (timestamp, visible) -/
  | invalidArgument
  /-- `osmium::invalid_location` -/
  | location
  /-- `std::length_error` -/
  | length
  deriving Repr, DecidableEq

inductive Ctx
  | osm | osmChange | bounds | createSection | modifySection | deleteSection | node | way | relation
  | tag | nd | member | changeset | discussion | comment | text | objBbox | other
  deriving Repr, DecidableEq

/-- sub-items of the object under construction, in the order they are created in the buffer -/
inductive Sub
  | tags (ts : List Tag)
  | nodes (ns : List NodeRef)
  | members (ms : List Member)
  | discussion (cs : List Comment)
  deriving Repr, DecidableEq

/-- the builders: the object with its attributes, its sub-items, and whether the builder of the
    LAST sub-item is still open (`m_tl_builder` / `m_wnl_builder` / `m_rml_builder` /
    `m_changeset_discussion_builder`: at most one of them is non-null at any time and it is the
    one created last) -/
structure Cur where
  obj : Object
  subs : List Sub := []
  lastOpen : Bool := false
  deriving Repr, DecidableEq

structure RSt where
  stack : List Ctx := []
  /-- `m_header` -/
  header : Header := {}
  /-- `m_header.get("version")` -/
  version : Bytes := []
  /-- the header as published by the first `mark_header_as_done` -/
  headerOut : Option Header := none
  cur : Option Cur := none
  /-- committed objects, most recent first -/
  out : List Object := []
  commentText : Bytes := []
  /-- `m_comment_pending` (repair 5690f83): true between `add_comment()` and the
      `add_comment_text()` that must follow it -/
  commentPending : Bool := false
  deriving Repr, DecidableEq

def convR {α : Type} (x : Except Conv.Err α) : Except XErr α :=
  match x with
  | .ok a => .ok a
  | .error .invalidLocation => .error .location
  | .error .invalidArgument => .error .invalidArgument
  | .error .rangeError => .error .range
  | .error .oplError => .error .xml

def rCoord (v : Bytes) : Except XErr Int := convR (parseCoordFull .now v)
def rId (v : Bytes) : Except XErr Int := convR (stringToObjectId v)
def rUlong (v : Bytes) : Except XErr Nat := convR (stringToUlong v)

/-- `OSMObject::set_timestamp(const char*)` -/
def rTimestampStrict (v : Bytes) : Except XErr Nat :=
  match parseTimestampNow v with
  | .error _ => .error .invalidArgument
  | .ok (t, rest) => if peek rest != 0 then .error .invalidArgument else .ok (toU32 t)

/-- `osmium::Timestamp{value}` -/
def rTimestamp (v : Bytes) : Except XErr Nat := convR (timestampNow v)

/-- `mark_header_as_done` -/
def markDone (st : RSt) : RSt :=
  match st.headerOut with
  | some _ => st
  | none => { st with headerOut := some st.header }

def mapMeta (f : Meta → Meta) : Object → Object
  | .node m l => .node (f m) l
  | .way m ns => .way (f m) ns
  | .relation m ms => .relation (f m) ms
  | o => o

/-- the `check_attributes` loop of `init_object`: returns the object, the location accumulator and `user` -/
def initObjectAttrs : List (String × Bytes) → Object → Location → Bytes → Except XErr (Object × Location × Bytes)
  | [], obj, loc, user => .ok (obj, loc, user)
  | (n, v) :: as, obj, loc, user =>
    if n = "lon" then bindE (rCoord v) fun x => initObjectAttrs as obj { loc with x := x } user
    else if n = "lat" then bindE (rCoord v) fun y => initObjectAttrs as obj { loc with y := y } user
    else if n = "user" then initObjectAttrs as obj loc v
    else if n = "id" then bindE (rId v) fun x => initObjectAttrs as (mapMeta (fun m => { m with id := x }) obj) loc user
    else if n = "version" then bindE (rUlong v) fun x => initObjectAttrs as (mapMeta (fun m => { m with version := x % 2147483648 }) obj) loc user
    else if n = "changeset" then bindE (rUlong v) fun x => initObjectAttrs as (mapMeta (fun m => { m with changeset := x }) obj) loc user
    else if n = "timestamp" then bindE (rTimestampStrict v) fun x => initObjectAttrs as (mapMeta (fun m => { m with timestamp := x }) obj) loc user
    else if n = "uid" then bindE (rUlong v) fun x => initObjectAttrs as (mapMeta (fun m => { m with uid := x }) obj) loc user
    else if n = "visible" then
      (if v = bTrue then initObjectAttrs as (mapMeta (fun m => { m with visible := true }) obj) loc user
       else if v = bFalse then initObjectAttrs as (mapMeta (fun m => { m with visible := false }) obj) loc user
       else .error .invalidArgument)
    else initObjectAttrs as obj loc user

/-- `init_object` + `set_user`; `inDelete` = the enclosing context is `delete_section`.
    `set_user(const char*)` throws `std::length_error` for a name longer than
    `max_osm_string_length` (repair bc6b907; before, the length was only asserted and with NDEBUG
    truncated to 16 bits: DESIGN.md F13c). -/
def initObject (empty : Object) (inDelete : Bool) (attrs : List (String × Bytes)) : Except XErr Object :=
  let obj0 := if inDelete then mapMeta (fun m => { m with visible := false }) empty else empty
  bindE (initObjectAttrs attrs obj0 Location.undefined []) fun (obj, loc, user) =>
  if user.length > OplFmt.maxString then .error .length else
  let obj := mapMeta (fun m => { m with user := user }) obj
  match obj with
  | .node m _ => .ok (.node m (if bothDefined loc then loc else Location.undefined))
  | o => .ok o

structure CsAcc where
  id : Nat := 0
  createdAt : Nat := 0
  closedAt : Nat := 0
  numChanges : Nat := 0
  numComments : Nat := 0
  uid : Nat := 0
  user : Bytes := []
  bl : Location := Location.undefined
  tr : Location := Location.undefined

/-- `init_changeset` -/
def initChangesetAttrs : List (String × Bytes) → CsAcc → Except XErr CsAcc
  | [], a => .ok a
  | (n, v) :: as, a =>
    if n = "min_lon" then bindE (rCoord v) fun x => initChangesetAttrs as { a with bl := { a.bl with x := x } }
    else if n = "min_lat" then bindE (rCoord v) fun x => initChangesetAttrs as { a with bl := { a.bl with y := x } }
    else if n = "max_lon" then bindE (rCoord v) fun x => initChangesetAttrs as { a with tr := { a.tr with x := x } }
    else if n = "max_lat" then bindE (rCoord v) fun x => initChangesetAttrs as { a with tr := { a.tr with y := x } }
    else if n = "user" then
      -- `builder.set_user(value)` right here: `std::length_error` (repair bc6b907)
      if v.length > OplFmt.maxString then .error .length else initChangesetAttrs as { a with user := v }
    else if n = "id" then bindE (rUlong v) fun x => initChangesetAttrs as { a with id := x }
    else if n = "num_changes" then bindE (rUlong v) fun x => initChangesetAttrs as { a with numChanges := x }
    else if n = "comments_count" then bindE (rUlong v) fun x => initChangesetAttrs as { a with numComments := x }
    else if n = "created_at" then bindE (rTimestamp v) fun x => initChangesetAttrs as { a with createdAt := x }
    else if n = "closed_at" then bindE (rTimestamp v) fun x => initChangesetAttrs as { a with closedAt := x }
    else if n = "uid" then bindE (rUlong v) fun x => initChangesetAttrs as { a with uid := x }
    else initChangesetAttrs as a

def initChangeset (attrs : List (String × Bytes)) : Except XErr Object :=
  bindE (initChangesetAttrs attrs {}) fun a =>
  .ok (.changeset a.id a.createdAt a.closedAt a.numChanges a.numComments (a.uid : Nat) a.user a.bl a.tr [] [])

def lastAttr (name : String) (attrs : List (String × Bytes)) (dflt : Bytes) : Bytes :=
  attrs.foldl (fun acc a => if a.1 = name then a.2 else acc) dflt

/-- add an item to the open builder of its kind, or create a new sub-item -/
def addTag (c : Cur) (t : Tag) : Cur :=
  match c.lastOpen, c.subs.getLast? with
  | true, some (.tags ts) => { c with subs := c.subs.dropLast ++ [.tags (ts ++ [t])] }
  | _, _ => { c with subs := c.subs ++ [.tags [t]], lastOpen := true }

def addNode (c : Cur) (n : NodeRef) : Cur :=
  match c.lastOpen, c.subs.getLast? with
  | true, some (.nodes ns) => { c with subs := c.subs.dropLast ++ [.nodes (ns ++ [n])] }
  | _, _ => { c with subs := c.subs ++ [.nodes [n]], lastOpen := true }

def addMember (c : Cur) (m : Member) : Cur :=
  match c.lastOpen, c.subs.getLast? with
  | true, some (.members ms) => { c with subs := c.subs.dropLast ++ [.members (ms ++ [m])] }
  | _, _ => { c with subs := c.subs ++ [.members [m]], lastOpen := true }

def openDiscussion (c : Cur) : Cur :=
  match c.lastOpen, c.subs.getLast? with
  | true, some (.discussion _) => c
  | _, _ => { c with subs := c.subs ++ [.discussion []], lastOpen := true }

def addComment (c : Cur) (x : Comment) : Cur :=
  match c.subs.getLast? with
  | some (.discussion cs) => { c with subs := c.subs.dropLast ++ [.discussion (cs ++ [x])] }
  | _ => c

/-- `add_comment_text`: the text of the comment added last -/
def setCommentText (c : Cur) (t : Bytes) : Cur :=
  match c.subs.getLast? with
  | some (.discussion cs) =>
    match cs.getLast? with
    | some x => { c with subs := c.subs.dropLast ++ [.discussion (cs.dropLast ++ [{ x with text := t }])] }
    | none => c
  | _ => c

/-- `get_tag` -/
def getTag (c : Cur) (attrs : List (String × Bytes)) : Except XErr Cur :=
  let k := lastAttr "k" attrs []
  let v := lastAttr "v" attrs []
  if k.length > OplFmt.maxString || v.length > OplFmt.maxString then .error .length
  else .ok (addTag c ⟨k, v⟩)

def firstTags : List Sub → List Tag
  | [] => []
  | .tags ts :: _ => ts
  | _ :: r => firstTags r

def firstNodes : List Sub → List NodeRef
  | [] => []
  | .nodes ns :: _ => ns
  | _ :: r => firstNodes r

def firstMembers : List Sub → List Member
  | [] => []
  | .members ms :: _ => ms
  | _ :: r => firstMembers r

def firstDiscussion : List Sub → List Comment
  | [] => []
  | .discussion cs :: _ => cs
  | _ :: r => firstDiscussion r

/-- the committed object as the accessors `tags()`, `nodes()`, `members()`, `discussion()` see it
    (each returns the FIRST sub-item of its type) -/
def assemble (c : Cur) : Object :=
  match c.obj with
  | .node m l => .node { m with tags := firstTags c.subs } l
  | .way m _ => .way { m with tags := firstTags c.subs } (firstNodes c.subs)
  | .relation m _ => .relation { m with tags := firstTags c.subs } (firstMembers c.subs)
  | .changeset id ca cl nc ncm uid user bl tr _ _ =>
    .changeset id ca cl nc ncm uid user bl tr (firstTags c.subs) (firstDiscussion c.subs)

/-- `Box::extend(location)` on a box given by its corners -/
def extendBox (b : Location × Location) (l : Location) : Location × Location :=
  if valid l then
    if bothDefined b.1 then
      (⟨if l.x < b.1.x then l.x else b.1.x, if l.y < b.1.y then l.y else b.1.y⟩,
       ⟨if l.x > b.2.x then l.x else b.2.x, if l.y > b.2.y then l.y else b.2.y⟩)
    else (l, l)
  else b

/-- the `check_attributes` loop of the `<bounds>` element -/
def boundsAttrs : List (String × Bytes) → Location → Location → Except XErr (Location × Location)
  | [], mn, mx => .ok (mn, mx)
  | (n, v) :: as, mn, mx =>
    if n = "minlon" then bindE (rCoord v) fun x => boundsAttrs as { mn with x := x } mx
    else if n = "minlat" then bindE (rCoord v) fun x => boundsAttrs as { mn with y := x } mx
    else if n = "maxlon" then bindE (rCoord v) fun x => boundsAttrs as mn { mx with x := x }
    else if n = "maxlat" then bindE (rCoord v) fun x => boundsAttrs as mn { mx with y := x }
    else boundsAttrs as mn mx

def emptyMeta : Meta := { id := 0 }

def push (st : RSt) (c : Ctx) : RSt := { st with stack := c :: st.stack }

/-- `top_level_element` attribute loop -/
def topAttrs : List (String × Bytes) → RSt → Except XErr RSt
  | [], st => .ok st
  | (n, v) :: as, st =>
    if n = "version" then
      if v = bVersion then topAttrs as { st with version := v } else .error .formatVersion
    else if n = "generator" then topAttrs as { st with header := { st.header with generator := v } }
    else topAttrs as st

/-- `data_level_element` (`parent` = `m_context_stack.back()` before the push) -/
def dataLevel (types : OplFmt.Types) (st : RSt) (parent : Ctx) (name : String) (attrs : List (String × Bytes))
    (inChange : Bool) : Except XErr RSt :=
  if name = "node" then
    let st := markDone (push st .node)
    if types.node then
      bindE (initObject (.node emptyMeta Location.undefined) (parent == .deleteSection) attrs) fun o =>
        .ok { st with cur := some { obj := o } }
    else .ok st
  else if name = "way" then
    let st := markDone (push st .way)
    if types.way then
      bindE (initObject (.way emptyMeta []) (parent == .deleteSection) attrs) fun o => .ok { st with cur := some { obj := o } }
    else .ok st
  else if name = "relation" then
    let st := markDone (push st .relation)
    if types.relation then
      bindE (initObject (.relation emptyMeta []) (parent == .deleteSection) attrs) fun o => .ok { st with cur := some { obj := o } }
    else .ok st
  else if inChange then .error .xml
  else if name = "changeset" then
    let st := markDone (push st .changeset)
    if types.changeset then bindE (initChangeset attrs) fun o => .ok { st with cur := some { obj := o } }
    else .ok st
  else if name = "create" then
    if parent != .osmChange then .error .xml else .ok (markDone (push st .createSection))
  else if name = "modify" then
    if parent != .osmChange then .error .xml else .ok (markDone (push st .modifySection))
  else if name = "delete" then
    if parent != .osmChange then .error .xml else .ok (markDone (push st .deleteSection))
  else if name = "bounds" then
    bindE (boundsAttrs attrs Location.undefined Location.undefined) fun (mn, mx) =>
    let box := extendBox (extendBox (Location.undefined, Location.undefined) mn) mx
    let st := push st .bounds
    .ok { st with header := { st.header with boxes := st.header.boxes ++ [box] } }
  else .ok (push st .other)

def ndAttrs : List (String × Bytes) → NodeRef → Except XErr NodeRef
  | [], nr => .ok nr
  | (n, v) :: as, nr =>
    if n = "ref" then bindE (rId v) fun x => ndAttrs as { nr with ref := x }
    else if n = "lon" then bindE (rCoord v) fun x => ndAttrs as { nr with location := { nr.location with x := x } }
    else if n = "lat" then bindE (rCoord v) fun x => ndAttrs as { nr with location := { nr.location with y := x } }
    else ndAttrs as nr

/-- (type, ref, ref_is_set, role) -/
def memberAttrs : List (String × Bytes) → Nat → Int → Bool → Bytes → Except XErr (Nat × Int × Bool × Bytes)
  | [], t, r, s, role => .ok (t, r, s, role)
  | (n, v) :: as, t, r, s, role =>
    if n = "type" then memberAttrs as (charType (peek v)) r s role
    else if n = "ref" then bindE (rId v) fun x => memberAttrs as t x true role
    else if n = "role" then memberAttrs as t r s v
    else memberAttrs as t r s role

def commentAttrs : List (String × Bytes) → Comment → Except XErr Comment
  | [], c => .ok c
  | (n, v) :: as, c =>
    if n = "date" then bindE (rTimestamp v) fun x => commentAttrs as { c with date := x }
    else if n = "uid" then bindE (rUlong v) fun x => commentAttrs as { c with uid := x }
    else if n = "user" then commentAttrs as { c with user := v }
    else commentAttrs as c

def withCur (st : RSt) (f : Cur → Except XErr Cur) : Except XErr RSt :=
  match st.cur with
  | some c => bindE (f c) fun c' => .ok { st with cur := some c' }
  | none => .ok st

/-- `start_element` -/
def startElement (types : OplFmt.Types) (st : RSt) (name : String) (attrs : List (String × Bytes)) : Except XErr RSt :=
  match st.stack with
  | [] =>
    bindE (if name = "osm" then .ok (push st .osm)
           else if name = "osmChange" then
             .ok (push { st with header := { st.header with multipleVersions := true } } .osmChange)
           else .error .xml) fun st1 =>
    bindE (topAttrs attrs st1) fun st2 =>
    if st2.version.isEmpty then .error .formatVersion else .ok st2
  | top :: _ =>
    match top with
    | .osm | .osmChange => dataLevel types st top name attrs false
    | .createSection | .modifySection | .deleteSection => dataLevel types st top name attrs true
    | .node =>
      if name = "tag" then
        let st := push st .tag
        if types.node then withCur st fun c => getTag c attrs else .ok st
      else .error .xml
    | .way =>
      if name = "nd" then
        let st := push st .nd
        if types.way then
          withCur st fun c => bindE (ndAttrs attrs ⟨0, Location.undefined⟩) fun nr => .ok (addNode c nr)
        else .ok st
      else if name = "tag" then
        let st := push st .tag
        if types.way then withCur st fun c => getTag c attrs else .ok st
      else if name = "bbox" || name = "bounds" then .ok (push st .objBbox)
      else .error .xml
    | .relation =>
      if name = "member" then
        let st := push st .member
        if types.relation then
          withCur st fun c =>
            bindE (memberAttrs attrs 0 0 false []) fun (t, r, s, role) =>
            if t = 0 then .error .xml
            else if !s then .error .xml
            else if role.length > OplFmt.maxString then .error .length
            else .ok (addMember c ⟨t, r, role⟩)
        else .ok st
      else if name = "tag" then
        let st := push st .tag
        if types.relation then withCur st fun c => getTag c attrs else .ok st
      else if name = "bbox" || name = "bounds" then .ok (push st .objBbox)
      else .error .xml
    | .tag | .nd | .member | .text | .bounds | .objBbox | .other => .error .xml
    | .changeset =>
      if name = "discussion" then
        let st := push st .discussion
        if types.changeset then withCur st fun c => .ok (openDiscussion c) else .ok st
      else if name = "tag" then
        let st := push st .tag
        if types.changeset then withCur st fun c => getTag c attrs else .ok st
      else .error .xml
    | .discussion =>
      if name = "comment" then
        let st := push st .comment
        if types.changeset then
          -- add_comment(date, uid, user): add_user throws `std::length_error` for a long user name;
          -- then `m_comment_pending = true`
          bindE (withCur st fun c => bindE (commentAttrs attrs ⟨0, 0, [], []⟩) fun x =>
                  if x.user.length > OplFmt.maxString then .error .length else .ok (addComment c x)) fun st' =>
            .ok { st' with commentPending := true }
        else .ok st
      else .error .xml
    | .comment =>
      if name = "text" then
        -- "Only one <text> element allowed in <comment>" (repair 5690f83)
        if types.changeset && !st.commentPending then .error .xml else .ok (push st .text)
      else .error .xml

def commit (st : RSt) : RSt :=
  match st.cur with
  | some c => { st with cur := none, out := assemble c :: st.out }
  | none => st

/-- `end_element` -/
def endElement (types : OplFmt.Types) (st : RSt) : Except XErr RSt :=
  match st.stack with
  | [] => .error .xml
  | top :: rest =>
    let st1 : RSt :=
      match top with
      | .osm | .osmChange => markDone st
      | .node => if types.node then commit st else st
      | .way => if types.way then commit st else st
      | .relation => if types.relation then commit st else st
      | .changeset => if types.changeset then commit st else st
      | .comment =>
        -- <comment> without <text>: `add_comment_text("")` — the comment keeps the empty text it
        -- was created with (repair 5690f83; before, the comment stayed without text and padding)
        if types.changeset && st.commentPending then { st with commentPending := false } else st
      | .text =>
        if types.changeset then
          match st.cur with
          | some c => { st with cur := some (setCommentText c st.commentText), commentText := [], commentPending := false }
          | none => { st with commentText := [], commentPending := false }
        else st
      | _ => st
    .ok { st1 with stack := rest }

/-- `characters` -/
def characters (types : OplFmt.Types) (st : RSt) (t : Bytes) : RSt :=
  if types.changeset && st.stack.head? == some .text then { st with commentText := st.commentText ++ t } else st

def stepEv (types : OplFmt.Types) (st : RSt) : Ev → Except XErr RSt
  | .start n as => startElement types st n as
  | .stop _ => endElement types st
  | .chars t => .ok (characters types st t)

def runEvents (types : OplFmt.Types) : List Ev → RSt → Except XErr RSt
  | [], st => .ok st
  | e :: es, st => bindE (stepEv types st e) fun st' => runEvents types es st'

/-- `XMLParser::run` on the events of the whole document: header + objects in file order -/
def read (types : OplFmt.Types) (evs : List Ev) : Except XErr (Header × List Object) :=
  bindE (runEvents types evs {}) fun st =>
  let st := markDone st
  .ok (st.headerOut.getD st.header, st.out.reverse)

/-- the reader behind a parser: `none` from the parser = `xml_error` -/
def readFile (expat : Bytes → Option (List Ev)) (types : OplFmt.Types) (doc : Bytes) : Except XErr (Header × List Object) :=
  match expat doc with
  | none => .error .xml
  | some evs => read types evs

/-! ## what a reader can get back -/

def projectMeta (o : Opts) (m : Meta) : Meta :=
  { m with
    version := if o.md.version then m.version else 0,
    visible := if o.changeOps || addVisibleFlag o then m.visible else true,
    timestamp := if o.md.timestamp then m.timestamp else 0,
    changeset := if o.md.changeset then m.changeset else 0,
    uid := if o.md.uid then m.uid else 0,
    user := if o.md.user then m.user else [] }

def projectLoc (l : Location) : Location := if bothDefined l then l else Location.undefined

def project (o : Opts) : Object → Object
  | .node m l => .node (projectMeta o m) (projectLoc l)
  | .way m ns => .way (projectMeta o m)
      (ns.map fun n => { n with location := if o.locationsOnWays then projectLoc n.location else Location.undefined })
  | .relation m ms => .relation (projectMeta o m) ms
  | .changeset id ca cl nc ncm uid user bl tr tags cs =>
    .changeset id ca cl nc ncm (if uid != 0 then uid else 0) (if uid != 0 then user else []) bl tr tags cs

/-- header as it comes back: generator, boxes normalised by `extend`, change files are marked as
    having multiple object versions -/
def projectHeader (o : Opts) (h : Header) : Header :=
  { generator := h.generator,
    boxes := h.boxes.map fun (bl, tr) => extendBox (extendBox (Location.undefined, Location.undefined) bl) tr,
    multipleVersions := o.changeOps }

/-! ## a tiny tokenizer (driver only): XML declaration, elements with attributes quoted by `"` or
`'`, end tags, character data, the five named entities and decimal / hexadecimal character
references, white space normalisation of attribute values, line-end normalisation of content. -/

def isNameByte (c : UInt8) : Bool :=
  (0x61 ≤ c && c ≤ 0x7a) || (0x41 ≤ c && c ≤ 0x5a) || (0x30 ≤ c && c ≤ 0x39) || c == 0x5f || c == 0x2d || c == 0x2e || c == 0x3a

def isWs (c : UInt8) : Bool := c == 0x20 || c == 0x09 || c == 0x0a || c == 0x0d

def nameOf (b : Bytes) : String := String.ofList (b.map fun c => Char.ofNat c.toNat)

/-- decode `&…;` at the head of `s` (after the '&') -/
def tokRef (s : Bytes) : Option (Bytes × Bytes) :=
  let body := s.takeWhile (· != 0x3b)
  match s.dropWhile (· != 0x3b) with
  | [] => none
  | _ :: rest =>
    match Xml.refValue (body.map (·.toNat)) with
    | some v => some (Utf8.encode v, rest)
    | none => none

def badChar (c : UInt8) : Bool := c < 0x20 && c != 0x09 && c != 0x0a && c != 0x0d

/-- attribute value up to the closing quote `q` -/
def tokAttrValue (q : UInt8) : Nat → Bytes → Option (Bytes × Bytes)
  | 0, _ => none
  | _ + 1, [] => none
  | f + 1, c :: s =>
    if c == q then some ([], s)
    else if c == 0x3c || badChar c then none
    else if c == 0x26 then
      match tokRef s with
      | some (v, rest) => (tokAttrValue q f rest).map fun (r, rest') => (v ++ r, rest')
      | none => none
    else if c == 0x0d && s.head? == some 0x0a then (tokAttrValue q f s.tail).map fun (r, rest') => (0x20 :: r, rest')
    else if isWs c then (tokAttrValue q f s).map fun (r, rest') => (0x20 :: r, rest')
    else (tokAttrValue q f s).map fun (r, rest') => (c :: r, rest')

/-- attributes up to `>` or `/>`: returns attrs, selfClose, rest -/
def tokAttrs : Nat → Bytes → Option (List (String × Bytes) × Bool × Bytes)
  | 0, _ => none
  | f + 1, s =>
    let s := s.dropWhile isWs
    match s with
    | 0x3e :: rest => some ([], false, rest)
    | 0x2f :: 0x3e :: rest => some ([], true, rest)
    | _ =>
      let n := s.takeWhile isNameByte
      if n.isEmpty then none
      else
        match (s.dropWhile isNameByte).dropWhile isWs with
        | 0x3d :: r1 =>
          match r1.dropWhile isWs with
          | q :: r2 =>
            if q == 0x22 || q == 0x27 then
              match tokAttrValue q (r2.length + 1) r2 with
              | some (v, r3) => (tokAttrs f r3).map fun (as, sc, rest) => ((nameOf n, v) :: as, sc, rest)
              | none => none
            else none
          | [] => none
        | _ => none

/-- character data up to the next '<' -/
def tokText : Nat → Bytes → Option (Bytes × Bytes)
  | 0, _ => none
  | _ + 1, [] => some ([], [])
  | f + 1, c :: s =>
    if c == 0x3c then some ([], c :: s)
    else if badChar c then none
    else if c == 0x26 then
      match tokRef s with
      | some (v, rest) => (tokText f rest).map fun (r, rest') => (v ++ r, rest')
      | none => none
    else if c == 0x0d && s.head? == some 0x0a then (tokText f s.tail).map fun (r, rest') => (0x0a :: r, rest')
    else if c == 0x0d then (tokText f s).map fun (r, rest') => (0x0a :: r, rest')
    else (tokText f s).map fun (r, rest') => (c :: r, rest')

def tokLoop : Nat → Bytes → List Ev → Option (List Ev)
  | 0, _, _ => none
  | _ + 1, [], acc => some acc.reverse
  | f + 1, c :: s, acc =>
    if c == 0x3c then
      match s with
      | 0x3f :: _ =>       -- <? … ?>
        let rest := (s.dropWhile (· != 0x3e)).tail
        tokLoop f rest acc
      | 0x2f :: r =>
        let n := r.takeWhile isNameByte
        match (r.dropWhile isNameByte).dropWhile isWs with
        | 0x3e :: rest => tokLoop f rest (.stop (nameOf n) :: acc)
        | _ => none
      | _ =>
        let n := s.takeWhile isNameByte
        if n.isEmpty then none
        else
          let r := s.dropWhile isNameByte
          match tokAttrs (r.length + 1) r with
          | some (as, sc, rest) =>
            tokLoop f rest (if sc then .stop (nameOf n) :: .start (nameOf n) as :: acc else .start (nameOf n) as :: acc)
          | none => none
    else
      match tokText (s.length + 2) (c :: s) with
      | some (t, rest) => tokLoop f rest (if t.isEmpty then acc else .chars t :: acc)
      | none => none

/-- events of a document; white space outside the root element is dropped (it is not character
    data) -/
def tokenize (doc : Bytes) : Option (List Ev) :=
  match tokLoop (doc.length + 1) doc [] with
  | none => none
  | some evs =>
    let evs := evs.dropWhile fun e => match e with | .chars _ => true | _ => false
    let evs := (evs.reverse.dropWhile fun e => match e with | .chars _ => true | _ => false).reverse
    some evs


/-! ## specification renderer (C02)

Written from the OSM XML description (wiki "OSM XML", API 0.6) and XML 1.0: attributes of an
element come in ANY order, are quoted with `"` or `'`, white space is allowed around `=` and
between attributes; `&`, `<` and the quote character must be written as references, any character
MAY be written as a decimal or hexadecimal character reference; an element without children can be
written `<a/>` or `<a></a>`; white space between elements (any indentation, LF or CRLF) is
insignificant; the XML declaration is optional; metadata attributes are optional; change files
group the objects in `<create>` / `<modify>` / `<delete>` sections (as many as needed), objects in a
`<delete>` section are not visible; `<bounds>` precede the data.  Every free choice is a field of
`Choices`. -/
namespace XmlSpec
open Osmium.Osm Osmium.TextFmt Osmium.Conv Osmium.XmlFmt

structure Choices where
  /-- selection permutation of the attributes of every element -/
  attrOrder : List Nat := []
  /-- quote of the i-th attribute of an element: even `"`, odd `'` -/
  quotes : List Nat := []
  /-- 0 as the writer; 1 minimal (only what XML demands); 2 decimal references for every character
      outside [A-Za-z0-9]; 3 upper-case hexadecimal references for those -/
  escMode : Nat := 0
  /-- 0 LF + two spaces per level; 1 nothing at all; 2 CRLF + tab -/
  wsMode : Nat := 0
  /-- write `<a></a>` instead of `<a/>` -/
  expandEmpty : Bool := false
  /-- omit metadata attributes that have their default value -/
  omitDefaults : Bool := true
  /-- 0 the writer's declaration; 1 double quotes; 2 none -/
  declMode : Nat := 0
  /-- ` = ` instead of `=` -/
  eqSpaces : Bool := false
  /-- write visible="true|false" on every object (history files) -/
  visibleAttr : Bool := false
  /-- tags before nd / member children -/
  tagsFirst : Bool := false
  /-- change file (`osmChange`) -/
  osc : Bool := false
  deriving Repr

def isAlnum (c : UInt8) : Bool := (0x30 ≤ c && c ≤ 0x39) || (0x41 ≤ c && c ≤ 0x5a) || (0x61 ≤ c && c ≤ 0x7a)

def decDigits (n : Nat) : Bytes := (toString n).toUTF8.toList

def hexUpper : Nat → Nat → Bytes
  | 0, _ => []
  | f + 1, n => (if n / 16 = 0 then [] else hexUpper f (n / 16)) ++ [OplFmt.OplSpec.hexU (n % 16)]

def charRef (hex : Bool) (c : Nat) : Bytes :=
  if hex then [0x26, 0x23, 0x78] ++ hexUpper 8 c ++ [0x3b] else [0x26, 0x23] ++ decDigits c ++ [0x3b]

/-- escape the value of an attribute quoted with `q` (`q = 0`: character data) -/
def esc (ch : Choices) (q : UInt8) (s : Bytes) : Bytes :=
  if ch.escMode = 0 then Xml.escape s
  else if ch.escMode = 1 then
    s.flatMap fun c =>
      if c == 0x26 then str "&amp;" else if c == 0x3c then str "&lt;"
      else if c == q && q == 0x22 then str "&quot;" else if c == q && q == 0x27 then str "&apos;"
      else if c == 0x09 || c == 0x0a || c == 0x0d then charRef true c.toNat
      else [c]
  else
    match Utf8.decodeStr s with
    | .ok cps => cps.flatMap fun c => if c < 0x80 && isAlnum (UInt8.ofNat c) then [UInt8.ofNat c] else charRef (ch.escMode = 3) c
    | .error _ => []

def attrsBytes (ch : Choices) (as : List (String × Bytes)) : Bytes :=
  let as := OplFmt.OplSpec.pick ch.attrOrder as
  (as.zipIdx.map fun (a, i) =>
    let q : UInt8 := if ch.quotes.getD i 0 % 2 = 0 then 0x22 else 0x27
    0x20 :: (str a.1 ++ (if ch.eqSpaces then [0x20, 0x3d, 0x20] else [0x3d]) ++ q :: (esc ch q a.2 ++ [q]))).flatten

def indent (ch : Choices) (level : Nat) : Bytes :=
  if ch.wsMode = 0 then 0x0a :: List.replicate (2 * level) 0x20
  else if ch.wsMode = 1 then []
  else 0x0d :: 0x0a :: List.replicate level 0x09

/-- an element with children (already rendered, each with its own leading indentation) -/
def element (ch : Choices) (level : Nat) (name : String) (as : List (String × Bytes)) (children : List Bytes) : Bytes :=
  indent ch level ++ 0x3c :: (str name ++ attrsBytes ch as) ++
  (if children.isEmpty then (if ch.expandEmpty then 0x3e :: 0x3c :: 0x2f :: (str name ++ [0x3e]) else [0x2f, 0x3e])
   else 0x3e :: children.flatten ++ indent ch level ++ 0x3c :: 0x2f :: (str name ++ [0x3e]))

def num (v : Int) : Bytes := (outputInt v).getD []

def metaAttrs (ch : Choices) (m : Meta) : List (String × Bytes) :=
  [("id", num m.id)] ++
  (if ch.omitDefaults && m.version == 0 then [] else [("version", num m.version)]) ++
  (if m.timestamp == 0 then [] else [("timestamp", toIsoAll m.timestamp)]) ++
  (if ch.omitDefaults && m.uid == 0 then [] else [("uid", num m.uid)]) ++
  (if ch.omitDefaults && m.user.isEmpty then [] else [("user", m.user)]) ++
  (if ch.omitDefaults && m.changeset == 0 then [] else [("changeset", num m.changeset)]) ++
  (if ch.visibleAttr then [("visible", (if m.visible then bTrue else bFalse))] else [])

def tagEls (ch : Choices) (level : Nat) (ts : List Tag) : List Bytes :=
  ts.map fun t => element ch level "tag" [("k", t.key), ("v", t.value)] []

def latLon (lat lon : String) (l : Location) : List (String × Bytes) :=
  [(lat, formatCoord l.y), (lon, formatCoord l.x)]

def objectEl (ch : Choices) (level : Nat) : Object → Bytes
  | .node m l =>
    element ch level "node" (metaAttrs ch m ++ (if bothDefined l then latLon "lat" "lon" l else [])) (tagEls ch (level + 1) m.tags)
  | .way m ns =>
    let nds := ns.map fun n => element ch (level + 1) "nd"
      (("ref", num n.ref) :: (if bothDefined n.location then latLon "lat" "lon" n.location else [])) []
    let tags := tagEls ch (level + 1) m.tags
    element ch level "way" (metaAttrs ch m) (if ch.tagsFirst then tags ++ nds else nds ++ tags)
  | .relation m ms =>
    let mem := ms.map fun x => element ch (level + 1) "member"
      [("type", typeName x.type), ("ref", num x.ref), ("role", x.role)] []
    let tags := tagEls ch (level + 1) m.tags
    element ch level "relation" (metaAttrs ch m) (if ch.tagsFirst then tags ++ mem else mem ++ tags)
  | .changeset id ca cl nc ncm uid user bl tr tags cs =>
    let as := [("id", num id)] ++ (if ca == 0 then [] else [("created_at", toIso ca)]) ++
      (if cl == 0 then [("open", bTrue)] else [("closed_at", toIso cl), ("open", bFalse)]) ++
      (if uid == 0 then [] else [("user", user), ("uid", num uid)]) ++
      (if isUndefined bl && isUndefined tr then [] else latLon "min_lat" "min_lon" bl ++ latLon "max_lat" "max_lon" tr) ++
      [("num_changes", num nc), ("comments_count", num ncm)]
    let disc := if cs.isEmpty then [] else
      [element ch (level + 1) "discussion" [] (cs.map fun c =>
        element ch (level + 2) "comment" [("uid", num c.uid), ("user", c.user), ("date", toIsoAll c.date)]
          [indent ch (level + 3) ++ str "<text>" ++ esc ch 0 c.text ++ str "</text>"])]
    element ch level "changeset" as (tagEls ch (level + 1) tags ++ disc)

def opOfObj : Object → Nat
  | .node m _ => opOf m
  | .way m _ => opOf m
  | .relation m _ => opOf m
  | _ => 0

/-- consecutive objects with the same operation share a section -/
def sections : List Object → List (Nat × List Object)
  | [] => []
  | o :: os =>
    match sections os with
    | (op, grp) :: rest => if op = opOfObj o then (op, o :: grp) :: rest else (opOfObj o, [o]) :: (op, grp) :: rest
    | [] => [(opOfObj o, [o])]

def decl (ch : Choices) : Bytes :=
  if ch.declMode = 0 then str "<?xml version='1.0' encoding='UTF-8'?>"
  else if ch.declMode = 1 then str "<?xml version=\"1.0\" encoding=\"UTF-8\"?>"
  else []

def render (ch : Choices) (h : Header) (objs : List Object) : Bytes :=
  let bounds := h.boxes.map fun (bl, tr) =>
    element ch 1 "bounds" (latLon "minlat" "minlon" bl ++ latLon "maxlat" "maxlon" tr) []
  let body :=
    if ch.osc then (sections objs).map fun (op, grp) => element ch 1 (opName op) [] (grp.map (objectEl ch 2))
    else objs.map (objectEl ch 1)
  let root := if ch.osc then "osmChange" else "osm"
  let doc := element ch 0 root [("version", bVersion), ("generator", h.generator)] (bounds ++ body)
  -- no white space in front of the XML declaration / the root element
  decl ch ++ (if ch.declMode = 2 then doc.dropWhile isWs else doc) ++ [0x0a]

end XmlSpec

end Osmium.XmlFmt
