/-
GENERATED on every run by tools/props/c20.py from the output of harness/c20_dump.cpp, which is
compiled from the CURRENT /repo/include.  DO NOT EDIT.  The types are a fixed preamble; the three
tables are what the code does NOW:
  dispatchRaw  osmium::apply_item(static_cast<[const] Class&>(item), handler) for one item of every
               item_type: the callbacks invoked, in order, with the const-ness of the reference
               each received (true = non-const overload selected); none = throws unknown_type
  compatRaw    T::is_compatible_to(item_type) — what ItemIterator<T> / InputIterator<_, T> keep
  wrapperRaw   whether a function object with the given parameter signature, wrapped by
               osmium::apply (detail::wrapper_handler), is invoked for an item of that type, and
               through which const-ness (some true = non-const parameter)
-/
namespace Osmium.Generated.C20

inductive ItemType
  | undefined | node | way | relation | area | changeset | tagList | wayNodeList | relationMemberList
  | relationMemberListFull | outerRing | innerRing | changesetDiscussion
  deriving Repr, DecidableEq, Inhabited

inductive Callback
  | osmObject | node | way | relation | area | changeset | tagList | wayNodeList | relationMemberList
  | outerRing | innerRing | changesetDiscussion | flush
  deriving Repr, DecidableEq, Inhabited

inductive Constness | const | mut
  deriving Repr, DecidableEq, Inhabited

/-- static type of the reference handed to `apply_item` (which overload of `apply_item_impl`) -/
inductive ItemClass | item | entity | object
  deriving Repr, DecidableEq, Inhabited

/-- template argument of `ItemIterator<T>` -/
inductive FilterClass
  | item | entity | object | node | way | relation | area | changeset | tagList | wayNodeList
  | relationMemberList | outerRing | innerRing | changesetDiscussion
  deriving Repr, DecidableEq, Inhabited

/-- parameter type of a wrapped function object (`generic` = `auto`) -/
inductive Param | node | way | relation | area | changeset | object | entity | item | generic
  deriving Repr, DecidableEq, Inhabited


def dispatchRaw : ItemClass → Constness → ItemType → Option (List (Callback × Bool))
  | .item, .const, .undefined => some []
  | .item, .const, .node => some [(.osmObject, false), (.node, false)]
  | .item, .const, .way => some [(.osmObject, false), (.way, false)]
  | .item, .const, .relation => some [(.osmObject, false), (.relation, false)]
  | .item, .const, .area => some [(.osmObject, false), (.area, false)]
  | .item, .const, .changeset => some [(.changeset, false)]
  | .item, .const, .tagList => some [(.tagList, false)]
  | .item, .const, .wayNodeList => some [(.wayNodeList, false)]
  | .item, .const, .relationMemberList => some [(.relationMemberList, false)]
  | .item, .const, .relationMemberListFull => some [(.relationMemberList, false)]
  | .item, .const, .outerRing => some [(.outerRing, false)]
  | .item, .const, .innerRing => some [(.innerRing, false)]
  | .item, .const, .changesetDiscussion => some [(.changesetDiscussion, false)]
  | .item, .mut, .undefined => some []
  | .item, .mut, .node => some [(.osmObject, true), (.node, true)]
  | .item, .mut, .way => some [(.osmObject, true), (.way, true)]
  | .item, .mut, .relation => some [(.osmObject, true), (.relation, true)]
  | .item, .mut, .area => some [(.osmObject, true), (.area, true)]
  | .item, .mut, .changeset => some [(.changeset, true)]
  | .item, .mut, .tagList => some [(.tagList, true)]
  | .item, .mut, .wayNodeList => some [(.wayNodeList, true)]
  | .item, .mut, .relationMemberList => some [(.relationMemberList, true)]
  | .item, .mut, .relationMemberListFull => some [(.relationMemberList, true)]
  | .item, .mut, .outerRing => some [(.outerRing, true)]
  | .item, .mut, .innerRing => some [(.innerRing, true)]
  | .item, .mut, .changesetDiscussion => some [(.changesetDiscussion, true)]
  | .entity, .const, .undefined => none
  | .entity, .const, .node => some [(.osmObject, false), (.node, false)]
  | .entity, .const, .way => some [(.osmObject, false), (.way, false)]
  | .entity, .const, .relation => some [(.osmObject, false), (.relation, false)]
  | .entity, .const, .area => some [(.osmObject, false), (.area, false)]
  | .entity, .const, .changeset => some [(.changeset, false)]
  | .entity, .const, .tagList => none
  | .entity, .const, .wayNodeList => none
  | .entity, .const, .relationMemberList => none
  | .entity, .const, .relationMemberListFull => none
  | .entity, .const, .outerRing => none
  | .entity, .const, .innerRing => none
  | .entity, .const, .changesetDiscussion => none
  | .entity, .mut, .undefined => none
  | .entity, .mut, .node => some [(.osmObject, true), (.node, true)]
  | .entity, .mut, .way => some [(.osmObject, true), (.way, true)]
  | .entity, .mut, .relation => some [(.osmObject, true), (.relation, true)]
  | .entity, .mut, .area => some [(.osmObject, true), (.area, true)]
  | .entity, .mut, .changeset => some [(.changeset, true)]
  | .entity, .mut, .tagList => none
  | .entity, .mut, .wayNodeList => none
  | .entity, .mut, .relationMemberList => none
  | .entity, .mut, .relationMemberListFull => none
  | .entity, .mut, .outerRing => none
  | .entity, .mut, .innerRing => none
  | .entity, .mut, .changesetDiscussion => none
  | .object, .const, .undefined => none
  | .object, .const, .node => some [(.osmObject, false), (.node, false)]
  | .object, .const, .way => some [(.osmObject, false), (.way, false)]
  | .object, .const, .relation => some [(.osmObject, false), (.relation, false)]
  | .object, .const, .area => some [(.osmObject, false), (.area, false)]
  | .object, .const, .changeset => none
  | .object, .const, .tagList => none
  | .object, .const, .wayNodeList => none
  | .object, .const, .relationMemberList => none
  | .object, .const, .relationMemberListFull => none
  | .object, .const, .outerRing => none
  | .object, .const, .innerRing => none
  | .object, .const, .changesetDiscussion => none
  | .object, .mut, .undefined => none
  | .object, .mut, .node => some [(.osmObject, true), (.node, true)]
  | .object, .mut, .way => some [(.osmObject, true), (.way, true)]
  | .object, .mut, .relation => some [(.osmObject, true), (.relation, true)]
  | .object, .mut, .area => some [(.osmObject, true), (.area, true)]
  | .object, .mut, .changeset => none
  | .object, .mut, .tagList => none
  | .object, .mut, .wayNodeList => none
  | .object, .mut, .relationMemberList => none
  | .object, .mut, .relationMemberListFull => none
  | .object, .mut, .outerRing => none
  | .object, .mut, .innerRing => none
  | .object, .mut, .changesetDiscussion => none

def compatRaw : FilterClass → ItemType → Bool
  | .item, .undefined => true
  | .item, .node => true
  | .item, .way => true
  | .item, .relation => true
  | .item, .area => true
  | .item, .changeset => true
  | .item, .tagList => true
  | .item, .wayNodeList => true
  | .item, .relationMemberList => true
  | .item, .relationMemberListFull => true
  | .item, .outerRing => true
  | .item, .innerRing => true
  | .item, .changesetDiscussion => true
  | .entity, .node => true
  | .entity, .way => true
  | .entity, .relation => true
  | .entity, .area => true
  | .entity, .changeset => true
  | .object, .node => true
  | .object, .way => true
  | .object, .relation => true
  | .object, .area => true
  | .node, .node => true
  | .way, .way => true
  | .relation, .relation => true
  | .area, .area => true
  | .changeset, .changeset => true
  | .tagList, .tagList => true
  | .wayNodeList, .wayNodeList => true
  | .relationMemberList, .relationMemberList => true
  | .relationMemberList, .relationMemberListFull => true
  | .outerRing, .outerRing => true
  | .innerRing, .innerRing => true
  | .changesetDiscussion, .changesetDiscussion => true
  | _, _ => false

/-- arguments: parameter class, parameter is a non-const reference, const-ness of the container, item type -/
def wrapperRaw : Param → Bool → Constness → ItemType → Option Bool
  | .node, false, .const, .node => some false
  | .node, false, .mut, .node => some false
  | .node, true, .mut, .node => some true
  | .way, false, .const, .way => some false
  | .way, false, .mut, .way => some false
  | .way, true, .mut, .way => some true
  | .relation, false, .const, .relation => some false
  | .relation, false, .mut, .relation => some false
  | .relation, true, .mut, .relation => some true
  | .area, false, .const, .area => some false
  | .area, false, .mut, .area => some false
  | .area, true, .mut, .area => some true
  | .changeset, false, .const, .changeset => some false
  | .changeset, false, .mut, .changeset => some false
  | .changeset, true, .mut, .changeset => some true
  | .object, false, .const, .node => some false
  | .object, false, .const, .way => some false
  | .object, false, .const, .relation => some false
  | .object, false, .const, .area => some false
  | .object, false, .mut, .node => some false
  | .object, false, .mut, .way => some false
  | .object, false, .mut, .relation => some false
  | .object, false, .mut, .area => some false
  | .object, true, .mut, .node => some true
  | .object, true, .mut, .way => some true
  | .object, true, .mut, .relation => some true
  | .object, true, .mut, .area => some true
  | .entity, false, .const, .node => some false
  | .entity, false, .const, .way => some false
  | .entity, false, .const, .relation => some false
  | .entity, false, .const, .area => some false
  | .entity, false, .const, .changeset => some false
  | .entity, false, .mut, .node => some false
  | .entity, false, .mut, .way => some false
  | .entity, false, .mut, .relation => some false
  | .entity, false, .mut, .area => some false
  | .entity, false, .mut, .changeset => some false
  | .entity, true, .mut, .node => some true
  | .entity, true, .mut, .way => some true
  | .entity, true, .mut, .relation => some true
  | .entity, true, .mut, .area => some true
  | .entity, true, .mut, .changeset => some true
  | .item, true, .mut, .node => some true
  | .item, true, .mut, .way => some true
  | .item, true, .mut, .relation => some true
  | .item, true, .mut, .area => some true
  | .item, true, .mut, .changeset => some true
  | .generic, false, .const, .node => some false
  | .generic, false, .const, .way => some false
  | .generic, false, .const, .relation => some false
  | .generic, false, .const, .area => some false
  | .generic, false, .const, .changeset => some false
  | .generic, false, .mut, .node => some false
  | .generic, false, .mut, .way => some false
  | .generic, false, .mut, .relation => some false
  | .generic, false, .mut, .area => some false
  | .generic, false, .mut, .changeset => some false
  | .generic, true, .const, .node => some false
  | .generic, true, .const, .way => some false
  | .generic, true, .const, .relation => some false
  | .generic, true, .const, .area => some false
  | .generic, true, .const, .changeset => some false
  | .generic, true, .mut, .node => some true
  | .generic, true, .mut, .way => some true
  | .generic, true, .mut, .relation => some true
  | .generic, true, .mut, .area => some true
  | .generic, true, .mut, .changeset => some true
  | _, _, _, _ => none

end Osmium.Generated.C20
