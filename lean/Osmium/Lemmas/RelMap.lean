/-
Helper lemmas for the relation-map part of C15.
-/
import Osmium.Model.RelMap

namespace Osmium.RelMap

/-- the stash after recording the pairs (member, parent) in this order -/
def recorded (adds : List (Nat × Nat)) : Stash := adds.foldl (fun s p => s.add p.1 p.2) {}

def swap (p : Nat × Nat) : Nat × Nat := (p.2, p.1)

/-- `for_each k` delivers exactly the values recorded for `k`: ascending, each once -/
def LookupExact (ix : Index) (pairs : List (Nat × Nat)) (k : Nat) : Prop :=
  (ix.forEach k).Pairwise (· < ·) ∧ ∀ v, v ∈ ix.forEach k ↔ (k, v) ∈ pairs

/-- all ids are `unsigned_object_id_type` values -/
def InRange (adds : List (Nat × Nat)) : Prop := ∀ p ∈ adds, p.1 < 2 ^ 64 ∧ p.2 < 2 ^ 64

/-- "the index is a 64-bit one": some recorded pair does not fit into 32 bits -/
def Has64 (adds : List (Nat × Nat)) : Prop := ∃ p ∈ adds, 2 ^ 32 ≤ p.1 ∨ 2 ^ 32 ≤ p.2

/-! ### order, sort, unique, get -/

def LtP (a b : Nat × Nat) : Prop := a.1 < b.1 ∨ (a.1 = b.1 ∧ a.2 < b.2)
def LeP (a b : Nat × Nat) : Prop := a.1 < b.1 ∨ (a.1 = b.1 ∧ a.2 ≤ b.2)

theorem kvLt_iff (a b : Nat × Nat) : kvLt a b = true ↔ LtP a b := by
  simp [kvLt, LtP]

theorem kvLe_iff (a b : Nat × Nat) : kvLe a b = true ↔ LeP a b := by
  simp [kvLe, kvLt, LeP]; omega

theorem kvLe_trans (a b c : Nat × Nat) : kvLe a b = true → kvLe b c = true → kvLe a c = true := by
  simp only [kvLe_iff, LeP]; omega

theorem kvLe_total (a b : Nat × Nat) : (kvLe a b || kvLe b a) = true := by
  simp only [Bool.or_eq_true, kvLe_iff, LeP]; omega

theorem LtP_of_LeP_ne {a b : Nat × Nat} (h : LeP a b) (hne : a ≠ b) : LtP a b := by
  have : a.1 ≠ b.1 ∨ a.2 ≠ b.2 := by
    by_cases h1 : a.1 = b.1
    · right; intro h2; exact hne (Prod.ext h1 h2)
    · left; exact h1
  simp only [LeP, LtP] at *; omega

theorem LtP_of_LtP_of_LeP {a b c : Nat × Nat} (h : LtP a b) (h2 : LeP b c) : LtP a c := by
  simp only [LeP, LtP] at *; omega

theorem mem_uniq (l : List (Nat × Nat)) (p : Nat × Nat) : p ∈ uniq l ↔ p ∈ l := by
  fun_induction uniq l with
  | case1 => simp
  | case2 a => simp
  | case3 a r ih => simp [ih]
  | case4 a b r h ih => simp [ih]

theorem pairwise_uniq (l : List (Nat × Nat)) (hs : l.Pairwise LeP) : (uniq l).Pairwise LtP := by
  fun_induction uniq l with
  | case1 => simp
  | case2 a => simp
  | case3 a r ih => exact ih (List.pairwise_cons.1 hs).2
  | case4 a b r h ih =>
    have hs' := List.pairwise_cons.1 hs
    refine List.pairwise_cons.2 ⟨?_, ih hs'.2⟩
    intro x hx
    rw [mem_uniq] at hx
    have hab : LtP a b := LtP_of_LeP_ne (hs'.1 b (by simp)) h
    rcases List.mem_cons.1 hx with rfl | hx
    · exact hab
    · exact LtP_of_LtP_of_LeP hab ((List.pairwise_cons.1 hs'.2).1 x hx)

theorem mem_sortUnique (m : FlatMap) (p : Nat × Nat) : p ∈ m.sortUnique ↔ p ∈ m := by
  rw [FlatMap.sortUnique, mem_uniq]
  exact (List.mergeSort_perm m kvLe).mem_iff

theorem sorted_sortUnique (m : FlatMap) : m.sortUnique.Pairwise LtP := by
  apply pairwise_uniq
  have := List.pairwise_mergeSort kvLe_trans kvLe_total m
  exact this.imp (fun h => (kvLe_iff _ _).1 h)

theorem takeWhile_eq_filter {α} (R : α → α → Prop) (P : α → Bool) (l : List α)
    (hs : l.Pairwise R) (hP : ∀ a b, R a b → P b = true → P a = true) :
    l.takeWhile P = l.filter P := by
  induction l with
  | nil => rfl
  | cons a r ih =>
    have hs' := List.pairwise_cons.1 hs
    by_cases ha : P a = true
    · simp [ha, ih hs'.2]
    · have : r.filter P = [] := by
        rw [List.filter_eq_nil_iff]
        intro b hb hPb
        exact ha (hP a b (hs'.1 b hb) hPb)
      simp [ha, this]

theorem dropWhile_eq_filter {α} (R : α → α → Prop) (P : α → Bool) (l : List α)
    (hs : l.Pairwise R) (hP : ∀ a b, R a b → P b = true → P a = true) :
    l.dropWhile P = l.filter (fun x => !P x) := by
  induction l with
  | nil => rfl
  | cons a r ih =>
    have hs' := List.pairwise_cons.1 hs
    by_cases ha : P a = true
    · simp [ha, ih hs'.2]
    · have : r.filter (fun x => !P x) = r := by
        rw [List.filter_eq_self]
        intro b hb
        have : ¬ P b = true := fun hPb => ha (hP a b (hs'.1 b hb) hPb)
        simpa using this
      simp [ha, this]

theorem get_eq_filter (iw : Nat) (m : FlatMap) (key : Nat) (hs : m.Pairwise LtP) :
    m.get iw key = (m.filter (fun p => !(decide (p.1 < cast iw key)))).filter
      (fun p => !(decide (cast iw key < p.1))) := by
  unfold FlatMap.get
  simp only []
  rw [dropWhile_eq_filter LtP _ m hs]
  · apply takeWhile_eq_filter LtP
    · exact hs.filter _
    · intro a b hab; simp only [LtP] at hab; simp; omega
  · intro a b hab; simp only [LtP] at hab; simp; omega

theorem mem_get (iw : Nat) (m : FlatMap) (key : Nat) (hs : m.Pairwise LtP) (p : Nat × Nat) :
    p ∈ m.get iw key ↔ p ∈ m ∧ p.1 = cast iw key := by
  rw [get_eq_filter iw m key hs]
  simp [List.mem_filter]; omega

theorem get_spec (iw : Nat) (m : FlatMap) (key : Nat) (hs : m.Pairwise LtP) :
    ((m.get iw key).map (·.2)).Pairwise (· < ·) ∧
      ∀ v, v ∈ (m.get iw key).map (·.2) ↔ (cast iw key, v) ∈ m := by
  constructor
  · rw [List.pairwise_map]
    have hsub : (m.get iw key).Pairwise LtP := by
      rw [get_eq_filter iw m key hs]; exact (hs.filter _).filter _
    refine hsub.imp_of_mem ?_
    intro a b ha hb hab
    rw [mem_get iw m key hs] at ha hb
    simp only [LtP] at hab; omega
  · intro v
    simp only [List.mem_map, mem_get iw m key hs]
    constructor
    · rintro ⟨⟨a, b⟩, ⟨hm, hk⟩, rfl⟩
      simp only at hk; subst hk; exact hm
    · intro h; exact ⟨_, ⟨h, rfl⟩, rfl⟩


/-! ### the stash -/

def both32 (p : Nat × Nat) : Bool := p.1 ≤ max32 && p.2 ≤ max32

theorem both32_iff (p : Nat × Nat) : both32 p = true ↔ p.1 < 2 ^ 32 ∧ p.2 < 2 ^ 32 := by
  unfold both32
  rw [Bool.and_eq_true, decide_eq_true_iff, decide_eq_true_iff]
  simp only [max32]; omega

theorem foldl_add (adds : List (Nat × Nat)) (s : Stash) :
    adds.foldl (fun s p => s.add p.1 p.2) s =
      { map32 := s.map32 ++ (adds.filter both32).map (fun p => (cast 32 p.1, cast 32 p.2)),
        map64 := s.map64 ++ (adds.filter (fun p => !both32 p)).map
          (fun p => (cast 64 p.1, cast 64 p.2)) } := by
  induction adds generalizing s with
  | nil => simp
  | cons a r ih =>
    rw [List.foldl_cons, ih]
    by_cases h : both32 a = true
    · have h' : (decide (a.1 ≤ max32) && decide (a.2 ≤ max32)) = true := h
      simp [Stash.add, FlatMap.set, h, h']
    · have h' : ¬ (decide (a.1 ≤ max32) && decide (a.2 ≤ max32)) = true := h
      simp [Stash.add, FlatMap.set, h, h']

theorem cast_of_lt {iw x : Nat} (h : x < 2 ^ iw) : cast iw x = x := Nat.mod_eq_of_lt h

/-- what the two builders need to know about a stash -/
structure Rep (s : Stash) (adds : List (Nat × Nat)) : Prop where
  m32 : ∀ p, p ∈ s.map32 ↔ p ∈ adds ∧ (p.1 < 2 ^ 32 ∧ p.2 < 2 ^ 32)
  m64 : ∀ p, p ∈ s.map64 ↔ p ∈ adds ∧ ¬ (p.1 < 2 ^ 32 ∧ p.2 < 2 ^ 32)

theorem rep_recorded (adds : List (Nat × Nat)) (hr : InRange adds) : Rep (recorded adds) adds := by
  unfold recorded
  rw [foldl_add]
  constructor
  · intro p
    simp only [List.nil_append, List.mem_map, List.mem_filter, both32_iff]
    constructor
    · rintro ⟨q, ⟨hq, h1, h2⟩, rfl⟩
      rw [cast_of_lt h1, cast_of_lt h2]; exact ⟨hq, h1, h2⟩
    · rintro ⟨hp, h1, h2⟩
      exact ⟨p, ⟨hp, h1, h2⟩, by rw [cast_of_lt h1, cast_of_lt h2]⟩
  · intro p
    simp only [List.nil_append, List.mem_map, List.mem_filter, Bool.not_eq_true', ← Bool.not_eq_true,
      both32_iff]
    constructor
    · rintro ⟨q, ⟨hq, hn⟩, rfl⟩
      rw [cast_of_lt (hr q hq).1, cast_of_lt (hr q hq).2]; exact ⟨hq, hn⟩
    · rintro ⟨hp, hn⟩
      exact ⟨p, ⟨hp, hn⟩, by rw [cast_of_lt (hr p hp).1, cast_of_lt (hr p hp).2]⟩

theorem mem_flip (m : FlatMap) (p : Nat × Nat) : p ∈ m.flip ↔ swap p ∈ m := by
  simp only [FlatMap.flip, List.mem_map, swap]
  constructor
  · rintro ⟨q, hq, rfl⟩; exact hq
  · intro h; exact ⟨_, h, rfl⟩

theorem mem_map_swap (l : List (Nat × Nat)) (p : Nat × Nat) : p ∈ l.map swap ↔ swap p ∈ l :=
  mem_flip l p

theorem rep_flip {s : Stash} {adds : List (Nat × Nat)} (h : Rep s adds) :
    Rep { map32 := s.map32.flip, map64 := s.map64.flip } (adds.map swap) := by
  constructor
  · intro p; simp only [mem_flip, mem_map_swap, h.m32, swap]
    constructor <;> rintro ⟨h1, h2⟩ <;> exact ⟨h1, by omega⟩
  · intro p; simp only [mem_flip, mem_map_swap, h.m64, swap]
    constructor <;> rintro ⟨h1, h2⟩ <;> exact ⟨h1, by omega⟩

theorem inRange_swap {adds : List (Nat × Nat)} (hr : InRange adds) : InRange (adds.map swap) := by
  intro p hp
  rw [mem_map_swap] at hp
  have := hr _ hp
  simp only [swap] at this; omega

theorem has64_swap {adds : List (Nat × Nat)} (h : Has64 adds) : Has64 (adds.map swap) := by
  obtain ⟨p, hp, h⟩ := h
  refine ⟨swap p, ?_, ?_⟩
  · rw [mem_map_swap]; exact hp
  · simp only [swap]; omega

theorem p2m_eq_m2p (s : Stash) :
    s.buildParentToMember =
      ({ map32 := s.map32.flip, map64 := s.map64.flip } : Stash).buildMemberToParent := by
  simp [Stash.buildParentToMember, Stash.buildMemberToParent, FlatMap.flip]

/-! ### append32to64 -/

theorem foldl_set (m32 m64 : FlatMap) :
    m32.foldl (fun acc p => acc.set 64 p.1 p.2) m64 =
      m64 ++ m32.map (fun p => (cast 64 p.1, cast 64 p.2)) := by
  induction m32 generalizing m64 with
  | nil => simp
  | cons a r ih => rw [List.foldl_cons, ih]; simp [FlatMap.set]

theorem mem_append32to64 (m32 m64 : FlatMap) (p : Nat × Nat) :
    p ∈ append32to64 m32 m64 ↔ p ∈ m64 ∨ ∃ q ∈ m32, (cast 64 q.1, cast 64 q.2) = p := by
  simp only [append32to64, foldl_set, mem_sortUnique, List.mem_append, List.mem_map]

/-! ### the stored map of an index -/

def Index.store (ix : Index) : FlatMap := if ix.small then ix.map32 else ix.map64
def Index.iw (ix : Index) : Nat := if ix.small then 32 else 64

theorem size_eq_store (ix : Index) : ix.size = ix.store.length := by
  unfold Index.size Index.store; split <;> rfl

theorem isEmpty_iff_not_has64 {s : Stash} {adds : List (Nat × Nat)} (h : Rep s adds) :
    s.map64.isEmpty = true ↔ ¬ Has64 adds := by
  rw [List.isEmpty_iff]
  constructor
  · rintro he ⟨p, hp, hb⟩
    have : p ∈ s.map64 := (h.m64 p).2 ⟨hp, by omega⟩
    rw [he] at this; simp at this
  · intro hn
    rw [List.eq_nil_iff_forall_not_mem]
    intro p hp
    have := (h.m64 p).1 hp
    exact hn ⟨p, this.1, by omega⟩

theorem store_spec {s : Stash} {adds : List (Nat × Nat)} (h : Rep s adds) :
    s.buildMemberToParent.store.Pairwise LtP ∧
      ∀ p, p ∈ s.buildMemberToParent.store ↔ p ∈ adds := by
  unfold Stash.buildMemberToParent Index.store
  by_cases he : s.map64.isEmpty = true
  · simp only [he, if_true]
    refine ⟨sorted_sortUnique _, fun p => ?_⟩
    rw [mem_sortUnique, h.m32]
    have hn := (isEmpty_iff_not_has64 h).1 he
    constructor
    · exact fun hp => hp.1
    · intro hp
      refine ⟨hp, ?_⟩
      false_or_by_contra
      exact hn ⟨p, hp, by omega⟩
  · simp only [he, if_false, Bool.false_eq_true]
    refine ⟨sorted_sortUnique _, fun p => ?_⟩
    rw [mem_append32to64, h.m64]
    constructor
    · rintro (hp | ⟨q, hq, rfl⟩)
      · exact hp.1
      · rw [mem_sortUnique, h.m32] at hq
        rw [cast_of_lt (by omega : q.1 < 2 ^ 64), cast_of_lt (by omega : q.2 < 2 ^ 64)]
        exact hq.1
    · intro hp
      by_cases hb : p.1 < 2 ^ 32 ∧ p.2 < 2 ^ 32
      · right
        refine ⟨p, ?_, ?_⟩
        · rw [mem_sortUnique, h.m32]; exact ⟨hp, hb⟩
        · rw [cast_of_lt (by omega : p.1 < 2 ^ 64), cast_of_lt (by omega : p.2 < 2 ^ 64)]
      · left; exact ⟨hp, hb⟩

theorem forEach_eq (ix : Index) (k : Nat) (hk : ix.small = true → k < 2 ^ 32) :
    ix.forEach k = (ix.store.get ix.iw k).map (·.2) := by
  unfold Index.forEach Index.store Index.iw
  by_cases hs : ix.small = true
  · have : decide (k > max32) = false := by
      have := hk hs
      simp [max32]; omega
    simp [hs, this]
  · simp [hs]

theorem small_iff (s : Stash) : s.buildMemberToParent.small = s.map64.isEmpty := by
  unfold Stash.buildMemberToParent
  by_cases he : s.map64.isEmpty = true <;> simp [he]

theorem lookup_of_rep {s : Stash} {adds : List (Nat × Nat)} (hrep : Rep s adds) (k : Nat)
    (hk : k < 2 ^ 64) (h : k < 2 ^ 32 ∨ Has64 adds) :
    LookupExact s.buildMemberToParent adds k := by
  have hsm : s.buildMemberToParent.small = true → k < 2 ^ 32 := by
    intro hs
    rw [small_iff, isEmpty_iff_not_has64 hrep] at hs
    rcases h with h | h
    · exact h
    · exact absurd h hs
  have hc : cast s.buildMemberToParent.iw k = k := by
    apply cast_of_lt
    unfold Index.iw
    split
    · next hs => exact hsm hs
    · exact hk
  obtain ⟨hsorted, hmem⟩ := store_spec hrep
  have := get_spec s.buildMemberToParent.iw _ k hsorted
  unfold LookupExact
  rw [forEach_eq _ _ hsm]
  refine ⟨this.1, fun v => ?_⟩
  rw [this.2 v, hc, hmem]

-- TARGETS (statements must not be weakened):

/-- after the F3 fix: a 32-bit index probed with a key that does not fit into 32 bits delivers
    nothing, and nothing was recorded for such a key -/
theorem lookup_of_rep_big {s : Stash} {adds : List (Nat × Nat)} (hrep : Rep s adds) (k : Nat)
    (hk32 : ¬ k < 2 ^ 32) (hn : ¬ Has64 adds) :
    LookupExact s.buildMemberToParent adds k := by
  have hs : s.buildMemberToParent.small = true := by
    rw [small_iff, isEmpty_iff_not_has64 hrep]; exact hn
  have hfe : s.buildMemberToParent.forEach k = [] := by
    unfold Index.forEach
    have : decide (k > max32) = true := by
      simp [max32]; omega
    simp [hs, this, FIXED_F3]
  unfold LookupExact
  rw [hfe]
  refine ⟨List.Pairwise.nil, fun v => ?_⟩
  constructor
  · intro h; simp at h
  · intro h
    exact absurd ⟨(k, v), h, Or.inl (by simp only; omega)⟩ hn

theorem lookup_of_rep_full {s : Stash} {adds : List (Nat × Nat)} (hrep : Rep s adds) (k : Nat)
    (hk : k < 2 ^ 64) : LookupExact s.buildMemberToParent adds k := by
  by_cases h : k < 2 ^ 32 ∨ Has64 adds
  · exact lookup_of_rep hrep k hk h
  · exact lookup_of_rep_big hrep k (fun h1 => h (Or.inl h1)) (fun h2 => h (Or.inr h2))

theorem lookup_member_to_parent (adds : List (Nat × Nat)) (k : Nat) (hr : InRange adds)
    (hk : k < 2 ^ 64) (h : k < 2 ^ 32 ∨ Has64 adds) :
    LookupExact (recorded adds).buildMemberToParent adds k :=
  lookup_of_rep (rep_recorded adds hr) k hk h

theorem lookup_parent_to_member (adds : List (Nat × Nat)) (k : Nat) (hr : InRange adds)
    (hk : k < 2 ^ 64) (h : k < 2 ^ 32 ∨ Has64 adds) :
    LookupExact (recorded adds).buildParentToMember (adds.map swap) k := by
  rw [p2m_eq_m2p]
  exact lookup_of_rep (rep_flip (rep_recorded adds hr)) k hk (h.imp id has64_swap)

/-- FULL statements (hold after the F3 fix): no restriction on the key -/
theorem lookup_member_to_parent_full (adds : List (Nat × Nat)) (k : Nat) (hr : InRange adds)
    (hk : k < 2 ^ 64) : LookupExact (recorded adds).buildMemberToParent adds k :=
  lookup_of_rep_full (rep_recorded adds hr) k hk

theorem lookup_parent_to_member_full (adds : List (Nat × Nat)) (k : Nat) (hr : InRange adds)
    (hk : k < 2 ^ 64) : LookupExact (recorded adds).buildParentToMember (adds.map swap) k := by
  rw [p2m_eq_m2p]
  exact lookup_of_rep_full (rep_flip (rep_recorded adds hr)) k hk

/-- `build_indexes()` returns exactly the two indexes the single builders return -/
theorem build_variants_agree (s : Stash) :
    s.buildIndexes = (s.buildMemberToParent, s.buildParentToMember) := by
  unfold Stash.buildIndexes Stash.buildMemberToParent Stash.buildParentToMember
  by_cases he : s.map64.isEmpty = true <;> simp [he]

/-- index size = number of distinct recorded pairs (no duplicates are stored) -/
theorem index_size (adds : List (Nat × Nat)) (hr : InRange adds) :
    ∃ l : List (Nat × Nat), l.Nodup ∧ (∀ p, p ∈ l ↔ p ∈ adds) ∧
      (recorded adds).buildMemberToParent.size = l.length := by
  obtain ⟨hsorted, hmem⟩ := store_spec (rep_recorded adds hr)
  refine ⟨(recorded adds).buildMemberToParent.store, ?_, hmem, size_eq_store _⟩
  rw [List.nodup_iff_pairwise_ne]
  refine hsorted.imp ?_
  intro a b hab heq
  subst heq
  simp only [LtP] at hab; omega

/-! ### the index is a function of the SET of recorded pairs; multiset form of "without duplicates" -/

/-- two strictly sorted lists with the same elements are equal -/
theorem eq_of_sorted_of_mem_iff : ∀ (l₁ l₂ : List (Nat × Nat)), l₁.Pairwise LtP → l₂.Pairwise LtP →
    (∀ p, p ∈ l₁ ↔ p ∈ l₂) → l₁ = l₂
  | [], [], _, _, _ => rfl
  | [], b :: _, _, _, h => by have := (h b).2 (by simp); simp at this
  | a :: _, [], _, _, h => by have := (h a).1 (by simp); simp at this
  | a :: l₁, b :: l₂, h₁, h₂, h => by
    rw [List.pairwise_cons] at h₁ h₂
    have hab : a = b := by
      have ha := (h a).1 (by simp)
      have hb := (h b).2 (by simp)
      simp only [List.mem_cons] at ha hb
      rcases ha with ha | ha
      · exact ha
      · rcases hb with hb | hb
        · exact hb.symm
        · have x := h₁.1 b hb
          have y := h₂.1 a ha
          simp only [LtP] at x y; omega
    subst hab
    congr 1
    refine eq_of_sorted_of_mem_iff l₁ l₂ h₁.2 h₂.2 fun p => ?_
    constructor
    · intro hp
      have := (h p).1 (List.mem_cons_of_mem _ hp)
      simp only [List.mem_cons] at this
      rcases this with rfl | this
      · have x := h₁.1 p hp; simp only [LtP] at x; omega
      · exact this
    · intro hp
      have := (h p).2 (List.mem_cons_of_mem _ hp)
      simp only [List.mem_cons] at this
      rcases this with rfl | this
      · have x := h₂.1 p hp; simp only [LtP] at x; omega
      · exact this

theorem rep_congr {s : Stash} {a b : List (Nat × Nat)} (h : Rep s a) (hab : ∀ p, p ∈ a ↔ p ∈ b) : Rep s b :=
  ⟨fun p => by rw [h.m32, hab], fun p => by rw [h.m64, hab]⟩

theorem has64_congr {a b : List (Nat × Nat)} (hab : ∀ p, p ∈ a ↔ p ∈ b) : Has64 a ↔ Has64 b := by
  constructor <;> rintro ⟨p, hp, h⟩
  · exact ⟨p, (hab p).1 hp, h⟩
  · exact ⟨p, (hab p).2 hp, h⟩

/-- `build_member_to_parent_index()` is canonical: stashes that hold the same SET of pairs give the same index -/
theorem m2p_canonical {s t : Stash} {a : List (Nat × Nat)} (hs : Rep s a) (ht : Rep t a) :
    s.buildMemberToParent = t.buildMemberToParent := by
  have hst := eq_of_sorted_of_mem_iff _ _ (store_spec hs).1 (store_spec ht).1
    (fun p => by rw [(store_spec hs).2, (store_spec ht).2])
  have he : s.map64.isEmpty = t.map64.isEmpty := by
    rw [Bool.eq_iff_iff, isEmpty_iff_not_has64 hs, isEmpty_iff_not_has64 ht]
  unfold Stash.buildMemberToParent Index.store at *
  by_cases h1 : s.map64.isEmpty = true
  · have h2 : t.map64.isEmpty = true := he ▸ h1
    simp only [h1, h2, if_true] at hst ⊢
    rw [hst]
  · have h2 : ¬ t.map64.isEmpty = true := he ▸ h1
    simp only [h1, h2, if_false, Bool.false_eq_true] at hst ⊢
    rw [hst]

theorem index_canonical (a b : List (Nat × Nat)) (ha : InRange a) (hb : InRange b)
    (h : ∀ p, p ∈ a ↔ p ∈ b) :
    (recorded a).buildMemberToParent = (recorded b).buildMemberToParent ∧
    (recorded a).buildParentToMember = (recorded b).buildParentToMember ∧
    (recorded a).buildIndexes = (recorded b).buildIndexes := by
  have h1 := m2p_canonical (rep_congr (rep_recorded a ha) h) (rep_recorded b hb)
  have h2 : (recorded a).buildParentToMember = (recorded b).buildParentToMember := by
    rw [p2m_eq_m2p, p2m_eq_m2p]
    refine m2p_canonical (rep_congr (rep_flip (rep_recorded a ha)) fun p => ?_) (rep_flip (rep_recorded b hb))
    rw [mem_map_swap, mem_map_swap, h]
  exact ⟨h1, h2, by rw [build_variants_agree, build_variants_agree, h1, h2]⟩

/-- the distinct elements of a list (first occurrences dropped) -/
def distinct : List (Nat × Nat) → List (Nat × Nat)
  | [] => []
  | a :: l => if a ∈ l then distinct l else a :: distinct l

theorem mem_distinct (l : List (Nat × Nat)) (p : Nat × Nat) : p ∈ distinct l ↔ p ∈ l := by
  induction l with
  | nil => simp [distinct]
  | cons a l ih =>
    unfold distinct
    by_cases ha : a ∈ l
    · simp only [ha, if_true, ih, List.mem_cons]
      constructor
      · exact Or.inr
      · rintro (rfl | h)
        · exact ha
        · exact h
    · simp only [ha, if_false, List.mem_cons, ih]

theorem nodup_distinct (l : List (Nat × Nat)) : (distinct l).Nodup := by
  induction l with
  | nil => simp [distinct]
  | cons a l ih =>
    unfold distinct
    by_cases ha : a ∈ l
    · simp only [ha, if_true]; exact ih
    · rw [if_neg ha]; exact List.nodup_cons.2 ⟨by rw [mem_distinct]; exact ha, ih⟩

theorem swap_swap (p : Nat × Nat) : swap (swap p) = p := rfl

theorem nodup_of_sorted {l : List (Nat × Nat)} (h : l.Pairwise LtP) : l.Nodup := by
  rw [List.nodup_iff_pairwise_ne]
  refine h.imp ?_
  intro a b hab heq
  subst heq
  simp only [LtP] at hab; omega

/-- size of the member→parent index of any stash representing `adds` = number of distinct pairs -/
theorem size_of_rep {s : Stash} {adds : List (Nat × Nat)} (h : Rep s adds) :
    s.buildMemberToParent.size = (distinct adds).length := by
  obtain ⟨hsorted, hmem⟩ := store_spec h
  rw [size_eq_store]
  apply List.Perm.length_eq
  rw [List.perm_ext_iff_of_nodup (nodup_of_sorted hsorted) (nodup_distinct _)]
  intro p; rw [hmem, mem_distinct]

theorem length_distinct_swap (l : List (Nat × Nat)) : (distinct (l.map swap)).length = (distinct l).length := by
  induction l with
  | nil => rfl
  | cons a l ih =>
    simp only [List.map_cons, distinct]
    have : swap a ∈ l.map swap ↔ a ∈ l := by rw [mem_map_swap, swap_swap]
    by_cases ha : a ∈ l
    · simp only [ha, this.2 ha, if_true, ih]
    · have hn : ¬ swap a ∈ l.map swap := fun x => ha (this.1 x)
      simp only [ha, hn, if_false, List.length_cons, ih]

theorem empty_eq_store (ix : Index) : ix.empty = ix.store.isEmpty := by
  unfold Index.empty Index.store; split <;> rfl

theorem index_sizes (adds : List (Nat × Nat)) (hr : InRange adds) :
    (recorded adds).buildMemberToParent.size = (distinct adds).length ∧
    (recorded adds).buildParentToMember.size = (distinct adds).length ∧
    (recorded adds).buildIndexes.1.size = (distinct adds).length ∧
    (recorded adds).buildIndexes.2.size = (distinct adds).length := by
  have h1 := size_of_rep (rep_recorded adds hr)
  have h2 : (recorded adds).buildParentToMember.size = (distinct adds).length := by
    rw [p2m_eq_m2p, size_of_rep (rep_flip (rep_recorded adds hr)), length_distinct_swap]
  rw [build_variants_agree]
  exact ⟨h1, h2, h1, h2⟩

theorem length_distinct_eq_zero (l : List (Nat × Nat)) : (distinct l).length = 0 ↔ l = [] := by
  constructor
  · intro h
    cases l with
    | nil => rfl
    | cons a l =>
      have : a ∈ distinct (a :: l) := (mem_distinct _ _).2 (by simp)
      rw [List.length_eq_zero_iff] at h
      rw [h] at this; simp at this
  · rintro rfl; rfl

theorem index_empty (adds : List (Nat × Nat)) (hr : InRange adds) :
    (recorded adds).buildMemberToParent.empty = adds.isEmpty ∧
    (recorded adds).buildParentToMember.empty = adds.isEmpty := by
  have key : ∀ ix : Index, ix.size = (distinct adds).length → ix.empty = adds.isEmpty := by
    intro ix h
    rw [empty_eq_store, Bool.eq_iff_iff, List.isEmpty_iff, List.isEmpty_iff, ← List.length_eq_zero_iff,
      ← size_eq_store, h, length_distinct_eq_zero]
  exact ⟨key _ (index_sizes adds hr).1, key _ (index_sizes adds hr).2.1⟩

/-- multiset form of `LookupExact`: every value is delivered exactly once if recorded, never otherwise -/
theorem count_of_lookupExact {ix : Index} {pairs : List (Nat × Nat)} {k : Nat} (h : LookupExact ix pairs k)
    (v : Nat) : (ix.forEach k).count v = if (k, v) ∈ pairs then 1 else 0 := by
  have hn : (ix.forEach k).Nodup := by
    rw [List.nodup_iff_pairwise_ne]
    exact h.1.imp (fun hab => by omega)
  rw [hn.count]
  simp only [h.2 v]

end Osmium.RelMap
