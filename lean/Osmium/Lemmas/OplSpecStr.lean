/-
Leaf lemmas for `opl_decode_spec` (C02): the string and coordinate syntaxes of the specification
renderer `OplSpec` — every escape mode, padded coordinates — are read back by `opl_parse_string` /
`set_lon_partial`.
-/
import Osmium.Lemmas.OplFmtCs

namespace Osmium.OplFmt
open Osmium.Osm Osmium.TextFmt Osmium.Conv Osmium.Utf8
open Osmium.Conv.IntLemmas (digitsStr valMS AllDigits NoDigitHead)
open OplSpec

/-! ### strings: the `%hex%` modes -/

/-- the hex digit `hexDigits` writes for nibble `n` -/
def specDigit (up : Bool) (n : Nat) : UInt8 := if up then hexU n else Opl.hexDigit n

theorem specDigit_facts : ∀ (up : Bool) (n : Fin 16),
    Opl.hexVal (specDigit up n.val) = some n.val ∧ specDigit up n.val ≠ 0 ∧ specDigit up n.val ≠ 0x25 ∧
    (specDigit up n.val).toNat ∉ Opl.structural := by decide +kernel

theorem hexDigits_succ (up : Bool) (c k : Nat) :
    hexDigits up c (k + 1) = specDigit up (c / 16 ^ k % 16) :: hexDigits up c k := by
  have e : (c >>> (4 * k)) &&& 0xf = c / 16 ^ k % 16 := by
    rw [Nat.shiftRight_eq_div_pow, Nat.pow_mul]
    exact Nat.and_two_pow_sub_one_eq_mod _ 4
  cases up <;> simp [hexDigits, specDigit, e]

theorem parseEscaped_specDigit (up : Bool) (n value d : Nat) (hd : d < 16) (s : List UInt8) :
    Opl.parseEscaped (n + 1) value (specDigit up d :: s) =
      Opl.parseEscaped n (((value <<< 4) % 2 ^ 32) + d) s := by
  obtain ⟨h1, h2, h3, _⟩ := specDigit_facts up ⟨d, hd⟩
  simp only at h1 h2 h3
  simp [Opl.parseEscaped, h1, h2, h3]

/-- accumulator lemma: `k` hex digits of `c` -/
theorem parseEscaped_hexDigits (up : Bool) (c : Nat) (rest : List UInt8) :
    ∀ (k n acc : Nat), (acc + 1) * 16 ^ k ≤ 2 ^ 32 →
      Opl.parseEscaped (n + k) acc (hexDigits up c k ++ rest) =
        Opl.parseEscaped n (acc * 16 ^ k + c % 16 ^ k) rest := by
  intro k
  induction k with
  | zero => intro n acc _; simp [hexDigits, Nat.mod_one]
  | succ k ih =>
    intro n acc hb
    have hP : 0 < 16 ^ k := Nat.pow_pos (by decide)
    have hd : c / 16 ^ k % 16 < 16 := Nat.mod_lt _ (by decide)
    rw [hexDigits_succ, List.cons_append, ← Nat.add_assoc, parseEscaped_specDigit up _ _ _ hd]
    rw [Nat.pow_succ, Nat.mul_comm (16 ^ k) 16, ← Nat.mul_assoc] at hb
    have hacc : acc * 16 < 2 ^ 32 := by
      have : (acc + 1) * 16 ≤ (acc + 1) * 16 * 16 ^ k := Nat.le_mul_of_pos_right _ hP
      omega
    have e1 : acc <<< 4 % 2 ^ 32 = acc * 16 := by
      rw [Nat.shiftLeft_eq, Nat.mod_eq_of_lt (by simpa using hacc)]
    rw [e1, ih n _ ?_]
    · congr 1
      rw [Nat.pow_succ, Nat.mod_mul (a := 16 ^ k) (b := 16)]
      generalize c / 16 ^ k % 16 = d
      generalize c % 16 ^ k = m
      generalize 16 ^ k = P
      grind
    · have : (acc * 16 + c / 16 ^ k % 16 + 1) * 16 ^ k ≤ (acc + 1) * 16 * 16 ^ k :=
        Nat.mul_le_mul_right _ (by omega)
      omega

theorem needDigits_spec (c : Nat) (h : c < 0x110000) :
    1 ≤ needDigits c ∧ needDigits c ≤ 6 ∧ c < 16 ^ needDigits c := by
  unfold needDigits
  split
  · exact ⟨by omega, by omega, by omega⟩
  split
  · exact ⟨by omega, by omega, by omega⟩
  split
  · exact ⟨by omega, by omega, by omega⟩
  split
  · exact ⟨by omega, by omega, by omega⟩
  split
  · exact ⟨by omega, by omega, by omega⟩
  · exact ⟨by omega, by omega, by omega⟩

/-- number of digits the mode uses -/
def specWidth (mode c : Nat) : Nat := if mode = 2 then 6 else needDigits c

theorem specWidth_spec (mode c : Nat) (h : c < 0x110000) :
    specWidth mode c ≤ 6 ∧ c < 16 ^ specWidth mode c := by
  unfold specWidth
  split
  · exact ⟨by omega, by omega⟩
  · exact ⟨(needDigits_spec c h).2.1, (needDigits_spec c h).2.2⟩

/-- the `%hex%` form of any admissible width is read back (after the leading '%') -/
theorem parseEscaped_spec (up : Bool) (c k : Nat) (h0 : 0 < c) (hk : k ≤ 6) (hc : c < 16 ^ k)
    (rest : List UInt8) :
    Opl.parseEscaped 8 0 (hexDigits up c k ++ 0x25 :: rest) = .ok (encode c, rest) := by
  have hb : (0 + 1) * 16 ^ k ≤ 2 ^ 32 := by
    have : 16 ^ k ≤ 16 ^ 6 := Nat.pow_le_pow_right (by decide) hk
    omega
  have := parseEscaped_hexDigits up c (0x25 :: rest) k (8 - k) 0 hb
  rw [show 8 - k + k = 8 by omega] at this
  rw [this, show 8 - k = (7 - k) + 1 by omega, Opl.parseEscaped_end, Nat.zero_mul, Nat.zero_add,
    Nat.mod_eq_of_lt hc, if_neg (by omega)]

theorem hexDigits_noStructural (up : Bool) (c : Nat) :
    ∀ k, ∀ b ∈ hexDigits up c k, b.toNat ∉ Opl.structural := by
  intro k
  induction k with
  | zero => intro b hb; simp [hexDigits] at hb
  | succ k ih =>
    intro b hb
    rw [hexDigits_succ] at hb
    rcases List.mem_cons.1 hb with rfl | hb
    · exact (specDigit_facts up ⟨c / 16 ^ k % 16, Nat.mod_lt _ (by decide)⟩).2.2.2
    · exact ih b hb

/-- one escaped code point in mode `mode ≠ 0` -/
def specPiece (mode c : Nat) : Bytes :=
  0x25 :: (hexDigits (mode = 2) c (specWidth mode c) ++ [0x25])

theorem specPiece_noStructural (mode c : Nat) : ∀ b ∈ specPiece mode c, b.toNat ∉ Opl.structural := by
  intro b hb
  unfold specPiece at hb
  rcases List.mem_cons.1 hb with rfl | hb
  · decide
  rcases List.mem_append.1 hb with hb | hb
  · exact hexDigits_noStructural _ _ _ b hb
  · simp only [List.mem_cons, List.not_mem_nil, or_false] at hb; subst hb; decide

theorem parseStringLoop_specStr (mode : Nat) (s : List Nat)
    (hs : ∀ c ∈ s, 0 < c ∧ c < 0x110000) (t : List UInt8) (ht : Opl.AtStop t) :
    ∀ fuel, (s.flatMap (specPiece mode) ++ t).length < fuel →
      Opl.parseStringLoop fuel (s.flatMap (specPiece mode) ++ t) = .ok (encodeStr s, t) := by
  induction s with
  | nil =>
    intro fuel hf
    cases fuel with
    | zero => omega
    | succ f => simpa [encodeStr] using Opl.parseStringLoop_stop t ht f
  | cons c s ih =>
    intro fuel hf
    have ⟨hc0, hc⟩ := hs c (by simp)
    have ih' := ih (fun x hx => hs x (by simp [hx]))
    obtain ⟨hk, hck⟩ := specWidth_spec mode c hc
    rw [List.flatMap_cons, encodeStr_cons, List.append_assoc] at *
    simp only [specPiece, List.cons_append, List.append_assoc, List.nil_append] at hf ⊢
    cases fuel with
    | zero => omega
    | succ f =>
      simp only [Opl.parseStringLoop, show Opl.isStop 0x25 = false by decide, Bool.false_eq_true,
        if_false, if_true, parseEscaped_spec _ c _ hc0 hk hck]
      rw [ih' f (by simp at hf ⊢; omega)]

/-- strings in any of the three escape styles: no structural byte, and `opl_parse_string` returns
    the string in front of anything that stops a string -/
theorem specStr_pStr (ch : OplSpec.Choices) (bs : Bytes) (h : strOK 0x110000 bs = true) :
    (∀ b ∈ OplSpec.str ch bs, b.toNat ∉ Opl.structural) ∧
    ∀ rest, Opl.AtStop rest → pStr (OplSpec.str ch bs ++ rest) = .ok (bs, rest) := by
  by_cases hm : ch.escapeMode = 0
  · obtain ⟨e, he, hns, hp⟩ := wStr_pStr bs h
    have hesc : Opl.escape bs = .ok e := by
      unfold wStr at he
      split at he
      · rename_i b hb; cases he; exact hb
      · cases he
    have : OplSpec.str ch bs = e := by simp [OplSpec.str, hm, hesc]
    rw [this]
    exact ⟨hns, hp⟩
  · obtain ⟨s, rfl, hsc, _, _⟩ := strOK_spec h
    have hdec : decodeStr (encodeStr s) = .ok s := decodeStr_encodeStr s (fun c hc => scalar_lt (hsc c hc))
    have : OplSpec.str ch (encodeStr s) = s.flatMap (specPiece ch.escapeMode) := by
      simp only [OplSpec.str, hm, if_false, hdec]
      rfl
    rw [this]
    constructor
    · intro b hb
      obtain ⟨c, _, hb⟩ := List.mem_flatMap.1 hb
      exact specPiece_noStructural _ _ b hb
    · intro rest hr
      have := parseStringLoop_specStr ch.escapeMode s (fun c hc => ⟨(hsc c hc).1, (hsc c hc).2.1⟩) rest hr
        _ (Nat.lt_succ_self _)
      simp only [pStr, Opl.parseString, this]

/-! ### coordinates: zero padding -/

/-- the zero padding of `OplSpec.coord` -/
def coordPad (b : Bytes) : Bytes :=
  (if b.contains 0x2e then b else b ++ [0x2e]) ++
    List.replicate (7 - ((b.dropWhile (· != 0x2e)).drop 1).length) 0x30

theorem specCoord_eq (ch : OplSpec.Choices) (v : Int) :
    OplSpec.coord ch v = if ch.padCoords then coordPad (formatCoord v) else formatCoord v := rfl

theorem coordPad_shape (b : Bytes) (hne : b ≠ []) (hb : ∀ x ∈ b, NumByte x) :
    coordPad b ≠ [] ∧ ∀ x ∈ coordPad b, NumByte x := by
  unfold coordPad
  constructor
  · split <;> simp [hne]
  · intro x hx
    rcases List.mem_append.1 hx with hx | hx
    · split at hx
      · exact hb x hx
      · rcases List.mem_append.1 hx with hx | hx
        · exact hb x hx
        · simp only [List.mem_cons, List.not_mem_nil, or_false] at hx; subst hx; right; left; rfl
    · rw [List.eq_of_mem_replicate hx]; right; right; decide

theorem dropWhile_noDot (pre l : Bytes) (hp : ∀ x ∈ pre, x ≠ 0x2e) :
    (pre ++ l).dropWhile (· != 0x2e) = l.dropWhile (· != 0x2e) := by
  induction pre with
  | nil => rfl
  | cons a pre ih =>
    have := hp a (by simp)
    simp only [List.cons_append, List.dropWhile_cons, bne_iff_ne, ne_eq, this, not_false_eq_true, if_true]
    exact ih (fun x hx => hp x (by simp [hx]))

theorem coordPad_noDot (pre : Bytes) (hp : ∀ x ∈ pre, x ≠ 0x2e) :
    coordPad pre = pre ++ 0x2e :: List.replicate 7 0x30 := by
  have h1 : (0x2e : UInt8) ∉ pre := fun h => hp _ h rfl
  have h2 : pre.dropWhile (· != 0x2e) = [] := by
    have := dropWhile_noDot pre [] hp
    simpa using this
  simp [coordPad, h1, h2]

theorem coordPad_dot (pre fr : Bytes) (hp : ∀ x ∈ pre, x ≠ 0x2e) :
    coordPad (pre ++ 0x2e :: fr) = pre ++ 0x2e :: (fr ++ List.replicate (7 - fr.length) 0x30) := by
  have h2 : (pre ++ 0x2e :: fr).dropWhile (· != 0x2e) = 0x2e :: fr := by
    rw [dropWhile_noDot pre _ hp]; simp
  simp [coordPad, h2]

theorem valMS_zeros (n : Nat) : valMS (List.replicate n 0) = 0 := by
  induction n with
  | zero => rfl
  | succ n ih => rw [List.replicate_succ']; rw [IntLemmas.valMS_snoc, ih]

theorem digitsStr_zeros (n : Nat) : digitsStr (List.replicate n 0) = List.replicate n 0x30 := by
  simp [digitsStr, digitChar]

theorem digitsStr_noDot {ds : List Nat} (hd : AllDigits ds) : ∀ x ∈ digitsStr ds, x ≠ 0x2e := by
  intro x hx
  simp only [digitsStr, List.mem_map] at hx
  obtain ⟨d, hd', rfl⟩ := hx
  exact digitChar_ne_lo (hd d hd') (by decide)

theorem coordPad_formatAbs (neg : Bool) (hi kept : List Nat) (hhi : AllDigits hi) :
    coordPad ((if neg then [cMinus] else []) ++
        (digitsStr hi ++ (if kept = [] then [] else cDot :: digitsStr kept))) =
      (if neg then [cMinus] else []) ++ (digitsStr hi ++
        cDot :: digitsStr (kept ++ List.replicate (7 - kept.length) 0)) := by
  have hp : ∀ x ∈ (if neg then [cMinus] else []) ++ digitsStr hi, x ≠ 0x2e := by
    intro x hx
    rcases List.mem_append.1 hx with hx | hx
    · cases neg
      · simp at hx
      · simp only [if_true, List.mem_cons, List.not_mem_nil, or_false] at hx; subst hx; decide
    · exact digitsStr_noDot hhi x hx
  by_cases hk : kept = []
  · subst hk
    simp only [if_true, List.append_nil, List.length_nil, List.nil_append]
    rw [coordPad_noDot _ hp, digitsStr_zeros, List.append_assoc]
    rfl
  · simp only [hk, if_false]
    rw [← List.append_assoc, show cDot = (0x2e : UInt8) from rfl, coordPad_dot _ _ hp, IntLemmas.digitsStr_append,
      digitsStr_zeros, List.append_assoc]
    simp [digitsStr]

theorem coordPad_pCoord_abs (neg : Bool) (n : Nat) (hn : n ≤ 2147483647) (rest : Bytes)
    (ht : C13.Terminates rest) :
    parseCoord .now (coordPad ((if neg then [cMinus] else []) ++ formatCoordAbs n) ++ rest) =
      .ok ⟨(if neg then -1 else 1) * (n : Int), rest, false⟩ := by
  obtain ⟨hf, hd, he, hE⟩ := ht
  obtain ⟨hi, kept, hhi, hk, hne, hl, hkl, hfmt, hval⟩ := formatCoordAbs_spec n hn
  rw [hfmt, coordPad_formatAbs neg hi kept hhi]
  have hlen : (kept ++ List.replicate (7 - kept.length) 0).length = 7 := by
    rw [List.length_append, List.length_replicate]; omega
  have hk' : AllDigits (kept ++ List.replicate (7 - kept.length) 0) := by
    intro d hd
    rcases List.mem_append.1 hd with hd | hd
    · exact hk d hd
    · rw [List.eq_of_mem_replicate hd]; decide
  have hne' : kept ++ List.replicate (7 - kept.length) 0 ≠ [] := by
    intro h; rw [h] at hlen; cases hlen
  have hv : valMS (hi ++ (kept ++ List.replicate (7 - kept.length) 0)) *
      10 ^ (7 - (kept ++ List.replicate (7 - kept.length) 0).length) = n := by
    rw [hlen, ← List.append_assoc, valMS_append, valMS_zeros, List.length_replicate]
    simpa using hval
  have := parseCoord_plain .now neg hi _ hhi hk' hne (by omega) (by omega) n hv (by omega)
    (by intro _; omega) rest hf hd he hE
  rw [if_neg hne'] at this
  exact this

theorem coordPad_pCoord (v : Int) (h1 : int32Min ≤ v) (h2 : v ≤ int32Max) (rest : Bytes)
    (ht : C13.Terminates rest) : pCoord (coordPad (formatCoord v) ++ rest) = .ok (v, rest) := by
  by_cases hmin : v = int32Min
  · subst hmin
    have : coordPad (formatCoord int32Min) = formatCoord int32Min := by decide
    rw [this]
    exact formatCoord_pCoord _ h1 h2 rest ht
  · have hne : (v == int32Min) = false := by simpa using hmin
    simp only [int32Min, int32Max] at h1 h2 hmin
    unfold formatCoord
    rw [hne]
    simp only [Bool.false_eq_true, if_false]
    by_cases hneg : v < 0
    · rw [if_pos hneg]
      have := coordPad_pCoord_abs true (-v).toNat (by omega) rest ht
      simp only [if_true, List.singleton_append] at this
      have e : (-1 : Int) * (((-v).toNat : Nat) : Int) = v := by omega
      simp only [pCoord, this, e]
    · rw [if_neg hneg]
      have := coordPad_pCoord_abs false v.toNat (by omega) rest ht
      simp only [Bool.false_eq_true, if_false, List.nil_append] at this
      have e : (1 : Int) * ((v.toNat : Nat) : Int) = v := by omega
      simp only [pCoord, this, e]

/-- coordinates, padded to seven decimals or not -/
theorem specCoord_pCoord (ch : OplSpec.Choices) (v : Int) (h1 : int32Min ≤ v) (h2 : v ≤ int32Max) :
    (OplSpec.coord ch v ≠ [] ∧ ∀ b ∈ OplSpec.coord ch v, NumByte b) ∧
    ∀ rest, C13.Terminates rest → pCoord (OplSpec.coord ch v ++ rest) = .ok (v, rest) := by
  obtain ⟨hne, hnum⟩ := formatCoord_shape v h1 h2
  rw [specCoord_eq]
  cases ch.padCoords
  · simp only [Bool.false_eq_true, if_false]
    exact ⟨⟨hne, hnum⟩, fun rest ht => formatCoord_pCoord v h1 h2 rest ht⟩
  · simp only [if_true]
    exact ⟨coordPad_shape _ hne hnum, fun rest ht => coordPad_pCoord v h1 h2 rest ht⟩

end Osmium.OplFmt
