/-
Complete reads, invariant N (future ids): assembled from the four field groups
`invN1` (read-thread side), `invN2` (parser pcs and pool), `invN3` (osmdata queue calls),
`invN4` (futures), each proved as its own `Machine.invariant` in PipelineCompleteN1..N4.lean.
-/
import Osmium.Lemmas.PipelineCompleteN1
import Osmium.Lemmas.PipelineCompleteN2
import Osmium.Lemmas.PipelineCompleteN3
import Osmium.Lemmas.PipelineCompleteN4

set_option linter.unusedSimpArgs false
set_option linter.unusedVariables false

namespace Osmium.Pipeline
open Osmium.Mon
variable {α : Type} [DecidableEq α]
namespace Complete

theorem invN (c : Cfg α) : ∀ s, (machine c).Reachable s → InvN s :=
  fun s h => { toInvN1 := invN1 c s h, toInvN2 := invN2 c s h, toInvN3 := invN3 c s h, toInvN4 := invN4 c s h }

end Complete
end Osmium.Pipeline
