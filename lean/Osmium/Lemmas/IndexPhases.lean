/-
C12, phases and reloads: an index is used in any number of phases of `set` and `sort`, it may be
closed and reopened from its own file (sparse_file_array) any number of times, or be produced by
`dump_as_list` of another sparse index.  The lookup law holds after every `sort()`.
-/
import Osmium.Lemmas.IndexMap

set_option linter.unusedSectionVars false

namespace Osmium.IndexMap

/-- one step of an insertion history with phases: `set(id, value)` or the documented `sort()` -/
inductive MOp (V : Type) where
  | set (id : Nat) (v : V)
  | sort

section phases
variable {V : Type}

def Impl.stepOp (I : Impl V) (m : I.M) : MOp V → I.M
  | .set id v => I.set m id v
  | .sort => I.sort m

/-- run a history with any number of set / sort phases from state `m` -/
def Impl.runOps (I : Impl V) (m : I.M) (ops : List (MOp V)) : I.M := ops.foldl I.stepOp m

/-- the insertions of a phase history, in order -/
def setsOf : List (MOp V) → Hist V
  | [] => []
  | .set id v :: r => (id, v) :: setsOf r
  | .sort :: r => setsOf r

theorem setsOf_append (a b : List (MOp V)) : setsOf (a ++ b) = setsOf a ++ setsOf b := by
  induction a with
  | nil => rfl
  | cons x t ih =>
    cases x with
    | set id v => simp only [List.cons_append, setsOf, ih]
    | sort => simp only [List.cons_append, setsOf, ih]

theorem Impl.runOps_append (I : Impl V) (m : I.M) (a b : List (MOp V)) :
    I.runOps m (a ++ b) = I.runOps (I.runOps m a) b := by
  simp only [Impl.runOps, List.foldl_append]

theorem Impl.runOps_sort_last (I : Impl V) (m : I.M) (a : List (MOp V)) :
    I.runOps m (a ++ [.sort]) = I.sort (I.runOps m a) := by
  rw [Impl.runOps_append]; rfl

theorem Impl.runOps_sets_from (I : Impl V) : ∀ (h : Hist V) (m : I.M),
    I.runOps m (h.map fun p => MOp.set p.1 p.2) = h.foldl (fun m p => I.set m p.1 p.2) m := by
  intro h
  induction h with
  | nil => intro m; rfl
  | cons p t ih =>
    intro m
    simp only [List.map_cons, List.foldl_cons]
    exact ih (I.set m p.1 p.2)

/-- a history without sort steps is `build` -/
theorem Impl.runOps_sets (I : Impl V) (h : Hist V) :
    I.runOps I.init (h.map fun p => MOp.set p.1 p.2) = I.build h :=
  Impl.runOps_sets_from I h I.init

theorem DistinctIds.append_left {a b : Hist V} (hd : DistinctIds (a ++ b)) : DistinctIds a := by
  simp only [DistinctIds, List.map_append] at hd
  exact (List.nodup_append.1 hd).1

theorem NonEmptyVals.append_left {e : V} {a b : Hist V} (hn : NonEmptyVals e (a ++ b)) :
    NonEmptyVals e a := fun p hp => hn p (List.mem_append_left _ hp)

/-- newest-first (the order of `Rep` in `Laws`) against insertion order -/
theorem phases_perm (h0 s : Hist V) : (s.reverse ++ h0).Perm (h0 ++ s) :=
  ((List.reverse_perm s).append_right h0).trans List.perm_append_comm

variable {I : Impl V} {e : V}

theorem Laws.runOps_rep (L : Laws I e) : ∀ (ops : List (MOp V)) (m : I.M) (h0 : Hist V), L.Rep m h0 →
    DistinctIds ((setsOf ops).reverse ++ h0) → NonEmptyVals e ((setsOf ops).reverse ++ h0) →
    L.Rep (I.runOps m ops) ((setsOf ops).reverse ++ h0) := by
  intro ops
  induction ops with
  | nil => intro m h0 hr _ _; simpa [setsOf, Impl.runOps] using hr
  | cons op t ih =>
    intro m h0 hr hd hn
    cases op with
    | set id v =>
      have e1 : (setsOf (MOp.set id v :: t)).reverse ++ h0 = (setsOf t).reverse ++ ((id, v) :: h0) := by
        simp [setsOf]
      rw [e1] at hd hn ⊢
      have e2 : I.runOps m (MOp.set id v :: t) = I.runOps (I.set m id v) t := rfl
      rw [e2]
      refine ih _ _ (L.rep_set m h0 id v hr ?_ ?_) hd hn
      · simp only [DistinctIds, List.map_append, List.map_cons] at hd ⊢
        have h2 := (List.nodup_append.1 hd).2.1
        simpa using h2
      · intro q hq; exact hn q (List.mem_append_right _ hq)
    | sort =>
      have e1 : setsOf (MOp.sort :: t) = setsOf t := rfl
      rw [e1] at hd hn ⊢
      have e2 : I.runOps m (MOp.sort :: t) = I.runOps (I.sort m) t := rfl
      rw [e2]
      exact ih _ _ (L.rep_sort m h0 hr) hd hn

/-- From ANY state that holds the entries `h0` (a fresh index, an index after earlier set/sort phases and lookups,
    an index reloaded from a file), after ANY further phases of set and sort in any order, the final `sort()`
    re-establishes the lookup law for everything inserted so far. -/
theorem Laws.phases_from (L : Laws I e) (m : I.M) (h0 : Hist V) (hr : L.Rep m h0) (ops : List (MOp V))
    (hd : DistinctIds (h0 ++ setsOf ops)) (hn : NonEmptyVals e (h0 ++ setsOf ops)) (id : Nat) :
    I.get (I.sort (I.runOps m ops)) id = specOf (h0 ++ setsOf ops) id ∧
    I.getNoexcept (I.sort (I.runOps m ops)) id = (specOf (h0 ++ setsOf ops) id).getD e := by
  have hp := phases_perm h0 (setsOf ops)
  have hd' := hd.perm hp.symm
  have hn' := hn.perm hp.symm
  have hr' := L.runOps_rep ops m h0 hr hd' hn'
  have hs := specOf_perm hd' hp id
  constructor
  · rw [L.get_ok _ _ (L.rep_sort _ _ hr') (L.ready_sort _ _ hr') hd' hn', hs]
  · rw [L.getNoexcept_ok _ _ (L.rep_sort _ _ hr') (L.ready_sort _ _ hr') hd' hn', hs]

theorem Laws.sort_phases (L : Laws I e) (ops : List (MOp V)) (hd : DistinctIds (setsOf ops))
    (hn : NonEmptyVals e (setsOf ops)) (id : Nat) :
    I.get (I.sort (I.runOps I.init ops)) id = specOf (setsOf ops) id ∧
    I.getNoexcept (I.sort (I.runOps I.init ops)) id = (specOf (setsOf ops) id).getD e := by
  have := L.phases_from I.init [] L.rep_init ops (by simpa using hd) (by simpa using hn) id
  simpa using this

/-- lookups are valid after EVERY sort step of a longer history, not only after the last one -/
theorem Laws.lookup_after_each_sort (L : Laws I e) (ops1 ops2 : List (MOp V)) (hd : DistinctIds (setsOf (ops1 ++ ops2)))
    (hn : NonEmptyVals e (setsOf (ops1 ++ ops2))) (id : Nat) :
    I.get (I.runOps I.init (ops1 ++ [.sort])) id = specOf (setsOf ops1) id := by
  rw [setsOf_append] at hd hn
  rw [Impl.runOps_sort_last]
  exact (L.sort_phases ops1 hd.append_left hn.append_left id).1

end phases

section reload
variable {V : Type} [DecidableEq V]

/-- `MInv` is preserved by every step of the sparse map over the mmap vector -/
theorem MSparse.minv_set (g : Grow (Nat × V)) (hg : GrowOk g) (inc : Nat) (pe : Nat × V) (mv : MmapVec (Nat × V))
    (hi : MInv pe mv) (x : Nat × V) : MInv pe (mv.pushBack g inc pe x) := by
  obtain ⟨hsz, hfill⟩ := hi
  obtain ⟨r1, r2, r3, r4⟩ := resize_spec g hg inc pe mv (mv.size + 1)
  simp only [MmapVec.pushBack]
  generalize mv.resize g inc pe (mv.size + 1) = mv' at *
  obtain ⟨d', s'⟩ := mv'
  simp only at r1 r2 r3 r4 ⊢
  subst r1
  refine ⟨by simp only [Array.size_setIfInBounds]; exact r2, fun j h1 h2 => ?_⟩
  simp only [Array.size_setIfInBounds] at h1 h2
  simp only [Array.getElem?_setIfInBounds, r4 j]
  rw [if_neg (by omega)]
  by_cases hj : j < mv.data.size
  · rw [if_pos hj]; exact hfill j (by omega) hj
  · rw [if_neg hj, if_pos h2]

theorem MSparse.minv_sort (pe : Nat × V) (mv : MmapVec (Nat × V)) (hi : MInv pe mv) : MInv pe (MSparse.sort mv) := by
  obtain ⟨hs, hfill⟩ := hi
  have hsz : (Sparse.sort mv.view).size = mv.size := by
    simp [Sparse.sort, List.length_mergeSort, view_size mv hs]
  refine ⟨(sort_view mv hs).1, fun j h1 h2 => ?_⟩
  simp only [MSparse.sort, Array.size_append, Array.size_extract, hsz] at h1 h2 ⊢
  rw [Array.getElem?_append, hsz, if_neg (by omega), Array.getElem?_extract, if_pos (by omega)]
  have : mv.size + (j - mv.size) = j := by omega
  rw [this]
  exact hfill j h1 (by omega)

theorem MSparse.minv_init (g : Grow (Nat × V)) (hg : GrowOk g) (inc : Nat) (pe : Nat × V) :
    MInv pe (MmapVec.init g inc pe) := by
  obtain ⟨h1, _⟩ := hg #[] inc (Nat.zero_le _)
  refine ⟨Nat.zero_le _, fun j _ h2 => ?_⟩
  simp only [MmapVec.init, size_fill, h1] at h2 ⊢
  rw [getElem?_fill, h1, if_pos ⟨Nat.zero_le _, by omega, h2⟩]

theorem MSparse.minv_runOps (g : Grow (Nat × V)) (hg : GrowOk g) (inc bs : Nat) (e : V) (pe : Nat × V)
    (ops : List (MOp V)) (mv : MmapVec (Nat × V)) (hi : MInv pe mv) :
    MInv pe ((msparseImpl g inc bs e pe).runOps mv ops) := by
  induction ops generalizing mv with
  | nil => exact hi
  | cons op t ih =>
    cases op with
    | set id v =>
      have e2 : (msparseImpl g inc bs e pe).runOps mv (MOp.set id v :: t) =
          (msparseImpl g inc bs e pe).runOps (mv.pushBack g inc pe (id, v)) t := rfl
      rw [e2]
      exact ih _ (MSparse.minv_set g hg inc pe mv hi (id, v))
    | sort =>
      have e2 : (msparseImpl g inc bs e pe).runOps mv (MOp.sort :: t) =
          (msparseImpl g inc bs e pe).runOps (MSparse.sort mv) t := rfl
      rw [e2]
      exact ih _ (MSparse.minv_sort pe mv hi)

theorem load_cap {T : Type} [DecidableEq T] (g : Grow T) (hg : GrowOk g) (inc : Nat) (e : T) (file : Array T) :
    (MmapVec.load g inc e file).data.size = max inc file.size := by
  obtain ⟨h1, _⟩ := hg file (max inc file.size) (Nat.le_max_right _ _)
  simp only [MmapVec.load, size_fill, h1]

/-- `mmap_vector_file(fd)` on ANY file: the state satisfies the fill invariant -/
theorem MSparse.minv_load (g : Grow (Nat × V)) (hg : GrowOk g) (inc : Nat) (pe : Nat × V) (file : Array (Nat × V)) :
    MInv pe (MmapVec.load g inc pe file) := by
  have hd := load_data g hg inc pe file
  have hcap := load_cap g hg inc pe file
  have hle := load_size_le g inc pe file
  have hsp := shrink_spec pe (MmapVec.load g inc pe file).data file.size
  have hsize : (MmapVec.load g inc pe file).size = shrink pe (MmapVec.load g inc pe file).data file.size := rfl
  refine ⟨by omega, fun j h1 h2 => ?_⟩
  by_cases hj : j < file.size
  · have h3 := hsp.2.1 j (by rw [← hsize]; exact h1) hj
    rw [Array.getD_eq_getD_getElem?, Array.getElem?_eq_getElem h2, Option.getD_some] at h3
    rw [Array.getElem?_eq_getElem h2, h3]
  · rw [hd j, if_neg hj, if_pos (by omega)]

/-- reopening the index's OWN file (the whole mapping: the entries, then empty pairs up to the capacity):
    the vector is exactly what it was — sorted or not — provided no entry is the empty pair -/
theorem MSparse.load_own_file (g : Grow (Nat × V)) (hg : GrowOk g) (inc : Nat) (pe : Nat × V) (mv : MmapVec (Nat × V))
    (hi : MInv pe mv) (hne : ∀ p ∈ mv.view.toList, p ≠ pe) :
    (MmapVec.load g inc pe mv.data).view = mv.view := by
  obtain ⟨hs, hfill⟩ := hi
  have hd := load_data g hg inc pe mv.data
  have hcap := load_cap g hg inc pe mv.data
  have hsp := shrink_spec pe (MmapVec.load g inc pe mv.data).data mv.data.size
  have hsize : (MmapVec.load g inc pe mv.data).size =
      shrink pe (MmapVec.load g inc pe mv.data).data mv.data.size := rfl
  rw [← hsize] at hsp
  obtain ⟨sp1, sp2, sp3⟩ := hsp
  have hfull : (MmapVec.load g inc pe mv.data).size = mv.size := by
    rcases Nat.lt_trichotomy (MmapVec.load g inc pe mv.data).size mv.size with hlt | heq | hgt
    · exfalso
      have hj : mv.size - 1 < mv.data.size := by omega
      have h1 := sp2 (mv.size - 1) (by omega) hj
      simp only [Array.getD_eq_getD_getElem?, hd (mv.size - 1), if_pos hj] at h1
      rw [Array.getElem?_eq_getElem hj, Option.getD_some] at h1
      have hv : mv.view[mv.size - 1]? = some mv.data[mv.size - 1] := by
        rw [view_getElem? mv hs, if_pos (by omega), Array.getElem?_eq_getElem hj]
      have hm : mv.data[mv.size - 1] ∈ mv.view.toList :=
        Array.mem_toList_iff.2 (Array.mem_of_getElem? hv)
      exact hne _ hm h1
    · exact heq
    · exfalso
      rcases sp3 with h0 | h0
      · omega
      · apply h0
        have hj : (MmapVec.load g inc pe mv.data).size - 1 < mv.data.size := by omega
        rw [Array.getD_eq_getD_getElem?, hd _, if_pos hj, hfill _ (by omega) hj, Option.getD_some]
  apply Array.ext_getElem?
  intro i
  rw [view_getElem? _ (by omega), view_getElem? mv hs, hfull]
  by_cases h : i < mv.size
  · rw [if_pos h, if_pos h, hd i, if_pos (by omega)]
  · rw [if_neg h, if_neg h]

theorem NonEmptyVals.ne_pair {e : V} {h : Hist V} (hn : NonEmptyVals e h) (k0 : Nat) :
    ∀ p ∈ h, p ≠ (k0, e) := by
  intro p hp heq
  exact hn p hp (by rw [heq])

/-- … hence `Rep` carries over a close/reopen of the own file and over dump_as_list + open as sparse_file_array -/
theorem MSparse.rep_reopen (g : Grow (Nat × V)) (hg : GrowOk g) (inc bs : Nat) (e : V) (k0 : Nat) (mv : MmapVec (Nat × V))
    (h : Hist V) (hr : (msparseLaws g hg inc bs e (k0, e)).Rep mv h) (hi : MInv (k0, e) mv) (hn : NonEmptyVals e h) :
    (msparseLaws g hg inc bs e (k0, e)).Rep (MmapVec.load g inc (k0, e) mv.data) h := by
  have hr' : mv.size ≤ mv.data.size ∧ mv.view.toList.Perm h := hr
  have hv := MSparse.load_own_file g hg inc (k0, e) mv hi
    (fun p hp => hn.ne_pair k0 p (hr'.2.mem_iff.1 hp))
  show (MmapVec.load g inc (k0, e) mv.data).size ≤ (MmapVec.load g inc (k0, e) mv.data).data.size ∧
    (MmapVec.load g inc (k0, e) mv.data).view.toList.Perm h
  rw [hv]
  exact ⟨(MSparse.minv_load g hg inc (k0, e) mv.data).1, hr'.2⟩

theorem MSparse.rep_load_list (g : Grow (Nat × V)) (hg : GrowOk g) (inc bs : Nat) (e : V) (k0 : Nat) (file : Array (Nat × V))
    (h : Hist V) (hp : file.toList.Perm h) (hn : NonEmptyVals e h) :
    (msparseLaws g hg inc bs e (k0, e)).Rep (MmapVec.load g inc (k0, e) file) h := by
  obtain ⟨h1, h2⟩ := Sparse.dump_load_list g hg inc (k0, e) file
    (fun p hp' => hn.ne_pair k0 p (hp.mem_iff.1 hp'))
  show (MmapVec.load g inc (k0, e) file).size ≤ (MmapVec.load g inc (k0, e) file).data.size ∧
    (MmapVec.load g inc (k0, e) file).view.toList.Perm h
  rw [h2]
  exact ⟨h1, hp⟩

/-- several lives of one index file: in each life any set / sort phases, then the index is closed (its file = the
    whole mapping) and opened again -/
def MSparse.lives (g : Grow (Nat × V)) (inc bs : Nat) (e : V) (pe : Nat × V) :
    MmapVec (Nat × V) → List (List (MOp V)) → MmapVec (Nat × V)
  | m, [] => m
  | m, ops :: rest => MSparse.lives g inc bs e pe (MmapVec.load g inc pe ((msparseImpl g inc bs e pe).runOps m ops).data) rest

/-- all insertions of all lives, in order -/
def livesSets : List (List (MOp V)) → Hist V
  | [] => []
  | ops :: rest => setsOf ops ++ livesSets rest

/-- `Rep` of the mmap-backed sparse map does not depend on the order of the entries -/
theorem MSparse.rep_perm (g : Grow (Nat × V)) (hg : GrowOk g) (inc bs : Nat) (e : V) (pe : Nat × V)
    (mv : MmapVec (Nat × V)) {h h' : Hist V} (hp : h.Perm h')
    (hr : (msparseLaws g hg inc bs e pe).Rep mv h) : (msparseLaws g hg inc bs e pe).Rep mv h' := by
  have hr' : mv.size ≤ mv.data.size ∧ mv.view.toList.Perm h := hr
  exact ⟨hr'.1, hr'.2.trans hp⟩

/-- the state after several lives holds everything inserted in them (and the fill invariant) -/
theorem MSparse.lives_rep (g : Grow (Nat × V)) (hg : GrowOk g) (inc bs : Nat) (e : V) (k0 : Nat) :
    ∀ (gens : List (List (MOp V))) (m : MmapVec (Nat × V)) (h0 : Hist V),
    (msparseLaws g hg inc bs e (k0, e)).Rep m h0 → MInv (k0, e) m →
    DistinctIds (h0 ++ livesSets gens) → NonEmptyVals e (h0 ++ livesSets gens) →
    (msparseLaws g hg inc bs e (k0, e)).Rep (MSparse.lives g inc bs e (k0, e) m gens) (h0 ++ livesSets gens) ∧
    MInv (k0, e) (MSparse.lives g inc bs e (k0, e) m gens) := by
  intro gens
  induction gens with
  | nil =>
    intro m h0 hr hi _ _
    simp only [livesSets, List.append_nil, MSparse.lives]
    exact ⟨hr, hi⟩
  | cons ops rest ih =>
    intro m h0 hr hi hd hn
    simp only [livesSets, MSparse.lives] at hd hn ⊢
    rw [← List.append_assoc] at hd hn ⊢
    have hd1 := hd.append_left
    have hn1 := hn.append_left
    have hp := phases_perm h0 (setsOf ops)
    have hr1 := (msparseLaws g hg inc bs e (k0, e)).runOps_rep ops m h0 hr (hd1.perm hp.symm) (hn1.perm hp.symm)
    have hr2 := MSparse.rep_perm g hg inc bs e (k0, e) _ hp hr1
    have hi1 := MSparse.minv_runOps g hg inc bs e (k0, e) ops m hi
    have hr3 := MSparse.rep_reopen g hg inc bs e k0 _ _ hr2 hi1 hn1
    exact ih _ _ hr3 (MSparse.minv_load g hg inc (k0, e) _) hd hn

/-- Any number of reload generations, each with any phases (whether or not the index was sorted before it was closed),
    then more phases and the final sort: lookup = the map of everything ever inserted. -/
theorem MSparse.reload_generations (g : Grow (Nat × V)) (hg : GrowOk g) (inc bs : Nat) (e : V) (k0 : Nat)
    (gens : List (List (MOp V))) (ops : List (MOp V))
    (hd : DistinctIds (livesSets gens ++ setsOf ops)) (hn : NonEmptyVals e (livesSets gens ++ setsOf ops)) (id : Nat) :
    let I := msparseImpl g inc bs e (k0, e)
    I.get (I.sort (I.runOps (MSparse.lives g inc bs e (k0, e) I.init gens) ops)) id = specOf (livesSets gens ++ setsOf ops) id ∧
    I.getNoexcept (I.sort (I.runOps (MSparse.lives g inc bs e (k0, e) I.init gens) ops)) id =
      (specOf (livesSets gens ++ setsOf ops) id).getD e := by
  intro I
  have hl := MSparse.lives_rep g hg inc bs e k0 gens (MmapVec.init g inc (k0, e)) []
    (msparseLaws g hg inc bs e (k0, e)).rep_init (MSparse.minv_init g hg inc (k0, e))
    (by simpa using hd.append_left) (by simpa using hn.append_left)
  simp only [List.nil_append] at hl
  exact (msparseLaws g hg inc bs e (k0, e)).phases_from _ _ hl.1 ops hd hn id

/-- dump/reopen COMMUTES with later insertions: a reload between two groups of phases is invisible -/
theorem MSparse.reload_commutes (g : Grow (Nat × V)) (hg : GrowOk g) (inc bs : Nat) (e : V) (k0 : Nat)
    (ops0 ops : List (MOp V)) (hd : DistinctIds (setsOf ops0 ++ setsOf ops)) (hn : NonEmptyVals e (setsOf ops0 ++ setsOf ops))
    (id : Nat) :
    let I := msparseImpl g inc bs e (k0, e)
    I.get (I.sort (I.runOps (MmapVec.load g inc (k0, e) (I.runOps I.init ops0).data) ops)) id =
      I.get (I.sort (I.runOps I.init (ops0 ++ ops))) id := by
  intro I
  have h1 := MSparse.reload_generations g hg inc bs e k0 [ops0] ops
    (by simpa [livesSets] using hd) (by simpa [livesSets] using hn) id
  simp only [livesSets, List.append_nil, MSparse.lives] at h1
  have h2 := (msparseLaws g hg inc bs e (k0, e)).sort_phases (ops0 ++ ops)
    (by rw [setsOf_append]; exact hd) (by rw [setsOf_append]; exact hn) id
  rw [setsOf_append] at h2
  exact h1.1.trans h2.1.symm

/-- the same through `dump_as_list` of ANY sparse index (here the std::vector one) opened as sparse_file_array -/
theorem Sparse.dump_list_reload_phases (g : Grow (Nat × V)) (hg : GrowOk g) (inc bs : Nat) (e : V) (k0 : Nat)
    (ops0 ops : List (MOp V)) (hd : DistinctIds (setsOf ops0 ++ setsOf ops)) (hn : NonEmptyVals e (setsOf ops0 ++ setsOf ops))
    (id : Nat) :
    let J := sparseImpl bs e
    let I := msparseImpl g inc bs e (k0, e)
    I.get (I.sort (I.runOps (MmapVec.load g inc (k0, e) (J.runOps J.init ops0)) ops)) id = specOf (setsOf ops0 ++ setsOf ops) id := by
  intro J I
  have hd0 := hd.append_left
  have hn0 := hn.append_left
  have hp := phases_perm [] (setsOf ops0)
  have hr0 := (sparseLaws bs e).runOps_rep ops0 (sparseImpl bs e).init [] (sparseLaws bs e).rep_init
    (hd0.perm (by simpa using hp.symm)) (hn0.perm (by simpa using hp.symm))
  have hr0' : (show Array (Nat × V) from (sparseImpl bs e).runOps (sparseImpl bs e).init ops0).toList.Perm
      ((setsOf ops0).reverse ++ []) := hr0
  have hr1 := MSparse.rep_load_list g hg inc bs e k0 _ (setsOf ops0)
    (hr0'.trans hp) hn0
  exact ((msparseLaws g hg inc bs e (k0, e)).phases_from _ _ hr1 ops hd hn id).1

end reload

end Osmium.IndexMap
