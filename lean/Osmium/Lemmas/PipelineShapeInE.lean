/-
Input side of the shape invariants, part E: the shape of what the read thread hands to push() on the
input queue (`invR`): chunk 0 … chunk (k-1), then nothing / [exc] / [eod] / [exc, eod] according to
the read thread's program counter; a clean end marker needs `stop` or all chunks.
-/
import Osmium.Lemmas.PipelineShapeInB

set_option linter.unusedSimpArgs false
set_option linter.unusedVariables false

namespace Osmium.Pipeline.ShapeIn

open Osmium.Mon Osmium.Pipeline

variable {α : Type} [DecidableEq α]

/-- shape of the calls so far (`chunks k ++ tail`) by the program counter of the read thread -/
def RS (c : Cfg α) (stop : Bool) (reads k : Nat) (tail : List (Val α)) : RPc α → Prop
  | .loop | .reading => tail = [] ∧ k = reads
  | .push (.chunk i) .loop => tail = [] ∧ i = k ∧ k < c.chunkEnd.length ∧ reads = k + 1
  | .pushing _ (.chunk i) .loop | .pushed _ (.chunk i) .loop => tail = [] ∧ k = i + 1 ∧ reads = k
  | .closing => tail = [] ∧ (stop = true ∨ k = c.chunkEnd.length)
  | .push (.exc _) .eodNext => tail = []
  | .pushing _ (.exc e) .eodNext | .pushed _ (.exc e) .eodNext => tail = [.exc e]
  | .push .eod .exit => (tail = [] ∧ (stop = true ∨ k = c.chunkEnd.length)) ∨ ∃ e, tail = [.exc e]
  | .pushing _ .eod .exit | .pushed _ .eod .exit | .done =>
    (tail = [.eod] ∧ (stop = true ∨ k = c.chunkEnd.length)) ∨ ∃ e, tail = [.exc e, .eod]
  | _ => False

/-- the read thread is past its last call of push() and that call carried the end marker -/
def rFin : RPc α → Prop
  | .pushing _ .eod .exit | .pushed _ .eod .exit | .done => True
  | _ => False

section rs
omit [DecidableEq α]
variable {c : Cfg α} {stop : Bool} {reads k : Nat} {tail : List (Val α)}

theorem RS_mono {r : RPc α} (h : RS c stop reads k tail r) : RS c true reads k tail r := by
  unfold RS at *
  split <;> simp_all <;> (rcases h with ⟨h, _⟩ | h <;> simp_all)

theorem RS_noChunk {r : RPc α} (h : RS c stop reads k tail r) : noChunk tail := by
  unfold RS at h
  split at h <;> simp_all [noChunk] <;> grind

theorem RS_head_eod {r : RPc α} (h : RS c stop reads k tail r) (he : tail.head? = some .eod) :
    tail = [.eod] ∧ (stop = true ∨ k = c.chunkEnd.length) ∧ rFin r := by
  unfold RS at h
  split at h <;> simp_all [rFin] <;> grind

theorem RS_pushEnter {v : Val α} {kk : RK} (x : Nat) (h : RS c stop reads k tail (.push v kk)) (hk : k ≤ c.chunkEnd.length) :
    ∃ k' tail', chunks k ++ tail ++ [v] = chunks k' ++ tail' ∧ k' ≤ c.chunkEnd.length ∧
      RS c stop reads k' tail' (.pushing x v kk) := by
  cases v <;> cases kk <;> simp only [RS] at h
  · rename_i i
    obtain ⟨h1, h2, h3, h4⟩ := h
    subst h1; subst h2
    exact ⟨i + 1, [], by simp [chunks_succ], by omega, by simp [RS]; omega⟩
  · rcases h with ⟨h1, h2⟩ | ⟨e, h1⟩
    · subst h1; exact ⟨k, [.eod], by simp, hk, by simp [RS, h2]⟩
    · subst h1; exact ⟨k, [.exc e, .eod], by simp, hk, by simp [RS]⟩
  · rename_i e
    subst h
    exact ⟨k, [.exc e], by simp, hk, by simp [RS]⟩

theorem RS_pushed {v : Val α} {kk : RK} {id : Nat} (h : RS c stop reads k tail (.pushing id v kk)) :
    RS c stop reads k tail (.pushed id v kk) := by
  cases v <;> cases kk <;> simp_all [RS]

theorem RS_rSet {v : Val α} {kk : RK} {id : Nat} (h : RS c stop reads k tail (.pushed id v kk)) :
    RS c stop reads k tail (rCont kk) := by
  cases v <;> cases kk <;> simp_all [RS, rCont]

end rs

/-- the calls of push() on the input queue so far: `chunks k ++ tail` -/
def InvR (c : Cfg α) (s : State α) : Prop :=
  ∃ k tail, inW s = chunks k ++ tail ∧ k ≤ c.chunkEnd.length ∧ RS c s.stop s.reads k tail s.rpc

omit [DecidableEq α] in
theorem fresh_odd (s : State α) (hN : ∀ y ∈ s.inq.called, y.2 % 2 = 0 ∧ y.2 < 2 * s.nIn ∧ y.1 = tR) (n : Nat) :
    ∀ y ∈ s.inq.called, y.2 ≠ 2 * n + 1 := by
  intro y hy h
  have := (hN y hy).1
  omega

omit [DecidableEq α] in
theorem fresh_even (s : State α) (hN : ∀ y ∈ s.inq.called, y.2 % 2 = 0 ∧ y.2 < 2 * s.nIn ∧ y.1 = tR) :
    ∀ y ∈ s.inq.called, y.2 ≠ 2 * s.nIn := by
  intro y hy h
  have := (hN y hy).2.1
  omega

set_option maxHeartbeats 3200000 in
theorem invR (c : Cfg α) : ∀ s, (machine c).Reachable s → InvR c s := by
  apply Machine.invariant
  · exact ⟨0, [], by simp [machine, init, QueueSM.init, inW], by omega, by simp [machine, init, RS]⟩
  · intro s e s' hr ih hst
    have hN := (invN c s hr).n_ic
    obtain ⟨k, tail, hW, hk, hS⟩ := ih
    unfold inW at hW
    si_cases e with hst
    all_goals first
      | exact ⟨k, tail, hW, hk, hS⟩
      | exact ⟨k, tail, hW, hk, RS_mono hS⟩
      | exact ⟨k, tail, (by simp only [inW, QueueSM.take_called]; exact hW), hk, hS⟩
      | exact ⟨k, tail, (by simp only [inW, QueueSM.take_called]; exact hW), hk, RS_mono hS⟩
      | (subst_vars
         exact ⟨k, tail, (by simp only [inW]; rw [wmap_setPc _ _ _ _ (fresh_odd s hN _)]; exact hW), hk, hS⟩)
      | (subst_vars
         rw [‹s.rpc = _›] at hS
         obtain ⟨k', tail', e1, e2, e3⟩ := RS_pushEnter (2 * s.nIn) hS hk
         refine ⟨k', tail', ?_, e2, e3⟩
         simp only [inW, wmap_append, wmap_single, setPc_same]
         rw [wmap_setPc _ _ _ _ (fresh_even s hN), hW]; exact e1)
      | (rw [‹s.rpc = _›] at hS; exact ⟨k, tail, hW, hk, RS_rSet hS⟩)
      | (refine ⟨k, tail, ?_, hk, ?_⟩ <;> simp [inW, hW, hS] <;> done)
      | (refine ⟨k, tail, hW, hk, ?_⟩; simp_all [RS_pushed]; done)
      | (refine ⟨k, tail, hW, hk, ?_⟩; (try split) <;> simp_all [RS] <;> grind)
      | skip

end Osmium.Pipeline.ShapeIn
