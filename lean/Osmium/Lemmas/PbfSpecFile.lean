/-
C02, PBF: one PrimitiveBlock of the specification encoder through `PBFPrimitiveBlockDecoder` (metadata pass with
granularity / offsets / date granularity / padded string table, data pass over the groups), and the whole file
through `PBFParser::run`.
-/
import Osmium.Lemmas.PbfSpecGroup
import Osmium.Lemmas.PbfSpecHeader
import Osmium.Lemmas.PbfSpecFrame

namespace Osmium.Pbf

open Osmium.Wire Osmium.Osm Osmium.PbfMsg
open Osmium.PbfSpec (Choices)

/-! ### what is quantified over -/

/-- the data blocks the choices cut the object sequence into -/
def blocksOf (ch : Choices) (os : List Object) : List (List Object) :=
  PbfSpec.cut (os.length + 1) ch.split ch.blockRest os

/-- a data set the format can express under the choices: header boxes with ordered valid corners, every object
    `ObjRep`, and — with DenseNodes — node ids of one group forming a sint64 delta chain -/
structure Representable (ch : Choices) (h : Header) (os : List Object) : Prop where
  boxes : ∀ b ∈ h.boxes, BoxRep b
  objs : ∀ ob ∈ os, ObjRep ch ob
  dense : ch.dense = true → ∀ b ∈ blocksOf ch os, ∀ r ∈ PbfSpec.runs ch.groupSize b,
    DeltaRep 0 ((nodesOf r).map (·.1.id))

/-- the format limits: every BlobHeader ≤ 64 KiB, every Blob (and its payload) ≤ 32 MiB -/
structure Fits (ch : Choices) (h : Header) (os : List Object) : Prop where
  header : FrameFits ch PbfFraming.osmHeader (PbfSpec.headerMsg ch h)
  blocks : ∀ b ∈ blocksOf ch os, FrameFits ch PbfFraming.osmData (PbfSpec.blockMsg ch h.multipleVersions b)

/-! ### the PrimitiveBlock -/

/-- canonical field list of the PrimitiveBlock message -/
def blockFields (ch : Choices) (hist : Bool) (os : List Object) : List Field :=
  [PbfSpec.fBytes 1 (PbfSpec.msg ch PbfSpec.kStringTable ((PbfSpec.tableFor ch os).map (PbfSpec.fBytes 1)))] ++
  (PbfSpec.runs ch.groupSize os).map (fun r => PbfSpec.fBytes 2 (PbfSpec.groupMsg ch (PbfSpec.tableFor ch os) hist r)) ++
  (if ch.granularity == 100 && !ch.writeBlockDefaults then [] else [PbfSpec.fInt 17 ch.granularity]) ++
  (if ch.dateGranularity == 1000 && !ch.writeBlockDefaults then [] else [PbfSpec.fInt 18 ch.dateGranularity]) ++
  (if ch.latOffset == 0 && !ch.writeBlockDefaults then [] else [PbfSpec.fInt 19 ch.latOffset]) ++
  (if ch.lonOffset == 0 && !ch.writeBlockDefaults then [] else [PbfSpec.fInt 20 ch.lonOffset])

theorem spec_blockMsg_eq (ch : Choices) (hist : Bool) (os : List Object) :
    PbfSpec.blockMsg ch hist os = PbfSpec.msg ch PbfSpec.kPrimitiveBlock (blockFields ch hist os) := rfl

theorem blockMetaStep_commutes : CommutesOn blockMetaStep (fun _ => True) := by
  intro s f g _ _ hk
  obtain ⟨t1, w1, v1, p1⟩ := f
  obtain ⟨t2, w2, v2, p2⟩ := g
  simp only [key, ne_eq, Prod.mk.injEq, not_and] at hk
  unfold blockMetaStep
  split <;> split <;> (try (simp_all; done)) <;>
    (simp only [Option.map_eq_bind, Option.bind_assoc, Function.comp_def, Option.bind_some] <;>
     (first | rfl | exact option_bind_comm _ _ _))

theorem stKey (f : Field) : (f.tag == 1 && f.wt == WireType.lengthDelimited) = decide (key f = (1, WireType.lengthDelimited)) := by
  obtain ⟨t, w, v, p⟩ := f
  simp only [key]
  by_cases h1 : t = 1 <;> by_cases h2 : w = WireType.lengthDelimited <;> simp [h1, h2]

/-- `decode_stringtable` on the padded / duplicated table with unknown extras in any order -/
theorem spec_stringtable (ch : Choices) (hch : ChoicesOk ch) (table : List Bytes) (hs : ∀ s ∈ table, StrOk s) :
    decodeStringTable [] (PbfSpec.msg ch PbfSpec.kStringTable (table.map (PbfSpec.fBytes 1))) = some table := by
  have hwf : ∀ f ∈ table.map (PbfSpec.fBytes 1), f.WF := stringtable_fields_wf table hs
  have hext : ∀ e ∈ ch.extras PbfSpec.kStringTable, stKnown e = false := hch.extrasUnknown PbfSpec.kStringTable
  unfold decodeStringTable withFields
  rw [readFields_msg ch _ _ hwf (hch.extrasWF _)]
  have hfilt : (PbfSpec.arrange ch PbfSpec.kStringTable (table.map (PbfSpec.fBytes 1))).filter
      (fun f => f.tag == 1 && f.wt == WireType.lengthDelimited) = table.map (PbfSpec.fBytes 1) := by
    have e : (fun f : Field => f.tag == 1 && f.wt == WireType.lengthDelimited) =
        fun f => decide (key f = (1, WireType.lengthDelimited)) := funext stKey
    rw [e]
    unfold PbfSpec.arrange
    rw [sortByRank_filter, List.filter_append]
    have h1 : (table.map (PbfSpec.fBytes 1)).filter (fun f => decide (key f = (1, WireType.lengthDelimited))) =
        table.map (PbfSpec.fBytes 1) := by
      rw [List.filter_eq_self]; intro f hf; obtain ⟨s, _, rfl⟩ := List.mem_map.mp hf; rfl
    have h2 : (ch.extras PbfSpec.kStringTable).filter (fun f => decide (key f = (1, WireType.lengthDelimited))) = [] := by
      rw [List.filter_eq_nil_iff]
      intro e he
      have := hext e he
      rw [← stKey]
      simp only [stKnown] at this
      simp only [Bool.and_comm] at this ⊢
      simp [this]
    rw [h1, h2, List.append_nil]
  have hm : (table.map (PbfSpec.fBytes 1)).map (·.payload) = table := by
    rw [List.map_map]
    have : ((fun x => x.payload) ∘ PbfSpec.fBytes 1) = id := by funext x; rfl
    rw [this, List.map_id]
  have hany : (table.any fun s => decide (s.length > maxOsmStringLength) || s.contains 0) = false := by
    rw [List.any_eq_false]; intro s hs'; have := (hs s hs').1; have hn := (hs s hs').2
    have hd : decide (s.length > maxOsmStringLength) = false := decide_eq_false (by unfold maxOsmStringLength; omega)
    rw [hd, hn]; decide
  simp only [hfilt, hm, hany]
  rfl

theorem wf_varint_big (tag v : Nat) (h0 : 0 < tag) (h1 : tag < 19000) (hv : v < 2 ^ 64) : (fVarint tag v).WF :=
  ⟨h0, by simp only [fVarint, Nat.reducePow]; omega, by simp only [fVarint]; omega, hv, rfl⟩

theorem decodeMsg_all_skip {σ : Type} (step : σ → Field → Option σ) (s : σ) : ∀ (l : List Field),
    (∀ f ∈ l, step s f = some s) → decodeMsg step s l = some s
  | [], _ => rfl
  | f :: l, h => by
    have ih := decodeMsg_all_skip step s l (fun g hg => h g (List.mem_cons_of_mem _ hg))
    unfold decodeMsg at ih ⊢
    rw [foldlM_cons', h f (List.mem_cons_self ..), Option.bind_some, ih]

theorem toInt32_u64_small (x : Int) (h1 : 0 < x) (h2 : x < (2:Int) ^ 31) : toInt32 (u64 x) = x :=
  toInt32_u64_int32 x (by simp only [Int.reducePow] at *; omega) h2

/-- the metadata pass (`decode_primitive_block_metadata`) on the canonical fields -/
theorem spec_block_meta (ch : Choices) (hch : ChoicesOk ch) (hist : Bool) (os : List Object)
    (hs : ∀ s ∈ PbfSpec.tableFor ch os, StrOk s) :
    decodeMsg blockMetaStep {} (blockFields ch hist os) = some (specParams ch (PbfSpec.tableFor ch os)) := by
  have hg := toInt32_u64_small ch.granularity hch.gran.1 hch.gran.2
  have hdg := toInt32_u64_small ch.dateGranularity hch.dgran.1 hch.dgran.2
  have hla : toInt64 (u64 ch.latOffset) = ch.latOffset := toInt64_u64 _ (by
    have := hch.latOff; unfold IdOk; simp only [Int.reducePow] at *; omega)
  have hlo : toInt64 (u64 ch.lonOffset) = ch.lonOffset := toInt64_u64 _ (by
    have := hch.lonOff; unfold IdOk; simp only [Int.reducePow] at *; omega)
  unfold blockFields
  rw [decodeMsg_append, decodeMsg_append, decodeMsg_append, decodeMsg_append, decodeMsg_append]
  have h1 : decodeMsg blockMetaStep {} [PbfSpec.fBytes 1 (PbfSpec.msg ch PbfSpec.kStringTable
      ((PbfSpec.tableFor ch os).map (PbfSpec.fBytes 1)))] = some { strings := PbfSpec.tableFor ch os } := by
    simp [decodeMsg, blockMetaStep, PbfSpec.fBytes, spec_stringtable ch hch _ hs]
  have h2 : ∀ p : Params, decodeMsg blockMetaStep p ((PbfSpec.runs ch.groupSize os).map
      (fun r => PbfSpec.fBytes 2 (PbfSpec.groupMsg ch (PbfSpec.tableFor ch os) hist r))) = some p := fun p =>
    decodeMsg_all_skip _ p _ (fun f hf => by
      obtain ⟨r, _, rfl⟩ := List.mem_map.mp hf
      rfl)
  rw [h1, Option.bind_some, h2, Option.bind_some]
  by_cases c1 : (ch.granularity == 100 && !ch.writeBlockDefaults) = true <;>
  by_cases c2 : (ch.dateGranularity == 1000 && !ch.writeBlockDefaults) = true <;>
  by_cases c3 : (ch.latOffset == 0 && !ch.writeBlockDefaults) = true <;>
  by_cases c4 : (ch.lonOffset == 0 && !ch.writeBlockDefaults) = true <;>
    simp only [c1, c2, c3, c4, ↓reduceIte, Bool.false_eq_true, decodeMsg, List.foldlM_nil, List.foldlM_cons, blockMetaStep,
      PbfSpec.fInt, PbfSpec.fVarint, spec_u64, hg, hdg, hla, hlo, bind, Option.bind, pure, specParams] <;>
    (simp only [Bool.and_eq_true, beq_iff_eq] at c1 c2 c3 c4) <;>
    simp_all

/-- what the data pass knows: PrimitiveGroup fields -/
def dataKnown (f : Field) : Bool := f.tag == 2 && f.wt == WireType.lengthDelimited

theorem blockDataStep_unknown (p : Params) (r : ROpts) (acc : List Object) (f : Field) (h : dataKnown f = false) :
    blockDataStep p r acc f = some acc := by
  obtain ⟨tag, wt, val, payload⟩ := f
  unfold blockDataStep
  simp only [dataKnown] at h
  split <;> simp_all

theorem dataKnown_key (f : Field) : key f = (2, WireType.lengthDelimited) ∨ dataKnown f = false := by
  obtain ⟨t, w, v, p⟩ := f
  simp only [key, dataKnown]
  by_cases h1 : t = 2 <;> by_cases h2 : w = WireType.lengthDelimited <;> simp [h1, h2]

/-- the groups of a block through the outer loop of `decode_primitive_block_data` -/
theorem spec_groups_fold (ch : Choices) (hch : ChoicesOk ch) (table : List Bytes) (hist : Bool) :
    ∀ (rs : List (List Object)) (acc : List Object),
    (∀ r ∈ rs, RunOk r ∧ (∀ ob ∈ r, ObjRep ch ob) ∧ (∀ ob ∈ r, ∀ s ∈ PbfSpec.stringsOf ob, TableOk table s) ∧
      (ch.dense = true → DeltaRep 0 ((nodesOf r).map (·.1.id))) ∧ (PbfSpec.groupMsg ch table hist r).length < 2 ^ 32) →
    decodeMsg (blockDataStep (specParams ch table) {}) acc (rs.map fun r => PbfSpec.fBytes 2 (PbfSpec.groupMsg ch table hist r)) =
      some (acc ++ rs.flatten)
  | [], acc, _ => by simp [decodeMsg]
  | r :: rs, acc, h => by
    obtain ⟨h1, h2, h3, h4, h5⟩ := h r (List.mem_cons_self ..)
    have hg := spec_group ch hch table hist r h1 h2 h3 h4 h5 acc
    have ih := spec_groups_fold ch hch table hist rs (acc ++ r) (fun x hx => h x (List.mem_cons_of_mem _ hx))
    unfold decodeMsg at ih ⊢
    simp only [List.map_cons, foldlM_cons']
    have hstep : blockDataStep (specParams ch table) {} acc (PbfSpec.fBytes 2 (PbfSpec.groupMsg ch table hist r)) =
        some (acc ++ r) := by
      simp only [blockDataStep, PbfSpec.fBytes]
      exact hg
    rw [hstep, Option.bind_some, ih]
    simp

theorem objRep_strings (ch : Choices) (ob : Object) (h : ObjRep ch ob) : ∀ s ∈ PbfSpec.stringsOf ob, StrOk s := by
  have tagsOk : ∀ m : Meta, MetaStrOk m → ∀ s ∈ (m.user :: m.tags.flatMap fun t => [t.key, t.value]), StrOk s := by
    intro m hm s hs
    rcases List.mem_cons.mp hs with rfl | hs
    · exact hm.1
    · obtain ⟨t, ht, hx⟩ := List.mem_flatMap.mp hs
      simp only [List.mem_cons, List.not_mem_nil, or_false] at hx
      rcases hx with rfl | rfl
      · exact (hm.2 t ht).1
      · exact (hm.2 t ht).2
  cases ob with
  | node m l => exact tagsOk m h.1.2.2.2
  | way m ns => exact tagsOk m h.1.2.2.2
  | relation m ms =>
    intro s hs
    simp only [PbfSpec.stringsOf] at hs
    rcases List.mem_append.mp hs with hs | hs
    · exact tagsOk m h.1.2.2.2 s hs
    · obtain ⟨x, hx, rfl⟩ := List.mem_map.mp hs
      exact h.2.2.2 x hx
  | changeset => exact absurd h (by simp [ObjRep])

/-- one data block: both passes -/
theorem spec_block (ch : Choices) (hch : ChoicesOk ch) (hist : Bool) (b : List Object)
    (hrep : ∀ ob ∈ b, ObjRep ch ob)
    (hdense : ch.dense = true → ∀ r ∈ PbfSpec.runs ch.groupSize b, DeltaRep 0 ((nodesOf r).map (·.1.id)))
    (hlen : (PbfSpec.blockMsg ch hist b).length ≤ PbfFraming.maxUncompressedBlobSize) :
    withFields (PbfSpec.blockMsg ch hist b) (decodeBlock {}) = some b := by
  have hm : PbfFraming.maxUncompressedBlobSize = 33554432 := by decide
  rw [spec_blockMsg_eq] at hlen ⊢
  have hpl : ∀ f ∈ blockFields ch hist b, f.wt = .lengthDelimited → f.payload.length ≤ 33554432 := fun f hf hw =>
    Nat.le_trans (payload_le_msg ch PbfSpec.kPrimitiveBlock _ f hf hw) (by omega)
  -- the string table
  have hst_mem : PbfSpec.fBytes 1 (PbfSpec.msg ch PbfSpec.kStringTable ((PbfSpec.tableFor ch b).map (PbfSpec.fBytes 1))) ∈
      blockFields ch hist b := by
    unfold blockFields; simp
  have hst_len := hpl _ hst_mem rfl
  have htl : (PbfSpec.tableFor ch b).length ≤ 2 ^ 31 := by
    have h1 := encodeFields_length_ge (PbfSpec.arrange ch PbfSpec.kStringTable ((PbfSpec.tableFor ch b).map (PbfSpec.fBytes 1)))
    rw [length_arrange, List.length_map] at h1
    have h2 : (PbfSpec.fBytes 1 (PbfSpec.msg ch PbfSpec.kStringTable ((PbfSpec.tableFor ch b).map (PbfSpec.fBytes 1)))).payload.length =
        (encodeFields (PbfSpec.arrange ch PbfSpec.kStringTable ((PbfSpec.tableFor ch b).map (PbfSpec.fBytes 1)))).length := rfl
    rw [h2] at hst_len
    simp only [Nat.reducePow]; omega
  have hshort := spec_tableFor_short ch hch b (fun ob hob => objRep_strings ch ob (hrep ob hob))
  have htab : ∀ ob ∈ b, ∀ s ∈ PbfSpec.stringsOf ob, TableOk (PbfSpec.tableFor ch b) s := fun ob hob =>
    spec_tableFor_ok ch b ob hob htl
  -- well-formedness of the canonical fields
  have hwf : ∀ f ∈ blockFields ch hist b, f.WF := by
    intro f hf
    have hp := hpl f hf
    unfold blockFields at hf
    simp only [List.mem_append, List.mem_cons, List.not_mem_nil, or_false, List.mem_map] at hf
    rcases hf with ((((rfl | ⟨r, _, rfl⟩) | hf) | hf) | hf) | hf
    · exact wf_bytes 1 _ (by decide) (by decide) (by have := hp rfl; simp only [PbfSpec.fBytes] at this; simp only [Nat.reducePow]; omega)
    · exact wf_bytes 2 _ (by decide) (by decide) (by have := hp rfl; simp only [PbfSpec.fBytes] at this; simp only [Nat.reducePow]; omega)
    · split at hf <;> simp at hf; subst hf; exact wf_varint_big 17 _ (by decide) (by decide) (u64_lt _)
    · split at hf <;> simp at hf; subst hf; exact wf_varint_big 18 _ (by decide) (by decide) (u64_lt _)
    · split at hf <;> simp at hf; subst hf; exact wf_varint_big 19 _ (by decide) (by decide) (u64_lt _)
    · split at hf <;> simp at hf; subst hf; exact wf_varint_big 20 _ (by decide) (by decide) (u64_lt _)
  have hexu : ∀ e ∈ ch.extras PbfSpec.kPrimitiveBlock, blockKnown e = false := hch.extrasUnknown PbfSpec.kPrimitiveBlock
  have hexm : ∀ e ∈ ch.extras PbfSpec.kPrimitiveBlock, blockMetaKnown e = false := fun e he => by
    have := hexu e he; simp only [blockKnown, Bool.or_eq_false_iff] at this; exact this.1
  have hexd : ∀ e ∈ ch.extras PbfSpec.kPrimitiveBlock, dataKnown e = false := fun e he => by
    have := hexu e he; simp only [blockKnown, Bool.or_eq_false_iff] at this
    simp only [dataKnown, Bool.and_comm]; exact this.2
  unfold withFields
  rw [readFields_msg ch _ _ hwf (hch.extrasWF _)]
  simp only
  unfold decodeBlock
  rw [decodeMsg_arrange' blockMetaStep blockMetaKnown blockMetaStep_unknown blockMetaStep_commutes ch _ _ _ hexm,
    spec_block_meta ch hch hist b hshort]
  simp only [bind, Option.bind]
  rw [decodeMsg_arrange (blockDataStep (specParams ch (PbfSpec.tableFor ch b)) {}) dataKnown (blockDataStep_unknown _ _) _
    (commutesOn_single _ dataKnown (blockDataStep_unknown _ _) (2, .lengthDelimited)) ch _ _ []
    (fun f _ => dataKnown_key f) (fun e _ => dataKnown_key e) hexd]
  -- the canonical list: string table (skipped), groups, parameters (skipped)
  unfold blockFields
  rw [decodeMsg_append, decodeMsg_append, decodeMsg_append, decodeMsg_append, decodeMsg_append]
  have hskip1 : decodeMsg (blockDataStep (specParams ch (PbfSpec.tableFor ch b)) {}) []
      [PbfSpec.fBytes 1 (PbfSpec.msg ch PbfSpec.kStringTable ((PbfSpec.tableFor ch b).map (PbfSpec.fBytes 1)))] = some [] := rfl
  have hgroups := spec_groups_fold ch hch (PbfSpec.tableFor ch b) hist (PbfSpec.runs ch.groupSize b) [] (fun r hr => by
    refine ⟨spec_runs_ok _ b r hr, fun ob hob => hrep ob (spec_runs_mem _ b r hr ob hob),
      fun ob hob => htab ob (spec_runs_mem _ b r hr ob hob), fun hd => hdense hd r hr, ?_⟩
    have hmem : PbfSpec.fBytes 2 (PbfSpec.groupMsg ch (PbfSpec.tableFor ch b) hist r) ∈ blockFields ch hist b := by
      unfold blockFields
      simp only [List.mem_append, List.mem_map]
      exact Or.inl (Or.inl (Or.inl (Or.inl (Or.inr ⟨r, hr, rfl⟩))))
    have := hpl _ hmem rfl
    simp only [PbfSpec.fBytes] at this
    simp only [Nat.reducePow]; omega)
  rw [hskip1, Option.bind_some, hgroups, Option.bind_some, List.nil_append, spec_runs_flatten]
  have hskip : ∀ (c : Bool) (f : Field), dataKnown f = false → ∀ acc : List Object,
      decodeMsg (blockDataStep (specParams ch (PbfSpec.tableFor ch b)) {}) acc (if c then [] else [f]) = some acc := by
    intro c f hf acc
    cases c <;> simp [decodeMsg, blockDataStep_unknown _ _ _ f hf]
  rw [hskip _ _ rfl, Option.bind_some, hskip _ _ rfl, Option.bind_some, hskip _ _ rfl, Option.bind_some, hskip _ _ rfl]

/-! ### the file -/

theorem all2_map {α β : Type} (R : α → β → Prop) (f : β → α) : ∀ (l : List β), (∀ b ∈ l, R (f b) b) → All2 R (l.map f) l
  | [], _ => .nil
  | b :: l, h => .cons (h b (List.mem_cons_self ..)) (all2_map R f l (fun x hx => h x (List.mem_cons_of_mem _ hx)))

/-- `PBFParser::run` on a file of the specification encoder -/
theorem spec_file (inflate : Nat → Bytes → Nat → Option Bytes) (ch : Choices) (h : Header) (os : List Object)
    (hch : ChoicesOk ch) (hrep : Representable ch h os) (hfit : Fits ch h os) :
    decodeFile inflate {} (PbfSpec.encode ch h os) = some (h, os) := by
  have hm : PbfFraming.maxUncompressedBlobSize = 33554432 := by decide
  have hblocks_flat : (blocksOf ch os).flatten = os := spec_cut_flatten _ _ _ _ (Nat.lt_succ_self _)
  -- header blob
  have hnextH := fun rest => spec_nextBlob ch hch true PbfFraming.osmHeader rfl (PbfSpec.headerMsg ch h) rest hfit.header
  have hhdr : decodeHeader inflate (specBlob ch (PbfSpec.headerMsg ch h)) = some h := by
    unfold decodeHeader
    rw [spec_decodeBlob ch hch inflate _ hfit.header.payload_le]
    simp only [bind, Option.bind]
    exact spec_header ch hch h hrep.boxes (by have := hfit.header.payload_le; simp only [Nat.reducePow]; omega)
  -- data blobs
  let frs : List (Bytes × Bytes) := (blocksOf ch os).map fun b =>
    (PbfSpec.frame ch PbfFraming.osmData (PbfSpec.blockMsg ch h.multipleVersions b),
     specBlob ch (PbfSpec.blockMsg ch h.multipleVersions b))
  have hfrs1 : frs.map (·.1) = (blocksOf ch os).map fun b =>
      PbfSpec.frame ch PbfFraming.osmData (PbfSpec.blockMsg ch h.multipleVersions b) := by
    simp [frs, List.map_map, Function.comp_def]
  have hfrs2 : frs.map (·.2) = (blocksOf ch os).map fun b => specBlob ch (PbfSpec.blockMsg ch h.multipleVersions b) := by
    simp [frs, List.map_map, Function.comp_def]
  have hnext : ∀ fb ∈ frs, ∀ rest, nextBlob false (fb.1 ++ rest) = some (some (fb.2, rest)) := by
    intro fb hfb rest
    obtain ⟨b, hb, rfl⟩ := List.mem_map.mp hfb
    exact spec_nextBlob ch hch false PbfFraming.osmData rfl _ rest (hfit.blocks b hb)
  have hlen1 : ∀ x ∈ frs.map (·.1), 1 ≤ x.length := by
    intro x hx
    rw [hfrs1] at hx
    obtain ⟨b, _, rfl⟩ := List.mem_map.mp hx
    have := spec_frame_length ch PbfFraming.osmData (PbfSpec.blockMsg ch h.multipleVersions b)
    omega
  have hblobs := dataBlobs_frames frs ((frs.map (·.1)).flatten.length + 1) [] hnext (by
    have := length_le_flatten_length (frs.map (·.1)) hlen1
    simp only [List.length_map] at this
    omega)
  have hall : All2 (fun blob d => decodeDataBlob inflate {} blob = some d) (frs.map (·.2)) (blocksOf ch os) := by
    rw [hfrs2]
    apply all2_map
    intro b hb
    have hf := hfit.blocks b hb
    unfold decodeDataBlob
    rw [spec_decodeBlob ch hch inflate _ hf.payload_le]
    simp only [bind, Option.bind]
    exact spec_block ch hch h.multipleVersions b
      (fun ob hob => hrep.objs ob (spec_cut_mem _ _ _ os (Nat.lt_succ_self _) b hb ob hob))
      (fun hd => hrep.dense hd b hb) hf.payload_le
  have hfold := foldlM_blobs inflate (frs.map (·.2)) (blocksOf ch os) [] hall
  have henc : PbfSpec.encode ch h os = PbfSpec.frame ch PbfFraming.osmHeader (PbfSpec.headerMsg ch h) ++ (frs.map (·.1)).flatten := by
    rw [hfrs1]; rfl
  rw [henc]
  unfold decodeFile
  simp only [hnextH, bind, Option.bind, hhdr, hblobs, List.reverse_nil, List.nil_append, hfold, hblocks_flat]
  simp

end Osmium.Pbf
