/-
C07, PBF part: "the input ends early ⇒ reported" for the framing readers of Model/PbfFd.lean, for ALL valid
files and ALL cut positions; the direct-fd reader (short reads) and the chunked queue reader compute the same
function of the byte stream (both versions of the code); the old code (`Fixes.before`) refuted on a concrete file.
-/
import Osmium.Model.PbfFd
import Osmium.Lemmas.ChunksPbf
import Osmium.Lemmas.PbfSpecFrame

namespace Osmium.PbfFd

open Osmium.Wire Osmium.Chunks

/-! ## A1: the length field -/

theorem enc32_length (n : Nat) : (enc32 n).length = 4 := rfl

theorem be32_enc32 (n : Nat) (h : n < 2 ^ 32) : Chunks.be32 (enc32 n) = n := by
  simp only [enc32, Chunks.be32, UInt8.toNat_ofNat']
  omega

/-! ## A2: `read_exactly` over any schedule of short reads -/

theorem read_spec (fd : Fd) (n : Nat) (hn : 0 < n) :
    ∃ m, 1 ≤ m ∧ m ≤ n ∧ fd.read n = (fd.data.take m, ⟨fd.data.drop m, fd.sched.tail⟩) := by
  unfold Fd.read
  cases hs : fd.sched with
  | nil => exact ⟨n, hn, Nat.le_refl _, rfl⟩
  | cons s t => exact ⟨min n (max s 1), by omega, by omega, rfl⟩

theorem readExactlyGo_ok : ∀ (fuel toRead : Nat) (fd : Fd) (acc : Bytes), toRead ≤ fuel → toRead ≤ fd.data.length →
    ∃ sc, Fd.readExactlyGo fuel toRead fd acc = (true, acc ++ fd.data.take toRead, ⟨fd.data.drop toRead, sc⟩)
  | fuel, 0, fd, acc, _, _ => ⟨fd.sched, by cases fuel <;> simp [Fd.readExactlyGo]⟩
  | 0, _ + 1, _, _, hf, _ => by omega
  | fuel + 1, toRead + 1, fd, acc, hf, hl => by
    obtain ⟨m, hm1, hm2, hr⟩ := read_spec fd (toRead + 1) (by omega)
    have hlen : (fd.data.take m).length = m := by rw [List.length_take]; omega
    have hne : (fd.data.take m).isEmpty = false := by
      cases hq : fd.data.take m with
      | nil => rw [hq] at hlen; simp at hlen; omega
      | cons _ _ => rfl
    obtain ⟨sc, ih⟩ := readExactlyGo_ok fuel (toRead + 1 - m) ⟨fd.data.drop m, fd.sched.tail⟩ (acc ++ fd.data.take m)
      (by omega) (by simp only [List.length_drop]; omega)
    refine ⟨sc, ?_⟩
    simp only [Fd.readExactlyGo, hr, hne, hlen, Bool.false_eq_true, ↓reduceIte]
    rw [ih]
    simp only [List.append_assoc, List.drop_drop, Prod.mk.injEq, true_and]
    refine ⟨?_, ?_⟩
    · congr 1
      have : toRead + 1 = m + (toRead + 1 - m) := by omega
      conv => rhs; rw [this, List.take_add]
    · congr 2; omega

theorem readExactlyGo_eof : ∀ (fuel toRead : Nat) (fd : Fd) (acc : Bytes), toRead ≤ fuel → fd.data.length < toRead →
    ∃ sc, Fd.readExactlyGo fuel toRead fd acc = (false, acc ++ fd.data, ⟨[], sc⟩)
  | _, 0, _, _, _, hl => by omega
  | 0, _ + 1, _, _, hf, _ => by omega
  | fuel + 1, toRead + 1, fd, acc, hf, hl => by
    obtain ⟨m, hm1, hm2, hr⟩ := read_spec fd (toRead + 1) (by omega)
    cases hd : fd.data with
    | nil =>
      refine ⟨fd.sched.tail, ?_⟩
      simp [Fd.readExactlyGo, hr, hd]
    | cons x xs =>
      have hlen : (fd.data.take m).length = min m fd.data.length := List.length_take
      have hpos : 0 < fd.data.length := by rw [hd]; simp
      have hne : (fd.data.take m).isEmpty = false := by
        cases hq : fd.data.take m with
        | nil => rw [hq] at hlen; simp at hlen; omega
        | cons _ _ => rfl
      obtain ⟨sc, ih⟩ := readExactlyGo_eof fuel (toRead + 1 - (fd.data.take m).length) ⟨fd.data.drop m, fd.sched.tail⟩
        (acc ++ fd.data.take m) (by omega) (by simp only [List.length_drop]; omega)
      refine ⟨sc, ?_⟩
      rw [← hd]
      simp only [Fd.readExactlyGo, hr, hne, Bool.false_eq_true, ↓reduceIte]
      rw [ih]
      simp

theorem readExactly_ok (fd : Fd) (size : Nat) (h : size ≤ fd.data.length) :
    ∃ sc, fd.readExactly size = (true, fd.data.take size, ⟨fd.data.drop size, sc⟩) := by
  obtain ⟨sc, hsc⟩ := readExactlyGo_ok size size fd [] (Nat.le_refl _) h
  exact ⟨sc, by simpa [Fd.readExactly] using hsc⟩

theorem readExactly_eof (fd : Fd) (size : Nat) (h : fd.data.length < size) :
    ∃ sc, fd.readExactly size = (false, fd.data, ⟨[], sc⟩) := by
  obtain ⟨sc, hsc⟩ := readExactlyGo_eof size size fd [] (Nat.le_refl _) h
  exact ⟨sc, by simpa [Fd.readExactly] using hsc⟩

/-! ## A3: the direct-fd reader computes the queue reader's function of the bytes -/

section
variable (fx : Fixes) (mh mb : Nat) (bs : Bool → Bytes → Option Nat)

theorem fdHeaderSize_short (fd : Fd) (h : fd.data.length < 4) :
    ∃ sc, fdHeaderSize fx mh fd =
      if fx.lengthStrict && !fd.data.isEmpty then .error .truncated else .ok (0, ⟨[], sc⟩) := by
  obtain ⟨sc, hsc⟩ := readExactly_eof fd 4 h
  exact ⟨sc, by simp only [fdHeaderSize, hsc]⟩

theorem fdHeaderSize_full (fd : Fd) (h : 4 ≤ fd.data.length) :
    ∃ sc, fdHeaderSize fx mh fd =
      if be32 (fd.data.take 4) > mh then .error .headerTooLarge
      else .ok (be32 (fd.data.take 4), ⟨fd.data.drop 4, sc⟩) := by
  obtain ⟨sc, hsc⟩ := readExactly_ok fd 4 h
  exact ⟨sc, by simp only [fdHeaderSize, hsc]⟩

/-- one record: same error, same end-of-file, same record and same bytes left -/
theorem fdFrame_eq_flat (hle : mh ≤ mb) (first : Bool) (fd : Fd) :
    match flatFrame fx mh mb bs first fd.data with
    | .error e => fdFrame fx mh mb bs first fd = .error e
    | .ok (none, _) => ∃ fd', fdFrame fx mh mb bs first fd = .ok (none, fd')
    | .ok (some f, r') => ∃ sc, fdFrame fx mh mb bs first fd = .ok (some f, ⟨r', sc⟩) := by
  by_cases h4 : fd.data.length < 4
  · obtain ⟨sc, hs⟩ := fdHeaderSize_short fx mh fd h4
    by_cases hst : (fx.lengthStrict && !fd.data.isEmpty) = true
    · simp [flatFrame, fdFrame, h4, hs, hst]
    · simp only [Bool.not_eq_true] at hst
      simp [flatFrame, fdFrame, h4, hs, hst]
  · obtain ⟨sc, hs⟩ := fdHeaderSize_full fx mh fd (by omega)
    generalize hn : be32 (fd.data.take 4) = n at hs
    by_cases hgt : n > mh
    · simp [flatFrame, fdFrame, h4, hs, hgt, hn]
    · by_cases hz : n = 0
      · simp [flatFrame, fdFrame, h4, hs, hn, hz]
      · have hnb : ¬ n > mb := by omega
        by_cases hl : (fd.data.drop 4).length < n
        · obtain ⟨sc1, h1⟩ := readExactly_eof ⟨fd.data.drop 4, sc⟩ n hl
          have hl' : fd.data.length - 4 < n := by simpa using hl
          simp [flatFrame, fdFrame, h4, hs, hgt, hn, hz, hnb, h1, hl']
        · obtain ⟨sc1, h1⟩ := readExactly_ok ⟨fd.data.drop 4, sc⟩ n (by dsimp only; omega)
          have hl' : ¬ fd.data.length - 4 < n := by simpa using hl
          cases hb : bs first ((fd.data.drop 4).take n) with
          | none => simp [flatFrame, fdFrame, h4, hs, hgt, hn, hz, hnb, h1, hl', hb]
          | some bsize =>
            by_cases hbig : bsize > mb
            · simp [flatFrame, fdFrame, h4, hs, hgt, hn, hz, hnb, h1, hl', hb, hbig]
            · by_cases hl2 : ((fd.data.drop 4).drop n).length < bsize
              · obtain ⟨sc2, h2⟩ := readExactly_eof ⟨(fd.data.drop 4).drop n, sc1⟩ bsize hl2
                have hl2' : fd.data.length - (4 + n) < bsize := by simpa [Nat.sub_sub] using hl2
                simp only [List.drop_drop] at h2
                simp [flatFrame, fdFrame, h4, hs, hgt, hn, hz, hnb, h1, hl', hb, hbig, h2, hl2']
              · obtain ⟨sc2, h2⟩ := readExactly_ok ⟨(fd.data.drop 4).drop n, sc1⟩ bsize (by dsimp only; omega)
                have hl2' : ¬ fd.data.length - (4 + n) < bsize := by simpa [Nat.sub_sub] using hl2
                simp only [List.drop_drop] at h2
                simp [flatFrame, fdFrame, h4, hs, hgt, hn, hz, hnb, h1, hl', hb, hbig, h2, hl2']

theorem fdFrames_eq_flat (hle : mh ≤ mb) : ∀ (fuel : Nat) (fd : Fd) (acc : List (Bytes × Bytes)),
    fdFrames fx mh mb bs fuel fd acc = flatFrames fx mh mb bs fuel fd.data acc
  | 0, _, _ => rfl
  | fuel + 1, fd, acc => by
    have h := fdFrame_eq_flat fx mh mb bs hle acc.isEmpty fd
    simp only [fdFrames, flatFrames]
    cases hr : flatFrame fx mh mb bs acc.isEmpty fd.data with
    | error e => rw [hr] at h; simp [h]
    | ok v =>
      obtain ⟨r, r'⟩ := v
      rw [hr] at h
      cases r with
      | none => obtain ⟨fd', h⟩ := h; simp [h]
      | some f =>
        obtain ⟨sc, h⟩ := h
        simp only [h]
        exact fdFrames_eq_flat hle fuel ⟨r', sc⟩ (f :: acc)

theorem readAllFd_eq (hle : mh ≤ mb) (fd : Fd) : readAllFd fx mh mb bs fd = readAll fx mh mb bs fd.data :=
  fdFrames_eq_flat fx mh mb bs hle _ fd []

/-! ## B1: the chunked input-queue reader computes the same function of the concatenated stream -/

theorem pending_good (p : PbfIn) (hg : p.src.Good) : p.buf ++ p.src.pending = p.stream := by
  simp [Src.pending, PbfIn.stream, hg.1]

theorem qHeaderSize_spec (p : PbfIn) (hg : p.src.Good) :
    (p.stream.length < 4 → qHeaderSize fx mh p =
      if fx.lengthStrict && !p.stream.isEmpty then .error .truncated else .ok (0, p)) ∧
    (4 ≤ p.stream.length →
      (be32 (p.stream.take 4) > mh → qHeaderSize fx mh p = .error .headerTooLarge) ∧
      (¬ be32 (p.stream.take 4) > mh →
        ∃ p', qHeaderSize fx mh p = .ok (be32 (p.stream.take 4), p') ∧ p'.src.Good ∧
          p'.stream = p.stream.drop 4)) := by
  constructor
  · intro h
    simp only [qHeaderSize, readExact_err p 4 hg h, pending_good p hg]
  · intro h
    obtain ⟨p', he, hg', hs⟩ := readExact_ok p 4 hg h
    constructor
    · intro hgt; simp [qHeaderSize, he, hgt]
    · intro hgt; exact ⟨p', by simp [qHeaderSize, he, hgt], hg', hs⟩

theorem qFrame_eq_flat (first : Bool) (p : PbfIn) (hg : p.src.Good) :
    match qFrame fx mh mb bs first p with
    | .error e => flatFrame fx mh mb bs first p.stream = .error e
    | .ok (r, p') => flatFrame fx mh mb bs first p.stream = .ok (r, p'.stream) ∧ p'.src.Good := by
  have hh := qHeaderSize_spec fx mh p hg
  by_cases h4 : p.stream.length < 4
  · by_cases hst : (fx.lengthStrict && !p.stream.isEmpty) = true
    · simp [qFrame, hh.1 h4, flatFrame, h4, hst]
    · simp only [Bool.not_eq_true] at hst
      simp [qFrame, hh.1 h4, flatFrame, h4, hst, hg]
  · have h4' : 4 ≤ p.stream.length := by omega
    by_cases hgt : be32 (p.stream.take 4) > mh
    · simp [qFrame, (hh.2 h4').1 hgt, flatFrame, h4, hgt]
    · obtain ⟨p1, e1, g1, s1⟩ := (hh.2 h4').2 hgt
      by_cases hz : be32 (p.stream.take 4) = 0
      · simp [qFrame, e1, flatFrame, h4, hz, g1, s1]
      · generalize hn : be32 (p.stream.take 4) = n at *
        by_cases hl : p1.stream.length < n
        · have hre := readExact_err p1 n g1 hl
          rw [s1] at hl
          have hl' : p.stream.length - 4 < n := by simpa using hl
          simp [qFrame, e1, hz, hre, flatFrame, h4, hgt, hl', hn]
        · obtain ⟨p2, e2, g2, s2⟩ := readExact_ok p1 n g1 (by omega)
          rw [s1] at hl e2 s2
          have hl' : ¬ p.stream.length - 4 < n := by simpa using hl
          cases hb : bs first (List.take n (List.drop 4 p.stream)) with
          | none => simp [qFrame, e1, hz, e2, hb, flatFrame, h4, hgt, hl', hn]
          | some bsize =>
            by_cases hbig : bsize > mb
            · simp [qFrame, e1, hz, e2, hb, hbig, flatFrame, h4, hgt, hl', hn]
            · by_cases hl2 : p2.stream.length < bsize
              · have hre := readExact_err p2 bsize g2 hl2
                rw [s2] at hl2
                have hl2' : p.stream.length - (4 + n) < bsize := by simpa [Nat.sub_sub] using hl2
                simp [qFrame, e1, hz, e2, hb, hbig, hre, flatFrame, h4, hgt, hl', hl2', hn]
              · obtain ⟨p3, e3, g3, s3⟩ := readExact_ok p2 bsize g2 (by omega)
                rw [s2] at hl2 e3 s3
                have hl2' : ¬ p.stream.length - (4 + n) < bsize := by simpa [Nat.sub_sub] using hl2
                simp [qFrame, e1, hz, e2, hb, hbig, e3, flatFrame, h4, hgt, hl', hl2', g3, s3, hn]

/-- chunk independence, both versions of the code -/
theorem qFrames_eq_flat : ∀ (fuel : Nat) (p : PbfIn) (acc : List (Bytes × Bytes)), p.src.Good →
    qFrames fx mh mb bs fuel p acc = flatFrames fx mh mb bs fuel p.stream acc
  | 0, _, _, _ => rfl
  | fuel + 1, p, acc, hg => by
    have h := qFrame_eq_flat fx mh mb bs acc.isEmpty p hg
    simp only [qFrames, flatFrames]
    cases hr : qFrame fx mh mb bs acc.isEmpty p with
    | error e => rw [hr] at h; simp [h]
    | ok v =>
      obtain ⟨r, p'⟩ := v
      rw [hr] at h
      obtain ⟨hs, hg'⟩ := h
      cases r with
      | none => simp [hs]
      | some f => simp [hs, qFrames_eq_flat fuel p' (f :: acc) hg']

theorem readAllQ_eq (cs : List Bytes) (hne : ∀ c ∈ cs, c ≠ []) :
    readAllQ fx mh mb bs cs = readAll fx mh mb bs cs.flatten := by
  have := qFrames_eq_flat fx mh mb bs (cs.flatten.length / 4 + 2) { buf := [], src := { chunks := cs } } [] ⟨rfl, hne⟩
  simpa [readAllQ, readAll, fuelFor, PbfIn.stream] using this

end

/-! ## valid files -/

structure FrameOk (mh mb : Nat) (bs : Bool → Bytes → Option Nat) (first : Bool) (f : Bytes × Bytes) : Prop where
  hdr_pos : 0 < f.1.length
  hdr_le : f.1.length ≤ mh
  size : bs first f.1 = some f.2.length
  blob_le : f.2.length ≤ mb

/-- header blob first, then data blobs -/
def FileOk (mh mb : Nat) (bs : Bool → Bytes → Option Nat) : List (Bytes × Bytes) → Prop
  | [] => False
  | h :: ds => FrameOk mh mb bs true h ∧ ∀ d ∈ ds, FrameOk mh mb bs false d

/-- a run of valid records whose first one is read with `first` -/
def FramesFrom (mh mb : Nat) (bs : Bool → Bytes → Option Nat) (first : Bool) : List (Bytes × Bytes) → Prop
  | [] => True
  | h :: ds => FrameOk mh mb bs first h ∧ ∀ d ∈ ds, FrameOk mh mb bs false d

theorem framesFrom_false {mh mb : Nat} {bs : Bool → Bytes → Option Nat} (l : List (Bytes × Bytes))
    (h : ∀ d ∈ l, FrameOk mh mb bs false d) : FramesFrom mh mb bs false l := by
  cases l with
  | nil => trivial
  | cons a l => exact ⟨h a List.mem_cons_self, fun d hd => h d (List.mem_cons_of_mem _ hd)⟩

theorem fileOk_take {mh mb : Nat} {bs : Bool → Bytes → Option Nat} {fs : List (Bytes × Bytes)}
    (hok : FileOk mh mb bs fs) (j : Nat) : FramesFrom mh mb bs true (fs.take j) := by
  cases fs with
  | nil => exact hok.elim
  | cons h ds =>
    cases j with
    | zero => trivial
    | succ j => exact ⟨hok.1, fun d hd => hok.2 d (List.mem_of_mem_take hd)⟩

theorem fileOk_get {mh mb : Nat} {bs : Bool → Bytes → Option Nat} {fs : List (Bytes × Bytes)}
    (hok : FileOk mh mb bs fs) (j : Nat) (hj : j < fs.length) : FrameOk mh mb bs (fs.take j).isEmpty fs[j] := by
  cases fs with
  | nil => exact hok.elim
  | cons h ds =>
    cases j with
    | zero => exact hok.1
    | succ j => exact hok.2 _ (List.getElem_mem _)

/-! ## list algebra of `fileBytes` / `boundary` -/

theorem frameBytes_length (f : Bytes × Bytes) : (frameBytes f).length = 4 + f.1.length + f.2.length := by
  simp only [frameBytes, List.length_append, enc32_length]

theorem fileBytes_cons (a : Bytes × Bytes) (l : List (Bytes × Bytes)) :
    fileBytes (a :: l) = frameBytes a ++ fileBytes l := rfl

theorem fileBytes_append (l₁ l₂ : List (Bytes × Bytes)) : fileBytes (l₁ ++ l₂) = fileBytes l₁ ++ fileBytes l₂ := by
  simp [fileBytes]

theorem fileBytes_length_ge : ∀ l : List (Bytes × Bytes), 4 * l.length ≤ (fileBytes l).length
  | [] => Nat.zero_le _
  | a :: l => by
    have := fileBytes_length_ge l
    rw [fileBytes_cons, List.length_append, frameBytes_length, List.length_cons]
    omega

theorem boundary_zero (fs : List (Bytes × Bytes)) : boundary fs 0 = 0 := rfl

theorem boundary_succ (a : Bytes × Bytes) (l : List (Bytes × Bytes)) (j : Nat) :
    boundary (a :: l) (j + 1) = (frameBytes a).length + boundary l j := by
  simp [boundary, fileBytes_cons]

theorem boundary_length (fs : List (Bytes × Bytes)) : boundary fs fs.length = (fileBytes fs).length := by
  simp [boundary]

theorem fileBytes_split (fs : List (Bytes × Bytes)) (j : Nat) :
    fileBytes fs = fileBytes (fs.take j) ++ fileBytes (fs.drop j) := by
  rw [← fileBytes_append, List.take_append_drop]

theorem take_boundary (fs : List (Bytes × Bytes)) (j : Nat) :
    (fileBytes fs).take (boundary fs j) = fileBytes (fs.take j) := by
  rw [fileBytes_split fs j, boundary]
  exact List.take_left' rfl

theorem take_boundary_off (fs : List (Bytes × Bytes)) (j off : Nat) (hj : j < fs.length)
    (h1 : off ≤ (frameBytes fs[j]).length) :
    (fileBytes fs).take (boundary fs j + off) = fileBytes (fs.take j) ++ (frameBytes fs[j]).take off := by
  rw [fileBytes_split fs j, boundary, List.drop_eq_getElem_cons hj, fileBytes_cons, List.take_append,
    List.take_of_length_le (Nat.le_add_right _ _), Nat.add_sub_cancel_left, List.take_append_of_le_length h1]

/-- A6: a cut position is a record boundary or lies strictly inside one record -/
theorem cut_cases : ∀ (fs : List (Bytes × Bytes)) (k : Nat), k ≤ (fileBytes fs).length →
    (∃ j, j ≤ fs.length ∧ k = boundary fs j) ∨
    (∃ j off, ∃ hj : j < fs.length, 0 < off ∧ off < (frameBytes fs[j]).length ∧ k = boundary fs j + off)
  | [], k, hk => Or.inl ⟨0, Nat.le_refl _, by simpa [fileBytes, boundary] using hk⟩
  | a :: l, k, hk => by
    by_cases h0 : k = 0
    · exact Or.inl ⟨0, Nat.zero_le _, h0⟩
    · by_cases h1 : k < (frameBytes a).length
      · exact Or.inr ⟨0, k, Nat.zero_lt_succ _, by omega, h1, by simp [boundary_zero]⟩
      · rw [fileBytes_cons, List.length_append] at hk
        rcases cut_cases l (k - (frameBytes a).length) (by omega) with ⟨j, hj, e⟩ | ⟨j, off, hj, ho, hl, e⟩
        · exact Or.inl ⟨j + 1, by simpa using hj, by rw [boundary_succ]; omega⟩
        · exact Or.inr ⟨j + 1, off, by simpa using hj, ho, by simpa using hl, by rw [boundary_succ]; omega⟩

/-! ## one record -/

section
variable (fx : Fixes) (mh mb : Nat) (bs : Bool → Bytes → Option Nat)

theorem flatFrame_enc_short (first : Bool) (n : Nat) (hn : n < 2 ^ 32) (hn0 : 0 < n) (hle : n ≤ mh) (r1 : Bytes)
    (h : r1.length < n) : flatFrame fx mh mb bs first (enc32 n ++ r1) = .error .truncated := by
  have e4 : (enc32 n ++ r1).take 4 = enc32 n := List.take_left' rfl
  have d4 : (enc32 n ++ r1).drop 4 = r1 := List.drop_left' rfl
  have l4 : ¬ (enc32 n ++ r1).length < 4 := by rw [List.length_append, enc32_length]; omega
  have hgt : ¬ n > mh := by omega
  have hz : (n == 0) = false := by rw [beq_eq_false_iff_ne]; omega
  unfold flatFrame
  rw [if_neg l4]
  simp only [e4, d4, be32_enc32 n hn, if_neg hgt, hz, Bool.false_eq_true, ↓reduceIte, if_pos h]

theorem flatFrame_enc_blob (first : Bool) (n : Nat) (hn : n < 2 ^ 32) (hn0 : 0 < n) (hle : n ≤ mh) (r1 : Bytes)
    (h : n ≤ r1.length) (b : Nat) (hb : bs first (r1.take n) = some b) (hbm : b ≤ mb) :
    flatFrame fx mh mb bs first (enc32 n ++ r1) =
      if (r1.drop n).length < b then .error .truncated
      else .ok (some (r1.take n, (r1.drop n).take b), (r1.drop n).drop b) := by
  have e4 : (enc32 n ++ r1).take 4 = enc32 n := List.take_left' rfl
  have d4 : (enc32 n ++ r1).drop 4 = r1 := List.drop_left' rfl
  have l4 : ¬ (enc32 n ++ r1).length < 4 := by rw [List.length_append, enc32_length]; omega
  have hgt : ¬ n > mh := by omega
  have hz : (n == 0) = false := by rw [beq_eq_false_iff_ne]; omega
  have hl : ¬ r1.length < n := by omega
  have hbg : ¬ b > mb := by omega
  unfold flatFrame
  rw [if_neg l4]
  simp only [e4, d4, be32_enc32 n hn, if_neg hgt, hz, Bool.false_eq_true, ↓reduceIte, if_neg hl, hb, if_neg hbg]

/-- a complete valid record is read and exactly its bytes are consumed -/
theorem flatFrame_frame (hm : mh < 2 ^ 32) (first : Bool) (f : Bytes × Bytes) (hf : FrameOk mh mb bs first f)
    (tail : Bytes) : flatFrame fx mh mb bs first (frameBytes f ++ tail) = .ok (some f, tail) := by
  obtain ⟨hdr, blob⟩ := f
  obtain ⟨h1, h2, h3, h4⟩ := hf
  simp only at h1 h2 h3 h4
  have e : frameBytes (hdr, blob) ++ tail = enc32 hdr.length ++ (hdr ++ (blob ++ tail)) := by simp [frameBytes]
  have t1 : (hdr ++ (blob ++ tail)).take hdr.length = hdr := List.take_left' rfl
  have d1 : (hdr ++ (blob ++ tail)).drop hdr.length = blob ++ tail := List.drop_left' rfl
  rw [e, flatFrame_enc_blob fx mh mb bs first hdr.length (by omega) h1 h2 _ (by simp) blob.length (by rw [t1]; exact h3) h4,
    t1, d1, List.take_left' rfl, List.drop_left' rfl, if_neg (by simp)]

/-- a valid record cut strictly inside -/
theorem flatFrame_cut (hm : mh < 2 ^ 32) (first : Bool) (f : Bytes × Bytes) (hf : FrameOk mh mb bs first f)
    (off : Nat) (h0 : 0 < off) (h1 : off < (frameBytes f).length) :
    flatFrame fx mh mb bs first ((frameBytes f).take off) =
      if off < 4 ∧ fx.lengthStrict = false then .ok (none, (frameBytes f).take off) else .error .truncated := by
  have hlen : ((frameBytes f).take off).length = off := by rw [List.length_take]; omega
  by_cases h4 : off < 4
  · have hne : ((frameBytes f).take off).isEmpty = false := by
      cases hq : (frameBytes f).take off with
      | nil => rw [hq] at hlen; simp at hlen; omega
      | cons _ _ => rfl
    unfold flatFrame
    rw [if_pos (by omega), hne]
    cases fx.lengthStrict <;> simp [h4]
  · obtain ⟨hdr, blob⟩ := f
    obtain ⟨g1, g2, g3, g4⟩ := hf
    simp only at g1 g2 g3 g4
    rw [frameBytes_length] at h1
    simp only at h1
    have e : (frameBytes (hdr, blob)).take off = enc32 hdr.length ++ (hdr ++ blob).take (off - 4) := by
      have : frameBytes (hdr, blob) = enc32 hdr.length ++ (hdr ++ blob) := by simp [frameBytes]
      rw [this, List.take_append, List.take_of_length_le (by rw [enc32_length]; omega), enc32_length]
    have hl1 : ((hdr ++ blob).take (off - 4)).length = off - 4 := by
      rw [List.length_take, List.length_append]; omega
    rw [e, if_neg (by omega)]
    by_cases hs : off - 4 < hdr.length
    · exact flatFrame_enc_short fx mh mb bs first hdr.length (by omega) g1 g2 _ (by omega)
    · have t1 : ((hdr ++ blob).take (off - 4)).take hdr.length = hdr := by
        rw [List.take_take, Nat.min_eq_left (by omega)]; exact List.take_left' rfl
      rw [flatFrame_enc_blob fx mh mb bs first hdr.length (by omega) g1 g2 _ (by omega) blob.length
        (by rw [t1]; exact g3) g4, if_pos (by rw [List.length_drop]; omega)]

/-! ## many records -/

theorem flatFrames_prefix (hm : mh < 2 ^ 32) : ∀ (l : List (Bytes × Bytes)) (fuel : Nat) (tail : Bytes)
    (acc : List (Bytes × Bytes)), FramesFrom mh mb bs acc.isEmpty l → l.length ≤ fuel →
    flatFrames fx mh mb bs fuel (fileBytes l ++ tail) acc =
      flatFrames fx mh mb bs (fuel - l.length) tail (l.reverse ++ acc)
  | [], fuel, tail, acc, _, _ => by simp [fileBytes]
  | a :: l, 0, _, _, _, hf => by simp at hf
  | a :: l, fuel + 1, tail, acc, hl, hf => by
    have h := flatFrame_frame fx mh mb bs hm acc.isEmpty a hl.1 (fileBytes l ++ tail)
    rw [fileBytes_cons, List.append_assoc, flatFrames, h]
    simp only
    rw [flatFrames_prefix hm l fuel tail (a :: acc) (framesFrom_false l hl.2) (by simpa using hf)]
    simp

theorem flatFrames_end_nil (n : Nat) (acc : List (Bytes × Bytes)) :
    flatFrames fx mh mb bs (n + 1) [] acc = (acc.reverse, none) := by
  simp [flatFrames, flatFrame]

theorem flatFrames_end_cut (hm : mh < 2 ^ 32) (n : Nat) (acc : List (Bytes × Bytes)) (f : Bytes × Bytes)
    (hf : FrameOk mh mb bs acc.isEmpty f) (off : Nat) (h0 : 0 < off) (h1 : off < (frameBytes f).length) :
    flatFrames fx mh mb bs (n + 1) ((frameBytes f).take off) acc =
      (acc.reverse, if off < 4 ∧ fx.lengthStrict = false then none else some .truncated) := by
  rw [flatFrames, flatFrame_cut fx mh mb bs hm acc.isEmpty f hf off h0 h1]
  by_cases h : off < 4 ∧ fx.lengthStrict = false
  · rw [if_pos h, if_pos h]
  · rw [if_neg h, if_neg h]

theorem fuelFor_prefix (l : List (Bytes × Bytes)) (tail : Bytes) :
    ∃ m, fuelFor (fileBytes l ++ tail) - l.length = m + 1 ∧ l.length ≤ fuelFor (fileBytes l ++ tail) := by
  have := fileBytes_length_ge l
  refine ⟨fuelFor (fileBytes l ++ tail) - l.length - 1, ?_, ?_⟩ <;>
    (simp only [fuelFor, List.length_append]; omega)

theorem readAll_prefix (hm : mh < 2 ^ 32) (l : List (Bytes × Bytes)) (hl : FramesFrom mh mb bs true l) :
    readAll fx mh mb bs (fileBytes l) = (l, none) := by
  obtain ⟨m, hm1, hm2⟩ := fuelFor_prefix l []
  rw [List.append_nil] at hm1 hm2
  have := flatFrames_prefix fx mh mb bs hm l (fuelFor (fileBytes l)) [] [] hl hm2
  rw [List.append_nil] at this
  rw [readAll, this, hm1, flatFrames_end_nil]
  simp

theorem readAll_prefix_cut (hm : mh < 2 ^ 32) (l : List (Bytes × Bytes)) (hl : FramesFrom mh mb bs true l)
    (f : Bytes × Bytes) (hf : FrameOk mh mb bs l.isEmpty f) (off : Nat) (h0 : 0 < off)
    (h1 : off < (frameBytes f).length) :
    readAll fx mh mb bs (fileBytes l ++ (frameBytes f).take off) =
      (l, if off < 4 ∧ fx.lengthStrict = false then none else some .truncated) := by
  obtain ⟨m, hm1, hm2⟩ := fuelFor_prefix l ((frameBytes f).take off)
  have := flatFrames_prefix fx mh mb bs hm l _ ((frameBytes f).take off) [] hl hm2
  rw [readAll, this, hm1, flatFrames_end_cut fx mh mb bs hm m _ f (by simpa using hf) off h0 h1]
  simp

/-! ## A5, A7, A8 -/

theorem fileOk_all {fs : List (Bytes × Bytes)} (hok : FileOk mh mb bs fs) : FramesFrom mh mb bs true fs := by
  have := fileOk_take hok fs.length
  rwa [List.take_length] at this

theorem read_valid (hm : mh < 2 ^ 32) (fs : List (Bytes × Bytes)) (hok : FileOk mh mb bs fs) :
    readAll fx mh mb bs (fileBytes fs) = (fs, none) :=
  readAll_prefix fx mh mb bs hm fs (fileOk_all mh mb bs hok)

theorem read_cut_boundary (hm : mh < 2 ^ 32) (fs : List (Bytes × Bytes)) (hok : FileOk mh mb bs fs) (j : Nat)
    (hj : j ≤ fs.length) :
    readAll fx mh mb bs ((fileBytes fs).take (boundary fs j)) = (fs.take j, none) := by
  have _ := hj
  rw [take_boundary]
  exact readAll_prefix fx mh mb bs hm _ (fileOk_take hok j)

theorem read_cut_inside (hm : mh < 2 ^ 32) (fs : List (Bytes × Bytes)) (hok : FileOk mh mb bs fs) (j off : Nat)
    (hj : j < fs.length) (h0 : 0 < off) (h1 : off < (frameBytes fs[j]).length) :
    readAll fx mh mb bs ((fileBytes fs).take (boundary fs j + off)) =
      (fs.take j, if off < 4 ∧ fx.lengthStrict = false then none else some .truncated) := by
  rw [take_boundary_off fs j off hj (Nat.le_of_lt h1)]
  exact readAll_prefix_cut fx mh mb bs hm _ (fileOk_take hok j) _ (fileOk_get hok j hj) off h0 h1

end

/-! ## A9: the clause -/

/-- Every proper prefix of a valid file is either a valid file itself (cut at a record boundary behind the header
    record: the records before the cut are handed on and run() ends normally — such a prefix IS a PBF file), or the
    parser reports an error. -/
def PbfTruncationReported (fx : Fixes) (mh mb : Nat) (bs : Bool → Bytes → Option Nat) : Prop :=
  ∀ fs k, FileOk mh mb bs fs → k ≤ (fileBytes fs).length →
    let r := readAll fx mh mb bs ((fileBytes fs).take k)
    (∃ j, 1 ≤ j ∧ j ≤ fs.length ∧ k = boundary fs j ∧ r = (fs.take j, none) ∧ outcome r = .ok (j - 1)) ∨
    (outcome r).isError = true

theorem outcome_take_ok (fs : List (Bytes × Bytes)) (j : Nat) (h1 : 1 ≤ j) (hj : j ≤ fs.length) :
    outcome (fs.take j, none) = .ok (j - 1) := by
  cases fs with
  | nil => simp at hj; omega
  | cons h ds =>
    cases j with
    | zero => omega
    | succ j =>
      simp only [List.length_cons] at hj
      simp only [List.take_succ_cons, outcome, List.length_take, Nat.add_sub_cancel]
      rw [Nat.min_eq_left (by omega)]

theorem outcome_err (l : List (Bytes × Bytes)) (e : PbfErr) : (outcome (l, some e)).isError = true := by
  cases l <;> rfl

theorem outcome_nil (o : Option PbfErr) : (outcome ([], o)).isError = true := rfl

section
variable (fx : Fixes) (mh mb : Nat) (bs : Bool → Bytes → Option Nat)

/-- both versions of the code; `hcut` is needed by the old one only -/
theorem truncation_core (hm : mh < 2 ^ 32) (fs : List (Bytes × Bytes)) (k : Nat) (hok : FileOk mh mb bs fs)
    (hk : k ≤ (fileBytes fs).length)
    (hcut : fx.lengthStrict = false →
      ∀ j, 1 ≤ j → j < fs.length → ¬ (boundary fs j < k ∧ k < boundary fs j + 4)) :
    (∃ j, 1 ≤ j ∧ j ≤ fs.length ∧ k = boundary fs j ∧
      readAll fx mh mb bs ((fileBytes fs).take k) = (fs.take j, none) ∧
      outcome (readAll fx mh mb bs ((fileBytes fs).take k)) = .ok (j - 1)) ∨
    (outcome (readAll fx mh mb bs ((fileBytes fs).take k))).isError = true := by
  rcases cut_cases fs k hk with ⟨j, hj, e⟩ | ⟨j, off, hj, h0, h1, e⟩
  · have hr := read_cut_boundary fx mh mb bs hm fs hok j hj
    rw [← e] at hr
    by_cases hj0 : j = 0
    · right; rw [hr, hj0]; rfl
    · left
      exact ⟨j, by omega, hj, e, hr, by rw [hr]; exact outcome_take_ok fs j (by omega) hj⟩
  · have hr := read_cut_inside fx mh mb bs hm fs hok j off hj h0 h1
    rw [← e] at hr
    right
    rw [hr]
    by_cases hc : off < 4 ∧ fx.lengthStrict = false
    · have hj0 : j = 0 := by
        by_cases hj0 : j = 0
        · exact hj0
        · exact absurd ⟨by omega, by omega⟩ (hcut hc.2 j (by omega) hj)
      rw [hj0]; exact outcome_nil _
    · rw [if_neg hc]; exact outcome_err _ _

/-- **the input ends early ⇒ reported** (current code), every valid file, every cut position -/
theorem pbf_truncation_reported (hm : mh < 2 ^ 32) : PbfTruncationReported Fixes.current mh mb bs := by
  intro fs k hok hk
  exact truncation_core Fixes.current mh mb bs hm fs k hok hk (fun h => absurd h (by decide))

/-- the records handed on are exactly the complete records before the cut (both versions of the code) -/
theorem pbf_truncation_prefix (hm : mh < 2 ^ 32) (fs : List (Bytes × Bytes)) (hok : FileOk mh mb bs fs) (k : Nat)
    (hk : k ≤ (fileBytes fs).length) :
    ∃ j, j ≤ fs.length ∧ (readAll fx mh mb bs ((fileBytes fs).take k)).1 = fs.take j ∧ boundary fs j ≤ k := by
  rcases cut_cases fs k hk with ⟨j, hj, e⟩ | ⟨j, off, hj, h0, h1, e⟩
  · refine ⟨j, hj, ?_, by omega⟩
    rw [e, read_cut_boundary fx mh mb bs hm fs hok j hj]
  · refine ⟨j, by omega, ?_, by omega⟩
    rw [e, read_cut_inside fx mh mb bs hm fs hok j off hj h0 h1]

/-- the same through the file descriptor, whatever counts read(2) returns -/
theorem pbf_truncation_reported_fd (hm : mh < 2 ^ 32) (hle : mh ≤ mb) :
    ∀ fs k sched, FileOk mh mb bs fs → k ≤ (fileBytes fs).length →
      let r := readAllFd Fixes.current mh mb bs ⟨(fileBytes fs).take k, sched⟩
      (∃ j, 1 ≤ j ∧ j ≤ fs.length ∧ k = boundary fs j ∧ r = (fs.take j, none) ∧ outcome r = .ok (j - 1)) ∨
      (outcome r).isError = true := by
  intro fs k sched hok hk
  rw [readAllFd_eq Fixes.current mh mb bs hle]
  exact pbf_truncation_reported mh mb bs hm fs k hok hk

/-- the same through the input queue, whatever the chunking of the cut input -/
theorem pbf_truncation_reported_queue (hm : mh < 2 ^ 32) :
    ∀ fs k cs, FileOk mh mb bs fs → k ≤ (fileBytes fs).length → (∀ c ∈ cs, c ≠ []) →
      cs.flatten = (fileBytes fs).take k →
      let r := readAllQ Fixes.current mh mb bs cs
      (∃ j, 1 ≤ j ∧ j ≤ fs.length ∧ k = boundary fs j ∧ r = (fs.take j, none) ∧ outcome r = .ok (j - 1)) ∨
      (outcome r).isError = true := by
  intro fs k cs hok hk hne hcs
  rw [readAllQ_eq Fixes.current mh mb bs cs hne, hcs]
  exact pbf_truncation_reported mh mb bs hm fs k hok hk

theorem pbf_truncation_prefix_queue (hm : mh < 2 ^ 32) (fs : List (Bytes × Bytes))
    (hok : FileOk mh mb bs fs) (k : Nat) (hk : k ≤ (fileBytes fs).length) (cs : List Bytes)
    (hne : ∀ c ∈ cs, c ≠ []) (hcs : cs.flatten = (fileBytes fs).take k) :
    ∃ j, j ≤ fs.length ∧ (readAllQ fx mh mb bs cs).1 = fs.take j ∧ boundary fs j ≤ k := by
  rw [readAllQ_eq fx mh mb bs cs hne, hcs]
  exact pbf_truncation_prefix fx mh mb bs hm fs hok k hk

theorem pbf_truncation_prefix_fd (hm : mh < 2 ^ 32) (hle : mh ≤ mb) (fs : List (Bytes × Bytes))
    (hok : FileOk mh mb bs fs) (k : Nat) (hk : k ≤ (fileBytes fs).length) (sched : List Nat) :
    ∃ j, j ≤ fs.length ∧ (readAllFd fx mh mb bs ⟨(fileBytes fs).take k, sched⟩).1 = fs.take j ∧ boundary fs j ≤ k := by
  rw [readAllFd_eq fx mh mb bs hle]
  exact pbf_truncation_prefix fx mh mb bs hm fs hok k hk

/-! ## A10: the code before the repair -/

/-- the old code reports every cut except those 1..3 bytes behind the end of a record that is not the last one -/
theorem pbf_truncation_before_partial (hm : mh < 2 ^ 32) :
    ∀ fs k, FileOk mh mb bs fs → k ≤ (fileBytes fs).length →
      (∀ j, 1 ≤ j → j < fs.length → ¬ (boundary fs j < k ∧ k < boundary fs j + 4)) →
      let r := readAll Fixes.before mh mb bs ((fileBytes fs).take k)
      (∃ j, 1 ≤ j ∧ j ≤ fs.length ∧ k = boundary fs j ∧ r = (fs.take j, none) ∧ outcome r = .ok (j - 1)) ∨
      (outcome r).isError = true := by
  intro fs k hok hk hcut
  exact truncation_core Fixes.before mh mb bs hm fs k hok hk (fun _ => hcut)

end

/-- BlobHeader { type = "OSMHeader", datasize = 1 } -/
def exHdrH : Bytes := [0x0a, 0x09, 0x4f, 0x53, 0x4d, 0x48, 0x65, 0x61, 0x64, 0x65, 0x72, 0x18, 0x01]
/-- BlobHeader { type = "OSMData", datasize = 1 } -/
def exHdrD : Bytes := [0x0a, 0x07, 0x4f, 0x53, 0x4d, 0x44, 0x61, 0x74, 0x61, 0x18, 0x01]

theorem exHdrH_ok (b : UInt8) :
    FrameOk PbfFraming.maxBlobHeaderSize PbfFraming.maxUncompressedBlobSize PbfFraming.blobSize true (exHdrH, [b]) :=
  ⟨by show 0 < exHdrH.length; decide, by show exHdrH.length ≤ _; decide,
    by show PbfFraming.blobSize true exHdrH = some 1; decide +kernel, by show 1 ≤ PbfFraming.maxUncompressedBlobSize; decide⟩

theorem exHdrD_ok (b : UInt8) :
    FrameOk PbfFraming.maxBlobHeaderSize PbfFraming.maxUncompressedBlobSize PbfFraming.blobSize false (exHdrD, [b]) :=
  ⟨by show 0 < exHdrD.length; decide, by show exHdrD.length ≤ _; decide,
    by show PbfFraming.blobSize false exHdrD = some 1; decide +kernel, by show 1 ≤ PbfFraming.maxUncompressedBlobSize; decide⟩

/-- header record + one data record -/
def exFile2 : List (Bytes × Bytes) := [(exHdrH, [0]), (exHdrD, [1])]

theorem exFile2_ok :
    FileOk PbfFraming.maxBlobHeaderSize PbfFraming.maxUncompressedBlobSize PbfFraming.blobSize exFile2 :=
  ⟨exHdrH_ok 0, fun d hd => by
    simp only [List.mem_cons, List.not_mem_nil, or_false] at hd
    subst hd; exact exHdrD_ok 1⟩

/-- the old code takes the 34-byte file cut after 19 bytes (one byte into the length field of the data record)
    for a complete file without data: one record handed on, no error -/
theorem exFile2_cut_before :
    readAll Fixes.before PbfFraming.maxBlobHeaderSize PbfFraming.maxUncompressedBlobSize PbfFraming.blobSize
      ((fileBytes exFile2).take 19) = ([(exHdrH, [0])], none) := by decide +kernel

theorem exFile2_cut_current :
    readAll Fixes.current PbfFraming.maxBlobHeaderSize PbfFraming.maxUncompressedBlobSize PbfFraming.blobSize
      ((fileBytes exFile2).take 19) = ([(exHdrH, [0])], some .truncated) := by decide +kernel

theorem pbf_truncation_before_refuted :
    ¬ PbfTruncationReported Fixes.before PbfFraming.maxBlobHeaderSize PbfFraming.maxUncompressedBlobSize
      PbfFraming.blobSize := by
  intro H
  have h := H exFile2 19 exFile2_ok (by decide)
  simp only [exFile2_cut_before] at h
  rcases h with ⟨j, h1, h2, h3, _⟩ | h
  · have hj : j = 1 ∨ j = 2 := by simp only [exFile2, List.length_cons, List.length_nil] at h2; omega
    rcases hj with rfl | rfl
    · exact absurd h3 (by decide)
    · exact absurd h3 (by decide)
  · exact absurd h (by decide)

/-! ## A11: files of the specification framing encoder are valid -/

theorem spec_frame_bytes (ch : PbfSpec.Choices) (type payload : Bytes) :
    PbfSpec.frame ch type payload = frameBytes (Pbf.specHdr ch type payload, Pbf.specBlob ch payload) := rfl

theorem spec_frameOk (ch : PbfSpec.Choices) (hch : Pbf.ChoicesOk ch) (first : Bool) (type : Bytes)
    (ht : type = if first then PbfFraming.osmHeader else PbfFraming.osmData) (payload : Bytes)
    (hfit : Pbf.FrameFits ch type payload) :
    FrameOk PbfFraming.maxBlobHeaderSize PbfFraming.maxUncompressedBlobSize PbfFraming.blobSize first
      (Pbf.specHdr ch type payload, Pbf.specBlob ch payload) :=
  ⟨Pbf.spec_fr_hdr_pos ch type payload, hfit.hdr_le, Pbf.spec_fr_blobSize ch hch first type ht payload hfit,
    hfit.blob_le⟩

/-- a file written by the specification encoder: header record + data records -/
theorem spec_fileOk (ch : PbfSpec.Choices) (hch : Pbf.ChoicesOk ch) (hp : Bytes) (dps : List Bytes)
    (hh : Pbf.FrameFits ch PbfFraming.osmHeader hp) (hd : ∀ p ∈ dps, Pbf.FrameFits ch PbfFraming.osmData p) :
    FileOk PbfFraming.maxBlobHeaderSize PbfFraming.maxUncompressedBlobSize PbfFraming.blobSize
      ((Pbf.specHdr ch PbfFraming.osmHeader hp, Pbf.specBlob ch hp) ::
        dps.map fun p => (Pbf.specHdr ch PbfFraming.osmData p, Pbf.specBlob ch p)) := by
  refine ⟨spec_frameOk ch hch true _ rfl hp hh, ?_⟩
  intro d hd'
  obtain ⟨p, hp', rfl⟩ := List.mem_map.1 hd'
  exact spec_frameOk ch hch false _ rfl p (hd p hp')

theorem spec_file_bytes (ch : PbfSpec.Choices) (hp : Bytes) (dps : List Bytes) :
    fileBytes ((Pbf.specHdr ch PbfFraming.osmHeader hp, Pbf.specBlob ch hp) ::
        dps.map fun p => (Pbf.specHdr ch PbfFraming.osmData p, Pbf.specBlob ch p)) =
      PbfSpec.frame ch PbfFraming.osmHeader hp ++ (dps.map fun p => PbfSpec.frame ch PbfFraming.osmData p).flatten := by
  simp [fileBytes, spec_frame_bytes, Function.comp_def]

/-- non-vacuity: valid files with ≥ 3 records exist for the real limits and the real `decode_blob_header` -/
example : ∃ fs, FileOk PbfFraming.maxBlobHeaderSize PbfFraming.maxUncompressedBlobSize PbfFraming.blobSize fs ∧
    fs.length ≥ 3 ∧ PbfFraming.maxBlobHeaderSize < 2 ^ 32 ∧
    PbfFraming.maxBlobHeaderSize ≤ PbfFraming.maxUncompressedBlobSize :=
  ⟨[(exHdrH, [0]), (exHdrD, [1]), (exHdrD, [2])],
    ⟨exHdrH_ok 0, fun d hd => by
      simp only [List.mem_cons, List.not_mem_nil, or_false] at hd
      rcases hd with rfl | rfl
      · exact exHdrD_ok 1
      · exact exHdrD_ok 2⟩,
    by decide, by decide, by decide⟩

end Osmium.PbfFd
