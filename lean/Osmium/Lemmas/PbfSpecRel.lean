/-
C02, PBF: `decode_relation` on the specification encoder's Relation message.
-/
import Osmium.Lemmas.PbfSpecMeta

namespace Osmium.Pbf

open Osmium.Wire Osmium.Osm Osmium.PbfMsg
open Osmium.PbfSpec (Choices)

theorem spec_relation (ch : Choices) (hch : ChoicesOk ch) (table : List Bytes) (hist : Bool) (m : Meta) (ms : List Member)
    (hrep : ObjRep ch (.relation m ms)) (htab : ∀ s ∈ PbfSpec.stringsOf (.relation m ms), TableOk table s)
    (hlen : (PbfSpec.relationMsg ch table hist m ms).length < 2 ^ 32) :
    withFields (PbfSpec.relationMsg ch table hist m ms) (decodeRelation (specParams ch table) {}) = some (.relation m ms) := by
  sorry

end Osmium.Pbf
