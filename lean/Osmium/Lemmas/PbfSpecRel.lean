/-
C02, PBF: `decode_relation` on the specification encoder's Relation message.
-/
import Osmium.Lemmas.PbfSpecMeta

namespace Osmium.Pbf

open Osmium.Wire Osmium.Osm Osmium.PbfMsg
open Osmium.PbfSpec (Choices)

/-- the cases of `decode_relation`'s `switch` for different (tag, wire type) commute: 1 sets the id, 8 / 9 / 10 set the
    three packed arrays, 2 / 3 / 4 set keys / vals / (info, user), and `decode_info` reads the info slot only -/
theorem spec_rel_commutes (p : Params) (r : ROpts) : CommutesOn (relationStep p r) (fun _ => True) := by
  intro s f g _ _ hk
  obtain ⟨t1, w1, v1, p1⟩ := f
  obtain ⟨t2, w2, v2, p2⟩ := g
  simp only [key, ne_eq, Prod.mk.injEq, not_and] at hk
  unfold relationStep metaStep
  dsimp only
  split <;> split <;> (try (simp_all; done)) <;> (try simp only [Option.bind_some])
  all_goals (repeat' split)
  all_goals (try (simp_all; done))
  all_goals (first
    | (rcases h : decodeInfo p s.info p2 with _ | x <;> simp_all <;> done)
    | (rcases h : decodeInfo p s.info p1 with _ | x <;> simp_all <;> done))

/-- the canonical field list of the spec's Relation message -/
def spec_rel_fields (ch : Choices) (table : List Bytes) (hist : Bool) (m : Meta) (ms : List Member) : List Field :=
  [PbfSpec.fInt 1 m.id] ++ PbfSpec.metaFields ch table hist m ++
    PbfSpec.fPacked ch.omitDefaults 8 (ms.map fun x => PbfSpec.idx table x.role) ++
    PbfSpec.fPacked ch.omitDefaults 9 ((PbfSpec.delta 0 (ms.map (·.ref))).map zigzag64) ++
    PbfSpec.fPacked ch.omitDefaults 10 (ms.map fun x => x.type - 1)

theorem spec_rel_msg_eq (ch : Choices) (table : List Bytes) (hist : Bool) (m : Meta) (ms : List Member) :
    PbfSpec.relationMsg ch table hist m ms = PbfSpec.msg ch PbfSpec.kRelation (spec_rel_fields ch table hist m ms) := rfl

theorem spec_rel_packed_mem (od : Bool) (tag : Nat) (vs : List Nat) (f : Field) (hf : f ∈ PbfSpec.fPacked od tag vs) :
    f = fBytes tag (pack vs) := by
  unfold PbfSpec.fPacked at hf
  split at hf <;> simp only [List.mem_nil_iff, List.mem_singleton] at hf
  subst hf; rfl

/-- a length-delimited field with a small tag whose payload is shorter than 4 GiB is well-formed -/
theorem spec_rel_ld_wf (f : Field) (hw : f.wt = .lengthDelimited) (ht : 0 < f.tag ∧ f.tag < 17) (hv : f.val = 0)
    (hp : f.payload.length < 2 ^ 32) : f.WF := by
  obtain ⟨tag, wt, val, payload⟩ := f
  simp only at hw ht hv hp
  subst hw hv
  exact ⟨by dsimp only; omega, by simp only [Nat.reducePow]; omega, by dsimp only; omega, rfl, hp⟩

theorem spec_rel_fields_wf (ch : Choices) (table : List Bytes) (hist : Bool) (m : Meta) (ms : List Member)
    (hlen : (PbfSpec.relationMsg ch table hist m ms).length < 2 ^ 32) :
    ∀ f ∈ spec_rel_fields ch table hist m ms, f.WF := by
  intro f hf
  have hf0 := hf
  have ld : f.wt = .lengthDelimited → f.payload.length < 2 ^ 32 := fun hw => by
    have hp := payload_le_msg ch PbfSpec.kRelation _ f hf0 hw
    rw [← spec_rel_msg_eq] at hp
    exact Nat.lt_of_le_of_lt hp hlen
  unfold spec_rel_fields at hf
  simp only [List.mem_append, List.mem_singleton] at hf
  rcases hf with (((hf | hf) | hf) | hf) | hf
  · subst hf
    exact wf_varint 1 _ (by decide) (by decide) (u64_lt _)
  · obtain ⟨hw, ht, hv⟩ := spec_metaFields_shape ch table hist m f hf
    exact spec_rel_ld_wf f hw (by omega) hv (ld hw)
  · have e := spec_rel_packed_mem _ _ _ f hf
    exact spec_rel_ld_wf f (by rw [e]; rfl) (by rw [e]; simp [fBytes]) (by rw [e]; rfl) (ld (by rw [e]; rfl))
  · have e := spec_rel_packed_mem _ _ _ f hf
    exact spec_rel_ld_wf f (by rw [e]; rfl) (by rw [e]; simp [fBytes]) (by rw [e]; rfl) (ld (by rw [e]; rfl))
  · have e := spec_rel_packed_mem _ _ _ f hf
    exact spec_rel_ld_wf f (by rw [e]; rfl) (by rw [e]; simp [fBytes]) (by rw [e]; rfl) (ld (by rw [e]; rfl))

/-! ### the three packed arrays -/

theorem spec_rel_a (p : Params) (r : ROpts) (od : Bool) (vs : List Nat) (s : ObjAcc) (h : s.a = []) :
    decodeMsg (relationStep p r) s (PbfSpec.fPacked od 8 vs) = some { s with a := pack vs } := by
  unfold PbfSpec.fPacked
  by_cases hc : (vs.isEmpty && od) = true
  · simp only [hc, ↓reduceIte, spec_decodeMsg_nil]
    have : vs.isEmpty = true := by simp at hc; simp [hc.1]
    rw [spec_pack_nil_of_isEmpty vs this]
    cases s; simp_all
  · simp only [hc, Bool.false_eq_true, ↓reduceIte, spec_decodeMsg_single, spec_fBytes]
    simp [relationStep, fBytes]

theorem spec_rel_b (p : Params) (r : ROpts) (od : Bool) (vs : List Nat) (s : ObjAcc) (h : s.b = []) :
    decodeMsg (relationStep p r) s (PbfSpec.fPacked od 9 vs) = some { s with b := pack vs } := by
  unfold PbfSpec.fPacked
  by_cases hc : (vs.isEmpty && od) = true
  · simp only [hc, ↓reduceIte, spec_decodeMsg_nil]
    have : vs.isEmpty = true := by simp at hc; simp [hc.1]
    rw [spec_pack_nil_of_isEmpty vs this]
    cases s; simp_all
  · simp only [hc, Bool.false_eq_true, ↓reduceIte, spec_decodeMsg_single, spec_fBytes]
    simp [relationStep, fBytes]

theorem spec_rel_c (p : Params) (r : ROpts) (od : Bool) (vs : List Nat) (s : ObjAcc) (h : s.c = []) :
    decodeMsg (relationStep p r) s (PbfSpec.fPacked od 10 vs) = some { s with c := pack vs } := by
  unfold PbfSpec.fPacked
  by_cases hc : (vs.isEmpty && od) = true
  · simp only [hc, ↓reduceIte, spec_decodeMsg_nil]
    have : vs.isEmpty = true := by simp at hc; simp [hc.1]
    rw [spec_pack_nil_of_isEmpty vs this]
    cases s; simp_all
  · simp only [hc, Bool.false_eq_true, ↓reduceIte, spec_decodeMsg_single, spec_fBytes]
    simp [relationStep, fBytes]

/-! ### DELTA coding of the spec against `DeltaDecode<int64_t>` -/

theorem spec_rel_dec_delta : ∀ (xs : List Int) (p : Int), (∀ x ∈ xs, IdOk x) →
    Delta.decGo p (PbfSpec.delta p xs) = xs
  | [], _, _ => rfl
  | x :: xs, p, h => by
    have hx := h x List.mem_cons_self
    have e : p + (x - p) = x := by omega
    simp only [PbfSpec.delta, Delta.decGo, e, Delta.swrap64_id x hx.1 hx.2]
    rw [spec_rel_dec_delta xs x (fun y hy => h y (List.mem_cons_of_mem _ hy))]

theorem spec_rel_delta_range : ∀ (xs : List Int) (p : Int), DeltaRep p xs → ∀ d ∈ PbfSpec.delta p xs, IdOk d
  | [], _, _ => by simp [PbfSpec.delta]
  | x :: xs, p, h => by
    intro d hd
    simp only [PbfSpec.delta, List.mem_cons] at hd
    rcases hd with rfl | hd
    · exact h.1
    · exact spec_rel_delta_range xs x h.2 d hd

/-- the packed member ids: unpack, un-zigzag, delta-decode -/
theorem spec_rel_refs (xs : List Int) (hx : ∀ x ∈ xs, IdOk x) (hd : DeltaRep 0 xs) :
    unpack (pack ((PbfSpec.delta 0 xs).map zigzag64)) = some ((PbfSpec.delta 0 xs).map zigzag64) ∧
    Delta.dec (((PbfSpec.delta 0 xs).map zigzag64).map unzigzag64) = xs := by
  constructor
  · apply unpack_pack
    intro v hv
    obtain ⟨d, hd', rfl⟩ := List.mem_map.mp hv
    have := spec_rel_delta_range xs 0 hd d hd'
    exact zigzag_lt d this.1 this.2
  · rw [List.map_map]
    have : (unzigzag64 ∘ zigzag64) = id := by funext x; simp [unzigzag_zigzag]
    rw [this, List.map_id]
    exact spec_rel_dec_delta xs 0 hx

/-! ### members -/

theorem spec_rel_buildMembers (table : List Bytes) (p : Params) (hps : p.strings = table) : ∀ (ms : List Member),
    (∀ x ∈ ms, TableOk table x.role) → RelInDomain ms →
    buildMembers p (ms.map fun x => PbfSpec.idx table x.role) (ms.map (·.ref)) (ms.map fun x => x.type - 1) = some ms
  | [], _, _ => rfl
  | x :: ms, ht, hd => by
    have ih := spec_rel_buildMembers table p hps ms (fun y hy => ht y (List.mem_cons_of_mem _ hy))
      (fun y hy => hd y (List.mem_cons_of_mem _ hy))
    obtain ⟨_, h2, h3⟩ := ht x List.mem_cons_self
    obtain ⟨_, t1, t3⟩ := hd x List.mem_cons_self
    have e1 : toInt32 (PbfSpec.idx table x.role) = (PbfSpec.idx table x.role : Int) := toInt32_small _ h2
    have e2 : toInt32 (x.type - 1) = ((x.type - 1 : Nat) : Int) :=
      toInt32_small _ (by simp only [Nat.reducePow]; omega)
    have c1 : ¬ (((x.type - 1 : Nat) : Int) < 0) := by omega
    have c2 : ¬ (((x.type - 1 : Nat) : Int) > 2) := by omega
    have c3 : ((x.type - 1 : Nat) : Int).toNat + 1 = x.type := by omega
    simp only [List.map_cons, buildMembers, e1, lookup_nat, hps, h3, e2, c1, c2, c3, ih, bind, Option.bind, pure,
      Bool.or_self, Bool.false_eq_true, ↓reduceIte, decide_false]

/-! ### the message -/

/-- the decoder loop over the canonical field list -/
theorem spec_rel_state (ch : Choices) (hch : ChoicesOk ch) (table : List Bytes) (hist : Bool) (m : Meta) (ms : List Member)
    (hmd : MetaInDomain m) (hid : IdOk m.id) (hts : StampRep ch m.timestamp) (hu : TableOk table m.user) :
    decodeMsg (relationStep (specParams ch table) {}) {} (spec_rel_fields ch table hist m ms) =
      some { id := m.id,
             keys := pack (m.tags.map fun t => PbfSpec.idx table t.key),
             vals := pack (m.tags.map fun t => PbfSpec.idx table t.value),
             info := infoOf m, user := m.user,
             a := pack (ms.map fun x => PbfSpec.idx table x.role),
             b := pack ((PbfSpec.delta 0 (ms.map (·.ref))).map zigzag64),
             c := pack (ms.map fun x => x.type - 1) } := by
  unfold spec_rel_fields
  simp only [decodeMsg_append]
  have h0 : decodeMsg (relationStep (specParams ch table) {}) {} [PbfSpec.fInt 1 m.id] = some { id := m.id } := by
    rw [spec_decodeMsg_single, spec_fInt]
    simp [relationStep, fVarint, toInt64_u64 m.id hid]
  have hstep : decodeMsg (relationStep (specParams ch table) {}) { id := m.id } (PbfSpec.metaFields ch table hist m) =
      decodeMsg (metaStep (specParams ch table) {}) { id := m.id } (PbfSpec.metaFields ch table hist m) :=
    decodeMsg_congr_step _ _ _ _ (fun f hf s => relationStep_ld_meta _ _ s f (by
      obtain ⟨hw, ht, _⟩ := spec_metaFields_shape ch table hist m f hf
      exact ⟨hw, ht⟩))
  rw [h0, Option.bind_some, hstep,
    spec_meta ch hch table hist m (specParams ch table) rfl rfl hmd hts hu { id := m.id } ⟨rfl, rfl, rfl, rfl⟩,
    Option.bind_some, spec_rel_a _ _ _ _ _ rfl, Option.bind_some, spec_rel_b _ _ _ _ _ rfl, Option.bind_some,
    spec_rel_c _ _ _ _ _ rfl]

theorem spec_relation (ch : Choices) (hch : ChoicesOk ch) (table : List Bytes) (hist : Bool) (m : Meta) (ms : List Member)
    (hrep : ObjRep ch (.relation m ms)) (htab : ∀ s ∈ PbfSpec.stringsOf (.relation m ms), TableOk table s)
    (hlen : (PbfSpec.relationMsg ch table hist m ms).length < 2 ^ 32) :
    withFields (PbfSpec.relationMsg ch table hist m ms) (decodeRelation (specParams ch table) {}) = some (.relation m ms) := by
  obtain ⟨⟨hmd, hid, hts, _⟩, hdom, hdel, _⟩ := hrep
  have hu : TableOk table m.user := htab _ (by simp [PbfSpec.stringsOf])
  have htags : ∀ t ∈ m.tags, TableOk table t.key ∧ TableOk table t.value := by
    intro t ht
    constructor
    · apply htab
      simp only [PbfSpec.stringsOf, List.mem_append, List.mem_cons, List.mem_flatMap]
      exact Or.inl (Or.inr ⟨t, ht, by simp⟩)
    · apply htab
      simp only [PbfSpec.stringsOf, List.mem_append, List.mem_cons, List.mem_flatMap]
      exact Or.inl (Or.inr ⟨t, ht, by simp⟩)
  have hroles : ∀ x ∈ ms, TableOk table x.role := by
    intro x hx
    apply htab
    simp only [PbfSpec.stringsOf, List.mem_append, List.mem_map]
    exact Or.inr ⟨x, hx, rfl⟩
  have hwf := spec_rel_fields_wf ch table hist m ms hlen
  unfold withFields
  rw [spec_rel_msg_eq, readFields_msg ch _ _ hwf (hch.extrasWF PbfSpec.kRelation)]
  simp only
  unfold decodeRelation
  rw [decodeMsg_arrange' (relationStep (specParams ch table) {}) wayKnown (relationStep_unknown _ _)
    (spec_rel_commutes _ _) ch PbfSpec.kRelation _ _ (hch.extrasUnknown PbfSpec.kRelation)]
  rw [spec_rel_state ch hch table hist m ms hmd hid hts hu]
  have hA : unpack (pack (ms.map fun x => PbfSpec.idx table x.role)) = some (ms.map fun x => PbfSpec.idx table x.role) :=
    unpack_pack _ (fun v hv => by
      obtain ⟨x, hx, rfl⟩ := List.mem_map.mp hv
      have := (hroles x hx).2.1
      simp only [Nat.reducePow] at *; omega)
  have hC : unpack (pack (ms.map fun x => x.type - 1)) = some (ms.map fun x => x.type - 1) :=
    unpack_pack _ (fun v hv => by
      obtain ⟨x, hx, rfl⟩ := List.mem_map.mp hv
      have := (hdom x hx).2.2
      simp only [Nat.reducePow] at *; omega)
  have ir : ∀ x ∈ ms.map (·.ref), IdOk x := fun x hx => by
    obtain ⟨n, hn', rfl⟩ := List.mem_map.mp hx; exact (hdom n hn').1
  obtain ⟨hB, hB'⟩ := spec_rel_refs (ms.map (·.ref)) ir hdel
  have hmem := spec_rel_buildMembers table (specParams ch table) rfl ms hroles hdom
  have hft := spec_finishTags table (specParams ch table) rfl m
    { id := m.id,
      keys := pack (m.tags.map fun t => PbfSpec.idx table t.key),
      vals := pack (m.tags.map fun t => PbfSpec.idx table t.value),
      info := infoOf m, user := m.user,
      a := pack (ms.map fun x => PbfSpec.idx table x.role),
      b := pack ((PbfSpec.delta 0 (ms.map (·.ref))).map zigzag64),
      c := pack (ms.map fun x => x.type - 1) } rfl rfl htags
  simp only [bind, Option.bind, pure, hA, hB, hB', hC, hmem, hft]
  simp [mkMeta, infoOf]

end Osmium.Pbf
