/-
Input side of the shape invariants (C05/C07): definitions shared by PipelineShapeIn*.lean and the
files that use their results.  No proofs here.
-/
import Osmium.Lemmas.PipelineQ

namespace Osmium.Pipeline

variable {α : Type}

def isExc : Val α → Prop
  | .exc _ => True
  | _ => False

/-- the value the read thread is about to push / is pushing / has pushed and not yet set -/
def rHeld : RPc α → Option (Val α)
  | .push v _ | .pushing _ v _ | .pushed _ v _ => some v
  | _ => none

/-- an exception of the read thread is on its way to the parser: in the read thread's hands or in
    a future it handed to push() on the input queue -/
def InExc (s : State α) : Prop :=
  (∃ v, rHeld s.rpc = some v ∧ isExc v) ∨ ∃ y ∈ s.inq.called, isExc (s.want y.2)

end Osmium.Pipeline
