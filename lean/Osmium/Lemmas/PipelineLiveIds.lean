/-
Progress (C07), part: future ids.  Even ids 2k belong to the input queue, odd ids 2k+1 to the
osmdata queue; an id is fresh when it is created; `fut id = some v → v = want id`.
-/
import Osmium.Lemmas.PipelineLiveBase

set_option linter.unusedSimpArgs false
set_option linter.unusedVariables false

namespace Osmium.Pipeline
open Osmium.Mon
variable {α : Type} [DecidableEq α]

namespace Live

/-- normalise the projections of `afterPop` / `afterClose` -/
macro "ap_norm" : tactic => `(tactic|
  simp only [afterPop_rpc, afterPop_ppc, afterPop_fut, afterPop_want, afterPop_work, afterPop_wpc, afterPop_hdr,
    afterPop_nIn, afterPop_nOut, afterPop_inputDone, afterClose_rpc, afterClose_ppc, afterClose_fut, afterClose_want,
    afterClose_work, afterClose_wpc, afterClose_hdr, afterClose_nIn, afterClose_nOut, afterClose_inputDone,
    Q.afterPop_inq, Q.afterPop_outq, Q.afterClose_inq, Q.afterClose_outq])

syntax "ids_close " ident : tactic
macro_rules
  | `(tactic| ids_close $ih:ident) => `(tactic|
      first
        | exact $ih
        | (ap_norm; exact $ih)
        | (simp_all [setPc_apply, pCont, rCont]; done)
        | (simp only [setPc_apply, pCont, rCont] at *; grind))

set_option maxHeartbeats 1600000 in
theorem n_rpc (c : Cfg α) : ∀ s, (machine c).Reachable s → ∀ id v k,
    s.rpc = .pushing id v k ∨ s.rpc = .pushed id v k → id % 2 = 0 ∧ id < 2 * s.nIn ∧ s.want id = v := by
  apply Machine.invariant
  · simp [machine, init]
  · intro s e s' _ ih hst
    plv_cases e with hst q hq
    all_goals ids_close ih

set_option maxHeartbeats 1600000 in
theorem n_ppc (c : Cfg α) : ∀ s, (machine c).Reachable s →
    (∀ id v k, s.ppc = .pushing id (some v) k ∨ s.ppc = .pushed id v k → s.want id = v) ∧
    (∀ id ov k, s.ppc = .pushing id ov k → id % 2 = 1 ∧ id < 2 * s.nOut) ∧
    (∀ id v k, s.ppc = .pushed id v k → id % 2 = 1 ∧ id < 2 * s.nOut) ∧
    (∀ id k, s.ppc = .pushFut id k → id % 2 = 1 ∧ id < 2 * s.nOut) := by
  apply Machine.invariant
  · simp [machine, init]
  · intro s e s' _ ih hst
    plv_cases e with hst q hq
    all_goals ids_close ih

set_option maxHeartbeats 1600000 in
theorem n_work (c : Cfg α) : ∀ s, (machine c).Reachable s →
    (∀ id, id ∈ s.work → id % 2 = 1 ∧ id < 2 * s.nOut) ∧
    (∀ w id, s.wpc w = some id → id % 2 = 1 ∧ id < 2 * s.nOut) := by
  apply Machine.invariant
  · simp [machine, init]
  · intro s e s' _ ih hst
    plv_cases e with hst q hq
    all_goals ids_close ih

set_option maxHeartbeats 1600000 in
/-- a future that is set holds the value fixed at its creation; set futures are not fresh -/
theorem n_fut (c : Cfg α) : ∀ s, (machine c).Reachable s → ∀ id v, s.fut id = some v →
    v = s.want id ∧ (id % 2 = 0 → id < 2 * s.nIn) ∧ (id % 2 = 1 → id < 2 * s.nOut) := by
  apply Machine.invariant
  · simp [machine, init]
  · intro s e s' hr ih hst
    have h1 := n_rpc c s hr
    have h2 := n_ppc c s hr
    have h3 := n_work c s hr
    plv_cases e with hst q hq
    all_goals ids_close ih

end Live
end Osmium.Pipeline
