/-
Lemmas for C08, part 2: case analysis of the machine's steps (one constructor per branch of
`stepProd` / `stepWt` / `stepWorker`), so that invariant proofs are a `cases` away.  Core-only.
-/
import Osmium.Model.WriterSM

namespace Osmium.WriterSM

variable {κ : Type}

/-- every branch of `stepProd`, with the resulting state spelled out -/
inductive ProdStep (cfg : Cfg κ) (s : St κ) : St κ → Prop
  | call (a : Api) (rest : List Api) (hc : s.cur = none) (hs : s.script = a :: rest) :
      ProdStep cfg s { s with script := rest, cur := some a, code := callCode a }
  | chkFail (a : Api) (rest : List Instr) (hc : s.cur = some a) (hcode : s.code = .chk :: rest)
      (hst : s.status ≠ .okay) : ProdStep cfg s (finish s a (.raised .refused))
  | chkOk (a : Api) (rest : List Instr) (hc : s.cur = some a) (hcode : s.code = .chk :: rest)
      (hst : s.status = .okay) : ProdStep cfg s { s with code := rest }
  | closeChkOk (a : Api) (rest : List Instr) (hc : s.cur = some a) (hcode : s.code = .closeChk :: rest)
      (hst : s.status = .okay) : ProdStep cfg s { s with code := rest }
  | closeChkSkip (a : Api) (rest : List Instr) (hc : s.cur = some a) (hcode : s.code = .closeChk :: rest)
      (hst : s.status ≠ .okay) : ProdStep cfg s { s with code := [finalInstr a] }
  | hdrSkip (a : Api) (rest : List Instr) (hc : s.cur = some a) (hcode : s.code = .hdr :: rest)
      (hh : s.headerWritten = true) : ProdStep cfg s { s with code := rest }
  | hdrDo (a : Api) (rest : List Instr) (hc : s.cur = some a) (hcode : s.code = .hdr :: rest)
      (hh : s.headerWritten = false) :
      ProdStep cfg s { s with code := encInstrs cfg.hdrEnc ++ [.setHdr] ++ rest }
  | setHdr (a : Api) (rest : List Instr) (hc : s.cur = some a) (hcode : s.code = .setHdr :: rest) :
      ProdStep cfg s { s with headerWritten := true, code := rest }
  | pollRaise (a : Api) (rest : List Instr) (e : Err) (hc : s.cur = some a) (hcode : s.code = .poll :: rest)
      (hn : s.notification = true) (hv : s.futureValid = true) (hp : s.promise = some (.raised e)) :
      ProdStep cfg s (raiseInTry { s with futureValid := false } a e)
  | pollValue (a : Api) (rest : List Instr) (n : Nat) (hc : s.cur = some a) (hcode : s.code = .poll :: rest)
      (hn : s.notification = true) (hv : s.futureValid = true) (hp : s.promise = some (.ok n)) :
      ProdStep cfg s { s with futureValid := false, code := rest }
  | pollNothing (a : Api) (rest : List Instr) (hc : s.cur = some a) (hcode : s.code = .poll :: rest)
      (hn : ¬ (s.notification = true ∧ s.futureValid = true) ∨ s.promise = none) :
      ProdStep cfg s { s with code := rest }
  | pushDropped (a : Api) (rest : List Instr) (it : Item) (hc : s.cur = some a)
      (hcode : s.code = .push it :: rest) (hu : s.inUse = false) :
      ProdStep cfg s { s with code := rest, pushed := s.pushed ++ [it.res] }
  | pushDone (a : Api) (rest : List Instr) (it : Item) (hc : s.cur = some a)
      (hcode : s.code = .push it :: rest) (hu : s.inUse = true)
      (hroom : ¬ (cfg.qmax ≠ 0 ∧ s.q.length ≥ cfg.qmax)) :
      ProdStep cfg s { s with code := rest, q := s.q ++ [it], pushed := s.pushed ++ [it.res] }
  | throw (a : Api) (rest : List Instr) (e : Err) (hc : s.cur = some a) (hcode : s.code = .throw e :: rest) :
      ProdStep cfg s (raiseInTry s a e)
  | setClosed (a : Api) (rest : List Instr) (hc : s.cur = some a) (hcode : s.code = .setClosed :: rest) :
      ProdStep cfg s { s with status := .closed, code := rest }
  | rethrow (a : Api) (rest : List Instr) (e : Err) (hc : s.cur = some a) (hcode : s.code = .rethrow e :: rest) :
      ProdStep cfg s (finish s a (.raised e))
  | ret (a : Api) (rest : List Instr) (hc : s.cur = some a) (hcode : s.code = .ret :: rest) :
      ProdStep cfg s (finish s a (.ok 0))
  | futGetValid (a : Api) (rest : List Instr) (o : Outcome) (hc : s.cur = some a)
      (hcode : s.code = .futGet :: rest) (hv : s.futureValid = true) (hp : s.promise = some o) :
      ProdStep cfg s (finish { s with futureValid := false } a o)
  | futGetInvalid (a : Api) (rest : List Instr) (hc : s.cur = some a)
      (hcode : s.code = .futGet :: rest) (hv : s.futureValid = false) :
      ProdStep cfg s (finish s a (.ok 0))
  | join (a : Api) (rest : List Instr) (hc : s.cur = some a) (hcode : s.code = .join :: rest)
      (hw : s.wpc = .done) : ProdStep cfg s { (finish s a (.ok 0)) with destroyed := true }

set_option hygiene false in
local macro "fin " t:term : tactic =>
  `(tactic| (have hthis : ProdStep cfg s _ := $t
             first
             | exact hthis
             | (rw [hc] at hthis; exact hthis)
             | (rw [hc, hp] at hthis; exact hthis)
             | (simp only [List.append_assoc, List.singleton_append, List.cons_append, List.nil_append, hc] at hthis ⊢
                exact hthis)))

theorem stepProd_cases {cfg : Cfg κ} {s s' : St κ} (h : stepProd cfg s = some s') :
    ProdStep cfg s s' := by
  unfold stepProd at h
  rcases hc : s.cur with _ | a
  · rw [hc] at h
    simp only [] at h
    rcases hs : s.script with _ | ⟨a, rest⟩
    · rw [hs] at h; simp at h
    · rw [hs] at h; simp at h; subst h; fin (ProdStep.call a rest hc hs)
  · rw [hc] at h
    simp only [] at h
    rcases hcode : s.code with _ | ⟨i, rest⟩
    · rw [hcode] at h; simp at h
    · rw [hcode] at h
      cases i with
      | chk =>
        simp only [] at h
        split at h
        · rename_i hst; simp at h; subst h; fin (ProdStep.chkFail a rest hc hcode hst)
        · rename_i hst; simp at h; subst h
          fin (ProdStep.chkOk a rest hc hcode (by simpa using hst))
      | closeChk =>
        simp only [] at h
        split at h
        · rename_i hst; simp at h; subst h; fin (ProdStep.closeChkOk a rest hc hcode hst)
        · rename_i hst; simp at h; subst h; fin (ProdStep.closeChkSkip a rest hc hcode hst)
      | hdr =>
        simp only [] at h
        split at h
        · rename_i hh; simp at h; subst h; fin (ProdStep.hdrSkip a rest hc hcode hh)
        · rename_i hh; simp at h; subst h; fin (ProdStep.hdrDo a rest hc hcode (by simpa using hh))
      | setHdr => simp at h; subst h; fin (ProdStep.setHdr a rest hc hcode)
      | poll =>
        simp only [] at h
        split at h
        · rename_i hnv
          rcases hp : s.promise with _ | o
          · rw [hp] at h; simp at h; subst h; fin (ProdStep.pollNothing a rest hc hcode (.inr hp))
          · rw [hp] at h
            cases o with
            | ok n => simp at h; subst h; fin (ProdStep.pollValue a rest n hc hcode hnv.1 hnv.2 hp)
            | raised e => simp at h; subst h; fin (ProdStep.pollRaise a rest e hc hcode hnv.1 hnv.2 hp)
        · rename_i hnv; simp at h; subst h; fin (ProdStep.pollNothing a rest hc hcode (.inl hnv))
      | push it =>
        simp only [] at h
        split at h
        · rename_i hu; simp at h; subst h; fin (ProdStep.pushDropped a rest it hc hcode (by simpa using hu))
        · rename_i hu
          split at h
          · simp at h
          · rename_i hroom; simp at h; subst h
            fin (ProdStep.pushDone a rest it hc hcode (by simpa using hu) hroom)
      | throw e => simp at h; subst h; fin (ProdStep.throw a rest e hc hcode)
      | setClosed => simp at h; subst h; fin (ProdStep.setClosed a rest hc hcode)
      | rethrow e => simp at h; subst h; fin (ProdStep.rethrow a rest e hc hcode)
      | ret => simp at h; subst h; fin (ProdStep.ret a rest hc hcode)
      | futGet =>
        simp only [] at h
        split at h
        · rename_i hv
          rcases hp : s.promise with _ | o
          · rw [hp] at h; simp at h
          · rw [hp] at h; simp at h; subst h; fin (ProdStep.futGetValid a rest o hc hcode hv hp)
        · rename_i hv; simp at h; subst h; fin (ProdStep.futGetInvalid a rest hc hcode (by simpa using hv))
      | join =>
        simp only [] at h
        split at h
        · rename_i hw; simp at h; subst h; fin (ProdStep.join a rest hc hcode hw)
        · simp at h

/-- every branch of `stepWt` -/
inductive WtStep (cfg : Cfg κ) (s : St κ) : St κ → Prop
  | popShutdown (hw : s.wpc = .pop) (hu : s.inUse = false) : WtStep cfg s { s with wpc := .closing }
  | take (it : Item) (rest : List Item) (hw : s.wpc = .pop) (hu : s.inUse = true) (hq : s.q = it :: rest) :
      WtStep cfg s { s with q := rest, wpc := .got it, taken := s.taken ++ [it.res] }
  | getExc (it : Item) (e : Err) (hw : s.wpc = .got it) (hr : it.ready = true) (hres : it.res = .exc e) :
      WtStep cfg s { s with wpc := .fail1 e }
  | getEnd (it : Item) (hw : s.wpc = .got it) (hr : it.ready = true) (hres : it.res = .data []) :
      WtStep cfg s { (shutdownQ s) with wpc := .closing }
  | writeOk (it : Item) (b : UInt8) (bs : Bytes) (k' : κ) (os' : OS) (hw : s.wpc = .got it)
      (hr : it.ready = true) (hres : it.res = .data (b :: bs))
      (hcw : cfg.comp.write s.comp (b :: bs) s.os = (none, k', os')) :
      WtStep cfg s { s with wpc := .pop, comp := k', os := os', written := s.written ++ [b :: bs] }
  | writeFail (it : Item) (b : UInt8) (bs : Bytes) (e : Err) (k' : κ) (os' : OS) (hw : s.wpc = .got it)
      (hr : it.ready = true) (hres : it.res = .data (b :: bs))
      (hcw : cfg.comp.write s.comp (b :: bs) s.os = (some e, k', os')) :
      WtStep cfg s { s with wpc := .fail1 e, comp := k', os := os' }
  | closeOk (k' : κ) (os' : OS) (hw : s.wpc = .closing)
      (hcc : cfg.comp.close s.comp s.os = (none, k', os')) :
      WtStep cfg s { s with wpc := .dtor, comp := k', os := os',
                            promise := some (.ok (cfg.comp.fileSize k')) }
  | closeFail (e : Err) (k' : κ) (os' : OS) (hw : s.wpc = .closing)
      (hcc : cfg.comp.close s.comp s.os = (some e, k', os')) :
      WtStep cfg s { s with wpc := .fail1 e, comp := k', os := os' }
  | fail1 (e : Err) (hw : s.wpc = .fail1 e) : WtStep cfg s { s with wpc := .fail2 e, notification := true }
  | fail2 (e : Err) (hw : s.wpc = .fail2 e) :
      WtStep cfg s { s with wpc := .fail3, promise := some (.raised e) }
  | fail3 (hw : s.wpc = .fail3) : WtStep cfg s { (shutdownQ s) with wpc := .dtor }
  | dtor (hw : s.wpc = .dtor) :
      WtStep cfg s { (shutdownQ s) with wpc := .done, comp := (cfg.comp.destroy s.comp s.os).1,
                                         os := (cfg.comp.destroy s.comp s.os).2 }

theorem stepWt_cases {cfg : Cfg κ} {s s' : St κ} (h : stepWt cfg s = some s') : WtStep cfg s s' := by
  unfold stepWt at h
  rcases hw : s.wpc with _ | it | _ | e | e | _ | _ | _
  · rw [hw] at h; simp only [] at h
    split at h
    · rename_i hu; simp at h; subst h; exact .popShutdown hw (by simpa using hu)
    · rename_i hu
      rcases hq : s.q with _ | ⟨it, rest⟩
      · rw [hq] at h; simp at h
      · rw [hq] at h; simp at h; subst h; exact .take it rest hw (by simpa using hu) hq
  · rw [hw] at h; simp only [] at h
    split at h
    · simp at h
    · rename_i hr
      have hr' : it.ready = true := by simpa using hr
      rcases hres : it.res with d | e
      · rw [hres] at h
        cases d with
        | nil => simp at h; subst h; exact .getEnd it hw hr' hres
        | cons b bs =>
          simp only [] at h
          rcases hcw : cfg.comp.write s.comp (b :: bs) s.os with ⟨r, k', os'⟩
          rw [hcw] at h
          cases r with
          | none => simp at h; subst h; exact .writeOk it b bs k' os' hw hr' hres hcw
          | some e => simp at h; subst h; exact .writeFail it b bs e k' os' hw hr' hres hcw
      · rw [hres] at h; simp at h; subst h; exact .getExc it e hw hr' hres
  · rw [hw] at h; simp only [] at h
    rcases hcc : cfg.comp.close s.comp s.os with ⟨r, k', os'⟩
    rw [hcc] at h
    cases r with
    | none => simp at h; subst h; exact .closeOk k' os' hw hcc
    | some e => simp at h; subst h; exact .closeFail e k' os' hw hcc
  · rw [hw] at h; simp at h; subst h; exact .fail1 e hw
  · rw [hw] at h; simp at h; subst h; exact .fail2 e hw
  · rw [hw] at h; simp at h; subst h; exact .fail3 hw
  · rw [hw] at h; simp at h; subst h; exact .dtor hw
  · rw [hw] at h; simp at h

/-- both branches of `stepWorker` -/
inductive WorkerStep (s : St κ) : St κ → Prop
  | held (it : Item) (hw : s.wpc = .got it) (hr : it.ready = false) :
      WorkerStep s { s with wpc := .got (setReady it) }
  | queued (i : Nat) (it : Item) (hq : s.q[i]? = some it) (hr : it.ready = false) :
      WorkerStep s { s with q := s.q.set i (setReady it) }

theorem stepWorker_cases {s s' : St κ} {i : Option Nat} (h : stepWorker s i = some s') :
    WorkerStep s s' := by
  unfold stepWorker at h
  cases i with
  | none =>
    simp only [] at h
    rcases hw : s.wpc with _ | it | _ | e | e | _ | _ | _ <;> rw [hw] at h <;> simp at h
    obtain ⟨hr, rfl⟩ := h
    exact .held it hw hr
  | some i =>
    simp only [] at h
    rcases hq : s.q[i]? with _ | it
    · rw [hq] at h; simp at h
    · rw [hq] at h; simp at h
      obtain ⟨hr, rfl⟩ := h
      exact .queued i it hq hr

end Osmium.WriterSM
