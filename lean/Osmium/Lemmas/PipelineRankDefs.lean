/-
Ranking function of the Reader pipeline (C07 progress), part 1: definitions and the arithmetic of
the weights.  `rank` is a potential function: every component is a natural number, every event
changes only a few components.  The busy-wait steps (`isStutter`) leave the rank unchanged, every
other internal step strictly decreases it (PipelineRank.lean).
-/
import Osmium.Lemmas.PipelineQ

namespace Osmium.Pipeline

open Osmium.Mon

variable {α : Type}

namespace Rank

/-- weight of a thread's program counter inside a queue machine, relative to `idle = 1` (a blocked
    consumer weighs LESS than an idle one: `popBlock` is a step; `pushMustWait = pushPolling`: the
    polling loop of a bounded push keeps the rank) -/
def qW : QueueSM.Pc Nat → Nat
  | .idle => 1
  | .popWaiting => 0
  | .pushEntered _ => 4
  | .pushPolling _ => 3
  | .pushMustWait _ => 3
  | .pushReady _ => 2
  | .sdEntered => 3
  | .sdFlagged => 2

/-- read thread: weight of the continuation after a push; `L` = reads that still return data -/
def rkW (L : Nat) : RK → Nat
  | .loop => 23 + 12 * L
  | .eodNext => 10
  | .exit => 0

/-- read thread: weight of the program counter (a push costs 10 = 5 steps + the parser's work for the
    new input-queue item) -/
def rW (L : Nat) : RPc α → Nat
  | .loop => 23 + 12 * L
  | .reading => 22 + 12 * L
  | .closing => 21
  | .push _ k => rkW L k + 10
  | .pushing _ _ k => rkW L k + 6
  | .pushed _ _ k => rkW L k + 1
  | .done => 0

/-- parser thread: weight of the continuation -/
def kW : PK → Nat
  | .run => 26
  | .eodNext => 14
  | .dtor => 4
  | .exit => 0

/-- parser thread: weight of the program counter -/
def pW : PPc α → Nat
  | .run => 26
  | .popWait => 25
  | .got _ => 27
  | .sdIn k => kW k + 4
  | .sdInRun k => kW k + 1
  | .push _ k => kW k + 10
  | .pushFut _ k => kW k + 10
  | .pushing _ _ k => kW k + 6
  | .pushed _ _ k => kW k + 1
  | .caught _ => 25
  | .done => 0

/-- `1` for `false` -/
def nb : Bool → Nat
  | true => 0
  | false => 1

/-- parser thread: the input phase is not over (inside wait_and_pop / holding an input future it is
    never over) -/
def idW : PPc α → Bool → Nat
  | .popWait, _ => 5
  | .got _, _ => 5
  | .run, b => 5 * nb b
  | .sdIn _, b => 5 * nb b
  | .sdInRun _, b => 5 * nb b
  | .push _ _, b => 5 * nb b
  | .pushFut _ _, b => 5 * nb b
  | .pushing _ _ _, b => 5 * nb b
  | .pushed _ _ _, b => 5 * nb b
  | .caught _, b => 5 * nb b
  | .done, b => 5 * nb b

/-- `1` for a non-empty list -/
def ne1 : List α → Nat
  | [] => 0
  | _ :: _ => 1

/-- header promise not yet set -/
def hW : Option (Option Nat) → Nat
  | none => 1
  | some _ => 0

/-- PBF blobs not yet handed on (each may cost a pool job) -/
def blobsW (c : Cfg α) (b : Nat) : Nat := (c.blobEnd.length - b) * (c.workers.length + 12)

/-- queued pool jobs (taking one makes at most every worker busy) -/
def jobsW (c : Cfg α) (work : List Nat) : Nat := work.length * (c.workers.length + 1)

/-- pool workers that run a job -/
def running (l : List Tid) (f : Tid → Option Nat) : Nat := l.countP fun w => (f w).isSome

/-- consumer: position inside header() / read() / close() / the destructor -/
def cW : CPc α → Nat
  | .idle => 0
  | .hdrWait => 10
  | .readPop => 9
  | .readWaitPop => 8
  | .readGot _ => 10
  | .eodSd => 5
  | .eodSdRun => 2
  | .eofJoin => 2
  | .closeSd _ => 9
  | .closeSdRun _ => 6
  | .closeJoin _ => 6
  | .dtorJoinP => 5
  | .dtorSd => 4
  | .dtorSdRun => 1
  | .ret _ => 1
  | .dead => 0

/-! ### arithmetic of the weights -/

/- the weights are never unfolded on an unknown program counter: simp only knows their values on
   constructors -/
attribute [simp] qW.eq_1 qW.eq_2 qW.eq_3 qW.eq_4 qW.eq_5 qW.eq_6 qW.eq_7 qW.eq_8
  rkW.eq_1 rkW.eq_2 rkW.eq_3
  rW.eq_1 rW.eq_2 rW.eq_3 rW.eq_4 rW.eq_5 rW.eq_6 rW.eq_7
  kW.eq_1 kW.eq_2 kW.eq_3 kW.eq_4
  pW.eq_1 pW.eq_2 pW.eq_3 pW.eq_4 pW.eq_5 pW.eq_6 pW.eq_7 pW.eq_8 pW.eq_9 pW.eq_10 pW.eq_11
  nb.eq_1 nb.eq_2
  idW.eq_1 idW.eq_2 idW.eq_3 idW.eq_4 idW.eq_5 idW.eq_6 idW.eq_7 idW.eq_8 idW.eq_9 idW.eq_10 idW.eq_11
  hW.eq_1 hW.eq_2
  cW.eq_1 cW.eq_2 cW.eq_3 cW.eq_4 cW.eq_5 cW.eq_6 cW.eq_7 cW.eq_8 cW.eq_9 cW.eq_10 cW.eq_11 cW.eq_12 cW.eq_13 cW.eq_14 cW.eq_15 cW.eq_16

@[simp] theorem rW_rCont (L : Nat) (k : RK) : rW L (rCont k : RPc α) = rkW L k := by cases k <;> rfl
@[simp] theorem pW_pCont (k : PK) : pW (pCont k : PPc α) = kW k := by cases k <;> rfl
@[simp] theorem idW_pCont (k : PK) (b : Bool) : idW (pCont k : PPc α) b = 5 * nb b := by cases k <;> rfl

theorem ne1_le (l : List α) : ne1 l ≤ 1 := by cases l <;> simp [ne1]
theorem lt_of_getElem? {l : List α} {i : Nat} {o : α} (h : l[i]? = some o) : i < l.length := by
  apply Classical.byContradiction
  intro hh
  rw [List.getElem?_eq_none (by omega)] at h
  cases h
theorem nb_le (b : Bool) : nb b ≤ 1 := by cases b <;> simp
theorem ne1_ne {l : List α} (h : l ≠ []) : ne1 l = 1 := by cases l <;> simp_all [ne1]
@[simp] theorem ne1_nil : ne1 ([] : List α) = 0 := rfl
@[simp] theorem ne1_single (x : α) : ne1 [x] = 1 := rfl
@[simp] theorem ne1_snoc (l : List α) (x : α) : ne1 (l ++ [x]) = 1 := by cases l <;> rfl

@[simp] theorem hW_or (o : Option (Option Nat)) (x : Option Nat) : hW (o.or (some x)) = 0 := by
  cases o <;> rfl

theorem blobsW_succ (c : Cfg α) (b : Nat) (h : b < c.blobEnd.length) :
    blobsW c b = blobsW c (b + 1) + c.workers.length + 12 := by
  unfold blobsW
  have : c.blobEnd.length - b = (c.blobEnd.length - (b + 1)) + 1 := by omega
  rw [this, Nat.succ_mul]; omega

@[simp] theorem jobsW_cons (c : Cfg α) (x : Nat) (l : List Nat) :
    jobsW c (x :: l) = jobsW c l + c.workers.length + 1 := by
  simp only [jobsW, List.length_cons, Nat.succ_mul]; omega

@[simp] theorem jobsW_snoc (c : Cfg α) (x : Nat) (l : List Nat) :
    jobsW c (l ++ [x]) = jobsW c l + c.workers.length + 1 := by
  simp only [jobsW, List.length_append, List.length_singleton, Nat.succ_mul]; omega

theorem running_le (l : List Tid) (f : Tid → Option Nat) : running l f ≤ l.length :=
  List.countP_le_length

theorem running_done (l : List Tid) (f : Tid → Option Nat) (w : Tid) (hm : w ∈ l)
    (hw : (f w).isSome = true) : running l (setPc f w none) < running l f := by
  have hle : ∀ l : List Tid, running l (setPc f w none) ≤ running l f := by
    intro l
    induction l with
    | nil => simp [running]
    | cons a l ih =>
      simp only [running, List.countP_cons, setPc_apply] at ih ⊢
      by_cases ha : a = w
      · simp [ha]; omega
      · simp only [ha, if_false]; omega
  induction l with
  | nil => cases hm
  | cons a l ih =>
    by_cases ha : a = w
    · have := hle l
      simp only [running, List.countP_cons, setPc_apply] at this ⊢
      simp [ha, hw]; omega
    · have hm' : w ∈ l := by
        rcases List.mem_cons.mp hm with h | h
        · exact absurd h.symm ha
        · exact h
      have := ih hm'
      simp only [running, List.countP_cons, setPc_apply] at this ⊢
      simp only [ha, if_false]; omega

end Rank

open Rank in
/-- The ranking function: a bound on the number of internal steps other than busy-wait iterations
    that the pipeline can still make before the client has to make the next API call. -/
def rank (c : Cfg α) (s : State α) : Nat :=
  -- read thread: program counter (includes 12 per read that still returns data) + its pc in push()
  rW (c.chunkEnd.length - s.reads) s.rpc + qW (s.inq.pc tR)
  -- input queue: 5 per item
  + 5 * s.inq.items.length
  -- parser thread: program counter, input phase, its pcs in the two queue machines
  + pW s.ppc + idW s.ppc s.inputDone + qW (s.inq.pc tP) + qW (s.outq.pc tP)
  -- parser thread: objects / blobs not yet parsed, buffer levels not yet flushed, header not yet set
  + 12 * (c.file.length - s.next) + blobsW c s.blob + 11 * (s.nested.length + ne1 s.cur) + hW s.hdr
  -- osmdata queue: 5 per item
  + 5 * s.outq.items.length
  -- pool: queued and running jobs
  + jobsW c s.work + running c.workers s.wpc
  -- consumer inside an API call
  + cW s.cpc + qW (s.outq.pc tC)

/-- EXACTLY the busy-wait steps: an iteration of the polling loop of a bounded push (`size()` sees a
    full queue; the timed wait ends) and a spurious / premature wake-up of a blocked consumer. -/
def isStutter (c : Cfg α) (_s : State α) : Ev α → Bool
  | .qi (.pushSize _ n) => decide (n ≥ c.inqC.max)
  | .qi (.pushFullWaited _ _) => true
  | .qi (.popRewait _) => true
  | .qo (.pushSize _ n) => decide (n ≥ c.outqC.max)
  | .qo (.pushFullWaited _ _) => true
  | .qo (.popRewait _) => true
  | _ => false

end Osmium.Pipeline
