/-
PoolSM2Hands — the global invariant that links the workers' hands to `popped` of the work
queue (C19): a worker holds a job iff it is the worker that popped it and the job has not run;
a popped job is in the hands of its popper or has run exactly once with its outcome stored in
its future; a job that was never popped has not run.  Job ids are distinct (guard of submit),
so no job is in two hands (uses the element-wise conservation of the queue, PoolSM2List).
-/
import Osmium.Lemmas.PoolSM2Base

namespace Osmium.PoolSM

open Osmium.Mon

/-! ## static consequences of the queue invariants for job ids -/

section static

variable (c : Cfg) (s : State) (h : (machine c).Reachable s)
include h

theorem called_ids_nodup : (s.q.called.filterMap jid).Nodup := by
  have := inv_submitted c s h
  have e : s.q.called.filterMap jid = (s.q.called.filterMap jobOf).map (·.1) := by
    rw [List.map_filterMap]; rfl
  rw [e, this.1]; exact this.2

/-- a job element is at exactly one place of the queue pipeline, once -/
theorem job_once {x : QueueSM.Item Task} {id : Nat} (hx : x ∈ s.q.called) (hid : jid x = some id) :
    (s.q.popped.map (fun p => p.2)).count x + s.q.items.count x + (QueueSM.inflight s.q x.1).count x = 1 :=
  QueueSM.keyed_once c.qc s.q (reachable_q c s h) (inv_inUse c s h) jid (called_ids_nodup c s h) hx hid

/-- the id identifies the element -/
theorem id_unique {x y : QueueSM.Item Task} {id : Nat} (hx : x ∈ s.q.called) (hy : y ∈ s.q.called)
    (hxi : jid x = some id) (hyi : jid y = some id) : x = y :=
  ListAux.key_unique (called_ids_nodup c s h) hx hy hxi hyi

theorem popped_mem_called {w : Tid} {x : QueueSM.Item Task} (hx : (w, x) ∈ s.q.popped) : x ∈ s.q.called :=
  QueueSM.pushed_mem_called c.qc s.q (reachable_q c s h) (inv_inUse c s h)
    (QueueSM.popped_mem_pushed c.qc s.q (reachable_q c s h) (inv_inUse c s h) hx)

theorem items_mem_called {x : QueueSM.Item Task} (hx : x ∈ s.q.items) : x ∈ s.q.called :=
  QueueSM.pushed_mem_called c.qc s.q (reachable_q c s h) (inv_inUse c s h)
    (QueueSM.items_mem_pushed c.qc s.q (reachable_q c s h) (inv_inUse c s h) hx)

theorem inflight_mem_called {t : Tid} {x : QueueSM.Item Task} (hx : x ∈ QueueSM.inflight s.q t) :
    x ∈ s.q.called :=
  QueueSM.inflight_mem_called c.qc s.q (reachable_q c s h) (inv_inUse c s h) hx

/-- a job id occurs in at most one entry of `popped` -/
theorem popped_id_unique {w1 w2 t1 t2 : Tid} {id : Nat} {o1 o2 : Outcome}
    (h1 : (w1, (t1, Task.job id o1)) ∈ s.q.popped) (h2 : (w2, (t2, Task.job id o2)) ∈ s.q.popped) :
    w1 = w2 ∧ t1 = t2 ∧ o1 = o2 := by
  have c1 := popped_mem_called c s h h1
  have c2 := popped_mem_called c s h h2
  have e := id_unique c s h c1 c2 (jid_job _ _ _) (jid_job _ _ _)
  simp only [Prod.mk.injEq, Task.job.injEq, true_and] at e
  obtain ⟨rfl, rfl⟩ := e
  refine ⟨?_, rfl, rfl⟩
  by_contra hne
  have hj := job_once c s h c1 (jid_job _ _ _)
  have h2' : 2 ≤ (s.q.popped.map (fun p => p.2)).count (t1, Task.job id o1) :=
    ListAux.count_snd_ge_two h1 h2 hne
  omega

/-- the id of a queued job does not occur in `popped` -/
theorem queued_id_fresh {t : Tid} {id : Nat} {out : Outcome} (hx : (t, Task.job id out) ∈ s.q.items)
    (w' t' : Tid) (out' : Outcome) : (w', (t', Task.job id out')) ∉ s.q.popped := by
  intro hp
  have c1 := items_mem_called c s h hx
  have c2 := popped_mem_called c s h hp
  have e := id_unique c s h c1 c2 (jid_job _ _ _) (jid_job _ _ _)
  rw [← e] at hp
  have h1 : 0 < (s.q.popped.map (fun p => p.2)).count (t, Task.job id out) :=
    List.count_pos_iff.mpr (List.mem_map.mpr ⟨_, hp, rfl⟩)
  have h2 : 0 < s.q.items.count (t, Task.job id out) := List.count_pos_iff.mpr hx
  have := job_once c s h c1 (jid_job _ _ _)
  omega

end static

/-! ## the hands invariant on the fields it talks about -/

/-- worker `w` holds job `id` (popped, not yet run) -/
def Holds (wpc : Tid → WPc) (w : Tid) (id : Nat) (out : Outcome) : Prop :=
  wpc w = .got (some (.job id out)) ∨ wpc w = .running id out

def HandsInv (popped : List (Tid × QueueSM.Item Task)) (wpc : Tid → WPc) (rc : Nat → Nat)
    (fut : Nat → Option Outcome) : Prop :=
  (∀ w id out, Holds wpc w id out → (∃ t, (w, (t, Task.job id out)) ∈ popped) ∧ rc id = 0 ∧ fut id = none) ∧
  (∀ w t id out, (w, (t, Task.job id out)) ∈ popped → Holds wpc w id out ∨ (rc id = 1 ∧ fut id = some out)) ∧
  (∀ id, (∀ w t out, (w, (t, Task.job id out)) ∉ popped) → rc id = 0 ∧ fut id = none)

variable {popped : List (Tid × QueueSM.Item Task)} {wpc : Tid → WPc} {rc : Nat → Nat}
  {fut : Nat → Option Outcome}

theorem HandsInv.pop (hi : HandsInv popped wpc rc fut) (w : Tid) (hw : wpc w = .loop)
    (head : Option (QueueSM.Item Task))
    (hfresh : ∀ t id out, head = some (t, Task.job id out) → ∀ w' t' out', (w', (t', Task.job id out')) ∉ popped) :
    HandsInv (popped ++ head.toList.map (fun x => (w, x))) (setPc wpc w (.got (head.map (·.2)))) rc fut := by
  obtain ⟨h1, h2, h3⟩ := hi
  refine ⟨?_, ?_, ?_⟩
  · intro u id out hu
    by_cases huw : u = w
    · subst huw
      simp only [Holds, setPc_same, WPc.got.injEq, reduceCtorEq, or_false] at hu
      obtain ⟨⟨t, tk⟩, rfl⟩ : ∃ x, head = some x := by
        cases head <;> simp_all
      simp only [Option.map_some, Option.some.injEq] at hu
      subst hu
      refine ⟨⟨t, by simp⟩, ?_⟩
      exact h3 id (fun w' t' out' => hfresh t id out rfl w' t' out')
    · simp only [Holds, setPc_other _ _ _ _ huw] at hu
      obtain ⟨⟨t, ht⟩, hr⟩ := h1 u id out hu
      exact ⟨⟨t, List.mem_append_left _ ht⟩, hr⟩
  · intro u t id out hm
    rcases List.mem_append.mp hm with hm | hm
    · rcases h2 u t id out hm with hh | hd
      · by_cases huw : u = w
        · subst huw; simp [Holds, hw] at hh
        · left; simpa [Holds, setPc_other _ _ _ _ huw] using hh
      · exact .inr hd
    · simp only [List.mem_map, Prod.mk.injEq, Option.mem_toList] at hm
      obtain ⟨x, hx, rfl, rfl⟩ := hm
      left; simp [Holds, hx]
  · intro id hn
    exact h3 id (fun w' t' out' hm => hn w' t' out' (List.mem_append_left _ hm))

theorem HandsInv.got (hi : HandsInv popped wpc rc fut) (w : Tid) (r : Option Task) (hw : wpc w = .got r) :
    HandsInv popped (setPc wpc w (afterGot r)) rc fut := by
  obtain ⟨h1, h2, h3⟩ := hi
  have key : ∀ u id out, Holds (setPc wpc w (afterGot r)) u id out ↔ Holds wpc u id out := by
    intro u id out
    by_cases huw : u = w
    · subst huw
      simp only [Holds, setPc_same, hw]
      rcases r with _ | (_ | _) <;> simp [afterGot]
    · simp [Holds, setPc_other _ _ _ _ huw]
  exact ⟨fun u id out hu => h1 u id out ((key u id out).mp hu),
    fun u t id out hm => (h2 u t id out hm).imp (key u id out).mpr (fun hx => hx), h3⟩

theorem HandsInv.exit (hi : HandsInv popped wpc rc fut) (w : Tid) (hw : wpc w = .stopping) :
    HandsInv popped (setPc wpc w .exited) rc fut := by
  obtain ⟨h1, h2, h3⟩ := hi
  have key : ∀ u id out, Holds (setPc wpc w .exited) u id out ↔ Holds wpc u id out := by
    intro u id out
    by_cases huw : u = w
    · subst huw; simp [Holds, hw]
    · simp [Holds, setPc_other _ _ _ _ huw]
  exact ⟨fun u id out hu => h1 u id out ((key u id out).mp hu),
    fun u t id out hm => (h2 u t id out hm).imp (key u id out).mpr (fun hx => hx), h3⟩

theorem HandsInv.run (hi : HandsInv popped wpc rc fut) (w : Tid) (id : Nat) (out : Outcome)
    (hw : wpc w = .running id out)
    (huniq : ∀ w1 w2 t1 t2 o1 o2, (w1, (t1, Task.job id o1)) ∈ popped → (w2, (t2, Task.job id o2)) ∈ popped →
      w1 = w2 ∧ o1 = o2) :
    HandsInv popped (setPc wpc w .loop) (setPc rc id (rc id + 1)) (setPc fut id (some out)) := by
  obtain ⟨h1, h2, h3⟩ := hi
  obtain ⟨⟨t0, hp0⟩, hrc, hfut⟩ := h1 w id out (.inr hw)
  refine ⟨?_, ?_, ?_⟩
  · intro u j o hu
    by_cases huw : u = w
    · subst huw; simp [Holds] at hu
    · simp only [Holds, setPc_other _ _ _ _ huw] at hu
      obtain ⟨⟨t, ht⟩, hr⟩ := h1 u j o hu
      have hj : j ≠ id := by
        rintro rfl
        exact huw (huniq _ _ _ _ _ _ ht hp0).1
      exact ⟨⟨t, ht⟩, by simpa [setPc_apply, hj] using hr⟩
  · intro u t j o hm
    by_cases hj : j = id
    · subst hj
      obtain ⟨rfl, rfl⟩ := huniq _ _ _ _ _ _ hm hp0
      right; simp [hrc]
    · rcases h2 u t j o hm with hh | hd
      · by_cases huw : u = w
        · subst huw
          simp only [Holds, hw, reduceCtorEq, WPc.running.injEq, false_or] at hh
          exact absurd hh.1.symm hj
        · left; simpa [Holds, setPc_other _ _ _ _ huw] using hh
      · right; simpa [setPc_apply, hj] using hd
  · intro j hn
    have hj : j ≠ id := by
      rintro rfl
      exact hn _ _ _ hp0
    simpa [setPc_apply, hj] using h3 j hn

/-! ## the invariant -/

theorem inv_hands (c : Cfg) : ∀ s, (machine c).Reachable s →
    HandsInv s.q.popped s.wpc s.runCount s.future := by
  apply Machine.invariant
  · simp [machine, init, QueueSM.init, HandsInv, Holds]
  · intro s e s' hr ih hst
    psm_cases e with hst <;> psm_frame ih
    · -- popNow
      rename_i w n r hg1 hg2
      obtain ⟨_, _, _, rfl⟩ := hg2
      simp only [QueueSM.take_popped]
      refine ih.pop w hg1.2 _ ?_
      intro t id out hh
      exact queued_id_fresh c s hr (List.mem_of_mem_head? hh)
    · -- popWake
      rename_i w n r hg1 hg2
      obtain ⟨_, _, _, _, rfl⟩ := hg2
      simp only [QueueSM.take_popped]
      refine ih.pop w hg1.2 _ ?_
      intro t id out hh
      exact queued_id_fresh c s hr (List.mem_of_mem_head? hh)
    · -- workerGot
      rename_i w b _ r hw hb
      exact ih.got w r hw
    · -- taskRun
      rename_i w id _ id' out hw hid
      subst hid
      refine ih.run w id out hw ?_
      intro w1 w2 t1 t2 o1 o2 h1 h2
      have := popped_id_unique c s hr h1 h2
      exact ⟨this.1, this.2.2⟩
    · -- workerExit
      rename_i w hw
      exact ih.exit w hw

end Osmium.PoolSM
