/-
C05 under a blob-decode fault, part C: read() never pops another future after a future that holds
an exception (`exc_last`); once the lost blob has been submitted, some future k holds its
exception and the futures before it carry exactly the objects before that blob (`cut_inv`); hence
what the caller got is a prefix of the objects before the lost blob (`delivered_before_lost`).
-/
import Osmium.Lemmas.PipelineFaultP
import Osmium.Lemmas.PipelineFaultFr
import Osmium.Lemmas.PipelineComplete

namespace Osmium.Pipeline.Fault

open Osmium.Mon Osmium.Pipeline Osmium.Pipeline.Order

variable {α : Type} [DecidableEq α]

set_option linter.unusedSimpArgs false
set_option linter.unusedVariables false

/-! ## list facts -/
section lists
omit [DecidableEq α]

theorem idsUpTo_succ (k : Nat) : idsUpTo (k + 1) = idsUpTo k ++ [(tP, 2 * k + 1)] := by
  simp [idsUpTo, List.range_succ]

theorem idsUpTo_length (k : Nat) : (idsUpTo k).length = k := by simp [idsUpTo]

theorem idsUpTo_add (m d : Nat) : ∃ t, idsUpTo (m + d) = idsUpTo m ++ t := by
  induction d with
  | zero => exact ⟨[], by simp⟩
  | succ d ih =>
    obtain ⟨t, ht⟩ := ih
    exact ⟨t ++ [(tP, 2 * (m + d) + 1)], by rw [← Nat.add_assoc, idsUpTo_succ, ht, List.append_assoc]⟩

theorem idsUpTo_prefix {m n : Nat} (h : m ≤ n) : idsUpTo m <+: idsUpTo n := by
  obtain ⟨t, ht⟩ := idsUpTo_add m (n - m)
  have e : m + (n - m) = n := by omega
  rw [e] at ht
  exact ⟨t, ht.symm⟩

theorem prefix_idsUpTo {l : List (QueueSM.Item Nat)} {n : Nat} (h : l <+: idsUpTo n) :
    l = idsUpTo l.length ∧ l.length ≤ n := by
  have hl : l.length ≤ n := by have := h.length_le; rwa [idsUpTo_length] at this
  refine ⟨?_, hl⟩
  have h2 := idsUpTo_prefix hl
  have := List.prefix_of_prefix_length_le h h2 (by rw [idsUpTo_length]; exact Nat.le_refl _)
  exact this.eq_of_length (by rw [idsUpTo_length])

theorem mem_idsUpTo {x : QueueSM.Item Nat} {n : Nat} (h : x ∈ idsUpTo n) : x.2 % 2 = 1 ∧ x.2 < 2 * n := by
  simp only [idsUpTo, List.mem_map, List.mem_range] at h
  obtain ⟨k, hk, rfl⟩ := h
  exact ⟨by simp only []; omega, by simp only []; omega⟩

theorem vals_prefix (s : State α) {a b : List (QueueSM.Item Nat)} (h : a <+: b) : vals s a <+: vals s b := by
  obtain ⟨t, rfl⟩ := h
  rw [vals_append]; exact List.prefix_append _ _

theorem vals_congr (s s' : State α) (l : List (QueueSM.Item Nat)) (h : ∀ x ∈ l, s'.want x.2 = s.want x.2) :
    vals s' l = vals s l := by
  unfold vals
  induction l with
  | nil => rfl
  | cons a l ih =>
    simp only [List.flatMap_cons]
    rw [h a List.mem_cons_self, ih (fun x hx => h x (List.mem_cons_of_mem _ hx))]

theorem proj_prefix (c : Cfg α) {a b : List α} (h : a <+: b) : proj c a <+: proj c b := by
  obtain ⟨t, rfl⟩ := h
  rw [proj_append]; exact List.prefix_append _ _

theorem proj_take_prefix (c : Cfg α) {n m : Nat} (h : n ≤ m) : proj c (c.file.take n) <+: proj c (c.file.take m) :=
  proj_prefix c (List.take_prefix_take_left h)

theorem proj_take_prefix_deliver (c : Cfg α) (n : Nat) : proj c (c.file.take n) <+: deliver c :=
  proj_prefix c (List.take_prefix _ _)

end lists

/-! ## read() stops at an exception -/

/-- no future was popped from the osmdata queue after a future that holds an exception -/
def ExcLast (s : State α) : Prop :=
  ∀ l x r, s.outq.popped.map (fun p => p.2) = l ++ x :: r → isExc (s.want x.2) → r = []

theorem exc_last (c : Cfg α) : ∀ s, (machine c).Reachable s → ExcLast s := by
  apply Machine.invariant
  · intro l x r h; simp [machine, init, QueueSM.init] at h
  · intro s e s' hr ih hst
    have hD := Complete.invD c s hr
    have hB := (Complete.invB c s hr).b_R
    obtain ⟨_, hwf⟩ := want_frame c s s' e hst
    have hw : ∀ x ∈ s.outq.popped.map (fun p => p.2), s'.want x.2 = s.want x.2 := by
      intro x hx
      obtain ⟨p, hp, rfl⟩ := List.mem_map.mp hx
      exact hwf _ (hD.d_pop p hp).1 (hD.d_pop p hp).2
    rcases popped_step c s s' e hst with hp | ⟨hc, hw', p, hp⟩
    · intro l x r hl hx
      rw [hp] at hl
      rw [hw x (by rw [hl]; simp)] at hx
      exact ih l x r hl hx
    · intro l x r hl hx
      rw [hp, List.map_append, List.map_cons, List.map_nil] at hl
      rw [hw'] at hx
      by_cases hr0 : r = []
      · exact hr0
      · exfalso
        obtain ⟨r', z, rfl⟩ := (List.eq_nil_or_concat r).resolve_left hr0
        have h2 : s.outq.popped.map (fun p => p.2) ++ [p.2] = (l ++ x :: r') ++ [z] := by rw [hl]; simp
        have hdl := List.append_inj_left' h2 rfl
        have hx' : x ∈ s.outq.popped.map (fun p => p.2) := by rw [hdl]; simp
        obtain ⟨p0, hp0, rfl⟩ := List.mem_map.mp hx'
        have hst' := (hB (by rw [hc]; trivial)).2.1
        rcases hD.d_end hst' p0 hp0 (.inl hx) with h1 | h1 | h1 <;> rw [hc] at h1 <;> cases h1

/-! ## the cut -/

/-- what one `pBlob` step does to the parser's counters -/
theorem pBlob_step (c : Cfg α) (s s' : State α) (sp : List (List α)) (hst : (machine c).Step s (.pBlob sp) s') :
    s.ppc = .run ∧ c.pbf = true ∧ s.blob < c.blobEnd.length ∧
    (s'.blob = s.blob ∨ (s'.blob = s.blob + 1 ∧
      (c.usePool = true → s'.nOut = s.nOut + 1 ∧
        s'.want (2 * s.nOut + 1) = if c.blobFault = some s.blob then .exc 4 else .buf sp))) := by
  simp only [Machine.Step, machine, step?] at hst
  split at hst
  · rename_i hg
    refine ⟨hg.1, hg.2.1, hg.2.2.2.2.1, ?_⟩
    split at hst
    · split at hst
      · simp only [Option.some.injEq] at hst
        subst hst
        exact .inr ⟨rfl, fun _ => ⟨rfl, by simp⟩⟩
      · cases hst
    · rename_i hpool
      split at hst <;> simp only [Option.some.injEq] at hst <;> subst hst
      · exact .inl rfl
      · exact .inr ⟨rfl, fun h => absurd h hpool⟩
  · cases hst

/-- in a PBF run, while no blob is lost, what the parser handed to push() or is about to push is the
    projection of the part of the file it has handled -/
theorem handled_before_lost (c : Cfg α) (s : State α) (h : (machine c).Reachable s) (hpbf : c.pbf = true)
    (hn : ∀ b, lostBlob c = some b → ¬ b < s.blob) :
    vals s s.outq.called ++ pend s = proj c (c.file.take s.next) := by
  have hp := parser_side_any c s h
  obtain ⟨h1, h2⟩ := pbf_no_buffer c s h hpbf
  rw [specAt_not_passed _ hn, deliver_split c s.next] at hp
  simp only [upstream, h1, h2, List.flatten_nil, List.append_nil, List.nil_append] at hp
  exact List.append_cancel_right hp

/-- once the lost blob `b` has been submitted: some future k holds its exception, and the futures
    created before it carry exactly the projected objects before blob `b` -/
def CutInv (c : Cfg α) (s : State α) : Prop :=
  ∀ b, lostBlob c = some b → b < s.blob →
    ∃ k, k < s.nOut ∧ s.want (2 * k + 1) = .exc 4 ∧ vals s (idsUpTo k) = proj c (c.file.take (blobStart c b))

theorem cut_inv (c : Cfg α) : ∀ s, (machine c).Reachable s → CutInv c s := by
  apply Machine.invariant
  · intro b _ hb; simp [machine, init] at hb
  · intro s e s' hr ih hst b hl hb
    obtain ⟨hno, hwf⟩ := want_frame c s s' e hst
    have keep : b < s.blob → ∃ k, k < s'.nOut ∧ s'.want (2 * k + 1) = .exc 4 ∧
        vals s' (idsUpTo k) = proj c (c.file.take (blobStart c b)) := by
      intro hb0
      obtain ⟨k, hk, hw, hv⟩ := ih b hl hb0
      refine ⟨k, by omega, ?_, ?_⟩
      · rw [hwf _ (by omega) (by omega)]; exact hw
      · rw [vals_congr s s' _ (fun x hx => hwf _ (mem_idsUpTo hx).1 (by have := (mem_idsUpTo hx).2; omega))]
        exact hv
    by_cases he : ∃ sp, e = .pBlob sp
    · obtain ⟨sp, rfl⟩ := he
      obtain ⟨hp, hpbf, hlen, hbl | ⟨hbl, hpool⟩⟩ := pBlob_step c s s' sp hst
      · exact keep (by omega)
      · by_cases hb0 : b < s.blob
        · exact keep hb0
        · have hbe : b = s.blob := by omega
          subst hbe
          obtain ⟨hf, _, hup, _⟩ := lostBlob_some hl
          obtain ⟨hn1, hw1⟩ := hpool hup
          rw [if_pos hf] at hw1
          refine ⟨s.nOut, by omega, hw1, ?_⟩
          rw [vals_congr s s' _ (fun x hx => hwf _ (mem_idsUpTo hx).1 (mem_idsUpTo hx).2)]
          have hids := ids_inv c s hr
          have hpi : pendItems s = [] := by simp [pendItems, hp]
          rw [hpi, List.append_nil] at hids
          have hh := handled_before_lost c s hr hpbf (fun b' hb' => by rw [hl] at hb'; cases hb'; exact hb0)
          have hpe : pend s = [] := by simp [pend, hp]
          rw [hpe, List.append_nil, hids, (invNx c s hr).next hpbf] at hh
          exact hh
    · rw [blob_frame c s s' e hst (fun sp h => he ⟨sp, h⟩)] at hb
      exact keep hb

/-! ## what the caller got is a prefix of the objects before the lost blob -/

theorem popped_ids (c : Cfg α) (s : State α) (h : (machine c).Reachable s) :
    s.outq.popped.map (fun p => p.2) = idsUpTo s.outq.popped.length ∧ s.outq.popped.length ≤ s.nOut := by
  have hpp := popped_prefix c (fun s hs x hx => ((invA c s hs).called x hx).1) s h
  have hids := ids_inv c s h
  have := prefix_idsUpTo (hpp.trans (by rw [← hids]; exact List.prefix_append _ _))
  simpa using this

theorem delivered_before_lost (c : Cfg α) (s : State α) (h : (machine c).Reachable s) (b : Nat)
    (hl : lostBlob c = some b) (hb : b < s.blob) :
    (s.delivered ++ s.back.flatten ++ holding s) <+: proj c (c.file.take (blobStart c b)) := by
  rw [consumer_side c s h]
  obtain ⟨hpi, hpn⟩ := popped_ids c s h
  obtain ⟨k, hk, hw, hv⟩ := cut_inv c s h b hl hb
  rw [← hv]
  by_cases hm : s.outq.popped.length ≤ k
  · rw [hpi]; exact vals_prefix s (idsUpTo_prefix hm)
  · obtain ⟨t, ht⟩ := idsUpTo_prefix (show k + 1 ≤ s.outq.popped.length by omega)
    rw [idsUpTo_succ, List.append_assoc, List.singleton_append] at ht
    have ht0 : t = [] := exc_last c s h (idsUpTo k) (tP, 2 * k + 1) t (by rw [hpi, ← ht]) (by rw [hw]; trivial)
    rw [hpi, ← ht, ht0, vals_append]
    simp [vals, hw, flat]

end Osmium.Pipeline.Fault
