/-
Lemmas for C06, long records: the specification `specLines` around a line of arbitrary length,
and the fixed-size segmentation `piecesOf` used to show that the hypotheses of the chunking
theorems are satisfiable for every line length and every piece size.
-/
import Osmium.Lemmas.ChunksOpl

namespace Osmium.Chunks

open Osmium.Wire

/-- pieces of `k + 1` bytes (the last one shorter); fuel = number of bytes -/
def piecesOf (k : Nat) : Nat → Bytes → List Bytes
  | 0, _ => []
  | fuel + 1, bs => if bs.isEmpty then [] else bs.take (k + 1) :: piecesOf k fuel (bs.drop (k + 1))

theorem piecesOf_flatten (k : Nat) : ∀ (fuel : Nat) (bs : Bytes), bs.length ≤ fuel → (piecesOf k fuel bs).flatten = bs
  | 0, bs, h => by
    have : bs = [] := List.eq_nil_of_length_eq_zero (by omega)
    subst this; rfl
  | fuel + 1, bs, h => by
    unfold piecesOf
    by_cases he : bs.isEmpty = true
    · have : bs = [] := List.isEmpty_iff.1 he
      subst this; rfl
    · have hl : 0 < bs.length := by
        cases bs with
        | nil => simp at he
        | cons a as => simp
      have ih := piecesOf_flatten k fuel (bs.drop (k + 1)) (by simp; omega)
      simp only [he, Bool.false_eq_true, ↓reduceIte, List.flatten_cons, ih, List.take_append_drop]

theorem piecesOf_nonEmpty (k : Nat) : ∀ (fuel : Nat) (bs : Bytes), ∀ c ∈ piecesOf k fuel bs, c ≠ []
  | 0, _, c, hc => by simp [piecesOf] at hc
  | fuel + 1, bs, c, hc => by
    unfold piecesOf at hc
    by_cases he : bs.isEmpty = true
    · simp [he] at hc
    · simp only [he, Bool.false_eq_true, ↓reduceIte, List.mem_cons] at hc
      rcases hc with rfl | hc
      · cases bs with
        | nil => simp at he
        | cons a as => simp
      · exact piecesOf_nonEmpty k fuel _ c hc

theorem piecesOf_length (k : Nat) : ∀ (fuel : Nat) (bs : Bytes), bs.length ≤ fuel →
    (piecesOf k fuel bs).length = (bs.length + k) / (k + 1)
  | 0, bs, h => by
    have : bs = [] := List.eq_nil_of_length_eq_zero (by omega)
    subst this
    simp only [piecesOf, List.length_nil, Nat.zero_add]
    exact (Nat.div_eq_of_lt (by omega)).symm
  | fuel + 1, bs, h => by
    unfold piecesOf
    by_cases he : bs.isEmpty = true
    · have : bs = [] := List.isEmpty_iff.1 he
      subst this
      simp only [List.isEmpty_nil, ↓reduceIte, List.length_nil, Nat.zero_add]
      exact (Nat.div_eq_of_lt (by omega)).symm
    · have hl : 0 < bs.length := by
        cases bs with
        | nil => simp at he
        | cons a as => simp
      have ih := piecesOf_length k fuel (bs.drop (k + 1)) (by simp; omega)
      simp only [he, Bool.false_eq_true, ↓reduceIte, List.length_cons, ih, List.length_drop]
      by_cases hk : bs.length ≤ k + 1
      · have h0 : bs.length - (k + 1) = 0 := by omega
        rw [h0, Nat.zero_add, Nat.div_eq_of_lt (by omega)]
        have : (bs.length + k) / (k + 1) = 1 := by
          apply Nat.div_eq_of_lt_le <;> omega
        omega
      · have : bs.length + k = (bs.length - (k + 1) + k) + (k + 1) := by omega
        rw [this, Nat.add_div_right _ (by omega)]

theorem findBreak_none_of_noBreak : ∀ (l : Bytes), (∀ b ∈ l, isBreak b = false) → findBreak l = none
  | [], _ => rfl
  | b :: bs, h => by
    have hb : isBreak b = false := h b (List.mem_cons_self)
    have := findBreak_none_of_noBreak bs (fun x hx => h x (List.mem_cons_of_mem _ hx))
    simp [findBreak, hb, this]

theorem specLines_break (a b : Bytes) (x : UInt8) (hx : isBreak x = true) :
    specLines (a ++ x :: b) = specLines a ++ specLines b := by
  simp only [specLines, segs_append a (x :: b) [], segs, hx, ↓reduceIte, List.filter_append, List.append_assoc,
    List.cons_append, List.filter_cons, List.filter_nil]
  by_cases h : (segs a []).2.isEmpty = true <;> simp [h]

theorem specLines_single (l : Bytes) (hl : l ≠ []) (hnb : ∀ b ∈ l, isBreak b = false) : specLines l = [l] := by
  have he : l.isEmpty = false := by cases l <;> simp_all
  simp [specLines, segs_findBreak_none l [] (findBreak_none_of_noBreak l hnb), he]

end Osmium.Chunks
