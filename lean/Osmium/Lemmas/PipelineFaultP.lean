/-
C05 under a blob-decode fault, part P: the parser-side equation for EVERY configuration (any
`blobFault`): what the parser thread ever handed to push(), what it is about to push, its buffer and
the rest of the file are the projected file — minus the objects of the blob that was lost in a pool
worker once the parser has submitted that blob (`specAt c s.blob`).
-/
import Osmium.Lemmas.PipelineFaultNx
import Osmium.Lemmas.PipelineOrderD

namespace Osmium.Pipeline.Fault

open Osmium.Mon Osmium.Pipeline Osmium.Pipeline.Order

variable {α : Type} [DecidableEq α]

set_option linter.unusedSimpArgs false

section spec
omit [DecidableEq α]

theorem lostBlob_some {c : Cfg α} {b : Nat} (h : lostBlob c = some b) :
    c.blobFault = some b ∧ c.pbf = true ∧ c.usePool = true ∧ b < c.blobEnd.length := by
  unfold lostBlob at h
  cases hb : c.blobFault with
  | none => simp [hb] at h
  | some b' =>
    simp only [hb] at h
    split at h
    · cases h; rename_i hh; exact ⟨rfl, hh⟩
    · cases h

theorem lostBlob_of {c : Cfg α} {b : Nat} (h1 : c.blobFault = some b) (h2 : c.pbf = true) (h3 : c.usePool = true)
    (h4 : b < c.blobEnd.length) : lostBlob c = some b := by
  simp [lostBlob, h1, h2, h3, h4]

theorem lostBlob_none_of_inline {c : Cfg α} (h : c.usePool = false) : lostBlob c = none := by
  cases hl : lostBlob c with
  | none => rfl
  | some b => have := (lostBlob_some hl).2.2.1; rw [h] at this; cases this

theorem lostBlob_none_of_noFault {c : Cfg α} (h : c.blobFault = none) : lostBlob c = none := by
  simp [lostBlob, h]

/-- `lostBlob c = none` covers: no blob fault configured; inline decoding; a non-PBF input -/
theorem lostBlob_none_of (c : Cfg α) (h : c.blobFault = none ∨ c.usePool = false ∨ c.pbf = false) : lostBlob c = none := by
  rcases h with h | h | h
  · exact lostBlob_none_of_noFault h
  · exact lostBlob_none_of_inline h
  · cases hl : lostBlob c with
    | none => rfl
    | some b => have := (lostBlob_some hl).2.1; rw [h] at this; cases this

theorem specAt_of_none {c : Cfg α} (h : lostBlob c = none) (k : Nat) : specAt c k = deliver c := by
  simp [specAt, lostPassed, h]

theorem specAt_not_passed {c : Cfg α} (k : Nat) (h : ∀ b, lostBlob c = some b → ¬ b < k) : specAt c k = deliver c := by
  cases hl : lostBlob c with
  | none => exact specAt_of_none hl k
  | some b => simp [specAt, lostPassed, hl, h b hl]

theorem specAt_passed {c : Cfg α} {b : Nat} (k : Nat) (hl : lostBlob c = some b) (h : b < k) :
    specAt c k = proj c (c.file.take (blobStart c b)) ++ proj c (c.file.drop (nth c.blobEnd b)) := by
  simp [specAt, lostPassed, hl, h, deliverSkipping]

/-- a step over a blob that is not the lost one does not change the account -/
theorem specAt_succ {c : Cfg α} (k : Nat) (h : c.blobFault ≠ some k) : specAt c (k + 1) = specAt c k := by
  cases hl : lostBlob c with
  | none => rw [specAt_of_none hl, specAt_of_none hl]
  | some b =>
    have hb := (lostBlob_some hl).1
    have hne : b ≠ k := fun e => h (e ▸ hb)
    by_cases hlt : b < k
    · rw [specAt_passed _ hl hlt, specAt_passed _ hl (Nat.lt_succ_of_lt hlt)]
    · rw [specAt_not_passed k (fun b' hb' => by rw [hl] at hb'; cases hb'; exact hlt),
          specAt_not_passed (k + 1) (fun b' hb' => by rw [hl] at hb'; cases hb'; omega)]

theorem deliver_split (c : Cfg α) (n : Nat) : deliver c = proj c (c.file.take n) ++ proj c (c.file.drop n) := by
  rw [← proj_append, List.take_append_drop]; rfl

end spec

set_option maxHeartbeats 1600000 in
/-- the `pBlob` step of `parser_side_any` -/
theorem parser_side_blob (c : Cfg α) (s s' : State α) (sp : List (List α)) (hr : (machine c).Reachable s)
    (ih : vals s s.outq.called ++ pend s ++ upstream c s = specAt c s.blob)
    (hst : (machine c).Step s (.pBlob sp) s') :
    vals s' s'.outq.called ++ pend s' ++ upstream c s' = specAt c s'.blob := by
  have hA := invA c s hr
  have hnb := pbf_no_buffer c s hr
  have hnx := invNx c s hr
  have hfr : ∀ x ∈ s.outq.called, x.2 ≠ 2 * s.nOut + 1 := fun x hx h => by
    have := (hA.called x hx).2.2; omega
  clear hA
  simp only [Machine.Step, machine, step?] at hst
  split at hst
  · rename_i hg
    obtain ⟨hp, hpbf, -, -, hlen, -, hle, -, -, hsp⟩ := hg
    obtain ⟨hn, hcu⟩ := hnb hpbf
    have hnext := hnx.next hpbf
    have hpe : pend s = [] := by simp [pend, hp]
    simp only [hpe, upstream, hn, hcu, List.flatten_nil, List.append_nil, List.nil_append] at ih
    split at hst
    · -- pool
      rename_i hpool
      split at hst
      · simp only [Option.some.injEq] at hst
        subst hst
        simp only [pend, upstream, vals, hn, hcu, List.flatten_nil, List.append_nil, List.nil_append, setPc_same]
        rw [flatMap_setPc _ _ _ _ hfr]
        by_cases hf : c.blobFault = some s.blob
        · -- the lost blob
          have hl := lostBlob_of hf hpbf hpool hlen
          rw [specAt_not_passed s.blob (fun b hb => by rw [hl] at hb; cases hb; omega)] at ih
          rw [specAt_passed _ hl (Nat.lt_succ_self _), if_pos hf]
          rw [deliver_split c s.next] at ih
          have h1 := List.append_cancel_right ih
          simp only [vals] at h1
          rw [h1, ← hnext]
          simp [flat]
        · rw [specAt_succ _ hf, ← ih, if_neg hf, ← proj_seg_drop c _ _ hle, ← hsp]
          simp [flat, vals]
      · cases hst
    · -- inline
      rename_i hpool
      have hpool : c.usePool = false := by simpa using hpool
      have hl := lostBlob_none_of_inline hpool
      rw [specAt_of_none hl] at ih ⊢
      split at hst
      · simp only [Option.some.injEq] at hst
        subst hst
        simp only [pend, upstream, vals, hn, hcu, List.flatten_nil, List.append_nil, List.nil_append]
        exact ih
      · rename_i hf
        simp only [Option.some.injEq] at hst
        subst hst
        simp only [pend, upstream, vals, hn, hcu, List.flatten_nil, List.append_nil, List.nil_append, if_neg hf]
        rw [← ih, ← proj_seg_drop c _ _ hle, ← hsp]
        simp [vals, flat]
  · cases hst

set_option maxHeartbeats 1600000 in
/-- Parser side for ANY configuration, in EVERY reachable state. -/
theorem parser_side_any (c : Cfg α) : ∀ s, (machine c).Reachable s →
    vals s s.outq.called ++ pend s ++ upstream c s = specAt c s.blob := by
  apply Machine.invariant
  · rw [specAt_not_passed _ (fun b _ => by simp [machine, init])]
    simp [machine, init, QueueSM.init, vals, pend, upstream, deliver]
  · intro s e s' hr ih hst
    by_cases he : ∃ sp, e = .pBlob sp
    · obtain ⟨sp, rfl⟩ := he
      exact parser_side_blob c s s' sp hr ih hst
    · have hbl := blob_frame c s s' e hst (fun sp h => he ⟨sp, h⟩)
      rw [hbl, ← ih]
      clear ih hbl
      have hA := invA c s hr
      have hfr : ∀ x ∈ s.outq.called, x.2 ≠ 2 * s.nOut + 1 := fun x hx h => by
        have := (hA.called x hx).2.2; omega
      have hfi : ∀ x ∈ s.outq.called, x.2 ≠ 2 * s.nIn := fun x hx h => by
        have := (hA.called x hx).2.1; omega
      have hpo : ∀ id k, s.ppc = .pushFut id k → id ≠ 2 * s.nOut + 1 := fun id k h h' => by
        have := (hA.pushFut id k h).2; omega
      have hpi : ∀ id k, s.ppc = .pushFut id k → id ≠ 2 * s.nIn := fun id k h h' => by
        have := (hA.pushFut id k h).1; omega
      clear hA
      po_cases e with hst q hq
      all_goals (try (have hqc := q_called hq; simp only [evCalled, List.append_nil] at hqc))
      all_goals first
        | rfl
        | (exfalso; exact he ⟨_, rfl⟩)
        | (clear he
           try simp only [hqc]
           simp only [pend_eq, vals, upstream, afterPop_want, Q.afterPop_outq, afterPop_ppc, afterPop_nested, afterPop_cur,
             afterPop_next, afterClose_want, Q.afterClose_outq, afterClose_ppc, afterClose_nested, afterClose_cur, afterClose_next]
           try simp only [pendOf_pCont]
           first
            | done
            | (simp [pendOf, flat, *]; done)
            | (subst_vars; rw [flatMap_setPc _ _ _ _ hfi, pendOf_setPc _ _ _ _ hpi]; done)
            | (subst_vars; rw [List.flatMap_append, flatMap_setPc _ _ _ _ hfr]; simp [pendOf, flat, *]; done)
            | (rw [drop_next c _ _ ‹c.file[s.next]? = some _›]; simp_all [pendOf, flat, proj_cons]; done)
            | (exfalso; simp_all; done)
            | (simp_all [pendOf, flat]; done))

/-- the equation of Lemmas/PipelineOrder.lean is the special case "no blob is lost in a worker" -/
theorem parser_side_of_none (c : Cfg α) (hl : lostBlob c = none) (s : State α) (h : (machine c).Reachable s) :
    vals s s.outq.called ++ pend s ++ upstream c s = deliver c := by
  rw [← specAt_of_none hl s.blob]; exact parser_side_any c s h

end Osmium.Pipeline.Fault
