/-
Pipeline base lemmas, part D: single consumer / single shutdown caller per Reader queue.
-/
import Osmium.Lemmas.PipelineBaseA

namespace Osmium.Pipeline

open Osmium.Mon

set_option linter.unusedSimpArgs false

variable {α : Type}
variable [DecidableEq α]

/-- only the parser thread calls shutdown() on / pops from the input queue -/
theorem inq_roles (c : Cfg α) (s : State α) (h : (machine c).Reachable s) :
    (∀ t, (s.inq.pc t = .sdEntered ∨ s.inq.pc t = .sdFlagged) → t = tP) ∧
    (∀ t, s.inq.pc t = .popWaiting → t = tP) := by
  revert s
  apply Machine.invariant
  · simp [machine, init, QueueSM.init]
  · intro s e s' _ ih hst
    obtain ⟨ih1, ih2⟩ := ih
    pl_cases e with hst q hq
    all_goals first
      | exact ⟨ih1, ih2⟩
      | (simp only [afterPop_inq, afterPop_outq, afterClose_inq, afterClose_outq]; exact ⟨ih1, ih2⟩)
      | (refine ⟨fun t ht => ?_, fun t ht => ?_⟩
         · rcases q_pc_sd _ _ _ _ hq t ht with h | h
           · exact ih1 t h.1
           · cases h <;> first | assumption | exact (‹_ ∧ _›).1
         · rcases q_pc_pop _ _ _ _ hq t ht with h | h
           · exact ih2 t h
           · cases h <;> first | assumption | exact (‹_ ∧ _›).1)

/-- only the consumer calls shutdown() on / pops from the osmdata queue -/
theorem outq_roles (c : Cfg α) (s : State α) (h : (machine c).Reachable s) :
    (∀ t, (s.outq.pc t = .sdEntered ∨ s.outq.pc t = .sdFlagged) → t = tC) ∧
    (∀ t, s.outq.pc t = .popWaiting → t = tC) := by
  revert s
  apply Machine.invariant
  · simp [machine, init, QueueSM.init]
  · intro s e s' _ ih hst
    obtain ⟨ih1, ih2⟩ := ih
    pl_cases e with hst q hq
    all_goals first
      | exact ⟨ih1, ih2⟩
      | (simp only [afterPop_inq, afterPop_outq, afterClose_inq, afterClose_outq]; exact ⟨ih1, ih2⟩)
      | (refine ⟨fun t ht => ?_, fun t ht => ?_⟩
         · rcases q_pc_sd _ _ _ _ hq t ht with h | h
           · exact ih1 t h.1
           · cases h <;> first | assumption | exact (‹_ ∧ _›).1
         · rcases q_pc_pop _ _ _ _ hq t ht with h | h
           · exact ih2 t h
           · cases h <;> first | assumption | exact (‹_ ∧ _›).1)

theorem inq_sd_caller (c : Cfg α) (s : State α) (h : (machine c).Reachable s) :
    ∀ t, (s.inq.pc t = .sdEntered ∨ s.inq.pc t = .sdFlagged) → t = tP := (inq_roles c s h).1
theorem outq_sd_caller (c : Cfg α) (s : State α) (h : (machine c).Reachable s) :
    ∀ t, (s.outq.pc t = .sdEntered ∨ s.outq.pc t = .sdFlagged) → t = tC := (outq_roles c s h).1
theorem inq_consumer (c : Cfg α) (s : State α) (h : (machine c).Reachable s) :
    ∀ t, s.inq.pc t = .popWaiting → t = tP := (inq_roles c s h).2
theorem outq_consumer (c : Cfg α) (s : State α) (h : (machine c).Reachable s) :
    ∀ t, s.outq.pc t = .popWaiting → t = tC := (outq_roles c s h).2

end Osmium.Pipeline
